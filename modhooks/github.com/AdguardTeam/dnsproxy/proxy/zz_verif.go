//go:build verif

package proxy

import (
	"net/netip"

	"github.com/miekg/dns"
)

// VerifNewDNSContext is newDNSContext: the context every listener of p creates
// for an incoming request, numbered by p's own request counter.
func (p *Proxy) VerifNewDNSContext(proto Proto, req *dns.Msg, addr netip.AddrPort) (d *DNSContext) {
	return p.newDNSContext(proto, req, addr)
}
