// Package time is the verification shim for "time": aliases for everything,
// with Now/Since/Until reading a clock the harness can set (DESIGN.md §2.1).
package time

import (
	ratomic "sync/atomic"
	rtime "time"
)

type (
	Duration   = rtime.Duration
	Time       = rtime.Time
	Month      = rtime.Month
	Weekday    = rtime.Weekday
	Location   = rtime.Location
	Timer      = rtime.Timer
	Ticker     = rtime.Ticker
	ParseError = rtime.ParseError
)

const (
	Nanosecond  = rtime.Nanosecond
	Microsecond = rtime.Microsecond
	Millisecond = rtime.Millisecond
	Second      = rtime.Second
	Minute      = rtime.Minute
	Hour        = rtime.Hour

	Sunday    = rtime.Sunday
	Monday    = rtime.Monday
	Tuesday   = rtime.Tuesday
	Wednesday = rtime.Wednesday
	Thursday  = rtime.Thursday
	Friday    = rtime.Friday
	Saturday  = rtime.Saturday

	January   = rtime.January
	February  = rtime.February
	March     = rtime.March
	April     = rtime.April
	May       = rtime.May
	June      = rtime.June
	July      = rtime.July
	August    = rtime.August
	September = rtime.September
	October   = rtime.October
	November  = rtime.November
	December  = rtime.December

	Layout      = rtime.Layout
	ANSIC       = rtime.ANSIC
	UnixDate    = rtime.UnixDate
	RFC822      = rtime.RFC822
	RFC1123     = rtime.RFC1123
	RFC3339     = rtime.RFC3339
	RFC3339Nano = rtime.RFC3339Nano
	Kitchen     = rtime.Kitchen
	Stamp       = rtime.Stamp
	DateTime    = rtime.DateTime
	DateOnly    = rtime.DateOnly
	TimeOnly    = rtime.TimeOnly
)

var (
	UTC   = rtime.UTC
	Local = rtime.Local
)

// virtual clock: nanoseconds since the Unix epoch; 0 = real time.
var virt ratomic.Int64

// SetVirtual sets the virtual clock; the zero Time switches back to real time.
func SetVirtual(t Time) {
	if t.IsZero() {
		virt.Store(0)
		return
	}
	virt.Store(t.UnixNano())
}

// AdvanceVirtual moves the virtual clock forward.
func AdvanceVirtual(d Duration) { virt.Add(int64(d)) }

// IsVirtual reports whether the clock is virtual.
func IsVirtual() bool { return virt.Load() != 0 }

func Now() Time {
	if v := virt.Load(); v != 0 {
		return rtime.Unix(0, v)
	}
	return rtime.Now()
}

func Since(t Time) Duration { return Now().Sub(t) }
func Until(t Time) Duration { return t.Sub(Now()) }

func Sleep(d Duration) {
	if virt.Load() != 0 {
		return
	}
	rtime.Sleep(d)
}

func Unix(sec, nsec int64) Time                     { return rtime.Unix(sec, nsec) }
func UnixMilli(ms int64) Time                       { return rtime.UnixMilli(ms) }
func UnixMicro(us int64) Time                       { return rtime.UnixMicro(us) }
func Parse(layout, value string) (Time, error)      { return rtime.Parse(layout, value) }
func ParseInLocation(l, v string, loc *Location) (Time, error) {
	return rtime.ParseInLocation(l, v, loc)
}
func ParseDuration(s string) (Duration, error)      { return rtime.ParseDuration(s) }
func LoadLocation(name string) (*Location, error)   { return rtime.LoadLocation(name) }
func FixedZone(name string, off int) *Location      { return rtime.FixedZone(name, off) }
func Date(y int, m Month, d, h, mi, s, ns int, loc *Location) Time {
	return rtime.Date(y, m, d, h, mi, s, ns, loc)
}
func NewTimer(d Duration) *Timer                    { return rtime.NewTimer(d) }
func NewTicker(d Duration) *Ticker                  { return rtime.NewTicker(d) }
func After(d Duration) <-chan Time                  { return rtime.After(d) }
func AfterFunc(d Duration, f func()) *Timer         { return rtime.AfterFunc(d, f) }
func Tick(d Duration) <-chan Time                   { return rtime.Tick(d) }
