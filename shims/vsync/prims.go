package sync

import (
	rsync "sync"
)

// Mutex mirrors sync.Mutex.
type Mutex struct {
	mu    rsync.Mutex
	held  bool
	owner *thread
}

func (m *Mutex) Lock() {
	if s, t := curThread(); s != nil {
		s.point(t, opLock, m)
		return
	}
	m.mu.Lock()
}

func (m *Mutex) Unlock() {
	if s, t := curThread(); s != nil {
		if !m.held {
			panic("sync: unlock of unlocked mutex (verif model)")
		}
		m.held, m.owner = false, nil
		s.releasePoint(t, m)
		return
	}
	m.mu.Unlock()
}

func (m *Mutex) TryLock() bool {
	if s, t := curThread(); s != nil {
		s.point(t, opTry, m)
		if m.held {
			return false
		}
		m.held, m.owner = true, t
		return true
	}
	return m.mu.TryLock()
}

// RWMutex mirrors sync.RWMutex including writer preference: once a writer
// has announced itself, new readers (recursive ones included) are disabled
// until it has acquired and released the lock.
type RWMutex struct {
	mu       rsync.RWMutex
	readers  int
	writer   *thread
	pendingW *thread
}

func (rw *RWMutex) Lock() {
	if s, t := curThread(); s != nil {
		s.point(t, opWAnnounce, rw)
		if rw.writer == t {
			return
		}
		s.point(t, opWAcquire, rw)
		return
	}
	rw.mu.Lock()
}

func (rw *RWMutex) Unlock() {
	if s, t := curThread(); s != nil {
		if rw.writer == nil {
			panic("sync: Unlock of unlocked RWMutex (verif model)")
		}
		rw.writer = nil
		s.releasePoint(t, rw)
		return
	}
	rw.mu.Unlock()
}

func (rw *RWMutex) RLock() {
	if s, t := curThread(); s != nil {
		s.point(t, opRLock, rw)
		return
	}
	rw.mu.RLock()
}

func (rw *RWMutex) RUnlock() {
	if s, t := curThread(); s != nil {
		if rw.readers <= 0 {
			panic("sync: RUnlock of unlocked RWMutex (verif model)")
		}
		rw.readers--
		s.releasePoint(t, rw)
		return
	}
	rw.mu.RUnlock()
}

func (rw *RWMutex) TryLock() bool {
	if s, t := curThread(); s != nil {
		s.point(t, opTry, rw)
		if rw.writer != nil || rw.pendingW != nil || rw.readers > 0 {
			return false
		}
		rw.writer = t
		return true
	}
	return rw.mu.TryLock()
}

func (rw *RWMutex) TryRLock() bool {
	if s, t := curThread(); s != nil {
		s.point(t, opTry, rw)
		if rw.writer != nil || rw.pendingW != nil {
			return false
		}
		rw.readers++
		return true
	}
	return rw.mu.TryRLock()
}

type rlocker RWMutex

func (r *rlocker) Lock()   { (*RWMutex)(r).RLock() }
func (r *rlocker) Unlock() { (*RWMutex)(r).RUnlock() }

func (rw *RWMutex) RLocker() Locker { return (*rlocker)(rw) }

// WaitGroup mirrors sync.WaitGroup.
type WaitGroup struct {
	wg rsync.WaitGroup
	n  int
}

func (wg *WaitGroup) Add(d int) {
	if s, _ := curThread(); s != nil {
		wg.n += d
		if wg.n < 0 {
			panic("sync: negative WaitGroup counter (verif model)")
		}
		return
	}
	wg.wg.Add(d)
}

func (wg *WaitGroup) Done() { wg.Add(-1) }

func (wg *WaitGroup) Wait() {
	if s, t := curThread(); s != nil {
		s.point(t, opWGWait, wg)
		return
	}
	wg.wg.Wait()
}

func (wg *WaitGroup) Go(f func()) {
	wg.Add(1)
	go func() {
		defer wg.Done()
		f()
	}()
}

// Once mirrors sync.Once.
type Once struct {
	once rsync.Once
	m    Mutex
	done bool
}

func (o *Once) Do(f func()) {
	if s, t := curThread(); s != nil {
		if o.done {
			return
		}
		s.point(t, opOnce, o)
		defer func() { o.m.held, o.m.owner = false, nil }()
		if !o.done {
			defer func() { o.done = true }()
			f()
		}
		return
	}
	o.once.Do(func() {
		f()
		o.done = true
	})
}

// OnceFunc, OnceValue mirror the std helpers (pass-through).
func OnceFunc(f func()) func() { return rsync.OnceFunc(f) }

func OnceValue[T any](f func() T) func() T { return rsync.OnceValue(f) }

func OnceValues[T1, T2 any](f func() (T1, T2)) func() (T1, T2) { return rsync.OnceValues(f) }

// Cond mirrors sync.Cond.
type Cond struct {
	L       Locker
	c       *rsync.Cond
	waiters []*thread
}

func NewCond(l Locker) *Cond { return &Cond{L: l, c: rsync.NewCond(l)} }

func (c *Cond) Wait() {
	if s, t := curThread(); s != nil {
		c.waiters = append(c.waiters, t)
		t.signaled = false
		c.L.Unlock()
		s.point(t, opCondWait, c)
		c.L.Lock()
		return
	}
	c.c.Wait()
}

func (c *Cond) Signal() {
	if s, _ := curThread(); s != nil {
		if len(c.waiters) > 0 {
			c.waiters[0].signaled = true
			c.waiters = c.waiters[1:]
		}
		return
	}
	c.c.Signal()
}

func (c *Cond) Broadcast() {
	if s, _ := curThread(); s != nil {
		for _, w := range c.waiters {
			w.signaled = true
		}
		c.waiters = nil
		return
	}
	c.c.Broadcast()
}
