// Package sync is the verification shim that replaces the standard "sync"
// package in the import-rewritten copies of the packages under test (see
// DESIGN.md §2.1, §2.3).  With no explorer active every primitive is a thin
// pass-through to the real one.  With an explorer active (Explore running)
// every blocking or atomic operation of a *registered* thread is a scheduling
// point of the cooperative scheduler implemented here.
package sync

import (
	"bytes"
	"fmt"
	"os"
	"runtime"
	"runtime/debug"
	"strconv"
	rsync "sync"
	ratomic "sync/atomic"
	"time"
)

// Re-exports that need no modelling.
type (
	Locker = rsync.Locker
	Pool   = rsync.Pool
	Map    = rsync.Map
)

// opKind is the kind of a pending operation at a scheduling point.
type opKind int

const (
	opStart opKind = iota
	opLock
	opRLock
	opWAnnounce // first half of RWMutex.Lock: become the pending writer
	opWAcquire  // second half: wait for readers to drain
	opTry       // TryLock/TryRLock and atomics: always enabled
	opWGWait
	opCondWait // waiting for a signal
	opYield
	opOnce
)

func (k opKind) String() string {
	return [...]string{"start", "lock", "rlock", "wannounce", "wacquire", "try", "wgwait", "condwait", "yield", "once"}[k]
}

// thread is one registered goroutine.
type thread struct {
	id       int
	name     string
	wake     chan struct{}
	goid     int64
	finished bool
	panicked any
	stack    string

	// pending operation
	kind opKind
	obj  any
	site string

	// yield bookkeeping: a yielding thread is re-enabled only after another
	// thread has moved.
	yieldStamp int64
	// cond bookkeeping
	signaled bool
}

// PointInfo describes one scheduling decision of an execution.
type PointInfo struct {
	Enabled        []int // thread ids in canonical order
	Chosen         int   // index into Enabled
	RunningEnabled bool  // whether the previously running thread was enabled
	Desc           string
}

// Result describes one complete execution.
type Result struct {
	Choices   []int
	Points    []PointInfo
	Deadlock  bool
	Livelock  bool
	Panics    []string
	Blocked   []string // description of blocked threads on deadlock
	EngineErr string
	Steps     int
}

// Sched is the scheduler of one execution.
type Sched struct {
	threads []*thread
	cur     *thread
	back    chan *thread // a thread reports here when it reaches a point or finishes
	prefix  []int
	res     *Result
	moves   int64
	maxStep int
	trace   bool
	// releasePoints makes lock releases scheduling points too.
	releasePoints bool
}

// releasePoint is called by the primitives after a lock has been released.
func (s *Sched) releasePoint(t *thread, obj any) {
	if s.releasePoints {
		s.point(t, opTry, obj)
	}
}

var active ratomic.Pointer[Sched]

// Active reports whether an explorer execution is in progress.
func Active() bool { return active.Load() != nil }

func goid() int64 {
	var buf [64]byte
	n := runtime.Stack(buf[:], false)
	// "goroutine 123 ["
	b := buf[10:n]
	i := bytes.IndexByte(b, ' ')
	if i < 0 {
		return -1
	}
	id, _ := strconv.ParseInt(string(b[:i]), 10, 64)
	return id
}

// EngineError is raised (as a panic in the offending goroutine and as
// Result.EngineErr) when the harness, not the code under test, is at fault.
type EngineError struct{ Msg string }

func (e *EngineError) Error() string { return "verif engine error: " + e.Msg }

// curThread returns the running registered thread, or nil if the caller is
// not under the scheduler.  An operation from a goroutine that is not the
// running thread while an execution is active is an engine error: the
// scheduler does not own that goroutine.
func curThread() (s *Sched, t *thread) {
	s = active.Load()
	if s == nil {
		return nil, nil
	}
	t = s.cur
	g := goid()
	if t == nil || t.goid != g {
		// The scheduler goroutine itself (setup/final phases) runs with
		// cur == nil and is allowed to use primitives in pass-through.
		if s.cur == nil {
			return nil, nil
		}
		msg := fmt.Sprintf("sync operation from unregistered goroutine %d while thread %q runs\n%s", g, t.name, debug.Stack())
		if os.Getenv("VERIF_ALLOW_FOREIGN") == "1" {
			return nil, nil
		}
		s.res.EngineErr = msg
		panic(&EngineError{msg})
	}
	return s, t
}

func callerSite() string {
	// 0 callerSite, 1 point caller (shim method), 2 shim user
	for skip := 2; skip < 8; skip++ {
		pc, file, line, ok := runtime.Caller(skip)
		if !ok {
			break
		}
		fn := runtime.FuncForPC(pc)
		if fn != nil {
			n := fn.Name()
			if bytes.Contains([]byte(n), []byte("/verifx/v")) {
				continue
			}
		}
		return fmt.Sprintf("%s:%d", shortFile(file), line)
	}
	return "?"
}

func shortFile(f string) string {
	n := 0
	for i := len(f) - 1; i >= 0; i-- {
		if f[i] == '/' {
			n++
			if n == 2 {
				return f[i+1:]
			}
		}
	}
	return f
}

// point parks the calling thread with the given pending operation until the
// scheduler selects it.  The model effect of the operation is applied by the
// scheduler at selection time.
func (s *Sched) point(t *thread, kind opKind, obj any) {
	t.kind, t.obj = kind, obj
	if s.trace {
		t.site = callerSite()
	}
	s.back <- t
	<-t.wake
}

// enabled reports whether t's pending operation can proceed in the model.
func (s *Sched) enabled(t *thread) bool {
	switch t.kind {
	case opStart, opTry:
		return true
	case opLock:
		return !t.obj.(*Mutex).held
	case opOnce:
		return !t.obj.(*Once).m.held
	case opRLock:
		rw := t.obj.(*RWMutex)
		return rw.writer == nil && rw.pendingW == nil
	case opWAnnounce:
		rw := t.obj.(*RWMutex)
		return rw.writer == nil && rw.pendingW == nil
	case opWAcquire:
		rw := t.obj.(*RWMutex)
		return rw.readers == 0
	case opWGWait:
		return t.obj.(*WaitGroup).n == 0
	case opCondWait:
		return t.signaled
	case opYield:
		return s.moves > t.yieldStamp
	}
	return false
}

// apply performs the model effect of t's pending operation.
func (s *Sched) apply(t *thread) {
	switch t.kind {
	case opLock:
		m := t.obj.(*Mutex)
		m.held, m.owner = true, t
	case opOnce:
		m := &t.obj.(*Once).m
		m.held, m.owner = true, t
	case opRLock:
		t.obj.(*RWMutex).readers++
	case opWAnnounce:
		rw := t.obj.(*RWMutex)
		if rw.readers == 0 {
			rw.writer = t
		} else {
			rw.pendingW = t
		}
	case opWAcquire:
		rw := t.obj.(*RWMutex)
		rw.pendingW = nil
		rw.writer = t
	case opCondWait:
		t.signaled = false
	}
}

// Options configures Explore.
type Options struct {
	// Bound is the preemption bound; negative means unbounded.
	Bound int
	// MaxExecutions stops the search (reported as not exhaustive); 0 = none.
	MaxExecutions int
	// Deadline stops the search (reported as not exhaustive); zero = none.
	Deadline time.Time
	// MaxSteps bounds one execution (livelock guard).
	MaxSteps int
	// Trace records call sites for every point (slower).
	Trace bool
	// ReleasePoints adds a scheduling point after every lock release.  With
	// points only before acquisitions, another thread can never run between a
	// release and the unsynchronised code that follows it; that is only
	// equivalent when that code touches no shared state.  Harnesses that want
	// to observe the effect of such (racy) accesses switch this on.
	ReleasePoints bool
	// StuckTimeout: a running thread that reaches no point for this long is
	// an engine error.
	StuckTimeout time.Duration
}

// Body is one scenario instance: threads to run and a final check.
type Body struct {
	Names   []string
	Threads []func()
	// Final is run (outside the scheduler, pass-through) after all threads
	// finished without deadlock; it returns a violation description or "".
	Final func() string
	// Cleanup is always run.
	Cleanup func()
}

// Stats of a whole exploration.
type Stats struct {
	Executions  int
	Points      int64
	MaxPoints   int
	Exhaustive  bool
	BoundDone   int
	Outcomes    map[string]int
	Violations  []Violation
	EngineErrs  []string
	SampleSched [][]int
}

// Violation is one failing execution.
type Violation struct {
	Kind     string // deadlock, livelock, panic, final
	Detail   string
	Schedule []int
	Trace    []string
}

// RunOne executes body under the schedule prefix (then default choices).
func RunOne(mk func() Body, prefix []int, opt Options) (*Result, string) {
	body := mk()
	if body.Cleanup != nil {
		defer body.Cleanup()
	}
	s := &Sched{back: make(chan *thread), prefix: prefix, res: &Result{}, trace: opt.Trace, maxStep: opt.MaxSteps, releasePoints: opt.ReleasePoints}
	if s.maxStep == 0 {
		s.maxStep = 20000
	}
	stuck := opt.StuckTimeout
	if stuck == 0 {
		stuck = 30 * time.Second
	}
	for i, f := range body.Threads {
		name := fmt.Sprintf("t%d", i)
		if i < len(body.Names) {
			name = body.Names[i]
		}
		t := &thread{id: i, name: name, wake: make(chan struct{}), kind: opStart}
		s.threads = append(s.threads, t)
		f := f
		go func() {
			t.goid = goid()
			s.back <- t // registered, parked at opStart
			<-t.wake
			defer func() {
				if r := recover(); r != nil {
					if _, ok := r.(*EngineError); !ok {
						t.panicked = r
						t.stack = string(debug.Stack())
					}
				}
				t.finished = true
				s.back <- t
			}()
			f()
		}()
	}
	for range s.threads {
		<-s.back
	}
	active.Store(s)
	final := ""
	s.loop(stuck)
	active.Store(nil)
	s.cur = nil
	if s.res.EngineErr == "" && !s.res.Deadlock && !s.res.Livelock && body.Final != nil {
		final = body.Final()
	}
	return s.res, final
}

func (s *Sched) loop(stuck time.Duration) {
	var last *thread
	timer := time.NewTimer(stuck)
	defer timer.Stop()
	for step := 0; ; step++ {
		var en []*thread
		unfinished := 0
		for _, t := range s.threads {
			if t.finished {
				continue
			}
			unfinished++
			if s.enabled(t) {
				en = append(en, t)
			}
		}
		if unfinished == 0 {
			return
		}
		if len(en) == 0 {
			// Distinguish yield-only waiting from blocking.
			onlyYield := true
			for _, t := range s.threads {
				if !t.finished && t.kind != opYield {
					onlyYield = false
				}
			}
			if onlyYield {
				s.res.Livelock = true
			} else {
				s.res.Deadlock = true
			}
			for _, t := range s.threads {
				if !t.finished {
					s.res.Blocked = append(s.res.Blocked, fmt.Sprintf("%s blocked at %s %s %s", t.name, t.kind, descObj(t.obj), t.site))
				}
			}
			s.abandon()
			return
		}
		if step >= s.maxStep {
			s.res.Livelock = true
			s.res.Blocked = append(s.res.Blocked, fmt.Sprintf("step limit %d reached", s.maxStep))
			s.abandon()
			return
		}
		// Canonical order: running thread first if enabled, then ascending ids.
		runningEnabled := false
		if last != nil {
			for i, t := range en {
				if t == last {
					runningEnabled = true
					copy(en[1:i+1], en[:i])
					en[0] = last
					break
				}
			}
		}
		choice := 0
		np := len(s.res.Points)
		if np < len(s.prefix) {
			choice = s.prefix[np]
			if choice >= len(en) {
				s.res.EngineErr = fmt.Sprintf("replay divergence at point %d: choice %d of %d enabled", np, choice, len(en))
				s.abandon()
				return
			}
		}
		t := en[choice]
		ids := make([]int, len(en))
		for i, e := range en {
			ids[i] = e.id
		}
		pi := PointInfo{Enabled: ids, Chosen: choice, RunningEnabled: runningEnabled}
		if s.trace {
			pi.Desc = fmt.Sprintf("%s %s %s @%s", t.name, t.kind, descObj(t.obj), t.site)
		}
		s.res.Points = append(s.res.Points, pi)
		s.res.Choices = append(s.res.Choices, choice)
		s.apply(t)
		s.moves++
		if t.kind == opYield {
			// nothing
		}
		last = t
		s.cur = t
		s.res.Steps++
		t.wake <- struct{}{}
		if !timer.Stop() {
			select {
			case <-timer.C:
			default:
			}
		}
		timer.Reset(stuck)
		select {
		case r := <-s.back:
			if r != t {
				s.res.EngineErr = fmt.Sprintf("thread %s reported while %s was running", r.name, t.name)
				return
			}
		case <-timer.C:
			s.res.EngineErr = fmt.Sprintf("thread %s reached no scheduling point for %s (blocked in an unhooked primitive?) last=%s %s", t.name, stuck, t.kind, t.site)
			return
		}
		if s.res.EngineErr != "" {
			return
		}
		if t.finished && t.panicked != nil {
			s.res.Panics = append(s.res.Panics, fmt.Sprintf("thread %s: %v\n%s", t.name, t.panicked, t.stack))
		}
	}
}

// abandon leaves blocked goroutines parked for ever (they are garbage; the
// process is short-lived).  Nothing to do: they wait on t.wake.
func (s *Sched) abandon() {}

func descObj(o any) string {
	switch v := o.(type) {
	case nil:
		return ""
	case *Mutex:
		return fmt.Sprintf("Mutex(%p)", v)
	case *RWMutex:
		return fmt.Sprintf("RWMutex(%p)", v)
	case *WaitGroup:
		return fmt.Sprintf("WaitGroup(%p)", v)
	case *Once:
		return fmt.Sprintf("Once(%p)", v)
	case *Cond:
		return fmt.Sprintf("Cond(%p)", v)
	case string:
		return v
	}
	return fmt.Sprintf("%T", o)
}

// Explore runs the iterative context-bounded DFS over schedules.
// classify maps one finished execution to an outcome label (for the
// distinct-outcomes count); it may be nil.
func Explore(mk func() Body, opt Options, classify func(*Result, string) string) *Stats {
	st := &Stats{Outcomes: map[string]int{}, Exhaustive: true, BoundDone: opt.Bound}
	var rec func(prefix []int)
	stop := false
	rec = func(prefix []int) {
		if stop {
			return
		}
		if opt.MaxExecutions > 0 && st.Executions >= opt.MaxExecutions {
			stop, st.Exhaustive = true, false
			return
		}
		if !opt.Deadline.IsZero() && time.Now().After(opt.Deadline) {
			stop, st.Exhaustive = true, false
			return
		}
		res, final := RunOne(mk, prefix, opt)
		st.Executions++
		st.Points += int64(len(res.Points))
		if len(res.Points) > st.MaxPoints {
			st.MaxPoints = len(res.Points)
		}
		if len(st.SampleSched) < 3 {
			st.SampleSched = append(st.SampleSched, append([]int{}, res.Choices...))
		}
		if res.EngineErr != "" {
			st.EngineErrs = append(st.EngineErrs, res.EngineErr)
			stop, st.Exhaustive = true, false
			return
		}
		label := "ok"
		addV := func(kind, detail string) {
			label = kind
			if len(st.Violations) < 50 {
				st.Violations = append(st.Violations, Violation{Kind: kind, Detail: detail, Schedule: append([]int{}, res.Choices...)})
			}
		}
		switch {
		case len(res.Panics) > 0:
			addV("panic", res.Panics[0])
		case res.Deadlock:
			addV("deadlock", fmt.Sprint(res.Blocked))
		case res.Livelock:
			addV("livelock", fmt.Sprint(res.Blocked))
		case final != "":
			addV("final", final)
		}
		if classify != nil && label == "ok" {
			label = classify(res, final)
		}
		st.Outcomes[label]++
		// Branch.
		pre := 0
		preAt := make([]int, len(res.Points)+1)
		for i, p := range res.Points {
			preAt[i] = pre
			if p.RunningEnabled && p.Chosen != 0 {
				pre++
			}
		}
		for i := len(prefix); i < len(res.Points); i++ {
			p := res.Points[i]
			cost := preAt[i]
			if p.RunningEnabled {
				cost++
			}
			if opt.Bound >= 0 && cost > opt.Bound {
				continue
			}
			for alt := 1; alt < len(p.Enabled); alt++ {
				np := append(append([]int{}, res.Choices[:i]...), alt)
				rec(np)
				if stop {
					return
				}
			}
		}
	}
	rec(nil)
	return st
}

// Yield is called by harness-level wait loops.
func Yield() {
	s, t := curThread()
	if s == nil {
		runtime.Gosched()
		return
	}
	t.yieldStamp = s.moves
	s.point(t, opYield, nil)
}

// SchedPoint is an explicit always-enabled scheduling point (used by the
// atomic shim and by harness bodies that want a visible step).
func SchedPoint(what string) {
	s, t := curThread()
	if s == nil {
		return
	}
	s.point(t, opTry, what)
}
