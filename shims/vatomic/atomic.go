// Package atomic is the verification shim for "sync/atomic": every operation
// is an always-enabled scheduling point followed by the real operation.
package atomic

import (
	ratomic "sync/atomic"
	"unsafe"

	vsync "github.com/AdguardTeam/AdGuardHome/verifx/vsync"
)

func pt() { vsync.SchedPoint("atomic") }

type Bool struct{ v ratomic.Bool }

func (x *Bool) Load() bool                        { pt(); return x.v.Load() }
func (x *Bool) Store(val bool)                    { pt(); x.v.Store(val) }
func (x *Bool) Swap(new bool) bool                { pt(); return x.v.Swap(new) }
func (x *Bool) CompareAndSwap(old, new bool) bool { pt(); return x.v.CompareAndSwap(old, new) }

type Int32 struct{ v ratomic.Int32 }

func (x *Int32) Load() int32                        { pt(); return x.v.Load() }
func (x *Int32) Store(val int32)                    { pt(); x.v.Store(val) }
func (x *Int32) Swap(new int32) int32               { pt(); return x.v.Swap(new) }
func (x *Int32) Add(d int32) int32                  { pt(); return x.v.Add(d) }
func (x *Int32) CompareAndSwap(old, new int32) bool { pt(); return x.v.CompareAndSwap(old, new) }

type Int64 struct{ v ratomic.Int64 }

func (x *Int64) Load() int64                        { pt(); return x.v.Load() }
func (x *Int64) Store(val int64)                    { pt(); x.v.Store(val) }
func (x *Int64) Swap(new int64) int64               { pt(); return x.v.Swap(new) }
func (x *Int64) Add(d int64) int64                  { pt(); return x.v.Add(d) }
func (x *Int64) CompareAndSwap(old, new int64) bool { pt(); return x.v.CompareAndSwap(old, new) }

type Uint32 struct{ v ratomic.Uint32 }

func (x *Uint32) Load() uint32                        { pt(); return x.v.Load() }
func (x *Uint32) Store(val uint32)                    { pt(); x.v.Store(val) }
func (x *Uint32) Swap(new uint32) uint32              { pt(); return x.v.Swap(new) }
func (x *Uint32) Add(d uint32) uint32                 { pt(); return x.v.Add(d) }
func (x *Uint32) CompareAndSwap(old, new uint32) bool { pt(); return x.v.CompareAndSwap(old, new) }

type Uint64 struct{ v ratomic.Uint64 }

func (x *Uint64) Load() uint64                        { pt(); return x.v.Load() }
func (x *Uint64) Store(val uint64)                    { pt(); x.v.Store(val) }
func (x *Uint64) Swap(new uint64) uint64              { pt(); return x.v.Swap(new) }
func (x *Uint64) Add(d uint64) uint64                 { pt(); return x.v.Add(d) }
func (x *Uint64) CompareAndSwap(old, new uint64) bool { pt(); return x.v.CompareAndSwap(old, new) }

type Pointer[T any] struct{ v ratomic.Pointer[T] }

func (x *Pointer[T]) Load() *T                      { pt(); return x.v.Load() }
func (x *Pointer[T]) Store(val *T)                  { pt(); x.v.Store(val) }
func (x *Pointer[T]) Swap(new *T) *T                { pt(); return x.v.Swap(new) }
func (x *Pointer[T]) CompareAndSwap(old, new *T) bool { pt(); return x.v.CompareAndSwap(old, new) }

type Value struct{ v ratomic.Value }

func (x *Value) Load() any                        { pt(); return x.v.Load() }
func (x *Value) Store(val any)                    { pt(); x.v.Store(val) }
func (x *Value) Swap(new any) any                 { pt(); return x.v.Swap(new) }
func (x *Value) CompareAndSwap(old, new any) bool { pt(); return x.v.CompareAndSwap(old, new) }

func AddInt32(a *int32, d int32) int32   { pt(); return ratomic.AddInt32(a, d) }
func AddInt64(a *int64, d int64) int64   { pt(); return ratomic.AddInt64(a, d) }
func AddUint32(a *uint32, d uint32) uint32 { pt(); return ratomic.AddUint32(a, d) }
func AddUint64(a *uint64, d uint64) uint64 { pt(); return ratomic.AddUint64(a, d) }
func LoadInt32(a *int32) int32           { pt(); return ratomic.LoadInt32(a) }
func LoadInt64(a *int64) int64           { pt(); return ratomic.LoadInt64(a) }
func LoadUint32(a *uint32) uint32        { pt(); return ratomic.LoadUint32(a) }
func LoadUint64(a *uint64) uint64        { pt(); return ratomic.LoadUint64(a) }
func StoreInt32(a *int32, v int32)       { pt(); ratomic.StoreInt32(a, v) }
func StoreInt64(a *int64, v int64)       { pt(); ratomic.StoreInt64(a, v) }
func StoreUint32(a *uint32, v uint32)    { pt(); ratomic.StoreUint32(a, v) }
func StoreUint64(a *uint64, v uint64)    { pt(); ratomic.StoreUint64(a, v) }
func CompareAndSwapInt32(a *int32, o, n int32) bool   { pt(); return ratomic.CompareAndSwapInt32(a, o, n) }
func CompareAndSwapInt64(a *int64, o, n int64) bool   { pt(); return ratomic.CompareAndSwapInt64(a, o, n) }
func CompareAndSwapUint32(a *uint32, o, n uint32) bool { pt(); return ratomic.CompareAndSwapUint32(a, o, n) }
func LoadPointer(a *unsafe.Pointer) unsafe.Pointer    { pt(); return ratomic.LoadPointer(a) }
func StorePointer(a *unsafe.Pointer, v unsafe.Pointer) { pt(); ratomic.StorePointer(a, v) }
