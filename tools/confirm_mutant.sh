#!/bin/bash
# usage: confirm_mutant.sh <ID> <mN> <pkgdir> [demo file name in out dir]
# Confirms in the scratch worktree /tmp/mut/<ID>/wt: suite passes with the change; demo fails with it and passes without it.
ID=$1; M=$2; PKG=$3; DEMO=${4:-demo_test.go}
export PATH=/root/go/pkg/mod/golang.org/toolchain@v0.0.1-go1.24.2.linux-amd64/bin:$PATH GOTOOLCHAIN=local GOFLAGS=-mod=mod GOPROXY=off GOSUMDB=off
R=${MUT_ROOT:-/tmp/mut}; WT=$R/$ID/wt; OUT=$R/$ID/out/$M
cd $WT || exit 3
git checkout -q --detach main 2>/dev/null; git checkout -q -- . ; git clean -qfd
git apply "$OUT/patch.diff" || git apply -3 "$OUT/patch.diff" || { echo "APPLY-FAIL"; exit 3; }
go build ./... || { echo BUILD-FAIL; exit 3; }
suite=$(go test -vet=off -count=1 ./... 2>&1 | grep -E "^(FAIL|---|panic)" | head -5)
[ -z "$suite" ] && echo "suite_with_change=PASS" || { echo "suite_with_change=FAIL"; echo "$suite"; }
cp "$OUT/$DEMO" "$PKG/zz_mutdemo_test.go"
RUN=$(grep -o 'func Test[A-Za-z0-9_]*' "$OUT/$DEMO" | sed 's/func //' | paste -sd'|')
[ -z "$RUN" ] && { echo "NO-TESTS-IN-DEMO"; exit 3; }
if go test -vet=off -count=1 "./$PKG/" -run "^($RUN)\$" >$OUT/confirm_with.log 2>&1; then echo "demo_with_change=PASS(unexpected)"; else echo "demo_with_change=FAIL(expected)"; fi
git apply -R "$OUT/patch.diff" 2>/dev/null || { git checkout -q -- . ; }
if go test -vet=off -count=1 "./$PKG/" -run "^($RUN)\$" >$OUT/confirm_without.log 2>&1; then echo "demo_without_change=PASS(expected)"; else echo "demo_without_change=FAIL(unexpected)"; tail -5 $OUT/confirm_without.log; fi
grep -c "^=== RUN" $OUT/confirm_without.log $OUT/confirm_with.log 2>/dev/null
git checkout -q -- . ; git clean -qfd
