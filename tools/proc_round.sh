#!/bin/bash
# usage: proc_round.sh <root> <ID> [other check IDs...] — for each delivered change of <ID> under <root>/<ID>/out:
# confirm it in the ID's scratch worktree, then run the ID's quick check (and any other listed) against it.
R=$1; ID=$2; shift 2; OTHERS="$*"
export MUT_ROOT=$R MUT_WT=$R/$ID/wt
RES=$R/$ID/result.txt; : > $RES
for m in m1 m2 m3; do
  O=$R/$ID/out/$m
  [ -f $O/patch.diff ] || continue
  demo=$(ls $O/*_test.go 2>/dev/null | head -1); [ -z "$demo" ] && { echo "$ID $m NO-DEMO" >> $RES; continue; }
  pkg=$(grep '^+++ b/' $O/patch.diff | head -1 | sed 's#+++ b/##; s#/[^/]*$##')
  # the README may name another package for the demo
  p2=$(grep -o 'internal/[a-z0-9_/]*' $O/README.md 2>/dev/null | grep -v '\.go' | head -1)
  dpkg=$(grep -m1 '^package ' $demo | awk '{print $2}' | sed 's/_test$//')
  for cand in $pkg $p2 $(cd $R/$ID/wt && ls -d internal/*/ internal/*/*/ 2>/dev/null | sed 's#/$##'); do
    [ -d "$R/$ID/wt/$cand" ] || continue
    if ls $R/$ID/wt/$cand/*.go 2>/dev/null | head -1 | xargs grep -l "^package $dpkg\b" >/dev/null 2>&1; then pkg=$cand; break; fi
  done
  echo "== $ID $m pkg=$pkg demo=$(basename $demo)" >> $RES
  /verif/tools/confirm_mutant.sh $ID $m $pkg $(basename $demo) >> $RES 2>&1
  for c in $ID $OTHERS; do
    MUT_LOG=$R/$ID/try-$m-$c.log /verif/tools/try_mutant.sh $O/patch.diff $c quick > $R/$ID/try-$m-$c.out 2>&1
    echo "try $c: $(grep -a -m1 '^VIOLATION' $R/$ID/try-$m-$c.out | cut -c1-160) $(tail -1 $R/$ID/try-$m-$c.out)" >> $RES
    grep -a -A1 "^VIOLATION" $R/$ID/try-$m-$c.log | sed -n 2p | cut -c1-220 >> $RES
  done
done
echo DONE >> $RES
