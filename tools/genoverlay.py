#!/usr/bin/env python3
"""Generate the go build overlay that binds /verif's hooks, shims and harnesses to
/repo's *current working tree* (DESIGN.md §2.1).  Nothing in /repo is written.

usage: genoverlay.py [--out DIR] [--no-rewrite] [--scale-qlog]
"""
import json, os, re, sys, hashlib

REPO = os.environ.get("VERIF_REPO", "/repo")
VERIF = os.environ.get("VERIF_ROOT", "/verif")
MOD = "github.com/AdguardTeam/AdGuardHome"
BBOLT = "/root/go/pkg/mod/go.etcd.io/bbolt@v1.4.0"

REWRITE_PKGS = [
    "internal/dnsforward", "internal/filtering", "internal/filtering/hashprefix",
    "internal/filtering/rulelist", "internal/filtering/safesearch", "internal/filtering/rewrite",
    "internal/client", "internal/querylog", "internal/stats", "internal/dhcpd", "internal/home",
    "internal/aghnet", "internal/schedule", "internal/aghuser", "internal/rdns", "internal/whois",
    "internal/arpdb", "internal/aghhttp", "internal/aghos", "internal/updater", "internal/aghtls",
    "internal/ipset", "internal/permcheck", "internal/configmigrate", "internal/aghalg",
    "internal/aghrenameio", "internal/version",
]

IMPORT_MAP = {
    '"sync"': '"%s/verifx/vsync"' % MOD,
    '"sync/atomic"': '"%s/verifx/vatomic"' % MOD,
    '"time"': '"%s/verifx/vtime"' % MOD,
}
IMPORT_RE = re.compile(r'^(\s*(?:import\s+)?(?:[\w.]+\s+)?)("sync"|"sync/atomic"|"time")(\s*(?://.*)?)$')
DECL_RE = re.compile(r'^(func|type|var|const)\b')


def rewrite_imports(src, only=None):
    out, done = [], False
    for line in src.split("\n"):
        if not done:
            if DECL_RE.match(line):
                done = True
            else:
                m = IMPORT_RE.match(line)
                if m and (only is None or m.group(2) in only):
                    line = m.group(1) + IMPORT_MAP[m.group(2)] + m.group(3)
        out.append(line)
    return "\n".join(out)


def write_if_changed(path, data):
    os.makedirs(os.path.dirname(path), exist_ok=True)
    try:
        with open(path) as f:
            if f.read() == data:
                return
    except OSError:
        pass
    with open(path, "w") as f:
        f.write(data)


def main():
    args = sys.argv[1:]
    out = os.path.join(VERIF, ".gen")
    rewrite = True
    scale_qlog = False
    i = 0
    while i < len(args):
        if args[i] == "--out":
            out = args[i + 1]; i += 1
        elif args[i] == "--no-rewrite":
            rewrite = False
        elif args[i] == "--scale-qlog":
            scale_qlog = True
        i += 1
    replace = {}
    # 1. hook files
    hooks = os.path.join(VERIF, "hooks")
    for d, _, fs in os.walk(hooks):
        rel = os.path.relpath(d, hooks)
        for f in fs:
            if f.endswith(".go"):
                replace[os.path.join(REPO, "internal", rel, f)] = os.path.join(d, f)
    # 1b. hook files for packages of dependency modules (module cache), at the
    # version /repo's go.mod requires
    mh = os.path.join(VERIF, "modhooks")
    if os.path.isdir(mh):
        gomod = open(os.path.join(REPO, "go.mod")).read()
        for d, _, fs in os.walk(mh):
            gofiles = [f for f in fs if f.endswith(".go")]
            if not gofiles:
                continue
            rel = os.path.relpath(d, mh)
            parts = rel.split(os.sep)
            mod, sub = "/".join(parts[:3]), parts[3:]
            m = re.search(r"^\s*" + re.escape(mod) + r"\s+(v\S+)", gomod, re.M)
            if not m:
                sys.exit("genoverlay: module %s is not required by go.mod" % mod)
            esc = re.sub(r"[A-Z]", lambda x: "!" + x.group(0).lower(), mod)
            base = os.path.join("/root/go/pkg/mod", esc + "@" + m.group(1), *sub)
            if not os.path.isdir(base):
                sys.exit("genoverlay: %s not in the module cache" % base)
            for f in gofiles:
                replace[os.path.join(base, f)] = os.path.join(d, f)
    # 2. harness packages and shims
    har = os.path.join(VERIF, "harness")
    for d, _, fs in os.walk(har):
        rel = os.path.relpath(d, har)
        for f in fs:
            if f.endswith(".go") or f.endswith(".s"):
                replace[os.path.join(REPO, "internal", "verifx", rel, f)] = os.path.join(d, f)
    for shim in ("vsync", "vatomic", "vtime"):
        d = os.path.join(VERIF, "shims", shim)
        for f in os.listdir(d):
            if f.endswith(".go"):
                replace[os.path.join(REPO, "verifx", shim, f)] = os.path.join(d, f)
    # 3. import-rewritten copies
    if rewrite:
        gen = os.path.join(out, "rw-scaled" if scale_qlog else "rw")
        for pkg in REWRITE_PKGS:
            pd = os.path.join(REPO, pkg)
            if not os.path.isdir(pd):
                continue
            for f in sorted(os.listdir(pd)):
                if not f.endswith(".go") or f.endswith("_test.go"):
                    continue
                p = os.path.join(pd, f)
                with open(p) as fh:
                    src = fh.read()
                new = rewrite_imports(src)
                if scale_qlog and pkg == "internal/querylog" and f == "qlogfile.go":
                    n1 = new.count("maxEntrySize = 16 * 1024")
                    if n1 != 1:
                        sys.exit("genoverlay: maxEntrySize constant not found exactly once")
                    new = new.replace("maxEntrySize = 16 * 1024", "maxEntrySize = 64")
                if new != src:
                    dst = os.path.join(gen, pkg, f)
                    write_if_changed(dst, new)
                    replace[p] = dst
        # bbolt: sync only
        for f in sorted(os.listdir(BBOLT)):
            if not f.endswith(".go") or f.endswith("_test.go"):
                continue
            p = os.path.join(BBOLT, f)
            with open(p) as fh:
                src = fh.read()
            new = rewrite_imports(src, only={'"sync"'})
            if new != src:
                dst = os.path.join(gen, "bbolt", f)
                write_if_changed(dst, new)
                replace[p] = dst
    name = "overlay.json"
    if scale_qlog:
        name = "overlay-scaled.json"
    write_if_changed(os.path.join(out, name), json.dumps({"Replace": replace}, indent=1, sort_keys=True))
    print(os.path.join(out, name))


if __name__ == "__main__":
    main()
