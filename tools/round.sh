#!/bin/bash
# usage: round.sh <root> <ID> — run the ID's quick check against m1..m3 of <root>/<ID>/out
R=$1; ID=$2
for m in m1 m2 m3; do
  [ -f $R/$ID/out/$m/patch.diff ] || continue
  echo "== $ID $m"
  /verif/tools/try_mutant.sh $R/$ID/out/$m/patch.diff $ID quick | tail -2
  grep -a -A1 "^VIOLATION" /tmp/mutant.log | head -2 | tail -1 | cut -c1-200
done
