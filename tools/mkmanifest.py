#!/usr/bin/env python3
"""Writes /verif/MANIFEST.json from the table below (one entry per claimed property)."""
import json, os

ALL = ["C%02d" % i for i in range(1, 21)]

# id -> (category, technique, level text, level note, design ref, engine)
CHECKS = {
    "C01": ("exploration",
            "bounded exhaustive enumeration of (rule set x configuration x request) through the real request pipeline with a recording mock upstream, against a composition reference model; plus enumeration of all admin-operation histories up to a depth on the full assembly",
            "Every set of <=2 (thorough <=3) placed rules out of 34 rule texts x 3 placements, and 25 small sets x 5 blocking modes x 4 protection states x filtering on/off x 4 client kinds x 9 blocked-service settings (global and per-client lists, paused, not paused or empty, alone and together); each with 7-9 names x 5 qtypes x 2 client addresses run through HandleBefore+handleDNSRequest of a real server (real filtering engine, real client storage, virtual clock). Oracle: blocked => mode's synthetic response and empty upstream log; otherwise exactly one upstream call and the upstream records and question intact. Part 2 (second binary, the full assembly of C05 through the real admin handlers): every history of <=4 (thorough 6) list life-cycle operations on the block list and on an allow list that names the probe, and of <=4 (thorough 5) protection operations (timed pause, off, on, on/off through dns_config, clock advance); after each step a name of the block list is blocked exactly when its list is present and enabled (and the allow list naming it absent or disabled) / protection is on.",
            "single-rule matching delegated to urlfilter's Match; composition, gates and response table are modelled independently; $dnsrewrite, safe browsing/parental/safe search excluded.",
            "DESIGN.md §4 C01", "E1-stateless"),
    "C02": ("exploration",
            "bounded exhaustive enumeration of (upstream answer section x rule set x configuration x query type) through the real pipeline with a scripted upstream, against a first-blocked-record reference",
            "All answer sections of length <=3 (thorough <=4) over 17 record kinds (incl. an AAAA record holding an IPv4-mapped address) with CNAME owner chaining, the offending record at every position, x 10 rule sets (names, IPv4/IPv6 literals, exceptions, $important, allow-listed/excepted queried name, hosts-style, $dnstype) x 5 modes + 5 flag variants + 1 variant with an NXDOMAIN upstream answer carrying the section + 2 variants with the proxy's answer cache on (each question asked twice, the cached response judged) x 5 query types; blocked => the mode's response for the query's type without upstream data and a log entry carrying the original answer; else the upstream answer unchanged.",
            "single-rule matching delegated to urlfilter; with AAAA disabled and response filtering applicable HTTPS records are accepted with or without ipv6hint (where it is not applicable the answer must be identical); cached answers are compared without TTL.",
            "DESIGN.md §4 C02", "E1-stateless"),
    "C03": ("exploration",
            "bounded exhaustive enumeration of (access lists x protocol x client address x ClientID x name) through the real pre-request hook and pipeline, against a set-theoretic access model; loopback conformance of the drop contract",
            "Every disjoint allowed/disallowed pair of subsets (size <=2, thorough <=3) of 12 list items (incl. an upper-case ClientID and a link-local address without zone) x 6 protocols x 9 addresses (in/out of each CIDR, zoned, 4-in-6) x 4 ClientID labels, the lists being the start-up configuration, set through POST /control/access/set, or set that way and followed by Server.Reconfigure; 10 blocked-host pattern sets (incl. entries written with capital letters) x names x qtypes (and class CH) x protocols. Excluded => dropped (UDP/DNSCrypt) or REFUSED echoing the request, with no upstream call, log entry or statistics update; admitted => served. DoH requests through the real HTTP entry point: 5 list configurations x 4 trusted-proxy sets x 5 peers x proxy headers (4 kinds x 3 addresses): the client is the peer, or the header address iff the peer is a trusted proxy. The plain-error=silence contract of dnsproxy is validated by real UDP/TCP exchanges on 127.0.0.1.",
            "blocked-host matching delegated to urlfilter; 4-in-6 addresses whose two readings differ are not judged.",
            "DESIGN.md §4 C03", "E1-stateless"),
    "C04": ("model_checking",
            "explicit-state BFS over operation histories executed on the real client.Storage, implementation-dump dedup, list-of-clients reference model checked on every transition",
            "All histories of add/update(rename, change ids, switch own settings)/remove/DHCP-flip up to depth 3 (quick: 2 names, 8 colliding identifiers incl. nested/unmasked/offset CIDRs, 2 IPs, MAC, ClientID) or 4 (thorough: 3 names, 16 identifiers), plus a pass over zoned link-local IPv6 identifiers and a pass over identifier lists that name one identifier twice; every operation with own settings carries its own safe-search filter object; after every transition accept/reject, unchanged-on-reject, index-map consistency and every lookup path (incl. which safe-search filter a request is handed) are compared with the reference.",
            "between equally specific stored prefixes either owner is accepted; identifiers outside the pool and deeper histories are not covered; runs in-process with 16 worker goroutines (Storage instances are independent).",
            "DESIGN.md §4 C04", "E1-BFS"),
    "C05": ("model_checking",
            "stateless preemption-bounded exhaustive exploration of interleavings under a cooperative scheduler hooked into sync/atomic (E2), plus a free-running race-detector pass over the same exhaustively enumerated scenario matrix (E4)",
            "Scenario matrix: 5 request bodies x 41 admin/background bodies (incl. the DHCP static-lease handlers, a DHCP client's DISCOVER+REQUEST, a request answered from the lease table, and the flush a recorded query starts when it fills the buffer) (with scheduling points after lock releases), every background body x every admin body, three-party scenarios around the list refresh, read x write admin pairs on the query log and the statistics (thorough: + request x background x admin triples), a deterministic probe that what the client storage hands out is not changed by later updates, and a phase that queues several set_rules calls behind a held engine-rebuild worker and demands the last one's engine (the sequential history phases on the same assembly belong to C01), on a full assembly wired as in package home (server, filter with file lists, client storage, a real DHCP server, query log, statistics on bbolt). E2 owns every Mutex/RWMutex(writer preference)/WaitGroup/Once/atomic operation of the rewritten AGH packages and bbolt and explores all schedules with <=1 (quick) / <=2 (thorough) preemptions: no panic, deadlock or livelock, well-formed response, operations succeed, no flush left marked pending, and a request for a blocked name is not forwarded while any of 31 operations runs that leave it blocked before and after. E4 runs every scenario in both start orders with staggered starts under -race.",
            "data races are decided by the race detector's happens-before analysis of observed free runs (order-dependent), not by schedule enumeration; goroutines the code spawns itself are replaced by explicit bodies; DHCPv6 operations, dhcp/set_config and restart-type DNS settings are not in the matrix.",
            "DESIGN.md §2.3, §2.4, §4 C05", "E2+E4"),
    "C06": ("exploration",
            "bounded exhaustive enumeration of ordered rewrite tables x queries through the real filter (and the real server for the wire level) against an independent resolver written from AGHTechDoc, with all-permutations and watchdog termination oracles",
            "All ordered tables of <=3 entries over 81 (pattern, answer) pairs plus <=3 over a 24-entry sub-alphabet with an IPv4-mapped IPv6 value and <=4 over a 35-entry sub-alphabet (thorough: <=4 / <=5) x 11 names (incl. two that end like a wildcard's base without the label boundary) x A/AAAA/TXT through filtering.New + CheckHost, plus curated tables incl. acyclic CNAME chains of 18 and 40 links; every permutation of a table must resolve identically (except documented ties); each call under a 15 s watchdog. Wire level (each table built from the configuration in two orders and once through PUT /control/rewrite/update): real dnsforward server with a recording upstream answering with records, NODATA and NXDOMAIN: CNAME first, original question restored, upstream asked only for the canonical name, matched-without-value => empty NOERROR and no upstream call.",
            "several CNAME targets or several values for one and the same wildcard pattern are ties (either may win, order dependence not flagged); exact-over-wildcard shadowing among address entries accepted per kind or per family.",
            "DESIGN.md §4 C06", "E1-stateless"),
    "C07": ("model_checking",
            "explicit-state BFS over record/flush/rotate/clear/read/config/restart histories on the real query log (three-list reference, full API comparison and paging walks in every state), plus exhaustive enumeration of search-parameter combinations on fixed layouts (incl. 8 KiB lines and one unknown ClientID from two clients)",
            "Phase A: histories of depth 5 (quick) / 6-7 (thorough) over 4-6 entry kinds, flush, rotate, clear, API read, restart, logging and anonymisation toggles x 5 (memory size, file) configurations; after every transition the unfiltered API result equals reverse(rotated ++ current ++ memory) on 20 fields, every stored line survives decode+re-encode, and cursor and offset paging with limit 1 and 2 partition the sequence. Phase B: 13-15 layouts x limits x offsets x older_than x search terms x statuses against independent predicates; malformed values never panic; quickMatch over-approximates the full match. Phase C: logs longer than the 50 000-record scan window of one request, paged by offset (explicit offset=0 included) and by cursor.",
            "the async memory-to-disk flush is awaited after every operation (records during a pending flush are excluded by the statement); older_than values that were not returned by the API are checked for soundness only; anonymisation is applied at read time with the current setting.",
            "DESIGN.md §4 C07", "E1-BFS"),
    "C08": ("exploration",
            "bounded exhaustive enumeration of (ignore lists x anonymisation x client kind x flags x request) through the real pipeline with the real query log and statistics wired as in package home; every storage and reporting surface read after each request",
            "13 ignore-list pairs x anonymisation off/on/switched on by API x 6 persistent-client kinds (IP, CIDR, MAC, ClientID, zoned link-local IPv6) x ignore flags x ANY-refusal, each x 51 requests (name spellings, IPv4/IPv6/4-in-6/zoned sources, with/without ClientID); after every request the memory buffer (API), the flushed file, the API over the file and /control/stats are inspected and cleared. The settings handed to the configuration writer after the ignore lists are changed through the API, the client ignore flags set through POST /control/clients/update, restart scenarios and a memory-buffer scenario (ignore list changed through the API, client flag set later) check that the API hides entries recorded earlier whose name/client is ignored now, including several ClientID clients behind one address.",
            "ignore-rule matching delegated to urlfilter; a 4-in-6 source is the same client as its IPv4 form; client-flag hiding is judged with anonymisation off (anonymised entries cannot be attributed).",
            "DESIGN.md §4 C08", "E1-stateless"),
    "C09": ("model_checking",
            "explicit-state BFS over update/advance/flush/restart/limit/clear/read histories on the real StatsCtx (bbolt) against an hour->counters reference, plus preemption-bounded exhaustive schedule exploration of Update || flush || API read || reset under the cooperative scheduler",
            "Histories of depth 5 (quick) / 7 (thorough) over 21 operations (5 result categories, 2 clients, 2 domains, hour advances by 1, 2, L-1, L, L+1, flush, clean restart, retention limits 1/2/3/24/192 h through both handlers, switching statistics off, clear); after every transition GET /control/stats is compared with the reference (totals, hourly series per hour, daily series <= totals, window). Schedules: 14 thread sets (update, other update, hour rollover + flush, API read, reset, switching off through the legacy endpoint, clean shutdown followed by a reopen) x {0,2} earlier updates, all interleavings at lock/atomic operations and lock releases of stats and bbolt with <=1 (quick) / <=2 (thorough) preemptions; every response internally consistent, never below the count completed before the threads started, every update counted exactly once after quiescence, and no iteration of the flusher ends its loop while the statistics are open.",
            "hours that lay outside the window at some moment may legitimately have been deleted (0 or full count accepted); a read refused with HTTP 500 while a reset replaces the database is accepted; top_* lists are not compared.",
            "DESIGN.md §4 C09", "E1-BFS+E2"),
    "C10": ("model_checking",
            "explicit-state breadth-first search over DHCP message / static-lease / expiry / restart histories executed on the real v4Server with the real database wiring, level-synchronous across 16 processes with global state deduplication, lease-table invariants and a tiny allocator reference model",
            "Subnet /29 with a 3-address pool, 3 clients (thorough: 4 clients, hostnames, requested addresses), 95 operations (DHCP switched off in the configuration (only the lease API is then used), DISCOVER, REQUEST selecting/init-reboot/renew, DECLINE, RELEASE, static add/update/remove inside/outside pool/gateway/out of subnet, 2 h clock advance, restart), depth 4 (quick) / 6 (thorough); after every transition: one lease per address and client, dynamic leases inside the pool, list = hostname index = IP index = bitset, every OFFER/ACK against the model, leases.json = memory, restart preserves table and DNS answers; every state is also probed with a DISCOVER from a new client (offer iff a pool address is free); configurations with the gateway on the first / last pool address are refused or never hand the gateway out.",
            "a static add legitimately revokes dynamic leases of the same client or address (documented dnsmasq-like behaviour); ICMP probing off; virtual clock.",
            "DESIGN.md §4 C10", "E1-BFS"),
    "C11": ("exploration",
            "exhaustive enumeration of request shapes against every pattern of the real mux built by the real registration code in the real start-up order, plus a go/ast inventory of all registrations",
            "Both registration orders (boot: DHCP routes before the user list exists; install wizard), every pattern (79/83) x path spellings x 7 methods x content types x bodies (incl. chunked without length) x 6 credential kinds; without valid credentials the response is 403/redirect, the probe/handler did not run and config, sessions, users and work-dir files are byte-identical; with credentials wrong method => 405 and non-JSON body => 415; expired sessions are not revived; a start with a stored password that is not a bcrypt hash refuses every credential and the login call. Static part: every Handle/HandleFunc/httpRegister call in the shipped packages is in the mux, wrapped, and public only if in the fixed public set.",
            "handler-ran for in-home routes is inferred from the status code; initDNS/initContextClients are mirrored step by step by the hook (their callback arguments are covered statically).",
            "DESIGN.md §4 C11", "E1-stateless"),
    "C12": ("model_checking",
            "explicit-state BFS over timed login/request/logout/clock-advance/restart histories on the real auth handlers under a virtual clock against a throttle automaton and two-sided session bounds, plus preemption-bounded schedule exploration of request || logout || clock tick followed by a restart",
            "Three BFS passes plus two stateless throttling enumerations (attempts inside the last second of a block period; 20-2500 other addresses failing while one address is blocked): throttle only (10 operations, all 6 (maxAttempts, blockDur) configurations, depth 8 quick / 11 thorough), sessions (13 operations incl. a request with another spelling of the token and a logout carrying a second unknown cookie, TTL 1 h and 3 d, depth 6 / 9), cross (17 operations, depth 4 / 5); clock steps straddle every boundary by +-1 s; two addresses that are trusted proxies and send spoofed proxy headers; while blocked every login is 429 with Retry-After and creates no session; tokens authenticate before created+TTL and never after logout, expiry or having been seen expired, also across restart (session file); an unexpired session is in memory and in the file with one expiry. Schedules: request, logout and a midnight-crossing clock tick in all interleavings (<=1-2 preemptions, release points), then restart: a logged-out token never authenticates; three concurrent failed logins from one address block it.",
            "the throttle table is emptied by a restart (the statement does not cover throttling across restarts); Retry-After only checked for presence and range; exact-boundary instants are not judged.",
            "DESIGN.md §4 C12", "E1-BFS+E2"),
    "C13": ("exploration",
            "deviation-bounded exhaustive enumeration of documents (base x key path x shape, 0/1/2 deviations) x every split point, against outcome/idempotence/path-independence/loader oracles",
            "Golden inputs of every schema version plus minimal and raw documents (byte order marks, version stamps outside the range; no error => current stamp, nothing upgraded => input bytes); every key path present plus every string literal of later steps placed under root and top-level objects, replaced by 10 shapes (incl. a whole number spelled as a float) (1 deviation in quick, pairs in thorough); list-duplication variants; each migrated in one run and through every split point; no panic, error=>unchanged, stamped, idempotent, split-independent, unrelated key kept, loader accepts valid inputs.",
            "yaml.v3 round trip is faithful; validity under a document's own schema assumed only for golden inputs and their list-duplication variants; bcrypt hashes (random salt) compared as equal.",
            "DESIGN.md §4 C13", "E1-stateless"),
    "C19": ("model_checking",
            "explicit-state BFS over check/clock-advance (and database-switch) histories on the real hashprefix.Checker with a scripted lookup service, plus exhaustive enumeration of host names for the privacy clause; reference verdict and fresh-Checker differential oracle",
            "25 service databases (colliding prefixes in both orders, parent/child, over-long/short/non-hex TXT strings) x 2 answer packings x 4 cache sizes (unlimited, 100, 64 and 30 bytes), plus scenarios with database switches (two of them starting after [parent checked; parent listed]), histories of depth 5 (quick) / 6 (thorough) of checks, clock steps straddling the cache time and 'the next exchange with the service fails'; every check compared with the reference verdict and with a fresh Checker at the same instant; every question sent checked for the hash-prefix shape. Stateless: ~17k host names (1..8 labels x 11 suffix kinds x case) through Check/CheckHost.",
            "names under private suffixes/unmanaged TLDs may expose prefixes of their last-four-label parents (intended behaviour per the repository's own tests); a failed exchange may fail the check; what it leaves in the cache is judged by the following checks.",
            "DESIGN.md §4 C19", "E1-BFS"),
    "C20": ("exploration",
            "bounded exhaustive enumeration of file layouts on a scaled-constant build and a byte-by-byte boundary sweep on the real-constant build, reversed-lines and seek-classification oracles",
            "Scaled build (maxEntrySize 64 / buffer 6400 substituted in a freshly copied qlogfile.go): every file of 0..5 (quick) / 0..7 (thorough) tail lines over 4 lengths x 5 filler prefixes x 3 gap patterns; every present and absent seek target on a reused reader object; rotated+current pairs at every split; every history of <=3 operations (rewind, read 1/3, seek to first/last entry of each file, absent seeks) on one reader against a cursor reference, incl. whether a seek is reported as an exact hit. Real build: 1.6 MB / 3.2 MB files with the tail length swept byte by byte so buffer boundaries visit every offset in a line, and one file of 2.3 million records (265 stored and 3 absent targets).",
            "the scaled build differs from the shipped source only in one constant; real-constant coverage is the boundary sweep, not all files; lines+newline < maxEntrySize.",
            "DESIGN.md §4 C20", "E1-stateless"),
    "C14": ("fault_enumeration",
            "exhaustive enumeration of crash points (plus a free-running race-detector pass over two concurrent configuration saves): a real SIGKILL (strace fault injection) at every file-system call of every save, plus explicit-state exploration of a power-loss model over the recorded syscall log (prefix x surviving unsynced data x lost trailing renames x torn writes), the model validated against every real kill",
            "108 scenarios (quick): real config.write, the loader's schema-upgrade rewrite, dhcpd dbStore, filter refresh (successful and failing mid-download), set_url (download succeeds / breaks), a refresh whose new version holds an over-long line, a start on a database with IPv4 and IPv6 reservations (the file must stay byte for byte), and for each of the three writers saves that fail because no file may grow beyond half / all but one byte of its size (RLIMIT_FSIZE) x sizes {min, 4095, 4096, 4097, 1 MiB; thorough + 32 MiB} x destination present/absent x temp-file placement, two successive saves each. Every kill point leaves the destination byte-equal to the complete old or new version; every modelled crash state (prefix, surviving data operations since the last fsync, lost trailing namespace operations, write torn at 6 offsets) satisfies the same; a failed save (broken download, write fault) leaves the old version at every such point and afterwards.",
            "real kills land on syscall boundaries; torn writes and lost unsynced data exist only in the log model, which assumes rename atomicity and ordered metadata; atomicity (old or new), not durability, is demanded.",
            "DESIGN.md §2.5, §4 C14", "E3"),
    "C15": ("fault_enumeration",
            "explicit-state BFS over sequences of scripted list-server answers (faults at every body-offset class) on the real DNSFilter refresh paths, plus exhaustive enumeration of list texts through the real parser with a fixed-point oracle",
            "Sequences of depth 3 (quick) / 4 (thorough) of forced block/allow refreshes x 16 answers (200 L1/L2/same/empty, connection error, 404, 500, 204, 206, body cut before the first byte / mid-line / at a line boundary / after the last line, HTML, NUL on line 1 / line N), scheduled refreshes 25 h / 1 h later x answer pairs, set_url edits whose download fails in 5 ways, local-file changes and restart, on one HTTP block list, one local-file block list and one HTTP allow list; after every step file bytes, inode, rules_count and CheckHost verdicts of 13 probes are compared with the model and the stored file is re-parsed. A list of more than 64 MiB is refreshed and re-fetched once outside the search. Parser: all texts of <=4 (thorough <=6) lines over 14 line kinds x 3 line endings.",
            "a successful refresh is expected to bring its rules into force (the statement says so only implicitly); unreadable local file is modelled as a directory (harness runs as root).",
            "DESIGN.md §4 C15", "E3+E1"),
    "C16": ("exploration",
            "bounded exhaustive enumeration of (protocol x configured name x strict x client server name x DoH path x Host/TLS source) against a grammar-level reference, plus enumeration of all request/reconfigure histories up to a depth on the real server",
            "Every combination of 6 protocols, 3 configured server names, strict on/off, ~110 generated client server names (incl. siblings ending like <id>.<name> without the label boundary) and, for DoH, 53 paths with the name taken from TLS state or Host header; safety (ClientID only from a well-formed source, lower-cased; plain/DNSCrypt never), failure on invalid labels, strict rejection and liveness of the well-formed shapes; pre-request hook turns errors into SERVFAIL. Histories: every sequence of <=5 (thorough: also <=6 over the smaller alphabet) requests over the six protocols (with/without ClientID, two DNS message IDs) and Server.Reconfigure on a fresh real server, contexts numbered by the current proxy as its listeners do; each request must be processed and logged under the ClientID it carries itself; one server life of 2600 requests (more ClientIDs than the hand-over cache holds).",
            "path.Clean and RFC 1123 label syntax are the reference; domain-part case differences and empty name under strict are accepted either way.",
            "DESIGN.md §4 C16", "E1-stateless"),
    "C17": ("exploration",
            "bounded exhaustive enumeration of (pattern list x location spelling x entry point) on the real handlers and refresh paths with canary files",
            "14 pattern lists x 13 targets (plus locations inside the instance's data directory and a named pipe outside the patterns that a refresh must not open) x dot-dot routes x <=1 (quick) / <=2 (thorough) spelling departures (segment insertions, percent-encoding, suffixes, relative and scheme prefixes) x 8 entry points (add, add after another list of the same directory was added, set-url, two-step set-url, forced and periodic refresh with the URL already configured, each of the two also with contents stored from an earlier fetch) x block/allow registry; canary content may show up (rules count, stored file, response body, probe verdict) only if the location is absolute and filepath.Match(p, filepath.Clean(loc)) holds for a configured pattern.",
            "filepath.Clean/Match are the reference; symlink-free tree; only the 'only if' direction is demanded.",
            "DESIGN.md §4 C17", "E1-stateless"),
    "C18": ("exploration",
            "bounded exhaustive enumeration of (zone table x transition-day minute x range x weekday mask) against a wall-clock reference, plus enumeration of all administration histories up to a depth on the real filter",
            "Every distinct zone transition table on the host, every minute (and +-1ns) of the local days before/of/after every DST transition in the window, 9 day ranges x 15 weekday masks, compared with a wall-clock reference; all serialised start/end combinations of a 12x12 grid (incl. fractions of a millisecond) in JSON and YAML for accept/reject, round trip and agreement, each YAML document decoded into an EmptyWeekly() value after which a new EmptyWeekly() must cover nothing; every history of <=4 (thorough <=6) calls of PUT blocked_services/update (two schedules or none) and the deprecated POST blocked_services/set on a real filter under the virtual clock: schedule and services as reported, as saved and as applied to requests at three instants. Exhaustive within those bounds.",
            "Go's time package + host tzdata define wall-clock time; instants outside the window and ranges outside the 9 shapes are not covered.",
            "DESIGN.md §4 C18", "E1-stateless"),
}

NOT_YET = "check not built yet in this session (planned, see DESIGN.md §4)"


def main():
    checks = []
    for pid in ALL:
        if pid not in CHECKS:
            continue
        cat, tech, text, note, ref, eng = CHECKS[pid]
        checks.append({
            "property_id": pid,
            "quick_cmd": "bin/check %s quick" % pid,
            "thorough_cmd": "bin/check %s thorough" % pid,
            "evidence_file": "/verif/evidence/%s.json" % pid,
            "replay_cmd_template": "bin/check %s --replay {path}" % pid,
            "engine": eng,
            "level_claimed": {"category": cat, "text": text, "design_ref": ref},
            "level_note": note,
            "technique": tech,
        })
    m = {
        "version": 1,
        "setup_cmd": "bin/setup",
        "hooks": {
            "guard": "verif",
            "enable": "go build -tags verif -overlay /verif/.gen/overlay.json (overlay regenerated from /repo's working tree by tools/genoverlay.py on every check; hook files live in /verif/hooks (packages of /repo) and /verif/modhooks (one add-only file in the dnsproxy module, mapped onto the module-cache directory of the version in go.mod) and carry //go:build verif; no hook commit in /repo)",
            "baseline_off_cmd": "cd /repo && go test -mod=mod -json -vet=off -count=1 -timeout 25m ./...",
            "source_commits": [],
            "add_only": True,
        },
        "engines": [
            {"name": "E1", "path": "/verif/harness/lib", "serves_properties": sorted(CHECKS), "kind_free_text": "bounded-exhaustive explorer over the real code: BFS over operation histories with implementation-state dedup, and stateless enumeration of finite input grammars; sharded over processes"},
            {"name": "E2", "path": "/verif/shims/vsync", "serves_properties": [p for p in ("C05", "C09") if p in CHECKS], "kind_free_text": "cooperative controlled scheduler behind import-rewritten sync/atomic; iterative preemption-bounded DFS over schedules"},
        ],
        "checks": checks,
        "not_applicable": [{"property_id": p, "reason": NOT_YET} for p in ALL if p not in CHECKS],
        "notes": "All checks rebuild from /repo's working tree via go build -overlay; private GOCACHE under /verif/.cache (see DESIGN.md §2.1).",
    }
    with open("/verif/MANIFEST.json", "w") as f:
        json.dump(m, f, indent=1)
        f.write("\n")


if __name__ == "__main__":
    main()
