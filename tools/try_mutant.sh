#!/bin/bash
# usage: try_mutant.sh <patch.diff> <ID> [tier] [extra args]  — apply to /repo, run the check, always revert.
P="$1"; ID="$2"; TIER="${3:-quick}"; shift 3 2>/dev/null
if ! git -C /repo diff --quiet; then echo "repo dirty"; exit 3; fi
git -C /repo apply "$P" 2>/dev/null || { echo "patch does not apply cleanly"; git -C /repo reset -q --hard HEAD; exit 3; }
/verif/bin/check "$ID" "$TIER" -evidence /tmp/mutant-evidence.json "$@" > /tmp/mutant.log 2>&1
rc=$?
git -C /repo checkout -- . ; git -C /repo reset -q
grep -E "^(VIOLATION|KNOWN-FINDING|ENGINE)" /tmp/mutant.log | head -5
tail -1 /tmp/mutant.log | cut -c1-200
echo "rc=$rc"
exit $rc
