#!/bin/bash
# usage: try_mutant.sh <patch.diff> <ID> [tier] [extra args] — apply the change to a scratch worktree of /repo's
# HEAD (never to /repo itself), run the check against it with VERIF_REPO, and clean up.
P="$(realpath "$1")"; ID="$2"; TIER="${3:-quick}"; shift 3 2>/dev/null
WT=${MUT_WT:-/tmp/verif-mutwt}; LOG=${MUT_LOG:-/tmp/mutant.log}
if [ ! -d "$WT" ]; then git -C /repo worktree add --detach "$WT" HEAD >/dev/null 2>&1 || { echo "cannot create worktree"; exit 3; }; fi
git -C "$WT" checkout -q --detach main 2>/dev/null; git -C "$WT" checkout -q -- . ; git -C "$WT" clean -qfd
git -C "$WT" apply "$P" 2>/dev/null || { echo "patch does not apply cleanly"; exit 3; }
VERIF_REPO="$WT" /verif/bin/check "$ID" "$TIER" "$@" > "$LOG" 2>&1
rc=$?
git -C "$WT" checkout -q -- . ; git -C "$WT" clean -qfd
grep -a -E "^(VIOLATION|KNOWN-FINDING|ENGINE)" "$LOG" | head -5
tail -1 "$LOG" | cut -c1-200
echo "rc=$rc"
exit $rc
