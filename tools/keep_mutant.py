#!/usr/bin/env python3
"""keep_mutant.py <ID> <mN> <demo pkg dir> <detected-by|MISSED> <needs...>  — store a confirmed seeded change under /verif/seeded/<ID>-<mN>/"""
import sys, os, shutil, json, glob
pid, m, pkg, det = sys.argv[1:5]
needs = " ".join(sys.argv[5:])
root = os.environ.get("MUT_ROOT", "/tmp/mut")
tag = os.environ.get("MUT_TAG", "")
src = f"{root}/{pid}/out/{m}"
dst = f"/verif/seeded/{pid}-{tag}{m}"
os.makedirs(dst, exist_ok=True)
shutil.copy(src + "/patch.diff", dst + "/patch.diff")
for f in glob.glob(src + "/*_test.go") + glob.glob(src + "/README.md"):
    shutil.copy(f, dst + "/" + os.path.basename(f) + (".txt" if f.endswith(".go") else ""))
meta = {
    "property": pid,
    "needs_to_manifest": needs,
    "demo": {"file": "demo_test.go.txt", "copy_to": pkg + "/zz_mutdemo_test.go", "cmd": f"go test -vet=off -count=1 -run '^Test' ./{pkg}/  (only the tests of the demo file are relevant)"},
    "confirmed": "tools/confirm_mutant.sh in scratch worktree: existing suite PASS with change; demo FAIL with change, PASS without",
    "check_cmd": f"tools/try_mutant.sh seeded/{pid}-{tag}{m}/patch.diff {pid} quick",
    "detected_by_check": det,
}
json.dump(meta, open(dst + "/meta.json", "w"), indent=1)
print("kept", dst)
