//go:build verif

package querylog

import (
	"context"
	"encoding/json"
	"fmt"
	"net/http"
	"net/http/httptest"
	"runtime"
	rtime "time"
)

// VerifC07Log gives the C07 harness access to the unexported operations of a
// real queryLog.  It only calls existing functions; it changes no behaviour.
type VerifC07Log struct{ l *queryLog }

// VerifC07Wrap wraps a query log created by [New].
func VerifC07Wrap(q QueryLog) *VerifC07Log { return &VerifC07Log{q.(*queryLog)} }

// InitWeb registers the HTTP handlers through Config.HTTPRegister without
// starting the periodic rotation goroutine of Start.
func (v *VerifC07Log) InitWeb() { v.l.initWeb() }

// Flush is the memory-to-file flush that Add and Shutdown run.
func (v *VerifC07Log) Flush() error { return v.l.flushLogBuffer(context.Background()) }

// Rotate renames the current file to the rotated file.
func (v *VerifC07Log) Rotate() error { return v.l.rotate(context.Background()) }

// FlushPending reads queryLog.flushPending under its lock.
func (v *VerifC07Log) FlushPending() bool {
	v.l.bufferLock.Lock()
	defer v.l.bufferLock.Unlock()

	return v.l.flushPending
}

// WaitFlushIdle waits (real time, bounded) until no asynchronous flush is
// pending or running.  flushPending is reset before the file is written, so
// the flush lock is taken once more after it reads false.
func (v *VerifC07Log) WaitFlushIdle(max rtime.Duration) (ok bool) {
	deadline := rtime.Now().Add(max)
	for i := 0; ; i++ {
		if !v.FlushPending() {
			v.l.fileFlushLock.Lock()
			//lint:ignore SA2001 barrier only
			v.l.fileFlushLock.Unlock()
			if !v.FlushPending() {
				return true
			}
		}
		if rtime.Now().After(deadline) {
			return false
		}
		if i < 200 {
			runtime.Gosched()
		} else {
			rtime.Sleep(50 * rtime.Microsecond)
		}
	}
}

// MemoryLines returns the entries of the ring buffer, oldest first, each
// encoded exactly as the flush would write it.
func (v *VerifC07Log) MemoryLines() (lines []string) {
	v.l.bufferLock.Lock()
	defer v.l.bufferLock.Unlock()

	v.l.buffer.Range(func(e *logEntry) (cont bool) {
		b, err := json.Marshal(e)
		if err != nil {
			b = []byte("marshal error: " + err.Error())
		}
		lines = append(lines, string(b))

		return true
	})

	return lines
}

// ConfFlags returns the live values of the toggles.
func (v *VerifC07Log) ConfFlags() (enabled, fileEnabled, anonymize bool, memSize uint) {
	v.l.confMu.RLock()
	defer v.l.confMu.RUnlock()

	return v.l.conf.Enabled, v.l.conf.FileEnabled, v.l.conf.AnonymizeClientIP, v.l.conf.MemSize
}

// DecodeRemarshal decodes a stored line with the package's streaming decoder
// and encodes the result again with encoding/json.
func (v *VerifC07Log) DecodeRemarshal(line string) string {
	e := &logEntry{}
	v.l.decodeLogEntry(context.Background(), e, line)
	b, err := json.Marshal(e)
	if err != nil {
		return "marshal error: " + err.Error()
	}

	return string(b)
}

// MatchLine parses the search criteria of rawQuery with the real parameter
// parser and reports the quick pre-match on the raw line and the full match on
// the decoded, client-enriched entry (older_than is not part of either).
func (v *VerifC07Log) MatchLine(rawQuery, line string) (quick, full bool, err error) {
	ctx := context.Background()
	r := httptest.NewRequest(http.MethodGet, "/control/querylog?"+rawQuery, nil)
	p, err := v.l.parseSearchParams(ctx, r)
	if err != nil {
		return false, false, err
	}
	p.olderThan = rtime.Time{}

	cache := clientCache{}
	finder := quickMatchClientFinder{client: v.l.client, cache: cache}
	quick = p.quickMatch(ctx, v.l.logger, line, finder.findClient)

	e := &logEntry{}
	v.l.decodeLogEntry(ctx, e, line)
	e.client, err = v.l.client(e.ClientID, e.IP.String(), cache)
	if err != nil {
		return quick, false, fmt.Errorf("finding client: %w", err)
	}
	full = p.match(e)

	return quick, full, nil
}
