//go:build verif

package querylog

// VerifC11InitWeb runs the registration of the query log HTTP API exactly as
// Start does (same nil check), without starting the rotation goroutine.
func VerifC11InitWeb(ql QueryLog) (ok bool) {
	l, ok := ql.(*queryLog)
	if !ok {
		return false
	}

	if l.conf.HTTPRegister != nil {
		l.initWeb()
	}

	return true
}
