//go:build verif

package querylog

import (
	"context"
	"log/slog"

	"github.com/AdguardTeam/golibs/errors"
)

// Constants of the build under test.
const (
	VerifMaxEntrySize = maxEntrySize
	VerifBufferSize   = bufferSize
)

var verifDiscard = slog.New(slog.DiscardHandler)

// VerifErrClass maps seek errors to the classes of the property statement.
func VerifErrClass(err error) string {
	switch {
	case err == nil:
		return ""
	case errors.Is(err, errTSTooEarly):
		return "tooearly"
	case errors.Is(err, errTSTooLate):
		return "toolate"
	case errors.Is(err, errTSNotFound):
		return "notfound"
	default:
		return "other:" + err.Error()
	}
}

// VerifQLogFile wraps qLogFile.
type VerifQLogFile struct{ q *qLogFile }

func VerifNewQLogFile(path string) (*VerifQLogFile, error) {
	q, err := newQLogFile(path)
	if err != nil {
		return nil, err
	}

	return &VerifQLogFile{q}, nil
}

func (f *VerifQLogFile) SeekStart() (int64, error) { return f.q.SeekStart() }
func (f *VerifQLogFile) ReadNext() (string, error) { return f.q.ReadNext() }
func (f *VerifQLogFile) Close() error              { return f.q.Close() }
func (f *VerifQLogFile) SeekTS(ts int64) (pos int64, depth int, err error) {
	return f.q.seekTS(context.Background(), verifDiscard, ts)
}

// VerifQLogReader wraps qLogReader.
type VerifQLogReader struct{ r *qLogReader }

func VerifNewQLogReader(files []string) (*VerifQLogReader, error) {
	r, err := newQLogReader(context.Background(), verifDiscard, files)
	if err != nil {
		return nil, err
	}

	return &VerifQLogReader{r}, nil
}

func (r *VerifQLogReader) SeekStart() error          { return r.r.SeekStart() }
func (r *VerifQLogReader) ReadNext() (string, error) { return r.r.ReadNext() }
func (r *VerifQLogReader) Close() error              { return r.r.Close() }
func (r *VerifQLogReader) SeekTS(ts int64) error     { return r.r.seekTS(context.Background(), ts) }

// SeekExact is the second half of what a seek reports at the reader level:
// whether the reader stands on a record with exactly the sought timestamp
// (a nil error with false means "newer than everything: rewound").
func (r *VerifQLogReader) SeekExact() bool { return r.r.seekExact }
