//go:build verif

package querylog

import "context"

// VerifC05Rotate runs the rotation check of the periodic rotator.
func VerifC05Rotate(ql QueryLog) { ql.(*queryLog).checkAndRotate(context.Background()) }

// VerifC05ForceRotate rotates unconditionally.
func VerifC05ForceRotate(ql QueryLog) error { return ql.(*queryLog).rotate(context.Background()) }
