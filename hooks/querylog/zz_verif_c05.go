//go:build verif

package querylog

import "context"

// VerifC05Rotate runs the rotation check of the periodic rotator.
func VerifC05Rotate(ql QueryLog) { ql.(*queryLog).checkAndRotate(context.Background()) }

// VerifC05ForceRotate rotates unconditionally.
func VerifC05ForceRotate(ql QueryLog) error { return ql.(*queryLog).rotate(context.Background()) }

// VerifC05FlushAfterFill is what happens when a recorded query fills the
// memory buffer: Add marks a flush as pending (under the buffer lock) and the
// flush goroutine it starts runs flushLogBuffer.  The buffer size is taken to
// be the current number of entries; with an empty buffer, or a flush already
// pending, Add starts nothing.
func VerifC05FlushAfterFill(ql QueryLog) {
	l := ql.(*queryLog)

	start := false
	func() {
		l.bufferLock.Lock()
		defer l.bufferLock.Unlock()

		if !l.flushPending && l.buffer.Len() > 0 {
			l.flushPending = true
			start = true
		}
	}()

	if start {
		_ = l.flushLogBuffer(context.Background())
	}
}
