//go:build verif

package querylog

import "context"

// VerifC08InitWeb registers the HTTP handlers without starting the rotation
// goroutine.
func VerifC08InitWeb(ql QueryLog) { ql.(*queryLog).initWeb() }

// VerifC08Flush writes the memory buffer to the file.
func VerifC08Flush(ql QueryLog) error {
	return ql.(*queryLog).flushLogBuffer(context.Background())
}

// VerifC08Clear empties the log (memory and files).
func VerifC08Clear(ql QueryLog) { ql.(*queryLog).clear(context.Background()) }
