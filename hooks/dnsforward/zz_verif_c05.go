//go:build verif

package dnsforward

// VerifResetWeb lets a fresh server register its HTTP handlers again (the
// package keeps a process-wide "already registered" flag).
func VerifResetWeb() { webRegistered = false }

// VerifEnableProtectionAfterPause runs the body of the protection re-enable
// goroutine.
func (s *Server) VerifEnableProtectionAfterPause() { s.enableProtectionAfterPause() }
