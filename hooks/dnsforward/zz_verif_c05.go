//go:build verif

package dnsforward

// VerifResetWeb lets a fresh server register its HTTP handlers again (the
// package keeps a process-wide "already registered" flag).
func VerifResetWeb() { webRegistered = false }

// VerifEnableProtectionAfterPause runs the body of the protection re-enable
// goroutine.
func (s *Server) VerifEnableProtectionAfterPause() { s.enableProtectionAfterPause() }

// VerifClaimProtectionUpdate does what the request that notices an expired
// pause does before it starts the re-enable goroutine: it claims the update, so
// that no other request starts a second one.  ok is false if it was claimed.
func (s *Server) VerifClaimProtectionUpdate() (ok bool) {
	return s.protectionUpdateInProgress.CompareAndSwap(false, true)
}

// VerifProtectionUpdateIdle reports whether no protection re-enable worker is
// running.
func (s *Server) VerifProtectionUpdateIdle() (idle bool) {
	return !s.protectionUpdateInProgress.Load()
}
