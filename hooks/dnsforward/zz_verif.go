//go:build verif

package dnsforward

import (
	"crypto/tls"
	"net"
	"net/http"
	"net/netip"

	"github.com/AdguardTeam/AdGuardHome/internal/aghnet"
	"github.com/AdguardTeam/AdGuardHome/internal/filtering"
	"github.com/AdguardTeam/AdGuardHome/internal/querylog"
	"github.com/AdguardTeam/AdGuardHome/internal/stats"
	"github.com/AdguardTeam/dnsproxy/proxy"
	"github.com/AdguardTeam/dnsproxy/upstream"
	"github.com/AdguardTeam/golibs/logutil/slogutil"
	"github.com/AdguardTeam/golibs/netutil"
	"github.com/miekg/dns"
	"github.com/quic-go/quic-go"
)

// VerifTLSConn is a net.Conn reporting a TLS server name.
type VerifTLSConn struct {
	net.Conn
	ServerName string
}

func (c VerifTLSConn) ConnectionState() (cs tls.ConnectionState) {
	cs.ServerName = c.ServerName

	return cs
}

// VerifQUICConn is a quic.Connection reporting a TLS server name.
type VerifQUICConn struct {
	quic.Connection
	ServerName string
}

func (c VerifQUICConn) ConnectionState() (cs quic.ConnectionState) {
	cs.TLS.ServerName = c.ServerName

	return cs
}

// VerifBareServer returns a server that only carries the TLS configuration,
// enough for ClientID extraction.
func VerifBareServer(serverName string, strict bool) (s *Server) {
	return &Server{
		conf:       ServerConfig{TLSConf: &TLSConfig{ServerName: serverName, StrictSNICheck: strict}},
		baseLogger: slogutil.NewDiscardLogger(),
	}
}

// VerifClientID exposes clientIDFromDNSContext.
func (s *Server) VerifClientID(pctx *proxy.DNSContext) (id string, err error) {
	return s.clientIDFromDNSContext(pctx)
}

// VerifServerParams describes a full server assembly.
type VerifServerParams struct {
	Filter     *filtering.DNSFilter
	Stats      stats.Interface
	QueryLog   querylog.QueryLog
	DHCP       DHCP
	Anonymizer *aghnet.IPMut
	Conf       ServerConfig
	// Upstream answers every forwarded query.
	Upstream upstream.Upstream
}

// VerifDHCP is a scripted DHCP view.
type VerifDHCP struct {
	On     bool
	Hosts  map[string]string // ip -> host
	ByHost func(host string) (ip string)
}

// VerifNewServer builds a real server the way the package tests do, without
// starting listeners.
func VerifNewServer(p *VerifServerParams) (s *Server, err error) {
	dhcp := p.DHCP
	if dhcp == nil {
		dhcp = verifNoDHCP{}
	}

	s, err = NewServer(DNSCreateParams{
		DHCPServer:  dhcp,
		DNSFilter:   p.Filter,
		Stats:       p.Stats,
		QueryLog:    p.QueryLog,
		Anonymizer:  p.Anonymizer,
		PrivateNets: netutil.SubnetSetFunc(netutil.IsLocallyServed),
		Logger:      slogutil.NewDiscardLogger(),
	})
	if err != nil {
		return nil, err
	}

	conf := p.Conf
	if conf.TLSConf == nil {
		conf.TLSConf = &TLSConfig{}
	}
	if conf.ClientsContainer == nil {
		conf.ClientsContainer = EmptyClientsContainer{}
	}
	if conf.UpstreamDNS == nil {
		conf.UpstreamDNS = []string{"8.8.8.8:53"}
	}
	if conf.UpstreamMode == "" {
		conf.UpstreamMode = UpstreamModeLoadBalance
	}
	if conf.UDPListenAddrs == nil {
		conf.UDPListenAddrs = []*net.UDPAddr{{}}
		conf.TCPListenAddrs = []*net.TCPAddr{{}}
	}

	err = s.Prepare(&conf)
	if err != nil {
		return nil, err
	}

	if p.Upstream != nil {
		s.conf.UpstreamConfig.Upstreams = []upstream.Upstream{p.Upstream}
	}

	return s, nil
}

type verifNoDHCP struct{}

func (verifNoDHCP) HostByIP(ip netip.Addr) (host string) { return "" }
func (verifNoDHCP) IPByHost(host string) (ip netip.Addr) { return netip.Addr{} }
func (verifNoDHCP) Enabled() (ok bool)                    { return false }

// VerifHandle runs the pre-request hook and, if it admits the request, the
// request handler, as the proxy does.
func (s *Server) VerifHandle(pctx *proxy.DNSContext) (beforeErr, err error) {
	beforeErr = s.HandleBefore(nil, pctx)
	if beforeErr != nil {
		return beforeErr, nil
	}

	return nil, s.handleDNSRequest(nil, pctx)
}

// VerifHandleRequest runs only the request handler.
func (s *Server) VerifHandleRequest(pctx *proxy.DNSContext) (err error) {
	return s.handleDNSRequest(nil, pctx)
}

// VerifSetUpstream replaces the upstream of a prepared server.
func (s *Server) VerifSetUpstream(u upstream.Upstream) {
	s.conf.UpstreamConfig.Upstreams = []upstream.Upstream{u}
}

// VerifProxyAddr returns the bound address of a started server.
func (s *Server) VerifProxyAddr(proto proxy.Proto) net.Addr {
	return s.dnsProxy.Addr(proto)
}

// VerifNewContext creates the request context exactly as the listeners of the
// server's current proxy do (numbered by that proxy's request counter).
func (s *Server) VerifNewContext(proto proxy.Proto, req *dns.Msg, addr netip.AddrPort) (pctx *proxy.DNSContext) {
	return s.proxy().VerifNewDNSContext(proto, req, addr)
}

// VerifClearCache empties the proxy's answer cache.
func (s *Server) VerifClearCache() { s.proxy().ClearCache() }

// VerifAccessSet is the handler of POST /control/access/set.
func (s *Server) VerifAccessSet(w http.ResponseWriter, r *http.Request) { s.handleAccessSet(w, r) }

// VerifProxy returns the server's current proxy instance.
func (s *Server) VerifProxy() (p *proxy.Proxy) { return s.proxy() }

// VerifHandleVia is VerifHandle for a request received by the proxy instance p
// (the current one or, for a connection accepted before a reconfiguration, a
// previous one): the proxy passes itself to both callbacks.
func (s *Server) VerifHandleVia(p *proxy.Proxy, pctx *proxy.DNSContext) (beforeErr, err error) {
	beforeErr = s.HandleBefore(p, pctx)
	if beforeErr != nil {
		return beforeErr, nil
	}

	return nil, s.handleDNSRequest(p, pctx)
}
