//go:build verif && (darwin || freebsd || linux || openbsd)

package dhcpd

// Verification hooks for property C10 (DHCPv4 lease table).  Add-only: the
// helpers below construct the real server through Create (so the real
// onNotify -> dbStore and dbLoad paths are wired), feed packets to the real
// v4Server.handle the way packetHandler does, and dump the unexported lease
// table.  Nothing here changes the behaviour of existing functions.

import (
	"fmt"
	"github.com/AdguardTeam/AdGuardHome/internal/aghhttp"
	"net"
	"net/netip"
	"sort"
	"time"

	"github.com/AdguardTeam/AdGuardHome/internal/dhcpsvc"
	"github.com/insomniacslk/dhcp/dhcpv4"
)

// VerifC10Server is a real *server (both families, HTTP handlers not
// registered) together with its *v4Server.
type VerifC10Server struct {
	srv *server
	s4  *v4Server
}

// VerifC10Conf is the DHCPv4 configuration of a VerifC10Server.
type VerifC10Conf struct {
	DataDir    string
	Gateway    netip.Addr
	Mask       netip.Addr
	RangeStart netip.Addr
	RangeEnd   netip.Addr
	// Self is the address of the server on the interface; in production it
	// is found by Start and becomes the server identifier.
	Self     netip.Addr
	LeaseSec uint32
	// Disabled: the v4 section is valid but DHCP is switched off.
	Disabled bool
	// HTTPRegister, when set, receives the real HTTP handlers of the server
	// (then ConfigModified is what the handlers call after a change).
	HTTPRegister   aghhttp.RegisterFunc
	ConfigModified func()
}

// VerifC10New runs the real Create on cf.DataDir: v4Create with
// notify = server.onNotify, v6Create, migrateDB, dbLoad.  ICMP probing is off.
func VerifC10New(cf VerifC10Conf) (vs *VerifC10Server, err error) {
	srv, err := Create(&ServerConfig{
		Enabled: !cf.Disabled,
		WorkDir: cf.DataDir,
		DataDir: cf.DataDir,

		HTTPRegister:   cf.HTTPRegister,
		ConfigModified: cf.ConfigModified,

		Conf4: V4ServerConf{
			GatewayIP:     cf.Gateway,
			SubnetMask:    cf.Mask,
			RangeStart:    cf.RangeStart,
			RangeEnd:      cf.RangeEnd,
			LeaseDuration: cf.LeaseSec,
			ICMPTimeout:   0,
		},
	})
	if err != nil {
		return nil, err
	}

	s4, ok := srv.srv4.(*v4Server)
	if !ok || s4.conf == nil {
		return nil, fmt.Errorf("verif: srv4 is %T (conf missing)", srv.srv4)
	}

	// What Start does once the interface addresses are known.
	s4.configureDNSIPAddrs([]net.IP{net.IP(cf.Self.AsSlice())})

	return &VerifC10Server{srv: srv, s4: s4}, nil
}

// Handle does what packetHandler does between receiving and sending: build
// the reply skeleton, run the real handle, turn rCode 0 into a NAK.  rCode < 0
// means the packet is dropped (resp is then meaningless).
func (vs *VerifC10Server) Handle(req *dhcpv4.DHCPv4) (rCode int, resp *dhcpv4.DHCPv4, err error) {
	resp, err = dhcpv4.NewReplyFromRequest(req)
	if err != nil {
		return -2, nil, err
	}

	rCode = vs.s4.handle(req, resp)
	if rCode == 0 {
		resp.Options.Update(dhcpv4.OptMessageType(dhcpv4.MessageTypeNak))
	}

	return rCode, resp, nil
}

func verifC10Lease(mac net.HardwareAddr, ip netip.Addr, host string) (l *dhcpsvc.Lease) {
	// Same construction as leaseStatic.toLease in http_unix.go.
	return &dhcpsvc.Lease{
		HWAddr:   append(net.HardwareAddr(nil), mac...),
		IP:       ip,
		Hostname: host,
		IsStatic: true,
	}
}

// AddStatic is what POST /control/dhcp/add_static_lease ends in.
func (vs *VerifC10Server) AddStatic(mac net.HardwareAddr, ip netip.Addr, host string) (err error) {
	return vs.srv.srv4.AddStaticLease(verifC10Lease(mac, ip, host))
}

// UpdateStatic is what POST /control/dhcp/update_static_lease ends in.
func (vs *VerifC10Server) UpdateStatic(mac net.HardwareAddr, ip netip.Addr, host string) (err error) {
	return vs.srv.srv4.UpdateStaticLease(verifC10Lease(mac, ip, host))
}

// RemoveStatic is what POST /control/dhcp/remove_static_lease ends in.
func (vs *VerifC10Server) RemoveStatic(mac net.HardwareAddr, ip netip.Addr, host string) (err error) {
	return vs.srv.srv4.RemoveStaticLease(verifC10Lease(mac, ip, host))
}

// Iface returns the server as package home hands it to the DNS server and to
// the clients registry.
func (vs *VerifC10Server) Iface() (i Interface) { return vs.srv }

// ResetLeases is what POST /control/dhcp/reset_leases ends in.
func (vs *VerifC10Server) ResetLeases() (err error) { return vs.srv.resetLeases() }

// HostByIP, IPByHost, MACByIP and Leases are the answers given to DNS and
// the clients registry, through the real [Interface] methods of *server.
func (vs *VerifC10Server) HostByIP(ip netip.Addr) (host string) { return vs.srv.HostByIP(ip) }

// IPByHost: see HostByIP.
func (vs *VerifC10Server) IPByHost(host string) (ip netip.Addr) { return vs.srv.IPByHost(host) }

// MACByIP: see HostByIP.
func (vs *VerifC10Server) MACByIP(ip netip.Addr) (mac net.HardwareAddr) { return vs.srv.MACByIP(ip) }

// Leases returns GetLeases(LeasesAll) of the v4 server.
func (vs *VerifC10Server) Leases() (ls []*dhcpsvc.Lease) { return vs.s4.GetLeases(LeasesAll) }

// DBPath returns the path of leases.json.
func (vs *VerifC10Server) DBPath() (p string) { return vs.srv.conf.dbFilePath }

// VerifC10Lease is one lease record.  ID identifies the *dhcpsvc.Lease
// pointer: records that are the same pointer have the same ID.
type VerifC10Lease struct {
	ID     int
	MAC    string
	IP     netip.Addr
	Host   string
	Static bool
	Expiry time.Time
}

// VerifC10Dump is the lease table: the list in order, both indexes (sorted by
// key) and the set bits of the pool bitset (sorted).
type VerifC10Dump struct {
	Leases []VerifC10Lease
	// HostKeys[i] -> HostVals[i]; the value's ID is -1 when the indexed pointer
	// is not in the list.
	HostKeys []string
	HostVals []VerifC10Lease
	IPKeys   []netip.Addr
	IPVals   []VerifC10Lease
	Bits     []uint64
}

// Dump copies the lease table under leasesLock.
func (vs *VerifC10Server) Dump() (d VerifC10Dump) {
	s := vs.s4

	s.leasesLock.Lock()
	defer s.leasesLock.Unlock()

	ids := map[*dhcpsvc.Lease]int{}
	conv := func(l *dhcpsvc.Lease) (v VerifC10Lease) {
		if l == nil {
			return VerifC10Lease{ID: -2}
		}

		id, ok := ids[l]
		if !ok {
			id = -1
		}

		return VerifC10Lease{
			ID:     id,
			MAC:    l.HWAddr.String(),
			IP:     l.IP,
			Host:   l.Hostname,
			Static: l.IsStatic,
			Expiry: l.Expiry,
		}
	}

	for _, l := range s.leases {
		if _, ok := ids[l]; !ok && l != nil {
			ids[l] = len(ids)
		}
	}
	for _, l := range s.leases {
		d.Leases = append(d.Leases, conv(l))
	}

	for h := range s.hostsIndex {
		d.HostKeys = append(d.HostKeys, h)
	}
	sort.Strings(d.HostKeys)
	for _, h := range d.HostKeys {
		d.HostVals = append(d.HostVals, conv(s.hostsIndex[h]))
	}

	for ip := range s.ipIndex {
		d.IPKeys = append(d.IPKeys, ip)
	}
	sort.Slice(d.IPKeys, func(i, j int) bool { return d.IPKeys[i].Less(d.IPKeys[j]) })
	for _, ip := range d.IPKeys {
		d.IPVals = append(d.IPVals, conv(s.ipIndex[ip]))
	}

	if s.leasedOffsets != nil {
		for w, word := range s.leasedOffsets.words {
			for b := uint64(0); b < bitsPerWord; b++ {
				if word&(1<<b) != 0 {
					d.Bits = append(d.Bits, w*bitsPerWord+b)
				}
			}
		}
		sort.Slice(d.Bits, func(i, j int) bool { return d.Bits[i] < d.Bits[j] })
	}

	return d
}
