//go:build verif && (darwin || freebsd || linux || openbsd)

package dhcpd

// Verification driver for property C14 (atomic replacement of the lease
// database).  Add-only: it builds the real server through Create (so notify =
// server.onNotify is wired), puts synthetic leases into the v4 lease table and
// triggers the real onNotify(LeaseChangedDBStore) -> dbStore -> writeDB path.

import (
	"fmt"
	"net"
	"net/netip"
	"time"

	"github.com/AdguardTeam/AdGuardHome/internal/dhcpsvc"
)

// VerifC14Server is a real *server with its *v4Server.
type VerifC14Server struct {
	srv *server
	s4  *v4Server
}

// VerifC14New runs the real Create on dataDir (migrateDB and dbLoad included).
func VerifC14New(dataDir string) (vs *VerifC14Server, err error) {
	srv, err := Create(&ServerConfig{
		Enabled: true,
		WorkDir: dataDir,
		DataDir: dataDir,
		Conf4: V4ServerConf{
			GatewayIP:     netip.MustParseAddr("10.0.0.1"),
			SubnetMask:    netip.MustParseAddr("255.0.0.0"),
			RangeStart:    netip.MustParseAddr("10.0.0.2"),
			RangeEnd:      netip.MustParseAddr("10.255.255.254"),
			LeaseDuration: 3600,
		},
	})
	if err != nil {
		return nil, err
	}

	s4, ok := srv.srv4.(*v4Server)
	if !ok || s4.conf == nil {
		return nil, fmt.Errorf("verif: srv4 is %T (conf missing)", srv.srv4)
	}

	return &VerifC14Server{srv: srv, s4: s4}, nil
}

// DBPath returns the path of the lease database.
func (vs *VerifC14Server) DBPath() (p string) { return vs.srv.conf.dbFilePath }

// SetLeases replaces the in-memory v4 lease table by n synthetic dynamic
// leases whose host names start with tag; the last host name is extended by pad
// characters.  Only the slice dbStore reads is set; the indexes are not needed
// for storing.
func (vs *VerifC14Server) SetLeases(tag string, n, pad int) {
	exp := time.Date(2031, 2, 3, 4, 5, 6, 0, time.UTC)
	leases := make([]*dhcpsvc.Lease, 0, n)
	for i := 0; i < n; i++ {
		host := fmt.Sprintf("%s-h%07d", tag, i)
		if i == n-1 {
			b := make([]byte, pad)
			for j := range b {
				b[j] = 'p'
			}
			host += string(b)
		}
		ip := netip.AddrFrom4([4]byte{10, byte(i >> 16), byte(i >> 8), byte(i)})
		mac := net.HardwareAddr{0x02, 0, byte(i >> 24), byte(i >> 16), byte(i >> 8), byte(i)}
		leases = append(leases, &dhcpsvc.Lease{Expiry: exp, IP: ip, Hostname: host, HWAddr: mac})
	}

	vs.s4.leasesLock.Lock()
	defer vs.s4.leasesLock.Unlock()

	vs.s4.leases = leases
}

// EncodedSize returns the size of the document dbStore would write now.
func (vs *VerifC14Server) EncodedSize() (n int) {
	n = len(`{"version":1,"leases":[]}`)
	for i, l := range vs.s4.getLeasesRef() {
		dl := fromLease(l)
		// All fields are plain ASCII without characters JSON escapes.
		n += len(`{"expires":"","ip":"","hostname":"","mac":"","static":false}`) +
			len(dl.Expiry) + len(dl.IP.String()) + len(dl.Hostname) + len(dl.HWAddr)
		if i > 0 {
			n++
		}
	}

	return n
}

// Store is what every lease change does: the real onNotify with
// LeaseChangedDBStore, i.e. dbStore -> writeDB.  onNotify only logs a failure,
// so the error of a direct second look is not available; the caller checks
// the file.
func (vs *VerifC14Server) Store() {
	vs.srv.onNotify(LeaseChangedDBStore)
}

// StoreErr is dbStore itself, which onNotify(LeaseChangedDBStore) calls and
// whose error it only logs.
func (vs *VerifC14Server) StoreErr() (err error) {
	return vs.srv.dbStore()
}
