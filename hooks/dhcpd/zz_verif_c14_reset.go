//go:build verif && (darwin || freebsd || linux || openbsd)

package dhcpd

// Verification driver for property C14, second part: the other operation that
// stores the lease database.  Add-only.

// Reset is what POST /control/dhcp/reset_leases runs after decoding the
// request: the real (*server).resetLeases, which drops every lease and stores
// the database.
func (vs *VerifC14Server) Reset() (err error) {
	return vs.srv.resetLeases()
}
