//go:build verif

package home

import (
	"context"
	"encoding/hex"
	"errors"
	"fmt"
	"net/http"
	"net/netip"
	"net/url"
	"os"
	"path/filepath"
	"reflect"
	"runtime"
	"runtime/debug"
	"sort"
	"testing/fstest"
	"time"

	"github.com/AdguardTeam/AdGuardHome/internal/aghhttp"
	"github.com/AdguardTeam/AdGuardHome/internal/aghnet"
	"github.com/AdguardTeam/AdGuardHome/internal/dhcpd"
	"github.com/AdguardTeam/AdGuardHome/internal/filtering"
	"github.com/AdguardTeam/AdGuardHome/internal/querylog"
	"github.com/AdguardTeam/AdGuardHome/internal/stats"
	"github.com/AdguardTeam/AdGuardHome/internal/updater"
	"github.com/AdguardTeam/golibs/logutil/slogutil"
	"go.etcd.io/bbolt"
	"golang.org/x/crypto/bcrypt"
)

// Verification driver for property C11 (every admin endpoint requires
// authentication).  It assembles the package-level state in the order of the
// real start-up sequence (run, initContextClients, initUsers, initWeb,
// initDNS, startDNSServer; or the first-run sequence ending in
// handleInstallConfigure) and runs the real registration code on the real
// mux.  The only substitution: the handlers that other packages pass INTO the
// registration callback are replaced by a probe before they reach the real
// httpRegister, so that the real wrapper chain is exercised and the real
// side-effecting handler is not.

// VerifC11User and VerifC11Password are the credentials of the only user.
const (
	VerifC11User     = "admin"
	VerifC11Password = "right-password"
)

// VerifC11Reg is one registration made through the callback.
type VerifC11Reg struct {
	Pkg     string `json:"pkg"`
	Method  string `json:"method"`
	Pattern string `json:"pattern"`
}

// VerifC11Info describes the assembled instance.
type VerifC11Info struct {
	Mode     string
	Regs     []VerifC11Reg
	Steps    []string
	ConfPath string
	WorkDir  string
	DataDir  string
}

var verifC11 struct {
	regs    []VerifC11Reg
	ran     []string
	handler http.Handler
	steps   []string
}

// verifC11Register returns the registration callback handed to package pkg:
// the real httpRegister around a probe.
func verifC11Register(pkg string) (f aghhttp.RegisterFunc) {
	return func(method, pattern string, _ http.HandlerFunc) {
		verifC11.regs = append(verifC11.regs, VerifC11Reg{Pkg: pkg, Method: method, Pattern: pattern})
		key := pkg + " " + method + " " + pattern
		httpRegister(method, pattern, func(w http.ResponseWriter, _ *http.Request) {
			verifC11.ran = append(verifC11.ran, key)
			w.Header().Set("X-Verif-Probe", key)
			w.WriteHeader(http.StatusOK)
		})
	}
}

func verifC11Step(format string, args ...any) {
	verifC11.steps = append(verifC11.steps, fmt.Sprintf(format, args...))
}

// VerifC11Setup assembles the instance in dir.  mode "boot" follows run() with
// a configured user; mode "install" follows the first-run sequence: everything
// up to the web module is created while no user exists and firstRun is true,
// then the steps of handleInstallConfigure follow (user added, modules
// started, control handlers registered).  It must be called once per process.
// ErrVerifC11StartRefused: the start-up sequence stops with a fatal error.
var ErrVerifC11StartRefused = errors.New("start-up refused")

func VerifC11Setup(dir, mode string) (info *VerifC11Info, err error) {
	defer func() {
		if r := recover(); r != nil {
			err = fmt.Errorf("panic during set-up: %v\n%s", r, debug.Stack())
		}
	}()

	// "boot-broken-sessions": as "boot", but the session store cannot be
	// opened (a directory sits in its place).
	brokenSessions := mode == "boot-broken-sessions"
	if brokenSessions {
		mode = "boot"
	}

	// "boot-plain-hash": as "boot", but the stored password of the user is not
	// a bcrypt hash (the password itself, as a hand-edited file may hold it).
	plainHash := mode == "boot-plain-hash"
	if plainHash {
		mode = "boot"
	}

	if mode != "boot" && mode != "install" {
		return nil, fmt.Errorf("bad mode %q", mode)
	}

	install := mode == "install"
	ctx := context.Background()
	logger := slogutil.NewDiscardLogger()

	hash, err := bcrypt.GenerateFromPassword([]byte(VerifC11Password), bcrypt.MinCost)
	if err != nil {
		return nil, err
	}

	user := webUser{Name: VerifC11User, PasswordHash: string(hash)}
	if plainHash {
		user.PasswordHash = VerifC11Password
	}

	// setupContext.
	globalContext.workDir = dir
	globalContext.confFilePath = filepath.Join(dir, "AdGuardHome.yaml")
	globalContext.firstRun = install
	globalContext.mux = http.NewServeMux()
	verifC11Step("mux created, firstRun=%v", install)

	config.AuthAttempts = 0
	config.DNS.BindHosts = []netip.Addr{netip.MustParseAddr("127.0.0.1")}
	config.DNS.Port = 5354
	config.DNS.UpstreamDNS = []string{"8.8.8.8:53"}
	config.DNS.BootstrapDNS = []string{"8.8.8.8:53"}
	config.DNS.UsePrivateRDNS = false
	config.Clients.Sources.RDNS = false
	config.Clients.Sources.WHOIS = false
	config.Clients.Sources.ARP = false
	config.Clients.Sources.HostsFile = false
	if !install {
		config.Users = []webUser{user}
	}

	filtering.InitModule()

	// initContextClients: the DHCP routes are registered before the
	// authentication module exists.
	config.DHCP.WorkDir = globalContext.workDir
	config.DHCP.DataDir = globalContext.getDataDir()
	config.DHCP.HTTPRegister = verifC11Register("dhcpd")
	config.DHCP.ConfigModified = onConfigModified

	dhcpSrv, err := dhcpd.Create(config.DHCP)
	if err != nil {
		return nil, fmt.Errorf("dhcpd.Create: %w", err)
	}

	globalContext.dhcpServer = dhcpSrv
	verifC11Step("dhcpd.Create (auth module present: %v)", globalContext.auth != nil)

	sigHdlr := newSignalHandler(make(chan os.Signal, 1), func(_ context.Context) {})
	err = globalContext.clients.Init(
		ctx,
		logger,
		config.Clients.Persistent,
		globalContext.dhcpServer,
		nil,
		nil,
		config.Filtering,
		sigHdlr,
	)
	if err != nil {
		return nil, fmt.Errorf("clients.Init: %w", err)
	}

	tlsMgr, err := newTLSManager(ctx, &tlsManagerConfig{
		logger:         logger,
		configModified: onConfigModified,
		tlsSettings:    config.TLS,
		servePlainDNS:  config.DNS.ServePlainDNS,
	})
	if err != nil {
		return nil, fmt.Errorf("newTLSManager: %w", err)
	}

	globalContext.tls = tlsMgr

	err = setupDNSFilteringConf(ctx, logger, config.Filtering, tlsMgr)
	if err != nil {
		return nil, fmt.Errorf("setupDNSFilteringConf: %w", err)
	}

	config.Filtering.HTTPRegister = verifC11Register("filtering")

	upd := updater.NewUpdater(&updater.Config{
		Client:          config.Filtering.HTTPClient,
		Version:         "v0.0.0",
		Channel:         "release",
		GOARCH:          runtime.GOARCH,
		GOOS:            runtime.GOOS,
		WorkDir:         dir,
		ConfName:        globalContext.confFilePath,
		ExecPath:        filepath.Join(dir, "AdGuardHome"),
		VersionCheckURL: &url.URL{Scheme: "http", Host: "127.0.0.1:1", Path: "/version.json"},
	})

	dataDir := globalContext.getDataDir()
	err = os.MkdirAll(dataDir, 0o755)
	if err != nil {
		return nil, err
	}

	GLMode = false

	if brokenSessions {
		err = os.MkdirAll(filepath.Join(dataDir, "sessions.db"), 0o755)
		if err != nil {
			return nil, err
		}
	}

	// Init auth module.  run() treats an error as fatal and otherwise goes on
	// with whatever initUsers returned.
	globalContext.auth, err = initUsers()
	if err != nil {
		return nil, fmt.Errorf("%w: initUsers: %w", ErrVerifC11StartRefused, err)
	}

	if globalContext.auth != nil {
		verifC11Step("initUsers (users: %d)", len(globalContext.auth.usersList()))
	} else {
		verifC11Step("initUsers returned no auth module and no error")
	}

	clientFS := fstest.MapFS{
		"build/static/index.html":    {Data: []byte("<html>dashboard</html>")},
		"build/static/login.html":    {Data: []byte("<html>login</html>")},
		"build/static/install.html":  {Data: []byte("<html>install</html>")},
		"build/static/assets/app.js": {Data: []byte("// asset")},
		"build/static/secret.txt":    {Data: []byte("not an asset")},
	}

	web, err := initWeb(ctx, options{disableUpdate: true}, clientFS, upd, logger, tlsMgr, false)
	if err != nil {
		return nil, fmt.Errorf("initWeb: %w", err)
	}

	globalContext.web = web
	tlsMgr.setWebAPI(web)
	sigHdlr.addTLSManager(tlsMgr)
	verifC11Step("initWeb (firstRun=%v)", globalContext.firstRun)

	if install {
		// handleInstallConfigure.
		globalContext.firstRun = false
		a := globalContext.auth
		a.lock.Lock()
		a.users = append(a.users, user)
		a.lock.Unlock()
		verifC11Step("install: firstRun=false, user added")
	}

	// initDNS / startMods.
	statsDir, querylogDir, err := checkStatsAndQuerylogDirs(&globalContext, config)
	if err != nil {
		return nil, err
	}

	anonymizer := config.anonymizer()

	statsConf := stats.Config{
		Logger:            logger,
		Filename:          filepath.Join(statsDir, "stats.db"),
		Limit:             time.Duration(config.Stats.Interval),
		ConfigModified:    onConfigModified,
		HTTPRegister:      verifC11Register("stats"),
		Enabled:           config.Stats.Enabled,
		ShouldCountClient: globalContext.clients.shouldCountClient,
	}

	statsConf.Ignored, err = aghnet.NewIgnoreEngine(config.Stats.Ignored)
	if err != nil {
		return nil, err
	}

	statsCtx, err := stats.New(statsConf)
	if err != nil {
		return nil, fmt.Errorf("stats.New: %w", err)
	}

	globalContext.stats = statsCtx

	qlConf := querylog.Config{
		Logger:            logger,
		Anonymizer:        anonymizer,
		ConfigModified:    onConfigModified,
		HTTPRegister:      verifC11Register("querylog"),
		FindClient:        globalContext.clients.findMultiple,
		BaseDir:           querylogDir,
		AnonymizeClientIP: config.DNS.AnonymizeClientIP,
		RotationIvl:       time.Duration(config.QueryLog.Interval),
		MemSize:           config.QueryLog.MemSize,
		Enabled:           config.QueryLog.Enabled,
		FileEnabled:       config.QueryLog.FileEnabled,
	}

	qlConf.Ignored, err = aghnet.NewIgnoreEngine(config.QueryLog.Ignored)
	if err != nil {
		return nil, err
	}

	globalContext.queryLog, err = querylog.New(qlConf)
	if err != nil {
		return nil, fmt.Errorf("querylog.New: %w", err)
	}

	globalContext.filters, err = filtering.New(config.Filtering, nil)
	if err != nil {
		return nil, fmt.Errorf("filtering.New: %w", err)
	}

	// The real initDNSServer; Prepare registers the dnsforward routes.
	err = initDNSServer(
		globalContext.filters,
		globalContext.stats,
		globalContext.queryLog,
		globalContext.dhcpServer,
		anonymizer,
		verifC11Register("dnsforward"),
		tlsMgr.config(),
		tlsMgr,
		logger,
	)
	if err != nil {
		return nil, fmt.Errorf("initDNSServer: %w", err)
	}

	verifC11Step("initDNS: dnsforward routes registered")

	tlsMgr.start(ctx)
	verifC11Step("tlsManager.start")

	// startDNSServer without the goroutines of the Start methods.
	if !webHandlersRegistered {
		webHandlersRegistered = true
		globalContext.clients.registerWebHandlers()
	}

	globalContext.filters.RegisterFilteringHandlers()
	statsCtx.VerifC11InitWeb()
	if !querylog.VerifC11InitWeb(globalContext.queryLog) {
		return nil, fmt.Errorf("query log of unexpected type %T", globalContext.queryLog)
	}

	verifC11Step("startDNSServer: clients, filtering, stats, querylog routes registered")

	err = config.write(tlsMgr)
	if err != nil {
		return nil, fmt.Errorf("config.write: %w", err)
	}

	if install {
		web.conf.firstRun = false
		registerControlHandlers(web)
		verifC11Step("install: registerControlHandlers")
	}

	// The handler of the plain HTTP server without the logging and h2c layers.
	verifC11.handler = withMiddlewares(globalContext.mux, limitRequestBody)

	return &VerifC11Info{
		Mode:     mode,
		Regs:     append([]VerifC11Reg(nil), verifC11.regs...),
		Steps:    append([]string(nil), verifC11.steps...),
		ConfPath: globalContext.confFilePath,
		WorkDir:  dir,
		DataDir:  dataDir,
	}, nil
}

// VerifC11AddSession stores a session through the real addSession.
func VerifC11AddSession(tokenHex, userName string, expire uint32) (err error) {
	key, err := hex.DecodeString(tokenHex)
	if err != nil {
		return err
	}

	globalContext.auth.addSession(key, &session{userName: userName, expire: expire})

	return nil
}

// VerifC11Session is one session, in memory or in the file.
type VerifC11Session struct {
	Token  string
	User   string
	Expire uint32
}

// VerifC11Sessions returns the in-memory session table and the content of
// the session file, sorted.  Read-only.
func VerifC11Sessions() (mem, db []VerifC11Session, err error) {
	a := globalContext.auth
	a.lock.Lock()
	for k, s := range a.sessions {
		mem = append(mem, VerifC11Session{Token: k, User: s.userName, Expire: s.expire})
	}
	a.lock.Unlock()
	sort.Slice(mem, func(i, j int) bool { return mem[i].Token < mem[j].Token })

	err = a.db.View(func(tx *bbolt.Tx) error {
		bkt := tx.Bucket(bucketName())
		if bkt == nil {
			return nil
		}

		return bkt.ForEach(func(k, v []byte) error {
			s := session{}
			if !s.deserialize(v) {
				db = append(db, VerifC11Session{Token: hex.EncodeToString(k), User: "?undecodable"})

				return nil
			}

			db = append(db, VerifC11Session{Token: hex.EncodeToString(k), User: s.userName, Expire: s.expire})

			return nil
		})
	})
	sort.Slice(db, func(i, j int) bool { return db[i].Token < db[j].Token })

	return mem, db, err
}

// VerifC11Users returns the names of the configured users.
func VerifC11Users() (names []string) {
	for _, u := range globalContext.auth.usersList() {
		names = append(names, u.Name)
	}

	return names
}

// VerifC11Serve passes the request to the handler of the plain HTTP server
// (request body limit middleware around the mux) and returns the probes that
// ran.  A panic of the code under test is returned as text.
func VerifC11Serve(w http.ResponseWriter, r *http.Request) (ran []string, panicked string) {
	verifC11.ran = verifC11.ran[:0]
	defer func() {
		if p := recover(); p != nil {
			panicked = fmt.Sprintf("%v\n%s", p, debug.Stack())
		}

		ran = append([]string(nil), verifC11.ran...)
	}()

	verifC11.handler.ServeHTTP(w, r)

	return nil, ""
}

// VerifC11Match returns the pattern the mux selects for r.
func VerifC11Match(r *http.Request) (pattern string) {
	_, pattern = globalContext.mux.Handler(r)

	return pattern
}

// VerifC11SessionCookieName is the name of the session cookie.
const VerifC11SessionCookieName = sessionCookieName

// VerifC11MuxPatterns lists the patterns of the real mux by reflection over
// its routing index (net/http of go1.22..go1.24: ServeMux.index with the
// fields segments map[routingIndexKey][]*pattern and multis []*pattern; a
// pattern has the field str).  A layout change is reported as an error.
func VerifC11MuxPatterns() (patterns []string, err error) {
	defer func() {
		if r := recover(); r != nil {
			err = fmt.Errorf("reflection over ServeMux failed: %v", r)
		}
	}()

	set := map[string]struct{}{}
	add := func(list reflect.Value) {
		for i := 0; i < list.Len(); i++ {
			p := list.Index(i)
			if p.Kind() == reflect.Pointer {
				p = p.Elem()
			}

			set[p.FieldByName("str").String()] = struct{}{}
		}
	}

	idx := reflect.ValueOf(globalContext.mux).Elem().FieldByName("index")
	if !idx.IsValid() {
		return nil, fmt.Errorf("ServeMux has no field index")
	}

	segs, multis := idx.FieldByName("segments"), idx.FieldByName("multis")
	if !segs.IsValid() || !multis.IsValid() {
		return nil, fmt.Errorf("routingIndex has no fields segments/multis")
	}

	for it := segs.MapRange(); it.Next(); {
		add(it.Value())
	}

	add(multis)

	for p := range set {
		patterns = append(patterns, p)
	}

	sort.Strings(patterns)

	return patterns, nil
}
