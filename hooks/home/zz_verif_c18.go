//go:build verif

package home

import (
	"context"
	"log/slog"
	"net/netip"

	"github.com/AdguardTeam/AdGuardHome/internal/client"
	"github.com/AdguardTeam/AdGuardHome/internal/filtering"
	yaml "gopkg.in/yaml.v3"
)

// Verification driver for property C18 (per-client pause schedules across the
// configuration file): the persistent clients are loaded from, and written
// to, the "clients.persistent" section with the unchanged start-up and
// configuration-writer code.

// VerifC18LoadClients decodes doc, the YAML sequence of the configuration
// file's clients.persistent section, and initialises a fresh clients container
// from it the way start-up does.
func VerifC18LoadClients(doc []byte) (v *VerifClients, err error) {
	var objs []*clientObject
	err = yaml.Unmarshal(doc, &objs)
	if err != nil {
		return nil, err
	}

	cc := &clientsContainer{testing: true}
	err = cc.Init(
		context.Background(),
		slog.New(slog.DiscardHandler),
		objs,
		client.EmptyDHCP{},
		nil,
		nil,
		&filtering.Config{},
		newSignalHandler(nil, nil),
	)
	if err != nil {
		return nil, err
	}

	return &VerifClients{cc: cc}, nil
}

// VerifC18SavedClients returns the clients.persistent section the
// configuration writer would store now.
func (v *VerifClients) VerifC18SavedClients() (doc []byte, err error) {
	return yaml.Marshal(v.cc.forConfig())
}

// VerifC18ApplyClientFiltering is the callback start-up hands to the filter.
func (v *VerifClients) VerifC18ApplyClientFiltering(
	id string,
	addr netip.Addr,
	setts *filtering.Settings,
) {
	v.cc.storage.ApplyClientFiltering(id, addr, setts)
}

// VerifC18Close releases the container's storage.
func (v *VerifClients) VerifC18Close() {
	_ = v.cc.storage.Shutdown(context.Background())
}
