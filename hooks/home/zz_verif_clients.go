//go:build verif

package home

import (
	"github.com/AdguardTeam/AdGuardHome/internal/client"
	"github.com/AdguardTeam/AdGuardHome/internal/querylog"
)

// VerifClientsContainer wires a real clientsContainer around a storage the way
// home does, and returns the two callbacks home hands to the query log and to
// the statistics.
func VerifClientsContainer(
	st *client.Storage,
	checker BlockedClientChecker,
) (findMultiple func(ids []string) (c *querylog.Client, err error), shouldCount func(ids []string) bool) {
	cc := &clientsContainer{storage: st, clientChecker: checker}

	return cc.findMultiple, cc.shouldCountClient
}
