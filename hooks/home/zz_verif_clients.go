//go:build verif

package home

import (
	"log/slog"
	"net/http"

	"github.com/AdguardTeam/AdGuardHome/internal/client"
	"github.com/AdguardTeam/AdGuardHome/internal/querylog"
)

// VerifClientsContainer wires a real clientsContainer around a storage the way
// home does, and returns the two callbacks home hands to the query log and to
// the statistics.
func VerifClientsContainer(
	st *client.Storage,
	checker BlockedClientChecker,
) (findMultiple func(ids []string) (c *querylog.Client, err error), shouldCount func(ids []string) bool) {
	cc := &clientsContainer{storage: st, clientChecker: checker}

	return cc.findMultiple, cc.shouldCountClient
}

// VerifClients exposes a real clientsContainer wired around a storage.
type VerifClients struct{ cc *clientsContainer }

// VerifNewClients builds the container the way home does (testing mode: the
// handlers do not write the configuration file).
func VerifNewClients(st *client.Storage, checker BlockedClientChecker) (v *VerifClients) {
	return &VerifClients{cc: &clientsContainer{
		baseLogger:    slog.New(slog.DiscardHandler),
		storage:       st,
		clientChecker: checker,
		testing:       true,
	}}
}

func (v *VerifClients) FindMultiple(ids []string) (c *querylog.Client, err error) {
	return v.cc.findMultiple(ids)
}

func (v *VerifClients) ShouldCount(ids []string) (ok bool) { return v.cc.shouldCountClient(ids) }

// Handler returns one of the clients HTTP handlers: list, add, update, delete,
// search.
func (v *VerifClients) Handler(name string) (h http.HandlerFunc) {
	switch name {
	case "list":
		return v.cc.handleGetClients
	case "add":
		return v.cc.handleAddClient
	case "update":
		return v.cc.handleUpdateClient
	case "delete":
		return v.cc.handleDelClient
	case "search":
		return v.cc.handleSearchClient
	}

	return nil
}
