//go:build verif

package home

import (
	"bytes"
	"context"
	"io"
	"log/slog"

	"github.com/AdguardTeam/AdGuardHome/internal/client"
	"github.com/AdguardTeam/golibs/timeutil"
	yaml "gopkg.in/yaml.v3"
)

// Verification driver for property C14 (atomic replacement of the
// configuration file).  It only sets the package-level state that
// configuration.write reads and then calls the real write unchanged.

// verifC14DHCP is the client storage's view of a DHCP server without leases.
type verifC14DHCP struct{ client.EmptyDHCP }

// VerifC14Init points the configuration file at confPath and creates the
// minimal globals configuration.write dereferences: an empty persistent-client
// storage.  All optional modules stay nil, so write serialises the in-memory
// default configuration.
func VerifC14Init(confPath string) (err error) {
	globalContext.confFilePath = confPath
	globalContext.firstRun = false

	l := slog.New(slog.NewTextHandler(io.Discard, nil))
	globalContext.clients.storage, err = client.NewStorage(context.Background(), &client.StorageConfig{
		Logger: l,
		Clock:  timeutil.SystemClock{},
		DHCP:   verifC14DHCP{},
	})

	return err
}

// VerifC14SetUserRules sets the user rules of the in-memory configuration,
// the field used to give the file a chosen size.
func VerifC14SetUserRules(rules []string) {
	config.Lock()
	defer config.Unlock()

	config.UserRules = rules
}

// VerifC14EncodedSize returns the size of the YAML document write would
// produce for the current in-memory configuration.  It is used before the
// observed window to calibrate the padding only; it never touches files.
func VerifC14EncodedSize() (n int, err error) {
	config.RLock()
	defer config.RUnlock()

	buf := &bytes.Buffer{}
	enc := yaml.NewEncoder(buf)
	enc.SetIndent(2)
	err = enc.Encode(config)

	return buf.Len(), err
}

// VerifC14WriteConfig is the real configuration.write with no TLS manager.
func VerifC14WriteConfig() (err error) {
	return config.write(nil)
}

// VerifC14ParseConfig runs the real configuration loader, including the schema
// upgrade and the rewrite of the upgraded file, on the file set by
// VerifC14Init.
func VerifC14ParseConfig(workDir string) (err error) {
	globalContext.workDir = workDir
	config.Lock()
	config.fileData = nil
	config.Unlock()

	return parseConfig()
}
