//go:build verif

package home

import (
	"sync"

	"gopkg.in/yaml.v3"
)

var (
	verifDefaultOnce sync.Once
	verifDefaultDoc  []byte
)

// VerifLoadConfig runs the loader's decoding and validation on body, on a
// fresh copy of the default configuration, without touching files.
func VerifLoadConfig(body []byte) (err error) {
	verifDefaultOnce.Do(func() {
		verifDefaultDoc, _ = yaml.Marshal(config)
	})
	old := config
	defer func() { config = old }()

	config = &configuration{}
	if len(verifDefaultDoc) > 0 {
		_ = yaml.Unmarshal(verifDefaultDoc, &config)
	}

	err = yaml.Unmarshal(body, &config)
	if err != nil {
		return err
	}

	return validateConfig()
}
