//go:build verif

package home

import (
	"context"
	"fmt"
	"log/slog"

	"github.com/AdguardTeam/AdGuardHome/internal/client"
	"github.com/AdguardTeam/AdGuardHome/internal/filtering"
	"github.com/AdguardTeam/AdGuardHome/internal/querylog"
	"gopkg.in/yaml.v3"
)

// VerifClientsReloaded takes the persistent clients of st through a
// configuration write and a restart, the way home does it: forConfig produces
// the objects of the "clients" section, the section is encoded as YAML, decoded
// again, and a fresh clientsContainer is initialised from it.  It returns the
// two callbacks of the restarted container that home hands to the query log
// and to the statistics, and the YAML document that was "written".
func VerifClientsReloaded(
	st *client.Storage,
	checker BlockedClientChecker,
	dhcp client.DHCP,
) (
	findMultiple func(ids []string) (c *querylog.Client, err error),
	shouldCount func(ids []string) bool,
	doc []byte,
	err error,
) {
	ctx := context.Background()
	before := &clientsContainer{storage: st, clientChecker: checker}

	doc, err = yaml.Marshal(&clientsConfig{Persistent: before.forConfig()})
	if err != nil {
		return nil, nil, nil, fmt.Errorf("encoding clients section: %w", err)
	}

	loaded := &clientsConfig{}
	err = yaml.Unmarshal(doc, loaded)
	if err != nil {
		return nil, nil, doc, fmt.Errorf("decoding clients section: %w", err)
	}

	after := &clientsContainer{clientChecker: checker, testing: true}
	err = after.Init(
		ctx,
		slog.New(slog.DiscardHandler),
		loaded.Persistent,
		dhcp,
		nil,
		nil,
		&filtering.Config{},
		newSignalHandler(nil, nil),
	)
	if err != nil {
		return nil, nil, doc, fmt.Errorf("restart: %w", err)
	}

	return after.findMultiple, after.shouldCountClient, doc, nil
}
