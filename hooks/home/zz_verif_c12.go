//go:build verif

package home

import (
	"net/netip"
	"bytes"
	"encoding/hex"
	"fmt"
	"net/http"
	"net/http/httptest"
	"path/filepath"
	"sort"
	"time"

	"github.com/AdguardTeam/golibs/netutil"
	"go.etcd.io/bbolt"
	"golang.org/x/crypto/bcrypt"
)

// Verification driver for property C12 (login throttling and session
// lifetime).  It only sets up the package-level state that handleLogin,
// handleLogout and optionalAuth read, and calls those functions unchanged.

// VerifC12User and VerifC12Password are the credentials of the only user.
const (
	VerifC12User     = "admin"
	VerifC12Password = "correct horse"
)

var verifC12 struct {
	dbFile      string
	users       []webUser
	ttl         uint32
	maxAttempts uint
	blockDur    time.Duration
	hash        string
}

// verifC12InitAuth mirrors initUsers: a fresh rate limiter and InitAuth on the
// session file.
func verifC12InitAuth() (err error) {
	s := &verifC12
	var rl *authRateLimiter
	if s.maxAttempts > 0 && s.blockDur > 0 {
		rl = newAuthRateLimiter(s.blockDur, s.maxAttempts)
	}

	users := make([]webUser, len(s.users))
	copy(users, s.users)

	// Both test addresses are trusted proxies (like the default 127.0.0.0/8):
	// the proxy headers it sends are then believed for logging purposes, and
	// must still not change which address is throttled.
	a := InitAuth(s.dbFile, users, s.ttl, rl, netutil.SliceSubnetSet{netip.MustParsePrefix("192.0.2.1/32"), netip.MustParsePrefix("192.0.2.2/32")})
	if a == nil {
		return fmt.Errorf("InitAuth(%q) returned nil", s.dbFile)
	}

	globalContext.auth = a
	globalContext.firstRun = false
	GLMode = false

	return nil
}

// VerifC12Init creates the authentication module on dir/sessions.db with one
// user (bcrypt hash of minimum cost), the given throttling parameters and
// session TTL in seconds.
func VerifC12Init(dir string, maxAttempts uint, blockDur time.Duration, ttlSec uint32) (err error) {
	s := &verifC12
	if s.hash == "" {
		var h []byte
		h, err = bcrypt.GenerateFromPassword([]byte(VerifC12Password), bcrypt.MinCost)
		if err != nil {
			return err
		}

		s.hash = string(h)
	}

	s.dbFile = filepath.Join(dir, "sessions.db")
	s.users = []webUser{{Name: VerifC12User, PasswordHash: s.hash}}
	s.ttl = ttlSec
	s.maxAttempts = maxAttempts
	s.blockDur = blockDur

	return verifC12InitAuth()
}

// VerifC12Close closes the authentication module.
func VerifC12Close() {
	if globalContext.auth != nil {
		globalContext.auth.Close()
		globalContext.auth = nil
	}
}

// VerifC12Restart models a process restart: the session file is closed and
// everything in memory is created again from it, as initUsers does.
func VerifC12Restart() (err error) {
	VerifC12Close()

	return verifC12InitAuth()
}

// VerifC12Login sends POST /control/login from remoteAddr through the method
// and content-type wrapper and the real handleLogin.  cookie is the value of
// the session cookie set by the response, if any.
func VerifC12Login(
	remoteAddr string,
	name string,
	password string,
	hdr map[string]string,
) (status int, retryAfter string, hasRetryAfter bool, cookie string) {
	body := fmt.Sprintf(`{"name":%q,"password":%q}`, name, password)
	r := httptest.NewRequest(http.MethodPost, "/control/login", bytes.NewReader([]byte(body)))
	r.RemoteAddr = remoteAddr
	r.Header.Set("Content-Type", "application/json")
	for k, v := range hdr {
		r.Header.Set(k, v)
	}

	w := httptest.NewRecorder()
	ensure(http.MethodPost, handleLogin)(w, r)

	res := w.Result()
	for _, c := range res.Cookies() {
		if c.Name == sessionCookieName && c.Value != "" {
			cookie = c.Value
		}
	}

	_, hasRetryAfter = res.Header["Retry-After"]

	return res.StatusCode, res.Header.Get("Retry-After"), hasRetryAfter, cookie
}

// VerifC12Request sends GET /control/status with the session cookie through
// the real optionalAuth wrapper around a probe handler; ran reports whether
// the probe handler was reached.
func VerifC12Request(cookie string) (status int, ran bool) {
	r := httptest.NewRequest(http.MethodGet, "/control/status", nil)
	r.RemoteAddr = "192.0.2.99:4000"
	r.AddCookie(&http.Cookie{Name: sessionCookieName, Value: cookie})

	w := httptest.NewRecorder()
	optionalAuth(func(w http.ResponseWriter, _ *http.Request) {
		ran = true
		w.WriteHeader(http.StatusOK)
	})(w, r)

	return w.Result().StatusCode, ran
}

// VerifC12Logout sends GET /control/logout with the session cookie through
// the wrappers httpRegister puts around handleLogout (optionalAuth, method
// check); ran reports whether handleLogout was reached.
func VerifC12Logout(cookie string, more ...string) (status int, ran bool) {
	r := httptest.NewRequest(http.MethodGet, "/control/logout", nil)
	r.RemoteAddr = "192.0.2.99:4001"
	r.AddCookie(&http.Cookie{Name: sessionCookieName, Value: cookie})
	// Further cookies of the same name, as browsers send them when cookies
	// with different Path/Domain attributes exist.
	for _, c := range more {
		r.AddCookie(&http.Cookie{Name: sessionCookieName, Value: c})
	}

	w := httptest.NewRecorder()
	optionalAuth(ensure(http.MethodGet, func(w http.ResponseWriter, r *http.Request) {
		ran = true
		handleLogout(w, r)
	}))(w, r)

	return w.Result().StatusCode, ran
}

// VerifC12Failed is one record of the failed-attempt table.
type VerifC12Failed struct {
	Addr  string
	Num   uint
	Until time.Time
}

// VerifC12Session is one session, in memory or in the file.
type VerifC12Session struct {
	Token  string
	User   string
	Expire uint32
}

// VerifC12Dump returns the failed-attempt table, the in-memory session table
// and the content of the session file, sorted.  Read-only.
func VerifC12Dump() (failed []VerifC12Failed, mem, db []VerifC12Session, err error) {
	a := globalContext.auth
	if a == nil {
		return nil, nil, nil, fmt.Errorf("no auth module")
	}

	if rl := a.rateLimiter; rl != nil {
		rl.failedAuthsLock.Lock()
		for k, v := range rl.failedAuths {
			failed = append(failed, VerifC12Failed{Addr: k, Num: v.num, Until: v.until})
		}
		rl.failedAuthsLock.Unlock()
	}
	sort.Slice(failed, func(i, j int) bool { return failed[i].Addr < failed[j].Addr })

	a.lock.Lock()
	for k, s := range a.sessions {
		mem = append(mem, VerifC12Session{Token: k, User: s.userName, Expire: s.expire})
	}
	a.lock.Unlock()
	sort.Slice(mem, func(i, j int) bool { return mem[i].Token < mem[j].Token })

	err = a.db.View(func(tx *bbolt.Tx) error {
		bkt := tx.Bucket(bucketName())
		if bkt == nil {
			return nil
		}

		return bkt.ForEach(func(k, v []byte) error {
			s := session{}
			if !s.deserialize(v) {
				db = append(db, VerifC12Session{Token: hex.EncodeToString(k), User: "?undecodable"})

				return nil
			}

			db = append(db, VerifC12Session{Token: hex.EncodeToString(k), User: s.userName, Expire: s.expire})

			return nil
		})
	})
	sort.Slice(db, func(i, j int) bool { return db[i].Token < db[j].Token })

	return failed, mem, db, err
}
