//go:build verif

package stats

// VerifC11InitWeb runs the registration of the statistics HTTP API exactly as
// Start does, without starting the flush goroutine.
func (s *StatsCtx) VerifC11InitWeb() { s.initWeb() }
