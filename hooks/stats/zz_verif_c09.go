//go:build verif

package stats

import (
	"bytes"
	"encoding/gob"
	"fmt"
	"sort"
	"strings"
	"time"

	"go.etcd.io/bbolt"
)

// Verification hooks for property C09 (statistics conservation).  They only
// expose unexported entry points and state; no behaviour is changed.

// VerifFlush runs the body of one iteration of the periodic flusher (the
// hourly swap-then-persist step) without spawning the flusher goroutine.
func VerifFlush(s *StatsCtx) (cont bool) {
	cont, _ = s.flush()

	return cont
}

// VerifInitWeb registers the HTTP handlers exactly as Start does, but does not
// start the periodic flusher.
func VerifInitWeb(s *StatsCtx) { s.initWeb() }

// VerifClear calls the clear method (the body of handleStatsReset).
func VerifClear(s *StatsCtx) (err error) { return s.clear() }

// VerifSetLimitHours calls setLimit under confMu, as handleStatsConfig does.
func VerifSetLimitHours(s *StatsCtx, hours uint32) {
	s.confMu.Lock()
	defer s.confMu.Unlock()

	s.setLimit(time.Hour * time.Duration(hours))
}

// VerifUnit is the canonical content of one unit (the current one or a stored
// bucket).
type VerifUnit struct {
	ID      uint32
	NTotal  uint64
	NResult []uint64
	// Rest is the canonical dump of every other stored field.
	Rest string
	// Bad is set when a bucket could not be decoded.
	Bad bool
}

func pairsStr(ps []countPair) string {
	l := make([]string, 0, len(ps))
	for _, p := range ps {
		l = append(l, fmt.Sprintf("%s=%d", p.Name, p.Count))
	}
	sort.Strings(l)

	return strings.Join(l, ",")
}

func verifUnitOf(id uint32, udb *unitDB) (u VerifUnit) {
	return VerifUnit{
		ID:      id,
		NTotal:  udb.NTotal,
		NResult: append([]uint64{}, udb.NResult...),
		Rest: fmt.Sprintf(
			"d[%s]b[%s]c[%s]ur[%s]ut[%s]avg=%d",
			pairsStr(udb.Domains),
			pairsStr(udb.BlockedDomains),
			pairsStr(udb.Clients),
			pairsStr(udb.UpstreamsResponses),
			pairsStr(udb.UpstreamsTimeSum),
			udb.TimeAvg,
		),
	}
}

// String is the canonical one-line form used in state keys.
func (u VerifUnit) String() string {
	if u.Bad {
		return fmt.Sprintf("%d:BAD", u.ID)
	}

	return fmt.Sprintf("%d:n=%d r=%v %s", u.ID, u.NTotal, u.NResult, u.Rest)
}

// VerifState is the dump of the implementation state that C09 keys on.
type VerifState struct {
	// LimitHours and Enabled are the configuration under confMu.
	LimitHours uint32
	Enabled    bool
	// HasCurr tells whether the current unit exists; Curr is its content
	// (timeSum is reported as the derived average, as serialize does).
	HasCurr bool
	Curr    VerifUnit
	// CurrTimeSum is the raw processing-time sum of the current unit.
	CurrTimeSum uint64
	// DBOpen tells whether the database pointer is set; Buckets are all the
	// stored units in key order; Other are top-level keys that are not valid
	// unit names.
	DBOpen  bool
	Buckets []VerifUnit
	Other   []string
}

// VerifDump returns the current unit and every bucket of the database.
func VerifDump(s *StatsCtx) (st VerifState, err error) {
	s.confMu.RLock()
	st.LimitHours = uint32(s.limit.Hours())
	st.Enabled = s.enabled
	s.confMu.RUnlock()

	s.currMu.RLock()
	if s.curr != nil {
		st.HasCurr = true
		st.Curr = verifUnitOf(s.curr.id, s.curr.serialize())
		st.CurrTimeSum = s.curr.timeSum
	}
	s.currMu.RUnlock()

	db := s.db.Load()
	if db == nil {
		return st, nil
	}

	st.DBOpen = true
	err = db.View(func(tx *bbolt.Tx) (verr error) {
		return tx.ForEach(func(name []byte, b *bbolt.Bucket) (ferr error) {
			id, ok := unitNameToID(name)
			if !ok || len(name) != bucketNameLen || b == nil {
				st.Other = append(st.Other, fmt.Sprintf("%x", name))

				return nil
			}

			udb := &unitDB{}
			derr := gob.NewDecoder(bytes.NewReader(b.Get([]byte{0}))).Decode(udb)
			if derr != nil {
				st.Buckets = append(st.Buckets, VerifUnit{ID: id, Bad: true})

				return nil
			}

			st.Buckets = append(st.Buckets, verifUnitOf(id, udb))

			return nil
		})
	})

	return st, err
}
