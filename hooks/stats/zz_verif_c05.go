//go:build verif

package stats

// VerifC05Flush runs one iteration of the periodic flusher.
func VerifC05Flush(s Interface) (cont bool) {
	cont, _ = s.(*StatsCtx).flush()

	return cont
}
