//go:build verif

package stats

// VerifC08InitWeb registers the HTTP handlers without starting the flusher.
func VerifC08InitWeb(s Interface) { s.(*StatsCtx).initWeb() }

// VerifC08Clear resets the statistics.
func VerifC08Clear(s Interface) error { return s.(*StatsCtx).clear() }
