//go:build verif

package client

import (
	"fmt"
	"net/netip"
	"sort"
	"strings"
)

// VerifIndexEntry is one entry of an index map: identifier -> owning client
// (by name; "?<uid>" if the UID is dangling).
type VerifIndexEntry struct {
	Kind  string
	ID    string
	Owner string
}

// VerifDump returns the persistent-client index in canonical form: the
// clients as stored (sorted by name) and every index-map entry in order (the
// subnet map in its own iteration order).
func VerifDump(s *Storage) (clients []*Persistent, entries []VerifIndexEntry) {
	s.mu.Lock()
	defer s.mu.Unlock()

	ci := s.index
	owner := func(uid UID) string {
		c, ok := ci.uidToClient[uid]
		if !ok || c == nil {
			return fmt.Sprintf("?%x", uid[:4])
		}

		return c.Name
	}

	for _, c := range ci.uidToClient {
		clients = append(clients, c)
	}
	sort.Slice(clients, func(i, j int) bool {
		if clients[i].Name != clients[j].Name {
			return clients[i].Name < clients[j].Name
		}
		return string(clients[i].UID[:]) < string(clients[j].UID[:])
	})

	var es []VerifIndexEntry
	for n, uid := range ci.nameToUID {
		es = append(es, VerifIndexEntry{"name", n, owner(uid)})
	}
	for id, uid := range ci.clientIDToUID {
		es = append(es, VerifIndexEntry{"clientid", id, owner(uid)})
	}
	for ip, uid := range ci.ipToUID {
		es = append(es, VerifIndexEntry{"ip", ip.String(), owner(uid)})
	}
	for k, uid := range ci.macToUID {
		es = append(es, VerifIndexEntry{"mac", strings.ToLower(fmt.Sprintf("%x", k)), owner(uid)})
	}
	sort.Slice(es, func(i, j int) bool {
		if es[i].Kind != es[j].Kind {
			return es[i].Kind < es[j].Kind
		}
		return es[i].ID < es[j].ID
	})
	entries = es
	ci.subnetToUID.Range(func(p netip.Prefix, uid UID) (cont bool) {
		entries = append(entries, VerifIndexEntry{"subnet", p.String(), owner(uid)})

		return true
	})

	return clients, entries
}
