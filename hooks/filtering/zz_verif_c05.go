//go:build verif

package filtering

// VerifTryRefresh runs the filter refresh body (the periodic updater's work).
func (d *DNSFilter) VerifTryRefresh(block, allow, force bool) (updated int, isNetErr, ok bool) {
	return d.tryRefreshFilters(block, allow, force)
}

// VerifInitChan creates the channel on which asynchronous engine
// (re)initialisation requests are queued, without starting the updates loop.
func (d *DNSFilter) VerifInitChan() {
	d.filtersInitializerChan = make(chan filtersInitializerParams, 1)
}

// VerifRunPendingInit runs the engine initialisation for a queued request, as
// the updates loop does; it reports whether there was one.
func (d *DNSFilter) VerifRunPendingInit() (ran bool, err error) {
	select {
	case params := <-d.filtersInitializerChan:
		return true, d.initFiltering(params.allowFilters, params.blockFilters)
	default:
		return false, nil
	}
}
