//go:build verif

package hashprefix

import (
	"encoding/hex"
	"reflect"
	"sort"
)

// VerifCacheEntry is one entry of the prefix cache as stored.
type VerifCacheEntry struct {
	// Prefix is the hexadecimal 2-byte key.
	Prefix string
	// Expiry is the stored expiry in Unix seconds.
	Expiry int64
	// Hashes are the hexadecimal full hashes stored for the prefix.
	Hashes []string
	// Size is len(key)+len(value) as the LRU accounts it.
	Size int
}

// VerifCacheDump returns the content of the prefix cache without touching it
// (no Get, so the LRU order is not changed).  lru reports whether entries are
// in least-recently-used-first order; otherwise they are sorted by prefix.
// The cache implementation is read by reflection only.
func (c *Checker) VerifCacheDump() (entries []VerifCacheEntry, lru bool) {
	defer func() {
		if r := recover(); r != nil {
			entries, lru = nil, false
		}
	}()

	v := reflect.ValueOf(c.cache)
	if v.Kind() != reflect.Ptr {
		return nil, false
	}

	s := v.Elem()
	items := s.FieldByName("items")
	usage := s.FieldByName("usage")
	if !items.IsValid() || !usage.IsValid() {
		return nil, false
	}

	mk := func(it reflect.Value) (e VerifCacheEntry) {
		key := it.FieldByName("key").Bytes()
		val := it.FieldByName("value").Bytes()
		e.Prefix = hex.EncodeToString(key)
		e.Size = len(key) + len(val)
		if len(val) >= expirySize {
			ci := toCacheItem(val)
			e.Expiry = ci.expiry.Unix()
			for _, h := range ci.hashes {
				e.Hashes = append(e.Hashes, hex.EncodeToString(h[:]))
			}
		}

		return e
	}

	byAddr := map[uintptr]reflect.Value{}
	iter := items.MapRange()
	for iter.Next() {
		it := iter.Value().Elem()
		byAddr[it.FieldByName("used").UnsafeAddr()] = it
	}

	sentinel := usage.UnsafeAddr()
	ok := true
	n := 0
	for p := usage.FieldByName("next").Pointer(); p != sentinel; n++ {
		it, found := byAddr[p]
		if !found || n > len(byAddr) {
			ok = false

			break
		}

		entries = append(entries, mk(it))
		p = it.FieldByName("used").FieldByName("next").Pointer()
	}

	if ok && len(entries) == len(byAddr) {
		return entries, true
	}

	entries = entries[:0]
	for _, it := range byAddr {
		entries = append(entries, mk(it))
	}

	sort.Slice(entries, func(i, j int) bool { return entries[i].Prefix < entries[j].Prefix })

	return entries, false
}
