//go:build verif

package filtering

// VerifC14Refresh is the forced refresh of the block lists exactly as the
// control API handler and the periodic loop perform it: tryRefreshFilters ->
// refreshFiltersIntl -> update -> updateIntl -> finalizeUpdate.
func (d *DNSFilter) VerifC14Refresh() (updated int, isNetErr, ok bool) {
	return d.tryRefreshFilters(true, false, true)
}

// VerifC14SetURL changes the address of the block list oldURL exactly as the
// control API handler of set_url does.
func (d *DNSFilter) VerifC14SetURL(oldURL, newURL string) (restart bool, err error) {
	return d.filterSetProperties(oldURL, FilterYAML{Enabled: true, Name: "c14 list", URL: newURL}, false)
}
