//go:build verif

package filtering

// VerifC14Refresh is the forced refresh of the block lists exactly as the
// control API handler and the periodic loop perform it: tryRefreshFilters ->
// refreshFiltersIntl -> update -> updateIntl -> finalizeUpdate.
func (d *DNSFilter) VerifC14Refresh() (updated int, isNetErr, ok bool) {
	return d.tryRefreshFilters(true, false, true)
}
