//go:build verif

package filtering

import (
	"net/http"
	"time"
)

// Hooks of check C17 (local files only under safe patterns).  They only expose
// the unexported entry points and a read-only view of the list registry.

// VerifC17Prepare gives d the buffered channel that Start creates, without
// starting the updates goroutine: the asynchronous engine rebuild requested by
// the handlers is queued (setFilters drains the channel before sending, so it
// never blocks) and the harness rebuilds synchronously with
// EnableFilters(false).
func (d *DNSFilter) VerifC17Prepare() {
	d.filtersInitializerChan = make(chan filtersInitializerParams, 1)
}

// VerifC17AddURL is handleFilteringAddURL.
func (d *DNSFilter) VerifC17AddURL(w http.ResponseWriter, r *http.Request) {
	d.handleFilteringAddURL(w, r)
}

// VerifC17SetURL is handleFilteringSetURL.
func (d *DNSFilter) VerifC17SetURL(w http.ResponseWriter, r *http.Request) {
	d.handleFilteringSetURL(w, r)
}

// VerifC17Refresh is handleFilteringRefresh (the forced refresh).
func (d *DNSFilter) VerifC17Refresh(w http.ResponseWriter, r *http.Request) {
	d.handleFilteringRefresh(w, r)
}

// VerifC17Periodic is one tick of the updates loop (the non-forced refresh of
// both registries).
func (d *DNSFilter) VerifC17Periodic() {
	_ = d.periodicallyRefreshFilters(5 * time.Second)
}

// VerifC17List is one entry of the list registry.
type VerifC17List struct {
	URL        string `json:"url"`
	ID         int64  `json:"id"`
	RulesCount int    `json:"rules_count"`
	Enabled    bool   `json:"enabled"`
	White      bool   `json:"white"`
}

// VerifC17Lists returns the block and allow registries.
func (d *DNSFilter) VerifC17Lists() (ls []VerifC17List) {
	d.conf.filtersMu.RLock()
	defer d.conf.filtersMu.RUnlock()

	for _, f := range d.conf.Filters {
		ls = append(ls, VerifC17List{URL: f.URL, ID: int64(f.ID), RulesCount: f.RulesCount, Enabled: f.Enabled})
	}
	for _, f := range d.conf.WhitelistFilters {
		ls = append(ls, VerifC17List{URL: f.URL, ID: int64(f.ID), RulesCount: f.RulesCount, Enabled: f.Enabled, White: true})
	}

	return ls
}
