//go:build verif

package filtering

import (
	"net/http"
	"net/http/httptest"
	"strings"
	"time"
)

// VerifC15Filter builds an enabled list entry (the white flag is unexported).
func VerifC15Filter(id int, url, name string, white bool) (f FilterYAML) {
	return FilterYAML{
		Enabled: true,
		URL:     url,
		Name:    name,
		white:   white,
		Filter:  Filter{ID: id},
	}
}

// VerifC15ForcedRefresh performs the forced refresh of one side exactly like
// the control API does: through handleFilteringRefresh.
func (d *DNSFilter) VerifC15ForcedRefresh(white bool) (status int, body string) {
	reqBody := `{"whitelist":false}`
	if white {
		reqBody = `{"whitelist":true}`
	}

	r := httptest.NewRequest(http.MethodPost, "/control/filtering/refresh", strings.NewReader(reqBody))
	w := httptest.NewRecorder()
	d.handleFilteringRefresh(w, r)

	return w.Code, w.Body.String()
}

// VerifC15ScheduledRefresh performs one round of the periodic refresh exactly
// like updatesLoop does when its timer fires.
func (d *DNSFilter) VerifC15ScheduledRefresh() (nextIvl time.Duration) {
	return d.periodicallyRefreshFilters(5 * time.Second)
}

// VerifC15Status returns the body of the filtering status API.
func (d *DNSFilter) VerifC15Status() (status int, body []byte) {
	r := httptest.NewRequest(http.MethodGet, "/control/filtering/status", nil)
	w := httptest.NewRecorder()
	d.handleFilteringStatus(w, r)

	return w.Code, w.Body.Bytes()
}

// VerifC15List is the metadata of one list.
type VerifC15List struct {
	LastUpdated time.Time
	URL         string
	Name        string
	ID          int
	RulesCount  int
	Checksum    uint32
	White       bool
	Enabled     bool
}

// VerifC15Lists dumps the metadata of all lists, block lists first.
func (d *DNSFilter) VerifC15Lists() (ls []VerifC15List) {
	d.conf.filtersMu.RLock()
	defer d.conf.filtersMu.RUnlock()

	for i, arr := range [][]FilterYAML{d.conf.Filters, d.conf.WhitelistFilters} {
		for _, f := range arr {
			ls = append(ls, VerifC15List{
				LastUpdated: f.LastUpdated,
				URL:         f.URL,
				Name:        f.Name,
				ID:          f.ID,
				RulesCount:  f.RulesCount,
				Checksum:    f.checksum,
				White:       i == 1,
				Enabled:     f.Enabled,
			})
		}
	}

	return ls
}

// VerifC15Interval returns the refresh interval in force.
func (d *DNSFilter) VerifC15Interval() (ivl time.Duration) {
	return time.Duration(d.conf.FiltersUpdateIntervalHours) * time.Hour
}
