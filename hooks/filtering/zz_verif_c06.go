//go:build verif

package filtering

import "net/http"

// VerifRewriteUpdate is the handler of PUT /control/rewrite/update.
func (d *DNSFilter) VerifRewriteUpdate(w http.ResponseWriter, r *http.Request) {
	d.handleRewriteUpdate(w, r)
}

// VerifRewriteAdd is the handler of POST /control/rewrite/add.
func (d *DNSFilter) VerifRewriteAdd(w http.ResponseWriter, r *http.Request) {
	d.handleRewriteAdd(w, r)
}
