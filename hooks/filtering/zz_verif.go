//go:build verif

package filtering

// VerifServiceRuleTexts returns the rule texts of a blocked service.
func VerifServiceRuleTexts(id string) (texts []string) {
	for _, r := range serviceRules[id] {
		texts = append(texts, r.Text())
	}

	return texts
}

// VerifInitFiltering builds the engines from in-memory lists the way
// enableFiltersLocked does from files: block = custom rules (ID 0) + block
// lists; allow = allow lists.
func (d *DNSFilter) VerifInitFiltering(allow, block []Filter) (err error) {
	return d.initFiltering(allow, block)
}
