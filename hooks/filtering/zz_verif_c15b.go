//go:build verif

package filtering

import (
	"encoding/json"
	"net/http"
	"net/http/httptest"
	"strings"
)

// VerifC15SetURL edits the properties of the list listURL exactly like the
// control API does: through handleFilteringSetURL.  The handler hands the
// rebuild of the engines to updatesLoop; the harness has no such goroutine, so
// the queued rebuild is performed here, the way updatesLoop performs it.
func (d *DNSFilter) VerifC15SetURL(listURL string, white bool, name, newURL string, enabled bool) (status int, body string) {
	if d.filtersInitializerChan == nil {
		d.filtersInitializerChan = make(chan filtersInitializerParams, 1)
	}

	reqBody, _ := json.Marshal(filterURLReq{
		Data:      &filterURLReqData{Name: name, URL: newURL, Enabled: enabled},
		URL:       listURL,
		Whitelist: white,
	})

	r := httptest.NewRequest(http.MethodPost, "/control/filtering/set_url", strings.NewReader(string(reqBody)))
	w := httptest.NewRecorder()
	d.handleFilteringSetURL(w, r)

	select {
	case params := <-d.filtersInitializerChan:
		err := d.initFiltering(params.allowFilters, params.blockFilters)
		if err != nil {
			return http.StatusInternalServerError, "initializing: " + err.Error()
		}
	default:
	}

	return w.Code, w.Body.String()
}
