package home

import (
	"github.com/AdguardTeam/AdGuardHome/verifx/vsync"
	"github.com/AdguardTeam/AdGuardHome/verifx/vtime"
)

// failedAuthTTL is the period of time for which the failed attempt will stay in
// cache.
const failedAuthTTL = 1 * time.Minute

// failedAuth is an entry of authRateLimiter's cache.
type failedAuth struct {
	until time.Time
	num   uint
}

// authRateLimiter used to cache failed authentication attempts.
type authRateLimiter struct {
	failedAuths map[string]failedAuth
	// failedAuthsLock protects failedAuths.
	failedAuthsLock sync.Mutex
	blockDur        time.Duration
	maxAttempts     uint
}

// newAuthRateLimiter returns properly initialized *authRateLimiter.
func newAuthRateLimiter(blockDur time.Duration, maxAttempts uint) (ab *authRateLimiter) {
	return &authRateLimiter{
		failedAuths: make(map[string]failedAuth),
		blockDur:    blockDur,
		maxAttempts: maxAttempts,
	}
}

// cleanupLocked checks each blocked users removing ones with expired TTL.  For
// internal use only.
func (ab *authRateLimiter) cleanupLocked(now time.Time) {
	for k, v := range ab.failedAuths {
		if now.After(v.until) {
			delete(ab.failedAuths, k)
		}
	}
}

// checkLocked checks the attempter for it's state.  For internal use only.
func (ab *authRateLimiter) checkLocked(usrID string, now time.Time) (left time.Duration) {
	a, ok := ab.failedAuths[usrID]
	if !ok {
		return 0
	}

	if a.num < ab.maxAttempts {
		return 0
	}

	return a.until.Sub(now)
}

// check returns the time left until unblocking.  The nonpositive result should
// be interpreted as not blocked attempter.
func (ab *authRateLimiter) check(usrID string) (left time.Duration) {
	now := time.Now()

	ab.failedAuthsLock.Lock()
	defer ab.failedAuthsLock.Unlock()

	ab.cleanupLocked(now)

	return ab.checkLocked(usrID, now)
}

// incLocked increments the number of unsuccessful attempts for attempter with
// usrID and updates it's blocking moment if needed.  For internal use only.
func (ab *authRateLimiter) incLocked(usrID string, now time.Time) {
	until := now.Add(failedAuthTTL)
	var attNum uint = 1

	a, ok := ab.failedAuths[usrID]
	if ok {
		until = a.until
		attNum = a.num + 1
	}
	if attNum >= ab.maxAttempts {
		until = now.Add(ab.blockDur)
	}

	ab.failedAuths[usrID] = failedAuth{
		num:   attNum,
		until: until,
	}
}

// inc updates the failed attempt in cache.
func (ab *authRateLimiter) inc(usrID string) {
	now := time.Now()

	ab.failedAuthsLock.Lock()
	defer ab.failedAuthsLock.Unlock()

	ab.incLocked(usrID, now)
}

// remove stops any tracking and any blocking of the user.
func (ab *authRateLimiter) remove(usrID string) {
	ab.failedAuthsLock.Lock()
	defer ab.failedAuthsLock.Unlock()

	delete(ab.failedAuths, usrID)
}
