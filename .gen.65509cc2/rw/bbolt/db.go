package bbolt

import (
	"errors"
	"fmt"
	"io"
	"os"
	"runtime"
	"github.com/AdguardTeam/AdGuardHome/verifx/vsync"
	"time"
	"unsafe"

	berrors "go.etcd.io/bbolt/errors"
	"go.etcd.io/bbolt/internal/common"
	fl "go.etcd.io/bbolt/internal/freelist"
)

// The time elapsed between consecutive file locking attempts.
const flockRetryTimeout = 50 * time.Millisecond

// FreelistType is the type of the freelist backend
type FreelistType string

// TODO(ahrtr): eventually we should (step by step)
//  1. default to `FreelistMapType`;
//  2. remove the `FreelistArrayType`, do not export `FreelistMapType`
//     and remove field `FreelistType' from both `DB` and `Options`;
const (
	// FreelistArrayType indicates backend freelist type is array
	FreelistArrayType = FreelistType("array")
	// FreelistMapType indicates backend freelist type is hashmap
	FreelistMapType = FreelistType("hashmap")
)

// DB represents a collection of buckets persisted to a file on disk.
// All data access is performed through transactions which can be obtained through the DB.
// All the functions on DB will return a ErrDatabaseNotOpen if accessed before Open() is called.
type DB struct {
	// Put `stats` at the first field to ensure it's 64-bit aligned. Note that
	// the first word in an allocated struct can be relied upon to be 64-bit
	// aligned. Refer to https://pkg.go.dev/sync/atomic#pkg-note-BUG. Also
	// refer to discussion in https://github.com/etcd-io/bbolt/issues/577.
	stats Stats

	// When enabled, the database will perform a Check() after every commit.
	// A panic is issued if the database is in an inconsistent state. This
	// flag has a large performance impact so it should only be used for
	// debugging purposes.
	StrictMode bool

	// Setting the NoSync flag will cause the database to skip fsync()
	// calls after each commit. This can be useful when bulk loading data
	// into a database and you can restart the bulk load in the event of
	// a system failure or database corruption. Do not set this flag for
	// normal use.
	//
	// If the package global IgnoreNoSync constant is true, this value is
	// ignored.  See the comment on that constant for more details.
	//
	// THIS IS UNSAFE. PLEASE USE WITH CAUTION.
	NoSync bool

	// When true, skips syncing freelist to disk. This improves the database
	// write performance under normal operation, but requires a full database
	// re-sync during recovery.
	NoFreelistSync bool

	// FreelistType sets the backend freelist type. There are two options. Array which is simple but endures
	// dramatic performance degradation if database is large and fragmentation in freelist is common.
	// The alternative one is using hashmap, it is faster in almost all circumstances
	// but it doesn't guarantee that it offers the smallest page id available. In normal case it is safe.
	// The default type is array
	FreelistType FreelistType

	// When true, skips the truncate call when growing the database.
	// Setting this to true is only safe on non-ext3/ext4 systems.
	// Skipping truncation avoids preallocation of hard drive space and
	// bypasses a truncate() and fsync() syscall on remapping.
	//
	// https://github.com/boltdb/bolt/issues/284
	NoGrowSync bool

	// When `true`, bbolt will always load the free pages when opening the DB.
	// When opening db in write mode, this flag will always automatically
	// set to `true`.
	PreLoadFreelist bool

	// If you want to read the entire database fast, you can set MmapFlag to
	// syscall.MAP_POPULATE on Linux 2.6.23+ for sequential read-ahead.
	MmapFlags int

	// MaxBatchSize is the maximum size of a batch. Default value is
	// copied from DefaultMaxBatchSize in Open.
	//
	// If <=0, disables batching.
	//
	// Do not change concurrently with calls to Batch.
	MaxBatchSize int

	// MaxBatchDelay is the maximum delay before a batch starts.
	// Default value is copied from DefaultMaxBatchDelay in Open.
	//
	// If <=0, effectively disables batching.
	//
	// Do not change concurrently with calls to Batch.
	MaxBatchDelay time.Duration

	// AllocSize is the amount of space allocated when the database
	// needs to create new pages. This is done to amortize the cost
	// of truncate() and fsync() when growing the data file.
	AllocSize int

	// Mlock locks database file in memory when set to true.
	// It prevents major page faults, however used memory can't be reclaimed.
	//
	// Supported only on Unix via mlock/munlock syscalls.
	Mlock bool

	logger Logger

	path     string
	openFile func(string, int, os.FileMode) (*os.File, error)
	file     *os.File
	// `dataref` isn't used at all on Windows, and the golangci-lint
	// always fails on Windows platform.
	//nolint
	dataref  []byte // mmap'ed readonly, write throws SEGV
	data     *[maxMapSize]byte
	datasz   int
	meta0    *common.Meta
	meta1    *common.Meta
	pageSize int
	opened   bool
	rwtx     *Tx
	txs      []*Tx

	freelist     fl.Interface
	freelistLoad sync.Once

	pagePool sync.Pool

	batchMu sync.Mutex
	batch   *batch

	rwlock   sync.Mutex   // Allows only one writer at a time.
	metalock sync.Mutex   // Protects meta page access.
	mmaplock sync.RWMutex // Protects mmap access during remapping.
	statlock sync.RWMutex // Protects stats access.

	ops struct {
		writeAt func(b []byte, off int64) (n int, err error)
	}

	// Read only mode.
	// When true, Update() and Begin(true) return ErrDatabaseReadOnly immediately.
	readOnly bool
}

// Path returns the path to currently open database file.
func (db *DB) Path() string {
	return db.path
}

// GoString returns the Go string representation of the database.
func (db *DB) GoString() string {
	return fmt.Sprintf("bolt.DB{path:%q}", db.path)
}

// String returns the string representation of the database.
func (db *DB) String() string {
	return fmt.Sprintf("DB<%q>", db.path)
}

// Open creates and opens a database at the given path with a given file mode.
// If the file does not exist then it will be created automatically with a given file mode.
// Passing in nil options will cause Bolt to open the database with the default options.
// Note: For read/write transactions, ensure the owner has write permission on the created/opened database file, e.g. 0600
func Open(path string, mode os.FileMode, options *Options) (db *DB, err error) {
	db = &DB{
		opened: true,
	}

	// Set default options if no options are provided.
	if options == nil {
		options = DefaultOptions
	}
	db.NoSync = options.NoSync
	db.NoGrowSync = options.NoGrowSync
	db.MmapFlags = options.MmapFlags
	db.NoFreelistSync = options.NoFreelistSync
	db.PreLoadFreelist = options.PreLoadFreelist
	db.FreelistType = options.FreelistType
	db.Mlock = options.Mlock

	// Set default values for later DB operations.
	db.MaxBatchSize = common.DefaultMaxBatchSize
	db.MaxBatchDelay = common.DefaultMaxBatchDelay
	db.AllocSize = common.DefaultAllocSize

	if options.Logger == nil {
		db.logger = getDiscardLogger()
	} else {
		db.logger = options.Logger
	}

	lg := db.Logger()
	if lg != discardLogger {
		lg.Infof("Opening db file (%s) with mode %s and with options: %s", path, mode, options)
		defer func() {
			if err != nil {
				lg.Errorf("Opening bbolt db (%s) failed: %v", path, err)
			} else {
				lg.Infof("Opening bbolt db (%s) successfully", path)
			}
		}()
	}

	flag := os.O_RDWR
	if options.ReadOnly {
		flag = os.O_RDONLY
		db.readOnly = true
	} else {
		// always load free pages in write mode
		db.PreLoadFreelist = true
		flag |= os.O_CREATE
	}

	db.openFile = options.OpenFile
	if db.openFile == nil {
		db.openFile = os.OpenFile
	}

	// Open data file and separate sync handler for metadata writes.
	if db.file, err = db.openFile(path, flag, mode); err != nil {
		_ = db.close()
		lg.Errorf("failed to open db file (%s): %v", path, err)
		return nil, err
	}
	db.path = db.file.Name()

	// Lock file so that other processes using Bolt in read-write mode cannot
	// use the database  at the same time. This would cause corruption since
	// the two processes would write meta pages and free pages separately.
	// The database file is locked exclusively (only one process can grab the lock)
	// if !options.ReadOnly.
	// The database file is locked using the shared lock (more than one process may
	// hold a lock at the same time) otherwise (options.ReadOnly is set).
	if err = flock(db, !db.readOnly, options.Timeout); err != nil {
		_ = db.close()
		lg.Errorf("failed to lock db file (%s), readonly: %t, error: %v", path, db.readOnly, err)
		return nil, err
	}

	// Default values for test hooks
	db.ops.writeAt = db.file.WriteAt

	if db.pageSize = options.PageSize; db.pageSize == 0 {
		// Set the default page size to the OS page size.
		db.pageSize = common.DefaultPageSize
	}

	// Initialize the database if it doesn't exist.
	if info, statErr := db.file.Stat(); statErr != nil {
		_ = db.close()
		lg.Errorf("failed to get db file's stats (%s): %v", path, err)
		return nil, statErr
	} else if info.Size() == 0 {
		// Initialize new files with meta pages.
		if err = db.init(); err != nil {
			// clean up file descriptor on initialization fail
			_ = db.close()
			lg.Errorf("failed to initialize db file (%s): %v", path, err)
			return nil, err
		}
	} else {
		// try to get the page size from the metadata pages
		if db.pageSize, err = db.getPageSize(); err != nil {
			_ = db.close()
			lg.Errorf("failed to get page size from db file (%s): %v", path, err)
			return nil, err
		}
	}

	// Initialize page pool.
	db.pagePool = sync.Pool{
		New: func() interface{} {
			return make([]byte, db.pageSize)
		},
	}

	// Memory map the data file.
	if err = db.mmap(options.InitialMmapSize); err != nil {
		_ = db.close()
		lg.Errorf("failed to map db file (%s): %v", path, err)
		return nil, err
	}

	if db.PreLoadFreelist {
		db.loadFreelist()
	}

	if db.readOnly {
		return db, nil
	}

	// Flush freelist when transitioning from no sync to sync so
	// NoFreelistSync unaware boltdb can open the db later.
	if !db.NoFreelistSync && !db.hasSyncedFreelist() {
		tx, txErr := db.Begin(true)
		if tx != nil {
			txErr = tx.Commit()
		}
		if txErr != nil {
			lg.Errorf("starting readwrite transaction failed: %v", txErr)
			_ = db.close()
			return nil, txErr
		}
	}

	// Mark the database as opened and return.
	return db, nil
}

// getPageSize reads the pageSize from the meta pages. It tries
// to read the first meta page firstly. If the first page is invalid,
// then it tries to read the second page using the default page size.
func (db *DB) getPageSize() (int, error) {
	var (
		meta0CanRead, meta1CanRead bool
	)

	// Read the first meta page to determine the page size.
	if pgSize, canRead, err := db.getPageSizeFromFirstMeta(); err != nil {
		// We cannot read the page size from page 0, but can read page 0.
		meta0CanRead = canRead
	} else {
		return pgSize, nil
	}

	// Read the second meta page to determine the page size.
	if pgSize, canRead, err := db.getPageSizeFromSecondMeta(); err != nil {
		// We cannot read the page size from page 1, but can read page 1.
		meta1CanRead = canRead
	} else {
		return pgSize, nil
	}

	// If we can't read the page size from both pages, but can read
	// either page, then we assume it's the same as the OS or the one
	// given, since that's how the page size was chosen in the first place.
	//
	// If both pages are invalid, and (this OS uses a different page size
	// from what the database was created with or the given page size is
	// different from what the database was created with), then we are out
	// of luck and cannot access the database.
	if meta0CanRead || meta1CanRead {
		return db.pageSize, nil
	}

	return 0, berrors.ErrInvalid
}

// getPageSizeFromFirstMeta reads the pageSize from the first meta page
func (db *DB) getPageSizeFromFirstMeta() (int, bool, error) {
	var buf [0x1000]byte
	var metaCanRead bool
	if bw, err := db.file.ReadAt(buf[:], 0); err == nil && bw == len(buf) {
		metaCanRead = true
		if m := db.pageInBuffer(buf[:], 0).Meta(); m.Validate() == nil {
			return int(m.PageSize()), metaCanRead, nil
		}
	}
	return 0, metaCanRead, berrors.ErrInvalid
}

// getPageSizeFromSecondMeta reads the pageSize from the second meta page
func (db *DB) getPageSizeFromSecondMeta() (int, bool, error) {
	var (
		fileSize    int64
		metaCanRead bool
	)

	// get the db file size
	if info, err := db.file.Stat(); err != nil {
		return 0, metaCanRead, err
	} else {
		fileSize = info.Size()
	}

	// We need to read the second meta page, so we should skip the first page;
	// but we don't know the exact page size yet, it's chicken & egg problem.
	// The solution is to try all the possible page sizes, which starts from 1KB
	// and until 16MB (1024<<14) or the end of the db file
	//
	// TODO: should we support larger page size?
	for i := 0; i <= 14; i++ {
		var buf [0x1000]byte
		var pos int64 = 1024 << uint(i)
		if pos >= fileSize-1024 {
			break
		}
		bw, err := db.file.ReadAt(buf[:], pos)
		if (err == nil && bw == len(buf)) || (err == io.EOF && int64(bw) == (fileSize-pos)) {
			metaCanRead = true
			if m := db.pageInBuffer(buf[:], 0).Meta(); m.Validate() == nil {
				return int(m.PageSize()), metaCanRead, nil
			}
		}
	}

	return 0, metaCanRead, berrors.ErrInvalid
}

// loadFreelist reads the freelist if it is synced, or reconstructs it
// by scanning the DB if it is not synced. It assumes there are no
// concurrent accesses being made to the freelist.
func (db *DB) loadFreelist() {
	db.freelistLoad.Do(func() {
		db.freelist = newFreelist(db.FreelistType)
		if !db.hasSyncedFreelist() {
			// Reconstruct free list by scanning the DB.
			db.freelist.Init(db.freepages())
		} else {
			// Read free list from freelist page.
			db.freelist.Read(db.page(db.meta().Freelist()))
		}
		db.stats.FreePageN = db.freelist.FreeCount()
	})
}

func (db *DB) hasSyncedFreelist() bool {
	return db.meta().Freelist() != common.PgidNoFreelist
}

func (db *DB) fileSize() (int, error) {
	info, err := db.file.Stat()
	if err != nil {
		return 0, fmt.Errorf("file stat error: %w", err)
	}
	sz := int(info.Size())
	if sz < db.pageSize*2 {
		return 0, fmt.Errorf("file size too small %d", sz)
	}
	return sz, nil
}

// mmap opens the underlying memory-mapped file and initializes the meta references.
// minsz is the minimum size that the new mmap can be.
func (db *DB) mmap(minsz int) (err error) {
	db.mmaplock.Lock()
	defer db.mmaplock.Unlock()

	lg := db.Logger()

	// Ensure the size is at least the minimum size.
	var fileSize int
	fileSize, err = db.fileSize()
	if err != nil {
		lg.Errorf("getting file size failed: %w", err)
		return err
	}
	var size = fileSize
	if size < minsz {
		size = minsz
	}
	size, err = db.mmapSize(size)
	if err != nil {
		lg.Errorf("getting map size failed: %w", err)
		return err
	}

	if db.Mlock {
		// Unlock db memory
		if err := db.munlock(fileSize); err != nil {
			return err
		}
	}

	// Dereference all mmap references before unmapping.
	if db.rwtx != nil {
		db.rwtx.root.dereference()
	}

	// Unmap existing data before continuing.
	if err = db.munmap(); err != nil {
		return err
	}

	// Memory-map the data file as a byte slice.
	// gofail: var mapError string
	// return errors.New(mapError)
	if err = mmap(db, size); err != nil {
		lg.Errorf("[GOOS: %s, GOARCH: %s] mmap failed, size: %d, error: %v", runtime.GOOS, runtime.GOARCH, size, err)
		return err
	}

	// Perform unmmap on any error to reset all data fields:
	// dataref, data, datasz, meta0 and meta1.
	defer func() {
		if err != nil {
			if unmapErr := db.munmap(); unmapErr != nil {
				err = fmt.Errorf("%w; rollback unmap also failed: %v", err, unmapErr)
			}
		}
	}()

	if db.Mlock {
		// Don't allow swapping of data file
		if err := db.mlock(fileSize); err != nil {
			return err
		}
	}

	// Save references to the meta pages.
	db.meta0 = db.page(0).Meta()
	db.meta1 = db.page(1).Meta()

	// Validate the meta pages. We only return an error if both meta pages fail
	// validation, since meta0 failing validation means that it wasn't saved
	// properly -- but we can recover using meta1. And vice-versa.
	err0 := db.meta0.Validate()
	err1 := db.meta1.Validate()
	if err0 != nil && err1 != nil {
		lg.Errorf("both meta pages are invalid, meta0: %v, meta1: %v", err0, err1)
		return err0
	}

	return nil
}

func (db *DB) invalidate() {
	db.dataref = nil
	db.data = nil
	db.datasz = 0

	db.meta0 = nil
	db.meta1 = nil
}

// munmap unmaps the data file from memory.
func (db *DB) munmap() error {
	defer db.invalidate()

	// gofail: var unmapError string
	// return errors.New(unmapError)
	if err := munmap(db); err != nil {
		db.Logger().Errorf("[GOOS: %s, GOARCH: %s] munmap failed, db.datasz: %d, error: %v", runtime.GOOS, runtime.GOARCH, db.datasz, err)
		return fmt.Errorf("unmap error: %v", err.Error())
	}

	return nil
}

// mmapSize determines the appropriate size for the mmap given the current size
// of the database. The minimum size is 32KB and doubles until it reaches 1GB.
// Returns an error if the new mmap size is greater than the max allowed.
func (db *DB) mmapSize(size int) (int, error) {
	// Double the size from 32KB until 1GB.
	for i := uint(15); i <= 30; i++ {
		if size <= 1<<i {
			return 1 << i, nil
		}
	}

	// Verify the requested size is not above the maximum allowed.
	if size > maxMapSize {
		return 0, errors.New("mmap too large")
	}

	// If larger than 1GB then grow by 1GB at a time.
	sz := int64(size)
	if remainder := sz % int64(common.MaxMmapStep); remainder > 0 {
		sz += int64(common.MaxMmapStep) - remainder
	}

	// Ensure that the mmap size is a multiple of the page size.
	// This should always be true since we're incrementing in MBs.
	pageSize := int64(db.pageSize)
	if (sz % pageSize) != 0 {
		sz = ((sz / pageSize) + 1) * pageSize
	}

	// If we've exceeded the max size then only grow up to the max size.
	if sz > maxMapSize {
		sz = maxMapSize
	}

	return int(sz), nil
}

func (db *DB) munlock(fileSize int) error {
	// gofail: var munlockError string
	// return errors.New(munlockError)
	if err := munlock(db, fileSize); err != nil {
		db.Logger().Errorf("[GOOS: %s, GOARCH: %s] munlock failed, fileSize: %d, db.datasz: %d, error: %v", runtime.GOOS, runtime.GOARCH, fileSize, db.datasz, err)
		return fmt.Errorf("munlock error: %v", err.Error())
	}
	return nil
}

func (db *DB) mlock(fileSize int) error {
	// gofail: var mlockError string
	// return errors.New(mlockError)
	if err := mlock(db, fileSize); err != nil {
		db.Logger().Errorf("[GOOS: %s, GOARCH: %s] mlock failed, fileSize: %d, db.datasz: %d, error: %v", runtime.GOOS, runtime.GOARCH, fileSize, db.datasz, err)
		return fmt.Errorf("mlock error: %v", err.Error())
	}
	return nil
}

func (db *DB) mrelock(fileSizeFrom, fileSizeTo int) error {
	if err := db.munlock(fileSizeFrom); err != nil {
		return err
	}
	if err := db.mlock(fileSizeTo); err != nil {
		return err
	}
	return nil
}

// init creates a new database file and initializes its meta pages.
func (db *DB) init() error {
	// Create two meta pages on a buffer.
	buf := make([]byte, db.pageSize*4)
	for i := 0; i < 2; i++ {
		p := db.pageInBuffer(buf, common.Pgid(i))
		p.SetId(common.Pgid(i))
		p.SetFlags(common.MetaPageFlag)

		// Initialize the meta page.
		m := p.Meta()
		m.SetMagic(common.Magic)
		m.SetVersion(common.Version)
		m.SetPageSize(uint32(db.pageSize))
		m.SetFreelist(2)
		m.SetRootBucket(common.NewInBucket(3, 0))
		m.SetPgid(4)
		m.SetTxid(common.Txid(i))
		m.SetChecksum(m.Sum64())
	}

	// Write an empty freelist at page 3.
	p := db.pageInBuffer(buf, common.Pgid(2))
	p.SetId(2)
	p.SetFlags(common.FreelistPageFlag)
	p.SetCount(0)

	// Write an empty leaf page at page 4.
	p = db.pageInBuffer(buf, common.Pgid(3))
	p.SetId(3)
	p.SetFlags(common.LeafPageFlag)
	p.SetCount(0)

	// Write the buffer to our data file.
	if _, err := db.ops.writeAt(buf, 0); err != nil {
		db.Logger().Errorf("writeAt failed: %w", err)
		return err
	}
	if err := fdatasync(db); err != nil {
		db.Logger().Errorf("[GOOS: %s, GOARCH: %s] fdatasync failed: %w", runtime.GOOS, runtime.GOARCH, err)
		return err
	}

	return nil
}

// Close releases all database resources.
// It will block waiting for any open transactions to finish
// before closing the database and returning.
func (db *DB) Close() error {
	db.rwlock.Lock()
	defer db.rwlock.Unlock()

	db.metalock.Lock()
	defer db.metalock.Unlock()

	db.mmaplock.Lock()
	defer db.mmaplock.Unlock()

	return db.close()
}

func (db *DB) close() error {
	if !db.opened {
		return nil
	}

	db.opened = false

	db.freelist = nil

	// Clear ops.
	db.ops.writeAt = nil

	var errs []error
	// Close the mmap.
	if err := db.munmap(); err != nil {
		errs = append(errs, err)
	}

	// Close file handles.
	if db.file != nil {
		// No need to unlock read-only file.
		if !db.readOnly {
			// Unlock the file.
			if err := funlock(db); err != nil {
				errs = append(errs, fmt.Errorf("bolt.Close(): funlock error: %w", err))
			}
		}

		// Close the file descriptor.
		if err := db.file.Close(); err != nil {
			errs = append(errs, fmt.Errorf("db file close: %w", err))
		}
		db.file = nil
	}

	db.path = ""

	if len(errs) > 0 {
		return errs[0]
	}
	return nil
}

// Begin starts a new transaction.
// Multiple read-only transactions can be used concurrently but only one
// write transaction can be used at a time. Starting multiple write transactions
// will cause the calls to block and be serialized until the current write
// transaction finishes.
//
// Transactions should not be dependent on one another. Opening a read
// transaction and a write transaction in the same goroutine can cause the
// writer to deadlock because the database periodically needs to re-mmap itself
// as it grows and it cannot do that while a read transaction is open.
//
// If a long running read transaction (for example, a snapshot transaction) is
// needed, you might want to set DB.InitialMmapSize to a large enough value
// to avoid potential blocking of write transaction.
//
// IMPORTANT: You must close read-only transactions after you are finished or
// else the database will not reclaim old pages.
func (db *DB) Begin(writable bool) (t *Tx, err error) {
	if lg := db.Logger(); lg != discardLogger {
		lg.Debugf("Starting a new transaction [writable: %t]", writable)
		defer func() {
			if err != nil {
				lg.Errorf("Starting a new transaction [writable: %t] failed: %v", writable, err)
			} else {
				lg.Debugf("Starting a new transaction [writable: %t] successfully", writable)
			}
		}()
	}

	if writable {
		return db.beginRWTx()
	}
	return db.beginTx()
}

func (db *DB) Logger() Logger {
	if db == nil || db.logger == nil {
		return getDiscardLogger()
	}
	return db.logger
}

func (db *DB) beginTx() (*Tx, error) {
	// Lock the meta pages while we initialize the transaction. We obtain
	// the meta lock before the mmap lock because that's the order that the
	// write transaction will obtain them.
	db.metalock.Lock()

	// Obtain a read-only lock on the mmap. When the mmap is remapped it will
	// obtain a write lock so all transactions must finish before it can be
	// remapped.
	db.mmaplock.RLock()

	// Exit if the database is not open yet.
	if !db.opened {
		db.mmaplock.RUnlock()
		db.metalock.Unlock()
		return nil, berrors.ErrDatabaseNotOpen
	}

	// Exit if the database is not correctly mapped.
	if db.data == nil {
		db.mmaplock.RUnlock()
		db.metalock.Unlock()
		return nil, berrors.ErrInvalidMapping
	}

	// Create a transaction associated with the database.
	t := &Tx{}
	t.init(db)

	// Keep track of transaction until it closes.
	db.txs = append(db.txs, t)
	n := len(db.txs)
	if db.freelist != nil {
		db.freelist.AddReadonlyTXID(t.meta.Txid())
	}

	// Unlock the meta pages.
	db.metalock.Unlock()

	// Update the transaction stats.
	db.statlock.Lock()
	db.stats.TxN++
	db.stats.OpenTxN = n
	db.statlock.Unlock()

	return t, nil
}

func (db *DB) beginRWTx() (*Tx, error) {
	// If the database was opened with Options.ReadOnly, return an error.
	if db.readOnly {
		return nil, berrors.ErrDatabaseReadOnly
	}

	// Obtain writer lock. This is released by the transaction when it closes.
	// This enforces only one writer transaction at a time.
	db.rwlock.Lock()

	// Once we have the writer lock then we can lock the meta pages so that
	// we can set up the transaction.
	db.metalock.Lock()
	defer db.metalock.Unlock()

	// Exit if the database is not open yet.
	if !db.opened {
		db.rwlock.Unlock()
		return nil, berrors.ErrDatabaseNotOpen
	}

	// Exit if the database is not correctly mapped.
	if db.data == nil {
		db.rwlock.Unlock()
		return nil, berrors.ErrInvalidMapping
	}

	// Create a transaction associated with the database.
	t := &Tx{writable: true}
	t.init(db)
	db.rwtx = t
	db.freelist.ReleasePendingPages()
	return t, nil
}

// removeTx removes a transaction from the database.
func (db *DB) removeTx(tx *Tx) {
	// Release the read lock on the mmap.
	db.mmaplock.RUnlock()

	// Use the meta lock to restrict access to the DB object.
	db.metalock.Lock()

	// Remove the transaction.
	for i, t := range db.txs {
		if t == tx {
			last := len(db.txs) - 1
			db.txs[i] = db.txs[last]
			db.txs[last] = nil
			db.txs = db.txs[:last]
			break
		}
	}
	n := len(db.txs)
	if db.freelist != nil {
		db.freelist.RemoveReadonlyTXID(tx.meta.Txid())
	}

	// Unlock the meta pages.
	db.metalock.Unlock()

	// Merge statistics.
	db.statlock.Lock()
	db.stats.OpenTxN = n
	db.stats.TxStats.add(&tx.stats)
	db.statlock.Unlock()
}

// Update executes a function within the context of a read-write managed transaction.
// If no error is returned from the function then the transaction is committed.
// If an error is returned then the entire transaction is rolled back.
// Any error that is returned from the function or returned from the commit is
// returned from the Update() method.
//
// Attempting to manually commit or rollback within the function will cause a panic.
func (db *DB) Update(fn func(*Tx) error) error {
	t, err := db.Begin(true)
	if err != nil {
		return err
	}

	// Make sure the transaction rolls back in the event of a panic.
	defer func() {
		if t.db != nil {
			t.rollback()
		}
	}()

	// Mark as a managed tx so that the inner function cannot manually commit.
	t.managed = true

	// If an error is returned from the function then rollback and return error.
	err = fn(t)
	t.managed = false
	if err != nil {
		_ = t.Rollback()
		return err
	}

	return t.Commit()
}

// View executes a function within the context of a managed read-only transaction.
// Any error that is returned from the function is returned from the View() method.
//
// Attempting to manually rollback within the function will cause a panic.
func (db *DB) View(fn func(*Tx) error) error {
	t, err := db.Begin(false)
	if err != nil {
		return err
	}

	// Make sure the transaction rolls back in the event of a panic.
	defer func() {
		if t.db != nil {
			t.rollback()
		}
	}()

	// Mark as a managed tx so that the inner function cannot manually rollback.
	t.managed = true

	// If an error is returned from the function then pass it through.
	err = fn(t)
	t.managed = false
	if err != nil {
		_ = t.Rollback()
		return err
	}

	return t.Rollback()
}

// Batch calls fn as part of a batch. It behaves similar to Update,
// except:
//
// 1. concurrent Batch calls can be combined into a single Bolt
// transaction.
//
// 2. the function passed to Batch may be called multiple times,
// regardless of whether it returns error or not.
//
// This means that Batch function side effects must be idempotent and
// take permanent effect only after a successful return is seen in
// caller.
//
// The maximum batch size and delay can be adjusted with DB.MaxBatchSize
// and DB.MaxBatchDelay, respectively.
//
// Batch is only useful when there are multiple goroutines calling it.
func (db *DB) Batch(fn func(*Tx) error) error {
	errCh := make(chan error, 1)

	db.batchMu.Lock()
	if (db.batch == nil) || (db.batch != nil && len(db.batch.calls) >= db.MaxBatchSize) {
		// There is no existing batch, or the existing batch is full; start a new one.
		db.batch = &batch{
			db: db,
		}
		db.batch.timer = time.AfterFunc(db.MaxBatchDelay, db.batch.trigger)
	}
	db.batch.calls = append(db.batch.calls, call{fn: fn, err: errCh})
	if len(db.batch.calls) >= db.MaxBatchSize {
		// wake up batch, it's ready to run
		go db.batch.trigger()
	}
	db.batchMu.Unlock()

	err := <-errCh
	if err == trySolo {
		err = db.Update(fn)
	}
	return err
}

type call struct {
	fn  func(*Tx) error
	err chan<- error
}

type batch struct {
	db    *DB
	timer *time.Timer
	start sync.Once
	calls []call
}

// trigger runs the batch if it hasn't already been run.
func (b *batch) trigger() {
	b.start.Do(b.run)
}

// run performs the transactions in the batch and communicates results
// back to DB.Batch.
func (b *batch) run() {
	b.db.batchMu.Lock()
	b.timer.Stop()
	// Make sure no new work is added to this batch, but don't break
	// other batches.
	if b.db.batch == b {
		b.db.batch = nil
	}
	b.db.batchMu.Unlock()

retry:
	for len(b.calls) > 0 {
		var failIdx = -1
		err := b.db.Update(func(tx *Tx) error {
			for i, c := range b.calls {
				if err := safelyCall(c.fn, tx); err != nil {
					failIdx = i
					return err
				}
			}
			return nil
		})

		if failIdx >= 0 {
			// take the failing transaction out of the batch. it's
			// safe to shorten b.calls here because db.batch no longer
			// points to us, and we hold the mutex anyway.
			c := b.calls[failIdx]
			b.calls[failIdx], b.calls = b.calls[len(b.calls)-1], b.calls[:len(b.calls)-1]
			// tell the submitter re-run it solo, continue with the rest of the batch
			c.err <- trySolo
			continue retry
		}

		// pass success, or bolt internal errors, to all callers
		for _, c := range b.calls {
			c.err <- err
		}
		break retry
	}
}

// trySolo is a special sentinel error value used for signaling that a
// transaction function should be re-run. It should never be seen by
// callers.
var trySolo = errors.New("batch function returned an error and should be re-run solo")

type panicked struct {
	reason interface{}
}

func (p panicked) Error() string {
	if err, ok := p.reason.(error); ok {
		return err.Error()
	}
	return fmt.Sprintf("panic: %v", p.reason)
}

func safelyCall(fn func(*Tx) error, tx *Tx) (err error) {
	defer func() {
		if p := recover(); p != nil {
			err = panicked{p}
		}
	}()
	return fn(tx)
}

// Sync executes fdatasync() against the database file handle.
//
// This is not necessary under normal operation, however, if you use NoSync
// then it allows you to force the database file to sync against the disk.
func (db *DB) Sync() (err error) {
	if lg := db.Logger(); lg != discardLogger {
		lg.Debug("Syncing bbolt db (%s)", db.path)
		defer func() {
			if err != nil {
				lg.Errorf("[GOOS: %s, GOARCH: %s] syncing bbolt db (%s) failed: %v", runtime.GOOS, runtime.GOARCH, db.path, err)
			} else {
				lg.Debugf("Syncing bbolt db (%s) successfully", db.path)
			}
		}()
	}

	return fdatasync(db)
}

// Stats retrieves ongoing performance stats for the database.
// This is only updated when a transaction closes.
func (db *DB) Stats() Stats {
	db.statlock.RLock()
	defer db.statlock.RUnlock()
	return db.stats
}

// This is for internal access to the raw data bytes from the C cursor, use
// carefully, or not at all.
func (db *DB) Info() *Info {
	common.Assert(db.data != nil, "database file isn't correctly mapped")
	return &Info{uintptr(unsafe.Pointer(&db.data[0])), db.pageSize}
}

// page retrieves a page reference from the mmap based on the current page size.
func (db *DB) page(id common.Pgid) *common.Page {
	pos := id * common.Pgid(db.pageSize)
	return (*common.Page)(unsafe.Pointer(&db.data[pos]))
}

// pageInBuffer retrieves a page reference from a given byte array based on the current page size.
func (db *DB) pageInBuffer(b []byte, id common.Pgid) *common.Page {
	return (*common.Page)(unsafe.Pointer(&b[id*common.Pgid(db.pageSize)]))
}

// meta retrieves the current meta page reference.
func (db *DB) meta() *common.Meta {
	// We have to return the meta with the highest txid which doesn't fail
	// validation. Otherwise, we can cause errors when in fact the database is
	// in a consistent state. metaA is the one with the higher txid.
	metaA := db.meta0
	metaB := db.meta1
	if db.meta1.Txid() > db.meta0.Txid() {
		metaA = db.meta1
		metaB = db.meta0
	}

	// Use higher meta page if valid. Otherwise, fallback to previous, if valid.
	if err := metaA.Validate(); err == nil {
		return metaA
	} else if err := metaB.Validate(); err == nil {
		return metaB
	}

	// This should never be reached, because both meta1 and meta0 were validated
	// on mmap() and we do fsync() on every write.
	panic("bolt.DB.meta(): invalid meta pages")
}

// allocate returns a contiguous block of memory starting at a given page.
func (db *DB) allocate(txid common.Txid, count int) (*common.Page, error) {
	// Allocate a temporary buffer for the page.
	var buf []byte
	if count == 1 {
		buf = db.pagePool.Get().([]byte)
	} else {
		buf = make([]byte, count*db.pageSize)
	}
	p := (*common.Page)(unsafe.Pointer(&buf[0]))
	p.SetOverflow(uint32(count - 1))

	// Use pages from the freelist if they are available.
	p.SetId(db.freelist.Allocate(txid, count))
	if p.Id() != 0 {
		return p, nil
	}

	// Resize mmap() if we're at the end.
	p.SetId(db.rwtx.meta.Pgid())
	var minsz = int((p.Id()+common.Pgid(count))+1) * db.pageSize
	if minsz >= db.datasz {
		if err := db.mmap(minsz); err != nil {
			return nil, fmt.Errorf("mmap allocate error: %s", err)
		}
	}

	// Move the page id high water mark.
	curPgid := db.rwtx.meta.Pgid()
	db.rwtx.meta.SetPgid(curPgid + common.Pgid(count))

	return p, nil
}

// grow grows the size of the database to the given sz.
func (db *DB) grow(sz int) error {
	// Ignore if the new size is less than available file size.
	lg := db.Logger()
	fileSize, err := db.fileSize()
	if err != nil {
		lg.Errorf("getting file size failed: %w", err)
		return err
	}
	if sz <= fileSize {
		return nil
	}

	// If the data is smaller than the alloc size then only allocate what's needed.
	// Once it goes over the allocation size then allocate in chunks.
	if db.datasz <= db.AllocSize {
		sz = db.datasz
	} else {
		sz += db.AllocSize
	}

	// Truncate and fsync to ensure file size metadata is flushed.
	// https://github.com/boltdb/bolt/issues/284
	if !db.NoGrowSync && !db.readOnly {
		if runtime.GOOS != "windows" {
			// gofail: var resizeFileError string
			// return errors.New(resizeFileError)
			if err := db.file.Truncate(int64(sz)); err != nil {
				lg.Errorf("[GOOS: %s, GOARCH: %s] truncating file failed, size: %d, db.datasz: %d, error: %v", runtime.GOOS, runtime.GOARCH, sz, db.datasz, err)
				return fmt.Errorf("file resize error: %s", err)
			}
		}
		if err := db.file.Sync(); err != nil {
			lg.Errorf("[GOOS: %s, GOARCH: %s] syncing file failed, db.datasz: %d, error: %v", runtime.GOOS, runtime.GOARCH, db.datasz, err)
			return fmt.Errorf("file sync error: %s", err)
		}
		if db.Mlock {
			// unlock old file and lock new one
			if err := db.mrelock(fileSize, sz); err != nil {
				return fmt.Errorf("mlock/munlock error: %s", err)
			}
		}
	}

	return nil
}

func (db *DB) IsReadOnly() bool {
	return db.readOnly
}

func (db *DB) freepages() []common.Pgid {
	tx, err := db.beginTx()
	defer func() {
		err = tx.Rollback()
		if err != nil {
			panic("freepages: failed to rollback tx")
		}
	}()
	if err != nil {
		panic("freepages: failed to open read only tx")
	}

	reachable := make(map[common.Pgid]*common.Page)
	nofreed := make(map[common.Pgid]bool)
	ech := make(chan error)
	go func() {
		for e := range ech {
			panic(fmt.Sprintf("freepages: failed to get all reachable pages (%v)", e))
		}
	}()
	tx.recursivelyCheckBucket(&tx.root, reachable, nofreed, HexKVStringer(), ech)
	close(ech)

	// TODO: If check bucket reported any corruptions (ech) we shouldn't proceed to freeing the pages.

	var fids []common.Pgid
	for i := common.Pgid(2); i < db.meta().Pgid(); i++ {
		if _, ok := reachable[i]; !ok {
			fids = append(fids, i)
		}
	}
	return fids
}

func newFreelist(freelistType FreelistType) fl.Interface {
	if freelistType == FreelistMapType {
		return fl.NewHashMapFreelist()
	}
	return fl.NewArrayFreelist()
}

// Options represents the options that can be set when opening a database.
type Options struct {
	// Timeout is the amount of time to wait to obtain a file lock.
	// When set to zero it will wait indefinitely.
	Timeout time.Duration

	// Sets the DB.NoGrowSync flag before memory mapping the file.
	NoGrowSync bool

	// Do not sync freelist to disk. This improves the database write performance
	// under normal operation, but requires a full database re-sync during recovery.
	NoFreelistSync bool

	// PreLoadFreelist sets whether to load the free pages when opening
	// the db file. Note when opening db in write mode, bbolt will always
	// load the free pages.
	PreLoadFreelist bool

	// FreelistType sets the backend freelist type. There are two options. Array which is simple but endures
	// dramatic performance degradation if database is large and fragmentation in freelist is common.
	// The alternative one is using hashmap, it is faster in almost all circumstances
	// but it doesn't guarantee that it offers the smallest page id available. In normal case it is safe.
	// The default type is array
	FreelistType FreelistType

	// Open database in read-only mode. Uses flock(..., LOCK_SH |LOCK_NB) to
	// grab a shared lock (UNIX).
	ReadOnly bool

	// Sets the DB.MmapFlags flag before memory mapping the file.
	MmapFlags int

	// InitialMmapSize is the initial mmap size of the database
	// in bytes. Read transactions won't block write transaction
	// if the InitialMmapSize is large enough to hold database mmap
	// size. (See DB.Begin for more information)
	//
	// If <=0, the initial map size is 0.
	// If initialMmapSize is smaller than the previous database size,
	// it takes no effect.
	InitialMmapSize int

	// PageSize overrides the default OS page size.
	PageSize int

	// NoSync sets the initial value of DB.NoSync. Normally this can just be
	// set directly on the DB itself when returned from Open(), but this option
	// is useful in APIs which expose Options but not the underlying DB.
	NoSync bool

	// OpenFile is used to open files. It defaults to os.OpenFile. This option
	// is useful for writing hermetic tests.
	OpenFile func(string, int, os.FileMode) (*os.File, error)

	// Mlock locks database file in memory when set to true.
	// It prevents potential page faults, however
	// used memory can't be reclaimed. (UNIX only)
	Mlock bool

	// Logger is the logger used for bbolt.
	Logger Logger
}

func (o *Options) String() string {
	if o == nil {
		return "{}"
	}

	return fmt.Sprintf("{Timeout: %s, NoGrowSync: %t, NoFreelistSync: %t, PreLoadFreelist: %t, FreelistType: %s, ReadOnly: %t, MmapFlags: %x, InitialMmapSize: %d, PageSize: %d, NoSync: %t, OpenFile: %p, Mlock: %t, Logger: %p}",
		o.Timeout, o.NoGrowSync, o.NoFreelistSync, o.PreLoadFreelist, o.FreelistType, o.ReadOnly, o.MmapFlags, o.InitialMmapSize, o.PageSize, o.NoSync, o.OpenFile, o.Mlock, o.Logger)

}

// DefaultOptions represent the options used if nil options are passed into Open().
// No timeout is used which will cause Bolt to wait indefinitely for a lock.
var DefaultOptions = &Options{
	Timeout:      0,
	NoGrowSync:   false,
	FreelistType: FreelistArrayType,
}

// Stats represents statistics about the database.
type Stats struct {
	// Put `TxStats` at the first field to ensure it's 64-bit aligned. Note
	// that the first word in an allocated struct can be relied upon to be
	// 64-bit aligned. Refer to https://pkg.go.dev/sync/atomic#pkg-note-BUG.
	// Also refer to discussion in https://github.com/etcd-io/bbolt/issues/577.
	TxStats TxStats // global, ongoing stats.

	// Freelist stats
	FreePageN     int // total number of free pages on the freelist
	PendingPageN  int // total number of pending pages on the freelist
	FreeAlloc     int // total bytes allocated in free pages
	FreelistInuse int // total bytes used by the freelist

	// Transaction stats
	TxN     int // total number of started read transactions
	OpenTxN int // number of currently open read transactions
}

// Sub calculates and returns the difference between two sets of database stats.
// This is useful when obtaining stats at two different points and time and
// you need the performance counters that occurred within that time span.
func (s *Stats) Sub(other *Stats) Stats {
	if other == nil {
		return *s
	}
	var diff Stats
	diff.FreePageN = s.FreePageN
	diff.PendingPageN = s.PendingPageN
	diff.FreeAlloc = s.FreeAlloc
	diff.FreelistInuse = s.FreelistInuse
	diff.TxN = s.TxN - other.TxN
	diff.TxStats = s.TxStats.Sub(&other.TxStats)
	return diff
}

type Info struct {
	Data     uintptr
	PageSize int
}
