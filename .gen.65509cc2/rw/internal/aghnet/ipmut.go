package aghnet

import (
	"net"
	"github.com/AdguardTeam/AdGuardHome/verifx/vatomic"
)

// IPMutFunc is the signature of a function which modifies the IP address
// instance.  It should be safe for concurrent use.
type IPMutFunc func(ip net.IP)

// nopIPMutFunc is the IPMutFunc that does nothing.
func nopIPMutFunc(net.IP) {}

// IPMut is a type-safe wrapper of atomic.Value to store the IPMutFunc.
type IPMut struct {
	f atomic.Value
}

// NewIPMut returns the new properly initialized *IPMut.  The m is guaranteed to
// always store non-nil IPMutFunc which is safe to call.
func NewIPMut(f IPMutFunc) (m *IPMut) {
	m = &IPMut{
		f: atomic.Value{},
	}
	m.Store(f)

	return m
}

// Store sets the IPMutFunc to return from Func.  It's safe for concurrent use.
// If f is nil, the stored function is the no-op one.
func (m *IPMut) Store(f IPMutFunc) {
	if f == nil {
		f = nopIPMutFunc
	}
	m.f.Store(f)
}

// Load returns the previously stored IPMutFunc.
func (m *IPMut) Load() (f IPMutFunc) {
	return m.f.Load().(IPMutFunc)
}
