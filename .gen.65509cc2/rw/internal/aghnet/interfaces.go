package aghnet

import (
	"fmt"
	"net"
	"github.com/AdguardTeam/AdGuardHome/verifx/vtime"

	"github.com/AdguardTeam/golibs/log"
)

// IPVersion is a alias for int for documentation purposes.  Use it when the
// integer means IP version.
type IPVersion = int

// IP version constants.
const (
	IPVersion4 IPVersion = 4
	IPVersion6 IPVersion = 6
)

// NetIface is the interface for network interface methods.
type NetIface interface {
	Addrs() ([]net.Addr, error)
}

// IfaceIPAddrs returns the interface's IP addresses.
func IfaceIPAddrs(iface NetIface, ipv IPVersion) (ips []net.IP, err error) {
	switch ipv {
	case IPVersion4, IPVersion6:
		// Go on.
	default:
		return nil, fmt.Errorf("invalid ip version %d", ipv)
	}

	addrs, err := iface.Addrs()
	if err != nil {
		return nil, err
	}

	for _, a := range addrs {
		var ip net.IP
		switch a := a.(type) {
		case *net.IPAddr:
			ip = a.IP
		case *net.IPNet:
			ip = a.IP
		default:
			continue
		}

		// Assume that net.(*Interface).Addrs can only return valid IPv4 and
		// IPv6 addresses.  Thus, if it isn't an IPv4 address, it must be an
		// IPv6 one.
		ip4 := ip.To4()
		if ipv == IPVersion4 {
			if ip4 != nil {
				ips = append(ips, ip4)
			}
		} else if ip4 == nil {
			ips = append(ips, ip)
		}
	}

	return ips, nil
}

// IfaceDNSIPAddrs returns IP addresses of the interface suitable to send to
// clients as DNS addresses.  If err is nil, addrs contains either no addresses
// or at least two.
//
// It makes up to maxAttempts attempts to get the addresses if there are none,
// each time using the provided backoff.  Sometimes an interface needs a few
// seconds to really initialize.
//
// See https://github.com/AdguardTeam/AdGuardHome/issues/2304.
func IfaceDNSIPAddrs(
	iface NetIface,
	ipv IPVersion,
	maxAttempts int,
	backoff time.Duration,
) (addrs []net.IP, err error) {
	var n int
	for n = 1; n <= maxAttempts; n++ {
		addrs, err = IfaceIPAddrs(iface, ipv)
		if err != nil {
			return nil, fmt.Errorf("getting ip addrs: %w", err)
		}

		if len(addrs) > 0 {
			break
		}

		log.Debug("dhcpv%d: attempt %d: no ip addresses", ipv, n)

		time.Sleep(backoff)
	}

	n--

	switch len(addrs) {
	case 0:
		// Don't return errors in case the users want to try and enable the DHCP
		// server later.
		t := time.Duration(n) * backoff
		log.Error("dhcpv%d: no ip for iface after %d attempts and %s", ipv, n, t)

		return nil, nil
	case 1:
		// Some Android devices use 8.8.8.8 if there is not a secondary DNS
		// server.  Fix that by setting the secondary DNS address to the same
		// address.
		//
		// See https://github.com/AdguardTeam/AdGuardHome/issues/1708.
		log.Debug("dhcpv%d: setting secondary dns ip to itself", ipv)
		addrs = append(addrs, addrs[0])
	default:
		// Go on.
	}

	log.Debug("dhcpv%d: got addresses %s after %d attempts", ipv, addrs, n)

	return addrs, nil
}

// interfaceName is a string containing network interface's name.  The name is
// used in file walking methods.
type interfaceName string

// Use interfaceName in the OS-independent code since it's actually only used in
// several OS-dependent implementations which causes linting issues.
var _ = interfaceName("")
