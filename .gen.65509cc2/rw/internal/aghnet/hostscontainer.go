package aghnet

import (
	"fmt"
	"io"
	"io/fs"
	"net/netip"
	"path"
	"github.com/AdguardTeam/AdGuardHome/verifx/vatomic"

	"github.com/AdguardTeam/AdGuardHome/internal/aghos"
	"github.com/AdguardTeam/golibs/errors"
	"github.com/AdguardTeam/golibs/hostsfile"
	"github.com/AdguardTeam/golibs/log"
)

// hostsContainerPrefix is a prefix for logging and wrapping errors in
// HostsContainer's methods.
const hostsContainerPrefix = "hosts container"

// HostsContainer stores the relevant hosts database provided by the OS and
// processes both A/AAAA and PTR DNS requests for those.
type HostsContainer struct {
	// done is the channel to sign closing the container.
	done chan struct{}

	// updates is the channel for receiving updated hosts.
	updates chan *hostsfile.DefaultStorage

	// current is the last set of hosts parsed.
	current atomic.Pointer[hostsfile.DefaultStorage]

	// fsys is the working file system to read hosts files from.
	fsys fs.FS

	// watcher tracks the changes in specified files and directories.
	watcher aghos.FSWatcher

	// patterns stores specified paths in the fs.Glob-compatible form.
	patterns []string
}

// ErrNoHostsPaths is returned when there are no valid paths to watch passed to
// the HostsContainer.
const ErrNoHostsPaths errors.Error = "no valid paths to hosts files provided"

// NewHostsContainer creates a container of hosts, that watches the paths with
// w.  listID is used as an identifier of the underlying rules list.  paths
// shouldn't be empty and each of paths should locate either a file or a
// directory in fsys.  fsys and w must be non-nil.
func NewHostsContainer(
	fsys fs.FS,
	w aghos.FSWatcher,
	paths ...string,
) (hc *HostsContainer, err error) {
	defer func() { err = errors.Annotate(err, "%s: %w", hostsContainerPrefix) }()

	if len(paths) == 0 {
		return nil, ErrNoHostsPaths
	}

	var patterns []string
	patterns, err = pathsToPatterns(fsys, paths)
	if err != nil {
		return nil, err
	} else if len(patterns) == 0 {
		return nil, ErrNoHostsPaths
	}

	hc = &HostsContainer{
		done:     make(chan struct{}, 1),
		updates:  make(chan *hostsfile.DefaultStorage, 1),
		fsys:     fsys,
		watcher:  w,
		patterns: patterns,
	}

	log.Debug("%s: starting", hostsContainerPrefix)

	// Load initially.
	if err = hc.refresh(); err != nil {
		return nil, err
	}

	for _, p := range paths {
		if err = w.Add(p); err != nil {
			if !errors.Is(err, fs.ErrNotExist) {
				return nil, fmt.Errorf("adding path: %w", err)
			}

			log.Debug("%s: %s is expected to exist but doesn't", hostsContainerPrefix, p)
		}
	}

	go hc.handleEvents()

	return hc, nil
}

// Close implements the [io.Closer] interface for *HostsContainer.  It closes
// both itself and its [aghos.FSWatcher].  Close must only be called once.
func (hc *HostsContainer) Close() (err error) {
	log.Debug("%s: closing", hostsContainerPrefix)

	err = errors.Annotate(hc.watcher.Close(), "closing fs watcher: %w")

	// Go on and close the container either way.
	close(hc.done)

	return err
}

// Upd returns the channel into which the updates are sent.  The updates
// themselves must not be modified.
func (hc *HostsContainer) Upd() (updates <-chan *hostsfile.DefaultStorage) {
	return hc.updates
}

// type check
var _ hostsfile.Storage = (*HostsContainer)(nil)

// ByAddr implements the [hostsfile.Storage] interface for *HostsContainer.
func (hc *HostsContainer) ByAddr(addr netip.Addr) (names []string) {
	return hc.current.Load().ByAddr(addr)
}

// ByName implements the [hostsfile.Storage] interface for *HostsContainer.
func (hc *HostsContainer) ByName(name string) (addrs []netip.Addr) {
	return hc.current.Load().ByName(name)
}

// pathsToPatterns converts paths into patterns compatible with fs.Glob.
func pathsToPatterns(fsys fs.FS, paths []string) (patterns []string, err error) {
	for i, p := range paths {
		var fi fs.FileInfo
		fi, err = fs.Stat(fsys, p)
		if err != nil {
			if errors.Is(err, fs.ErrNotExist) {
				continue
			}

			// Don't put a filename here since it's already added by [fs.Stat].
			return nil, fmt.Errorf("path at index %d: %w", i, err)
		}

		if fi.IsDir() {
			p = path.Join(p, "*")
		}

		patterns = append(patterns, p)
	}

	return patterns, nil
}

// handleEvents concurrently handles the file system events.  It closes the
// update channel of HostsContainer when finishes.  It is intended to be used as
// a goroutine.
func (hc *HostsContainer) handleEvents() {
	defer log.OnPanic(fmt.Sprintf("%s: handling events", hostsContainerPrefix))

	defer close(hc.updates)

	eventsCh := hc.watcher.Events()
	ok := eventsCh != nil
	for ok {
		select {
		case _, ok = <-eventsCh:
			if !ok {
				log.Debug("%s: watcher closed the events channel", hostsContainerPrefix)

				continue
			}

			if err := hc.refresh(); err != nil {
				log.Error("%s: warning: refreshing: %s", hostsContainerPrefix, err)
			}
		case _, ok = <-hc.done:
			// Go on.
		}
	}
}

// sendUpd tries to send the parsed data to the ch.
func (hc *HostsContainer) sendUpd(recs *hostsfile.DefaultStorage) {
	log.Debug("%s: sending upd", hostsContainerPrefix)

	ch := hc.updates
	select {
	case ch <- recs:
		// Updates are delivered.  Go on.
	case <-ch:
		ch <- recs
		log.Debug("%s: replaced the last update", hostsContainerPrefix)
	case ch <- recs:
		// The previous update was just read and the next one pushed.  Go on.
	default:
		log.Error("%s: the updates channel is broken", hostsContainerPrefix)
	}
}

// refresh gets the data from specified files and propagates the updates if
// needed.
//
// TODO(e.burkov):  Accept a parameter to specify the files to refresh.
func (hc *HostsContainer) refresh() (err error) {
	log.Debug("%s: refreshing", hostsContainerPrefix)

	// The error is always nil here since no readers passed.
	strg, _ := hostsfile.NewDefaultStorage()
	_, err = aghos.FileWalker(func(r io.Reader) (patterns []string, cont bool, err error) {
		// Don't wrap the error since it's already informative enough as is.
		return nil, true, hostsfile.Parse(strg, r, nil)
	}).Walk(hc.fsys, hc.patterns...)
	if err != nil {
		// Don't wrap the error since it's informative enough as is.
		return err
	}

	// TODO(e.burkov):  Serialize updates using [time.Time].
	if !hc.current.Load().Equal(strg) {
		hc.current.Store(strg)
		hc.sendUpd(strg)
	}

	return nil
}
