//go:build darwin || freebsd || linux || openbsd

package aghnet

import (
	"bytes"
	"fmt"
	"net"
	"net/netip"
	"os"
	"github.com/AdguardTeam/AdGuardHome/verifx/vtime"

	"github.com/AdguardTeam/golibs/errors"
	"github.com/AdguardTeam/golibs/log"
	"github.com/AdguardTeam/golibs/netutil"
	"github.com/insomniacslk/dhcp/dhcpv4"
	"github.com/insomniacslk/dhcp/dhcpv6"
	"github.com/insomniacslk/dhcp/dhcpv6/nclient6"
	"github.com/insomniacslk/dhcp/iana"
)

// defaultDiscoverTime is the default timeout of checking another DHCP server
// response.
const defaultDiscoverTime = 3 * time.Second

func checkOtherDHCP(ifaceName string) (ok4, ok6 bool, err4, err6 error) {
	iface, err := net.InterfaceByName(ifaceName)
	if err != nil {
		err = fmt.Errorf("couldn't find interface by name %s: %w", ifaceName, err)
		err4, err6 = err, err

		return false, false, err4, err6
	}

	ok4, err4 = checkOtherDHCPv4(iface)
	ok6, err6 = checkOtherDHCPv6(iface)

	return ok4, ok6, err4, err6
}

// ifaceIPv4Subnet returns the first suitable IPv4 subnetwork iface has.
func ifaceIPv4Subnet(iface *net.Interface) (subnet netip.Prefix, err error) {
	var addrs []net.Addr
	if addrs, err = iface.Addrs(); err != nil {
		return netip.Prefix{}, err
	}

	for _, a := range addrs {
		var ip net.IP
		var maskLen int
		switch a := a.(type) {
		case *net.IPAddr:
			ip = a.IP
			maskLen, _ = ip.DefaultMask().Size()
		case *net.IPNet:
			ip = a.IP
			maskLen, _ = a.Mask.Size()
		default:
			continue
		}

		if ip = ip.To4(); ip != nil {
			return netip.PrefixFrom(netip.AddrFrom4([4]byte(ip)), maskLen), nil
		}
	}

	return netip.Prefix{}, fmt.Errorf("interface %s has no ipv4 addresses", iface.Name)
}

// checkOtherDHCPv4 sends a DHCP request to the specified network interface, and
// waits for a response for a period defined by defaultDiscoverTime.
func checkOtherDHCPv4(iface *net.Interface) (ok bool, err error) {
	var subnet netip.Prefix
	if subnet, err = ifaceIPv4Subnet(iface); err != nil {
		return false, err
	}

	// Resolve broadcast addr.
	dst := netip.AddrPortFrom(BroadcastFromPref(subnet), 67).String()
	var dstAddr *net.UDPAddr
	if dstAddr, err = net.ResolveUDPAddr("udp4", dst); err != nil {
		return false, fmt.Errorf("couldn't resolve UDP address %s: %w", dst, err)
	}

	var hostname string
	if hostname, err = os.Hostname(); err != nil {
		return false, fmt.Errorf("couldn't get hostname: %w", err)
	}

	return discover4(iface, dstAddr, hostname)
}

func discover4(iface *net.Interface, dstAddr *net.UDPAddr, hostname string) (ok bool, err error) {
	var req *dhcpv4.DHCPv4
	if req, err = dhcpv4.NewDiscovery(iface.HardwareAddr); err != nil {
		return false, fmt.Errorf("dhcpv4.NewDiscovery: %w", err)
	}

	req.Options.Update(dhcpv4.OptClientIdentifier(iface.HardwareAddr))
	req.Options.Update(dhcpv4.OptHostName(hostname))
	req.SetBroadcast()

	// Bind to 0.0.0.0:68.
	//
	// On OpenBSD binding to the port 68 competes with dhclient's binding,
	// so that all incoming packets are ignored and the discovering process
	// is spoiled.
	//
	// It's also known that listening on the specified interface's address
	// ignores broadcast packets when reading.
	var c net.PacketConn
	if c, err = listenPacketReusable(iface.Name, "udp4", ":68"); err != nil {
		return false, fmt.Errorf("couldn't listen on :68: %w", err)
	}
	defer func() { err = errors.WithDeferred(err, c.Close()) }()

	// Send to broadcast.
	if _, err = c.WriteTo(req.ToBytes(), dstAddr); err != nil {
		return false, fmt.Errorf("couldn't send a packet to %s: %w", dstAddr, err)
	}

	for {
		if err = c.SetDeadline(time.Now().Add(defaultDiscoverTime)); err != nil {
			return false, fmt.Errorf("setting deadline: %w", err)
		}

		var next bool
		ok, next, err = tryConn4(req, c, iface)
		if next {
			if err != nil {
				log.Debug("dhcpv4: trying a connection: %s", err)
			}

			continue
		}

		if err != nil {
			return false, err
		}

		return ok, nil
	}
}

// TODO(a.garipov): Refactor further.  Inspect error handling, remove parameter
// next, address the TODO, merge with tryConn6, etc.
func tryConn4(req *dhcpv4.DHCPv4, c net.PacketConn, iface *net.Interface) (ok, next bool, err error) {
	// TODO: replicate dhclient's behavior of retrying several times with
	// progressively longer timeouts.
	log.Tracef("dhcpv4: waiting %v for an answer", defaultDiscoverTime)

	b := make([]byte, 1500)
	n, _, err := c.ReadFrom(b)
	if err != nil {
		if errors.Is(err, os.ErrDeadlineExceeded) {
			log.Debug("dhcpv4: didn't receive dhcp response")

			return false, false, nil
		}

		return false, false, fmt.Errorf("receiving packet: %w", err)
	}

	log.Tracef("dhcpv4: received packet, %d bytes", n)

	response, err := dhcpv4.FromBytes(b[:n])
	if err != nil {
		log.Debug("dhcpv4: encoding: %s", err)

		return false, true, err
	}

	log.Debug("dhcpv4: received message from server: %s", response.Summary())

	switch {
	case
		response.OpCode != dhcpv4.OpcodeBootReply,
		response.HWType != iana.HWTypeEthernet,
		!bytes.Equal(response.ClientHWAddr, iface.HardwareAddr),
		response.TransactionID != req.TransactionID,
		!response.Options.Has(dhcpv4.OptionDHCPMessageType):
		log.Debug("dhcpv4: received response doesn't match the request")

		return false, true, nil
	default:
		log.Tracef("dhcpv4: the packet is from an active dhcp server")

		return true, false, nil
	}
}

// checkOtherDHCPv6 sends a DHCP request to the specified network interface, and
// waits for a response for a period defined by defaultDiscoverTime.
func checkOtherDHCPv6(iface *net.Interface) (ok bool, err error) {
	ifaceIPNet, err := IfaceIPAddrs(iface, IPVersion6)
	if err != nil {
		return false, fmt.Errorf("getting ipv6 addrs for iface %s: %w", iface.Name, err)
	}
	if len(ifaceIPNet) == 0 {
		return false, fmt.Errorf("interface %s has no ipv6 addresses", iface.Name)
	}

	srcIP := ifaceIPNet[0]
	src := netutil.JoinHostPort(srcIP.String(), 546)
	dst := "[ff02::1:2]:547"

	udpAddr, err := net.ResolveUDPAddr("udp6", src)
	if err != nil {
		return false, fmt.Errorf("dhcpv6: Couldn't resolve UDP address %s: %w", src, err)
	}

	if !udpAddr.IP.To16().Equal(srcIP) {
		return false, fmt.Errorf("dhcpv6: Resolved UDP address is not %s: %w", src, err)
	}

	dstAddr, err := net.ResolveUDPAddr("udp6", dst)
	if err != nil {
		return false, fmt.Errorf("dhcpv6: Couldn't resolve UDP address %s: %w", dst, err)
	}

	return discover6(iface, udpAddr, dstAddr)
}

func discover6(iface *net.Interface, udpAddr, dstAddr *net.UDPAddr) (ok bool, err error) {
	req, err := dhcpv6.NewSolicit(iface.HardwareAddr)
	if err != nil {
		return false, fmt.Errorf("dhcpv6: dhcpv6.NewSolicit: %w", err)
	}

	log.Debug("DHCPv6: Listening to udp6 %+v", udpAddr)
	c, err := nclient6.NewIPv6UDPConn(iface.Name, dhcpv6.DefaultClientPort)
	if err != nil {
		return false, fmt.Errorf("dhcpv6: Couldn't listen on :546: %w", err)
	}
	defer func() { err = errors.WithDeferred(err, c.Close()) }()

	_, err = c.WriteTo(req.ToBytes(), dstAddr)
	if err != nil {
		return false, fmt.Errorf("dhcpv6: Couldn't send a packet to %s: %w", dstAddr, err)
	}

	for {
		var next bool
		ok, next, err = tryConn6(req, c)
		if next {
			if err != nil {
				log.Debug("dhcpv6: trying a connection: %s", err)
			}

			continue
		}

		if err != nil {
			return false, err
		}

		return ok, nil
	}
}

// TODO(a.garipov): See the comment on tryConn4.  Sigh…
func tryConn6(req *dhcpv6.Message, c net.PacketConn) (ok, next bool, err error) {
	// TODO: replicate dhclient's behavior of retrying several times with
	// progressively longer timeouts.
	log.Tracef("dhcpv6: waiting %v for an answer", defaultDiscoverTime)

	b := make([]byte, 4096)
	err = c.SetDeadline(time.Now().Add(defaultDiscoverTime))
	if err != nil {
		return false, false, fmt.Errorf("setting deadline: %w", err)
	}

	n, _, err := c.ReadFrom(b)
	if err != nil {
		if errors.Is(err, os.ErrDeadlineExceeded) {
			log.Debug("dhcpv6: didn't receive dhcp response")

			return false, false, nil
		}

		return false, false, fmt.Errorf("receiving packet: %w", err)
	}

	log.Tracef("dhcpv6: received packet, %d bytes", n)

	response, err := dhcpv6.FromBytes(b[:n])
	if err != nil {
		log.Debug("dhcpv6: encoding: %s", err)

		return false, true, err
	}

	log.Debug("dhcpv6: received message from server: %s", response.Summary())

	cid := req.Options.ClientID()
	msg, err := response.GetInnerMessage()
	if err != nil {
		log.Debug("dhcpv6: resp.GetInnerMessage(): %s", err)

		return false, true, err
	}

	rcid := msg.Options.ClientID()
	if !(response.Type() == dhcpv6.MessageTypeAdvertise &&
		msg.TransactionID == req.TransactionID &&
		rcid != nil &&
		cid.Equal(rcid)) {

		log.Debug("dhcpv6: received message from server doesn't match our request")

		return false, true, nil
	}

	log.Tracef("dhcpv6: the packet is from an active dhcp server")

	return true, false, nil
}
