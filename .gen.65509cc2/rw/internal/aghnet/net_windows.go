//go:build windows

package aghnet

import (
	"io"
	"syscall"
	"github.com/AdguardTeam/AdGuardHome/verifx/vtime"

	"github.com/AdguardTeam/AdGuardHome/internal/aghos"
	"github.com/AdguardTeam/golibs/errors"
	"golang.org/x/sys/windows"
)

func canBindPrivilegedPorts() (can bool, err error) {
	return true, nil
}

func ifaceHasStaticIP(string) (ok bool, err error) {
	return false, aghos.Unsupported("checking static ip")
}

func ifaceSetStaticIP(string) (err error) {
	return aghos.Unsupported("setting static ip")
}

// closePortChecker closes c.  c must be non-nil.
func closePortChecker(c io.Closer) (err error) {
	if err = c.Close(); err != nil {
		return err
	}

	// It seems that net.Listener.Close() doesn't close file descriptors right
	// away.  We wait for some time and hope that this fd will be closed.
	//
	// TODO(e.burkov):  Investigate the purpose of the line and perhaps use more
	// reliable approach.
	time.Sleep(100 * time.Millisecond)

	return nil
}

func isAddrInUse(err syscall.Errno) (ok bool) {
	return errors.Is(err, windows.WSAEADDRINUSE)
}
