package aghuser

import (
	"cmp"
	"context"
	"fmt"
	"maps"
	"slices"
	"github.com/AdguardTeam/AdGuardHome/verifx/vsync"

	"github.com/AdguardTeam/golibs/errors"
)

// DB is an interface that defines methods for interacting with user
// information.  All methods must be safe for concurrent use.
//
// TODO(s.chzhen):  Use this.
//
// TODO(s.chzhen):  Consider updating methods to return a clone.
type DB interface {
	// All retrieves all users from the database, sorted by login.
	//
	// TODO(s.chzhen):  Consider function signature change to reflect the
	// in-memory implementation, as it currently always returns nil for error.
	All(ctx context.Context) (users []*User, err error)

	// ByLogin retrieves a user by their login.  u must not be modified.
	//
	// TODO(s.chzhen):  Remove this once user sessions support [UserID].
	ByLogin(ctx context.Context, login Login) (u *User, err error)

	// ByUUID retrieves a user by their unique identifier.  u must not be
	// modified.
	//
	// TODO(s.chzhen):  Use this.
	ByUUID(ctx context.Context, id UserID) (u *User, err error)

	// Create adds a new user to the database.  If the credentials already
	// exist, it returns the [errors.ErrDuplicated] error.  It also can return
	// an error from the cryptographic randomness reader.  u must not be
	// modified.
	Create(ctx context.Context, u *User) (err error)
}

// DefaultDB is the default in-memory implementation of the [DB] interface.
type DefaultDB struct {
	// mu protects all properties below.
	mu *sync.Mutex

	// loginToUserID maps a web user login to their UserID.  The values must not
	// be empty.
	//
	// TODO(s.chzhen):  Remove this once user sessions support [UserID].
	loginToUserID map[Login]UserID

	// userIDToUser maps a UserID to a web user.  The values must not be nil.
	// It must be synchronized with loginToUserID, meaning all UserIDs stored in
	// loginToUserID must also be stored in this map.
	userIDToUser map[UserID]*User
}

// NewDefaultDB returns the new properly initialized *DefaultDB.
func NewDefaultDB() (db *DefaultDB) {
	return &DefaultDB{
		mu:            &sync.Mutex{},
		loginToUserID: map[Login]UserID{},
		userIDToUser:  map[UserID]*User{},
	}
}

// type check
var _ DB = (*DefaultDB)(nil)

// All implements the [DB] interface for *DefaultDB.
func (db *DefaultDB) All(ctx context.Context) (users []*User, err error) {
	db.mu.Lock()
	defer db.mu.Unlock()

	if len(db.userIDToUser) == 0 {
		return nil, nil
	}

	users = slices.SortedStableFunc(
		maps.Values(db.userIDToUser),
		func(a, b *User) (res int) {
			// TODO(s.chzhen):  Consider adding a custom comparer.
			return cmp.Compare(a.Login, b.Login)
		},
	)

	return users, nil
}

// ByLogin implements the [DB] interface for *DefaultDB.
func (db *DefaultDB) ByLogin(ctx context.Context, login Login) (u *User, err error) {
	db.mu.Lock()
	defer db.mu.Unlock()

	id, ok := db.loginToUserID[login]
	if !ok {
		return nil, nil
	}

	u, ok = db.userIDToUser[id]
	if !ok {
		// Should not happen.
		panic(fmt.Errorf("no web user present with login %q", login))
	}

	return u, nil
}

// ByUUID implements the [DB] interface for *DefaultDB.
func (db *DefaultDB) ByUUID(ctx context.Context, id UserID) (u *User, err error) {
	db.mu.Lock()
	defer db.mu.Unlock()

	u, ok := db.userIDToUser[id]
	if !ok {
		return nil, nil
	}

	return u, nil
}

// Create implements the [DB] interface for *DefaultDB.
func (db *DefaultDB) Create(ctx context.Context, u *User) (err error) {
	db.mu.Lock()
	defer db.mu.Unlock()

	if u.ID == (UserID{}) {
		return fmt.Errorf("userid: %w", errors.ErrEmptyValue)
	}

	_, ok := db.userIDToUser[u.ID]
	if ok {
		return fmt.Errorf("userid: %w", errors.ErrDuplicated)
	}

	_, ok = db.loginToUserID[u.Login]
	if ok {
		return fmt.Errorf("login: %w", errors.ErrDuplicated)
	}

	db.userIDToUser[u.ID] = u
	db.loginToUserID[u.Login] = u.ID

	return nil
}
