package aghuser

import (
	"context"
	"encoding/binary"
	"fmt"
	"log/slog"
	"github.com/AdguardTeam/AdGuardHome/verifx/vsync"
	"github.com/AdguardTeam/AdGuardHome/verifx/vtime"

	"github.com/AdguardTeam/AdGuardHome/internal/aghos"
	"github.com/AdguardTeam/golibs/errors"
	"github.com/AdguardTeam/golibs/logutil/slogutil"
	"github.com/AdguardTeam/golibs/timeutil"
	"go.etcd.io/bbolt"
	berrors "go.etcd.io/bbolt/errors"
)

// SessionStorage is an interface that defines methods for handling web user
// sessions.  All methods must be safe for concurrent use.
//
// TODO(s.chzhen):  Add DeleteAll method.
type SessionStorage interface {
	// New creates a new session for the web user.
	New(ctx context.Context, u *User) (s *Session, err error)

	// FindByToken returns the stored session for the web user based on the session
	// token.
	//
	// TODO(s.chzhen):  Consider function signature change to reflect the
	// in-memory implementation, as it currently always returns nil for error.
	FindByToken(ctx context.Context, t SessionToken) (s *Session, err error)

	// DeleteByToken removes a stored web user session by the provided token.
	DeleteByToken(ctx context.Context, t SessionToken) (err error)

	// Close releases the web user sessions database resources.
	Close() (err error)
}

// DefaultSessionStorageConfig represents the web user session storage
// configuration structure.
type DefaultSessionStorageConfig struct {
	// Logger is used for logging the operation of the session storage.  It must
	// not be nil.
	Logger *slog.Logger

	// Clock is used to get the current time.  It must not be nil.
	Clock timeutil.Clock

	// UserDB contains the web user information such as ID, login, and password.
	// It must not be nil.
	UserDB DB

	// DBPath is the path to the database file where session data is stored.  It
	// must not be empty.
	DBPath string

	// SessionTTL is the default Time-To-Live duration for web user sessions.
	// It specifies how long a session should last and is a required field.
	SessionTTL time.Duration
}

// DefaultSessionStorage is the default bbolt database implementation of the
// [SessionStorage] interface.
type DefaultSessionStorage struct {
	// db is an instance of the bbolt database where web user sessions are
	// stored by [SessionToken] in the [bucketNameSessions] bucket.
	db *bbolt.DB

	// logger is used for logging the operation of the session storage.
	logger *slog.Logger

	// mu protects sessions.
	mu *sync.Mutex

	// clock is used to get the current time.
	clock timeutil.Clock

	// userDB contains the web user information such as ID, login, and password.
	userDB DB

	// sessions maps a session token to a web user session.
	sessions map[SessionToken]*Session

	// sessionTTL is the default Time-To-Live value for web user sessions.
	sessionTTL time.Duration
}

// NewDefaultSessionStorage returns the new properly initialized
// *DefaultSessionStorage.
func NewDefaultSessionStorage(
	ctx context.Context,
	conf *DefaultSessionStorageConfig,
) (ds *DefaultSessionStorage, err error) {
	ds = &DefaultSessionStorage{
		clock:      conf.Clock,
		userDB:     conf.UserDB,
		logger:     conf.Logger,
		mu:         &sync.Mutex{},
		sessions:   map[SessionToken]*Session{},
		sessionTTL: conf.SessionTTL,
	}

	dbFilename := conf.DBPath
	// TODO(s.chzhen):  Pass logger with options.
	ds.db, err = bbolt.Open(dbFilename, aghos.DefaultPermFile, nil)
	if err != nil {
		ds.logger.ErrorContext(ctx, "opening db %q: %w", dbFilename, err)
		if errors.Is(err, berrors.ErrInvalid) {
			const s = "AdGuard Home cannot be initialized due to an incompatible file system.\n" +
				"Please read the explanation here: https://adguard-dns.io/kb/adguard-home/getting-started/#limitations"
			slogutil.PrintLines(ctx, ds.logger, slog.LevelError, "", s)
		}

		return nil, err
	}

	err = ds.loadSessions(ctx)
	if err != nil {
		return nil, fmt.Errorf("loading sessions: %w", err)
	}

	return ds, nil
}

// loadSessions loads web user sessions from the bbolt database.
func (ds *DefaultSessionStorage) loadSessions(ctx context.Context) (err error) {
	tx, err := ds.db.Begin(true)
	if err != nil {
		return fmt.Errorf("starting transaction: %w", err)
	}

	needRollback := true
	defer func() {
		if needRollback {
			err = errors.WithDeferred(err, tx.Rollback())
		}
	}()

	bkt := tx.Bucket([]byte(bboltBucketSessions))
	if bkt == nil {
		return nil
	}

	removed, err := ds.processSessions(ctx, bkt)
	if err != nil {
		return fmt.Errorf("processing sessions: %w", err)
	}

	if removed == 0 {
		ds.logger.DebugContext(ctx, "loading sessions from db", "stored", len(ds.sessions))

		return nil
	}

	needRollback = false
	err = tx.Commit()
	if err != nil {
		return fmt.Errorf("committing transaction: %w", err)
	}

	ds.logger.DebugContext(
		ctx,
		"loading sessions from db",
		"stored", len(ds.sessions),
		"removed", removed,
	)

	return nil
}

// processSessions iterates over the sessions bucket and loads or removes
// sessions as needed.
func (ds *DefaultSessionStorage) processSessions(
	ctx context.Context,
	bkt *bbolt.Bucket,
) (removed int, err error) {
	invalidSessions := [][]byte{}

	err = bkt.ForEach(ds.bboltSessionHandler(ctx, &invalidSessions))
	if err != nil {
		return 0, fmt.Errorf("iterating over sessions: %w", err)
	}

	var errs []error
	for _, s := range invalidSessions {
		if err = bkt.Delete(s); err != nil {
			errs = append(errs, err)
		}
	}

	if err = errors.Join(errs...); err != nil {
		return 0, fmt.Errorf("deleting sessions: %w", err)
	}

	return len(invalidSessions), nil
}

// bboltSessionHandler returns a function for [bbolt.Bucket.ForEach] that
// iterates over stored sessions, deserializes them, and logs any errors
// encountered.  The returned error is always nil, as these errors are
// considered non-critical to stop the iteration process.
func (ds *DefaultSessionStorage) bboltSessionHandler(
	ctx context.Context,
	invalidSessions *[][]byte,
) (fn func(k, v []byte) (err error)) {
	now := ds.clock.Now()

	return func(k, v []byte) (err error) {
		s, err := bboltDecode(v)
		if err != nil {
			*invalidSessions = append(*invalidSessions, k)
			ds.logger.DebugContext(ctx, "deserializing session", slogutil.KeyError, err)

			return nil
		}

		if now.After(s.Expire) {
			*invalidSessions = append(*invalidSessions, k)

			return nil
		}

		u, err := ds.userDB.ByLogin(ctx, s.UserLogin)
		if err != nil {
			// Should not happen, as it currently always returns nil for error.
			panic(err)
		}

		if u == nil {
			*invalidSessions = append(*invalidSessions, k)
			ds.logger.DebugContext(ctx, "no saved user by name", "name", s.UserLogin)

			return nil
		}

		t := SessionToken(k)
		s.Token = t
		s.UserID = u.ID
		ds.sessions[t] = s

		return nil
	}
}

// bboltBucketSessions is the name of the bucket storing web user sessions in
// the bbolt database.
const bboltBucketSessions = "sessions-2"

const (
	// bboltSessionExpireLen is the length of the expire field in the binary
	// entry stored in bbolt.
	bboltSessionExpireLen = 4

	// bboltSessionNameLen is the length of the name field in the binary entry
	// stored in bbolt.
	bboltSessionNameLen = 2
)

// bboltDecode deserializes decodes a binary data into a session.
func bboltDecode(data []byte) (s *Session, err error) {
	if len(data) < bboltSessionExpireLen+bboltSessionNameLen {
		return nil, fmt.Errorf("length of the data is less than expected: got %d", len(data))
	}

	expireData := data[:bboltSessionExpireLen]
	nameLenData := data[bboltSessionExpireLen : bboltSessionExpireLen+bboltSessionNameLen]
	nameData := data[bboltSessionExpireLen+bboltSessionNameLen:]

	nameLen := binary.BigEndian.Uint16(nameLenData)
	if len(nameData) != int(nameLen) {
		return nil, fmt.Errorf("login: expected length %d, got %d", nameLen, len(nameData))
	}

	expire := binary.BigEndian.Uint32(expireData)

	return &Session{
		Expire:    time.Unix(int64(expire), 0),
		UserLogin: Login(nameData),
	}, nil
}

// bboltEncode serializes a session properties into a binary data.
func bboltEncode(s *Session) (data []byte) {
	data = make([]byte, bboltSessionExpireLen+bboltSessionNameLen+len(s.UserLogin))

	expireData := data[:bboltSessionExpireLen]
	nameLenData := data[bboltSessionExpireLen : bboltSessionExpireLen+bboltSessionNameLen]
	nameData := data[bboltSessionExpireLen+bboltSessionNameLen:]

	expire := uint32(s.Expire.Unix())
	binary.BigEndian.PutUint32(expireData, expire)
	binary.BigEndian.PutUint16(nameLenData, uint16(len(s.UserLogin)))
	copy(nameData, []byte(s.UserLogin))

	return data
}

// type check
var _ SessionStorage = (*DefaultSessionStorage)(nil)

// New implements the [SessionStorage] interface for *DefaultSessionStorage.
func (ds *DefaultSessionStorage) New(ctx context.Context, u *User) (s *Session, err error) {
	s = &Session{
		Token:     NewSessionToken(),
		UserID:    u.ID,
		UserLogin: u.Login,
		Expire:    ds.clock.Now().Add(ds.sessionTTL),
	}

	err = ds.store(s)
	if err != nil {
		return nil, fmt.Errorf("storing session: %w", err)
	}

	ds.mu.Lock()
	defer ds.mu.Unlock()

	ds.sessions[s.Token] = s

	return s, nil
}

// store saves a web user session in the bbolt database.
func (ds *DefaultSessionStorage) store(s *Session) (err error) {
	tx, err := ds.db.Begin(true)
	if err != nil {
		return fmt.Errorf("starting transaction: %w", err)
	}

	needRollback := true
	defer func() {
		if needRollback {
			err = errors.WithDeferred(err, tx.Rollback())
		}
	}()

	bkt, err := tx.CreateBucketIfNotExists([]byte(bboltBucketSessions))
	if err != nil {
		return fmt.Errorf("creating bucket: %w", err)
	}

	err = bkt.Put(s.Token[:], bboltEncode(s))
	if err != nil {
		return fmt.Errorf("putting data: %w", err)
	}

	needRollback = false
	err = tx.Commit()
	if err != nil {
		return fmt.Errorf("committing transaction: %w", err)
	}

	return nil
}

// FindByToken implements the [SessionStorage] interface for *DefaultSessionStorage.
func (ds *DefaultSessionStorage) FindByToken(ctx context.Context, t SessionToken) (s *Session, err error) {
	ds.mu.Lock()
	defer ds.mu.Unlock()

	s, ok := ds.sessions[t]
	if !ok {
		return nil, nil
	}

	now := ds.clock.Now()
	if now.After(s.Expire) {
		err = ds.deleteByToken(ctx, t)
		if err != nil {
			return nil, fmt.Errorf("expired session: %w", err)
		}

		return nil, nil
	}

	return s, nil
}

// DeleteByToken implements the [SessionStorage] interface for
// *DefaultSessionStorage.
func (ds *DefaultSessionStorage) DeleteByToken(ctx context.Context, t SessionToken) (err error) {
	ds.mu.Lock()
	defer ds.mu.Unlock()

	// Don't wrap the error because it's informative enough as is.
	return ds.deleteByToken(ctx, t)
}

// deleteByToken removes stored session by token.  ds.mu is expected to be
// locked.
func (ds *DefaultSessionStorage) deleteByToken(ctx context.Context, t SessionToken) (err error) {
	err = ds.remove(ctx, t)
	if err != nil {
		ds.logger.ErrorContext(ctx, "deleting session", slogutil.KeyError, err)

		return err
	}

	delete(ds.sessions, t)

	return nil
}

// remove deletes a web user session from the bbolt database.
func (ds *DefaultSessionStorage) remove(ctx context.Context, t SessionToken) (err error) {
	tx, err := ds.db.Begin(true)
	if err != nil {
		return fmt.Errorf("starting transaction: %w", err)
	}

	needRollback := true
	defer func() {
		if needRollback {
			err = errors.WithDeferred(err, tx.Rollback())
		}
	}()

	bkt := tx.Bucket([]byte(bboltBucketSessions))
	if bkt == nil {
		return errors.Error("no bucket")
	}

	err = bkt.Delete(t[:])
	if err != nil {
		return fmt.Errorf("removing data: %w", err)
	}

	needRollback = false
	err = tx.Commit()
	if err != nil {
		return fmt.Errorf("committing transaction: %w", err)
	}

	ds.logger.DebugContext(ctx, "removed session from db")

	return err
}

// Close implements the [SessionStorage] interface for *DefaultSessionStorage.
func (ds *DefaultSessionStorage) Close() (err error) {
	err = ds.db.Close()
	if err != nil {
		return fmt.Errorf("closing db: %w", err)
	}

	return nil
}
