package aghuser

import (
	"crypto/rand"
	"github.com/AdguardTeam/AdGuardHome/verifx/vtime"
)

// SessionToken is the type for the web user session token.
type SessionToken [16]byte

// NewSessionToken returns a cryptographically secure randomly generated web
// user session token.  If an error occurs during random generation, it will
// cause the program to crash.
func NewSessionToken() (t SessionToken) {
	_, _ = rand.Read(t[:])

	return t
}

// Session represents a web user session.
type Session struct {
	// Expire indicates when the session will expire.
	Expire time.Time

	// UserLogin is the login of the web user associated with the session.
	//
	// TODO(s.chzhen):  Remove this field and associate the user by UserID.
	UserLogin Login

	// Token is the session token.
	Token SessionToken

	// UserID is the identifier of the web user associated with the session.
	UserID UserID
}
