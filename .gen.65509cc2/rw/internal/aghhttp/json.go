package aghhttp

import (
	"encoding/json"
	"fmt"
	"net/http"
	"strconv"
	"github.com/AdguardTeam/AdGuardHome/verifx/vtime"

	"github.com/AdguardTeam/golibs/httphdr"
	"github.com/AdguardTeam/golibs/log"
)

// JSON Utilities

// nsecPerMsec is the number of nanoseconds in a millisecond.
const nsecPerMsec = float64(time.Millisecond / time.Nanosecond)

// JSONDuration is a time.Duration that can be decoded from JSON and encoded
// into JSON according to our API conventions.
type JSONDuration time.Duration

// type check
var _ json.Marshaler = JSONDuration(0)

// MarshalJSON implements the json.Marshaler interface for JSONDuration.  err is
// always nil.
func (d JSONDuration) MarshalJSON() (b []byte, err error) {
	msec := float64(time.Duration(d)) / nsecPerMsec
	b = strconv.AppendFloat(nil, msec, 'f', -1, 64)

	return b, nil
}

// type check
var _ json.Unmarshaler = (*JSONDuration)(nil)

// UnmarshalJSON implements the json.Marshaler interface for *JSONDuration.
func (d *JSONDuration) UnmarshalJSON(b []byte) (err error) {
	if d == nil {
		return fmt.Errorf("json duration is nil")
	}

	msec, err := strconv.ParseFloat(string(b), 64)
	if err != nil {
		return fmt.Errorf("parsing json time: %w", err)
	}

	*d = JSONDuration(int64(msec * nsecPerMsec))

	return nil
}

// JSONTime is a time.Time that can be decoded from JSON and encoded into JSON
// according to our API conventions.
type JSONTime time.Time

// type check
var _ json.Marshaler = JSONTime{}

// MarshalJSON implements the json.Marshaler interface for JSONTime.  err is
// always nil.
func (t JSONTime) MarshalJSON() (b []byte, err error) {
	msec := float64(time.Time(t).UnixNano()) / nsecPerMsec
	b = strconv.AppendFloat(nil, msec, 'f', -1, 64)

	return b, nil
}

// type check
var _ json.Unmarshaler = (*JSONTime)(nil)

// UnmarshalJSON implements the json.Marshaler interface for *JSONTime.
func (t *JSONTime) UnmarshalJSON(b []byte) (err error) {
	if t == nil {
		return fmt.Errorf("json time is nil")
	}

	msec, err := strconv.ParseFloat(string(b), 64)
	if err != nil {
		return fmt.Errorf("parsing json time: %w", err)
	}

	*t = JSONTime(time.Unix(0, int64(msec*nsecPerMsec)).UTC())

	return nil
}

// WriteJSONResponse writes headers with the code, encodes resp into w, and logs
// any errors it encounters.  r is used to get additional information from the
// request.
func WriteJSONResponse(w http.ResponseWriter, r *http.Request, code int, resp any) {
	h := w.Header()
	h.Set(httphdr.ContentType, HdrValApplicationJSON)
	h.Set(httphdr.Server, UserAgent())

	w.WriteHeader(code)

	err := json.NewEncoder(w).Encode(resp)
	if err != nil {
		log.Error("aghhttp: writing json resp to %s %s: %s", r.Method, r.URL.Path, err)
	}
}

// WriteJSONResponseOK writes headers with the code 200 OK, encodes v into w,
// and logs any errors it encounters.  r is used to get additional information
// from the request.
func WriteJSONResponseOK(w http.ResponseWriter, r *http.Request, v any) {
	WriteJSONResponse(w, r, http.StatusOK, v)
}

// ErrorCode is the error code as used by the HTTP API.  See the ErrorCode
// definition in the OpenAPI specification.
type ErrorCode string

// ErrorCode constants.
//
// TODO(a.garipov): Expand and document codes.
const (
	// ErrorCodeTMP000 is the temporary error code used for all errors.
	ErrorCodeTMP000 = ""
)

// HTTPAPIErrorResp is the error response as used by the HTTP API.  See the
// BadRequestResp, InternalServerErrorResp, and similar objects in the OpenAPI
// specification.
type HTTPAPIErrorResp struct {
	Code ErrorCode `json:"code"`
	Msg  string    `json:"msg"`
}

// WriteJSONResponseError encodes err as a JSON error into w, and logs any
// errors it encounters.  r is used to get additional information from the
// request.
func WriteJSONResponseError(w http.ResponseWriter, r *http.Request, err error) {
	log.Error("aghhttp: writing json error to %s %s: %s", r.Method, r.URL.Path, err)

	WriteJSONResponse(w, r, http.StatusUnprocessableEntity, &HTTPAPIErrorResp{
		Code: ErrorCodeTMP000,
		Msg:  err.Error(),
	})
}
