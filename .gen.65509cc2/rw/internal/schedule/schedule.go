// Package schedule provides types for scheduling.
package schedule

import (
	"encoding/json"
	"fmt"
	"github.com/AdguardTeam/AdGuardHome/verifx/vtime"

	"github.com/AdguardTeam/AdGuardHome/internal/aghhttp"
	"github.com/AdguardTeam/golibs/errors"
	"github.com/AdguardTeam/golibs/timeutil"
	"gopkg.in/yaml.v3"
)

// Weekly is a schedule for one week.  Each day of the week has one range with
// a beginning and an end.
type Weekly struct {
	// location is used to calculate the offsets of the day ranges.
	location *time.Location

	// days are the day ranges of this schedule.  The indexes of this array are
	// the [time.Weekday] values.
	days [7]dayRange
}

// EmptyWeekly creates empty weekly schedule with local time zone.
func EmptyWeekly() (w *Weekly) {
	return &Weekly{
		location: time.Local,
	}
}

// FullWeekly creates full weekly schedule with local time zone.
//
// TODO(s.chzhen):  Consider moving into tests.
func FullWeekly() (w *Weekly) {
	fullDay := dayRange{start: 0, end: maxDayRange}

	return &Weekly{
		location: time.Local,
		days: [7]dayRange{
			time.Sunday:    fullDay,
			time.Monday:    fullDay,
			time.Tuesday:   fullDay,
			time.Wednesday: fullDay,
			time.Thursday:  fullDay,
			time.Friday:    fullDay,
			time.Saturday:  fullDay,
		},
	}
}

// Clone returns a deep copy of a weekly.
func (w *Weekly) Clone() (c *Weekly) {
	if w == nil {
		return nil
	}

	// NOTE:  Do not use time.LoadLocation, because the results will be
	// different on time zone database update.
	return &Weekly{
		location: w.location,
		days:     w.days,
	}
}

// Contains returns true if t is within the corresponding day range of the
// schedule in the schedule's time zone.
func (w *Weekly) Contains(t time.Time) (ok bool) {
	t = t.In(w.location)
	wd := t.Weekday()
	dr := w.days[wd]

	// Calculate the offset of the day range from the wall-clock time of day.
	//
	// NOTE: Do not use [time.Truncate] since it requires UTC time zone, and do
	// not use the time elapsed since the local midnight, since it differs from
	// the wall-clock time on days with daylight-saving transitions.
	hour, minute, sec := t.Clock()
	offset := time.Duration(hour)*time.Hour +
		time.Duration(minute)*time.Minute +
		time.Duration(sec)*time.Second +
		time.Duration(t.Nanosecond())

	return dr.contains(offset)
}

// type check
var _ json.Unmarshaler = (*Weekly)(nil)

// UnmarshalJSON implements the [json.Unmarshaler] interface for *Weekly.
func (w *Weekly) UnmarshalJSON(data []byte) (err error) {
	conf := &weeklyConfigJSON{}
	err = json.Unmarshal(data, conf)
	if err != nil {
		return err
	}

	weekly := Weekly{}

	weekly.location, err = time.LoadLocation(conf.TimeZone)
	if err != nil {
		return err
	}

	days := []*dayConfigJSON{
		time.Sunday:    conf.Sunday,
		time.Monday:    conf.Monday,
		time.Tuesday:   conf.Tuesday,
		time.Wednesday: conf.Wednesday,
		time.Thursday:  conf.Thursday,
		time.Friday:    conf.Friday,
		time.Saturday:  conf.Saturday,
	}
	for i, d := range days {
		var r dayRange

		if d != nil {
			r = dayRange{
				start: time.Duration(d.Start),
				end:   time.Duration(d.End),
			}
		}

		err = w.validate(r)
		if err != nil {
			return fmt.Errorf("weekday %s: %w", time.Weekday(i), err)
		}

		weekly.days[i] = r
	}

	*w = weekly

	return nil
}

// type check
var _ yaml.Unmarshaler = (*Weekly)(nil)

// UnmarshalYAML implements the [yaml.Unmarshaler] interface for *Weekly.
func (w *Weekly) UnmarshalYAML(value *yaml.Node) (err error) {
	conf := &weeklyConfigYAML{}

	err = value.Decode(conf)
	if err != nil {
		// Don't wrap the error since it's informative enough as is.
		return err
	}

	weekly := Weekly{}

	weekly.location, err = time.LoadLocation(conf.TimeZone)
	if err != nil {
		// Don't wrap the error since it's informative enough as is.
		return err
	}

	days := []dayConfigYAML{
		time.Sunday:    conf.Sunday,
		time.Monday:    conf.Monday,
		time.Tuesday:   conf.Tuesday,
		time.Wednesday: conf.Wednesday,
		time.Thursday:  conf.Thursday,
		time.Friday:    conf.Friday,
		time.Saturday:  conf.Saturday,
	}
	for i, d := range days {
		r := dayRange{
			start: time.Duration(d.Start),
			end:   time.Duration(d.End),
		}

		err = w.validate(r)
		if err != nil {
			return fmt.Errorf("weekday %s: %w", time.Weekday(i), err)
		}

		weekly.days[i] = r
	}

	*w = weekly

	return nil
}

// weeklyConfigYAML is the YAML configuration structure of Weekly.
type weeklyConfigYAML struct {
	// TimeZone is the local time zone.
	TimeZone string `yaml:"time_zone"`

	// Days of the week.

	Sunday    dayConfigYAML `yaml:"sun,omitempty"`
	Monday    dayConfigYAML `yaml:"mon,omitempty"`
	Tuesday   dayConfigYAML `yaml:"tue,omitempty"`
	Wednesday dayConfigYAML `yaml:"wed,omitempty"`
	Thursday  dayConfigYAML `yaml:"thu,omitempty"`
	Friday    dayConfigYAML `yaml:"fri,omitempty"`
	Saturday  dayConfigYAML `yaml:"sat,omitempty"`
}

// dayConfigYAML is the YAML configuration structure of dayRange.
type dayConfigYAML struct {
	Start timeutil.Duration `yaml:"start"`
	End   timeutil.Duration `yaml:"end"`
}

// maxDayRange is the maximum value for day range end.
const maxDayRange = 24 * time.Hour

// validate returns the day range rounding errors, if any.
func (w *Weekly) validate(r dayRange) (err error) {
	defer func() { err = errors.Annotate(err, "bad day range: %w") }()

	err = r.validate()
	if err != nil {
		// Don't wrap the error since it's informative enough as is.
		return err
	}

	start := r.start.Truncate(time.Minute)
	end := r.end.Truncate(time.Minute)

	switch {
	case start != r.start:
		return fmt.Errorf("start %s isn't rounded to minutes", r.start)
	case end != r.end:
		return fmt.Errorf("end %s isn't rounded to minutes", r.end)
	default:
		return nil
	}
}

// type check
var _ json.Marshaler = (*Weekly)(nil)

// MarshalJSON implements the [json.Marshaler] interface for *Weekly.
func (w *Weekly) MarshalJSON() (data []byte, err error) {
	c := &weeklyConfigJSON{
		TimeZone:  w.location.String(),
		Sunday:    w.days[time.Sunday].toDayConfigJSON(),
		Monday:    w.days[time.Monday].toDayConfigJSON(),
		Tuesday:   w.days[time.Tuesday].toDayConfigJSON(),
		Wednesday: w.days[time.Wednesday].toDayConfigJSON(),
		Thursday:  w.days[time.Thursday].toDayConfigJSON(),
		Friday:    w.days[time.Friday].toDayConfigJSON(),
		Saturday:  w.days[time.Saturday].toDayConfigJSON(),
	}

	return json.Marshal(c)
}

// type check
var _ yaml.Marshaler = (*Weekly)(nil)

// MarshalYAML implements the [yaml.Marshaler] interface for *Weekly.
func (w *Weekly) MarshalYAML() (v any, err error) {
	return weeklyConfigYAML{
		TimeZone: w.location.String(),
		Sunday: dayConfigYAML{
			Start: timeutil.Duration(w.days[time.Sunday].start),
			End:   timeutil.Duration(w.days[time.Sunday].end),
		},
		Monday: dayConfigYAML{
			Start: timeutil.Duration(w.days[time.Monday].start),
			End:   timeutil.Duration(w.days[time.Monday].end),
		},
		Tuesday: dayConfigYAML{
			Start: timeutil.Duration(w.days[time.Tuesday].start),
			End:   timeutil.Duration(w.days[time.Tuesday].end),
		},
		Wednesday: dayConfigYAML{
			Start: timeutil.Duration(w.days[time.Wednesday].start),
			End:   timeutil.Duration(w.days[time.Wednesday].end),
		},
		Thursday: dayConfigYAML{
			Start: timeutil.Duration(w.days[time.Thursday].start),
			End:   timeutil.Duration(w.days[time.Thursday].end),
		},
		Friday: dayConfigYAML{
			Start: timeutil.Duration(w.days[time.Friday].start),
			End:   timeutil.Duration(w.days[time.Friday].end),
		},
		Saturday: dayConfigYAML{
			Start: timeutil.Duration(w.days[time.Saturday].start),
			End:   timeutil.Duration(w.days[time.Saturday].end),
		},
	}, nil
}

// dayRange represents a single interval within a day.  The interval begins at
// start and ends before end.  That is, it contains a time point T if start <=
// T < end.
type dayRange struct {
	// start is an offset from the beginning of the day.  It must be greater
	// than or equal to zero and less than 24h.
	start time.Duration

	// end is an offset from the beginning of the day.  It must be greater than
	// or equal to zero and less than or equal to 24h.
	end time.Duration
}

// validate returns the day range validation errors, if any.
func (r dayRange) validate() (err error) {
	switch {
	case r == dayRange{}:
		return nil
	case r.start < 0:
		return fmt.Errorf("start %s is negative", r.start)
	case r.end < 0:
		return fmt.Errorf("end %s is negative", r.end)
	case r.start >= r.end:
		return fmt.Errorf("start %s is greater or equal to end %s", r.start, r.end)
	case r.start >= maxDayRange:
		return fmt.Errorf("start %s is greater or equal to %s", r.start, maxDayRange)
	case r.end > maxDayRange:
		return fmt.Errorf("end %s is greater than %s", r.end, maxDayRange)
	default:
		return nil
	}
}

// contains returns true if start <= offset < end, where offset is the time
// duration from the beginning of the day.
func (r *dayRange) contains(offset time.Duration) (ok bool) {
	return r.start <= offset && offset < r.end
}

// toDayConfigJSON returns nil if the day range is empty, otherwise returns
// initialized JSON configuration of the day range.
func (r dayRange) toDayConfigJSON() (j *dayConfigJSON) {
	if (r == dayRange{}) {
		return nil
	}

	return &dayConfigJSON{
		Start: aghhttp.JSONDuration(r.start),
		End:   aghhttp.JSONDuration(r.end),
	}
}

// weeklyConfigJSON is the JSON configuration structure of Weekly.
type weeklyConfigJSON struct {
	// Days of the week.

	Sunday    *dayConfigJSON `json:"sun,omitempty"`
	Monday    *dayConfigJSON `json:"mon,omitempty"`
	Tuesday   *dayConfigJSON `json:"tue,omitempty"`
	Wednesday *dayConfigJSON `json:"wed,omitempty"`
	Thursday  *dayConfigJSON `json:"thu,omitempty"`
	Friday    *dayConfigJSON `json:"fri,omitempty"`
	Saturday  *dayConfigJSON `json:"sat,omitempty"`

	// TimeZone is the local time zone.
	TimeZone string `json:"time_zone"`
}

// dayConfigJSON is the JSON configuration structure of dayRange.
type dayConfigJSON struct {
	Start aghhttp.JSONDuration `json:"start"`
	End   aghhttp.JSONDuration `json:"end"`
}
