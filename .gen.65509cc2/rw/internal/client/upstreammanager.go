package client

import (
	"fmt"
	"log/slog"
	"slices"
	"github.com/AdguardTeam/AdGuardHome/verifx/vtime"

	"github.com/AdguardTeam/AdGuardHome/internal/aghnet"
	"github.com/AdguardTeam/dnsproxy/proxy"
	"github.com/AdguardTeam/dnsproxy/upstream"
	"github.com/AdguardTeam/golibs/errors"
	"github.com/AdguardTeam/golibs/logutil/slogutil"
	"github.com/AdguardTeam/golibs/stringutil"
	"github.com/AdguardTeam/golibs/timeutil"
)

// CommonUpstreamConfig contains common settings for custom client upstream
// configurations.
type CommonUpstreamConfig struct {
	Bootstrap               upstream.Resolver
	UpstreamTimeout         time.Duration
	BootstrapPreferIPv6     bool
	EDNSClientSubnetEnabled bool
	UseHTTP3Upstreams       bool
}

// customUpstreamConfig contains custom client upstream configuration and the
// timestamp of the latest configuration update.
type customUpstreamConfig struct {
	// proxyConf is the constructed upstream configuration for the [proxy],
	// derived from the fields below.  It is initialized on demand with
	// [newCustomUpstreamConfig].
	proxyConf *proxy.CustomUpstreamConfig

	// commonConfUpdate is the timestamp of the latest configuration update,
	// used to check against [upstreamManager.confUpdate] to determine if the
	// configuration is up to date.
	commonConfUpdate time.Time

	// upstreams is the cached list of custom upstream DNS servers used for the
	// configuration of proxyConf.
	upstreams []string

	// upstreamsCacheSize is the cached value of the cache size of the
	// upstreams, used for the configuration of proxyConf.
	upstreamsCacheSize uint32

	// upstreamsCacheEnabled is the cached value indicating whether the cache of
	// the upstreams is enabled for the configuration of proxyConf.
	upstreamsCacheEnabled bool

	// isChanged indicates whether the proxyConf needs to be updated.
	isChanged bool
}

// upstreamManager stores and updates custom client upstream configurations.
type upstreamManager struct {
	// logger is used for logging the operation of the upstream manager.  It
	// must not be nil.
	//
	// TODO(s.chzhen):  Consider using a logger with its own prefix.
	logger *slog.Logger

	// uidToCustomConf maps persistent client UID to the custom client upstream
	// configuration.  Stored UIDs must be in sync with the [index.uidToClient].
	uidToCustomConf map[UID]*customUpstreamConfig

	// commonConf is the common upstream configuration.
	commonConf *CommonUpstreamConfig

	// clock is used to get the current time.  It must not be nil.
	clock timeutil.Clock

	// confUpdate is the timestamp of the latest common upstream configuration
	// update.
	confUpdate time.Time
}

// newUpstreamManager returns the new properly initialized upstream manager.
func newUpstreamManager(logger *slog.Logger, clock timeutil.Clock) (m *upstreamManager) {
	return &upstreamManager{
		logger:          logger,
		uidToCustomConf: make(map[UID]*customUpstreamConfig),
		clock:           clock,
	}
}

// updateCommonUpstreamConfig updates the common upstream configuration and the
// timestamp of the latest configuration update.
func (m *upstreamManager) updateCommonUpstreamConfig(conf *CommonUpstreamConfig) {
	m.commonConf = conf
	m.confUpdate = m.clock.Now()
}

// updateCustomUpstreamConfig updates the stored custom client upstream
// configuration associated with the persistent client.  It also sets
// [customUpstreamConfig.isChanged] to true so [customUpstreamConfig.proxyConf]
// can be updated later in [upstreamManager.customUpstreamConfig].
func (m *upstreamManager) updateCustomUpstreamConfig(c *Persistent) {
	cliConf, ok := m.uidToCustomConf[c.UID]
	if !ok {
		cliConf = &customUpstreamConfig{
			commonConfUpdate: m.confUpdate,
		}

		m.uidToCustomConf[c.UID] = cliConf
	}

	// TODO(s.chzhen):  Compare before cloning.
	cliConf.upstreams = slices.Clone(c.Upstreams)
	cliConf.upstreamsCacheSize = c.UpstreamsCacheSize
	cliConf.upstreamsCacheEnabled = c.UpstreamsCacheEnabled
	cliConf.isChanged = true
}

// customUpstreamConfig returns the custom client upstream configuration.
func (m *upstreamManager) customUpstreamConfig(uid UID) (proxyConf *proxy.CustomUpstreamConfig) {
	cliConf, ok := m.uidToCustomConf[uid]
	if !ok {
		// TODO(s.chzhen):  Consider panic.
		m.logger.Error("no associated custom client upstream config")

		return nil
	}

	if !m.isConfigChanged(cliConf) {
		return cliConf.proxyConf
	}

	if cliConf.proxyConf != nil {
		err := cliConf.proxyConf.Close()
		if err != nil {
			// TODO(s.chzhen):  Pass context.
			m.logger.Debug("closing custom upstream config", slogutil.KeyError, err)
		}
	}

	proxyConf = newCustomUpstreamConfig(cliConf, m.commonConf)
	cliConf.proxyConf = proxyConf
	cliConf.isChanged = false

	return proxyConf
}

// isConfigChanged returns true if the update is necessary for the custom client
// upstream configuration.
func (m *upstreamManager) isConfigChanged(cliConf *customUpstreamConfig) (ok bool) {
	return !m.confUpdate.Equal(cliConf.commonConfUpdate) || cliConf.isChanged
}

// clearUpstreamCache clears the upstream cache for each stored custom client
// upstream configuration.
func (m *upstreamManager) clearUpstreamCache() {
	for _, c := range m.uidToCustomConf {
		if c.proxyConf != nil {
			c.proxyConf.ClearCache()
		}
	}
}

// remove deletes the custom client upstream configuration and closes
// [customUpstreamConfig.proxyConf] if necessary.
func (m *upstreamManager) remove(uid UID) (err error) {
	cliConf, ok := m.uidToCustomConf[uid]
	if !ok {
		// TODO(s.chzhen):  Consider panic.
		return errors.Error("no associated custom client upstream config")
	}

	delete(m.uidToCustomConf, uid)

	if cliConf.proxyConf != nil {
		return cliConf.proxyConf.Close()
	}

	return nil
}

// close shuts down each stored custom client upstream configuration.
func (m *upstreamManager) close() (err error) {
	var errs []error
	for _, c := range m.uidToCustomConf {
		if c.proxyConf == nil {
			continue
		}

		errs = append(errs, c.proxyConf.Close())
	}

	return errors.Join(errs...)
}

// newCustomUpstreamConfig returns the new properly initialized custom proxy
// upstream configuration for the client.
func newCustomUpstreamConfig(
	cliConf *customUpstreamConfig,
	conf *CommonUpstreamConfig,
) (proxyConf *proxy.CustomUpstreamConfig) {
	upstreams := stringutil.FilterOut(cliConf.upstreams, aghnet.IsCommentOrEmpty)
	if len(upstreams) == 0 {
		return nil
	}

	upsConf, err := proxy.ParseUpstreamsConfig(
		upstreams,
		&upstream.Options{
			Bootstrap:    conf.Bootstrap,
			Timeout:      time.Duration(conf.UpstreamTimeout),
			HTTPVersions: aghnet.UpstreamHTTPVersions(conf.UseHTTP3Upstreams),
			PreferIPv6:   conf.BootstrapPreferIPv6,
		},
	)
	if err != nil {
		// Should not happen because upstreams are already validated.  See
		// [Persistent.validate].
		panic(fmt.Errorf("creating custom upstream config: %w", err))
	}

	return proxy.NewCustomUpstreamConfig(
		upsConf,
		cliConf.upstreamsCacheEnabled,
		int(cliConf.upstreamsCacheSize),
		conf.EDNSClientSubnetEnabled,
	)
}
