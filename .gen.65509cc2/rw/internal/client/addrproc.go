package client

import (
	"context"
	"log/slog"
	"net/netip"
	"github.com/AdguardTeam/AdGuardHome/verifx/vsync"
	"github.com/AdguardTeam/AdGuardHome/verifx/vtime"

	"github.com/AdguardTeam/AdGuardHome/internal/aghnet"
	"github.com/AdguardTeam/AdGuardHome/internal/rdns"
	"github.com/AdguardTeam/AdGuardHome/internal/whois"
	"github.com/AdguardTeam/golibs/errors"
	"github.com/AdguardTeam/golibs/logutil/slogutil"
	"github.com/AdguardTeam/golibs/netutil"
)

// ErrClosed is returned from [AddressProcessor.Close] if it's closed more than
// once.
const ErrClosed errors.Error = "use of closed address processor"

// AddressProcessor is the interface for types that can process clients.
type AddressProcessor interface {
	Process(ctx context.Context, ip netip.Addr)
	Close() (err error)
}

// EmptyAddrProc is an [AddressProcessor] that does nothing.
type EmptyAddrProc struct{}

// type check
var _ AddressProcessor = EmptyAddrProc{}

// Process implements the [AddressProcessor] interface for EmptyAddrProc.
func (EmptyAddrProc) Process(_ context.Context, _ netip.Addr) {}

// Close implements the [AddressProcessor] interface for EmptyAddrProc.
func (EmptyAddrProc) Close() (_ error) { return nil }

// DefaultAddrProcConfig is the configuration structure for address processors.
type DefaultAddrProcConfig struct {
	// BaseLogger is used to create loggers with custom prefixes for sources of
	// information about runtime clients.  It must not be nil.
	BaseLogger *slog.Logger

	// DialContext is used to create TCP connections to WHOIS servers.
	// DialContext must not be nil if [DefaultAddrProcConfig.UseWHOIS] is true.
	DialContext aghnet.DialContextFunc

	// Exchanger is used to perform rDNS queries.  Exchanger must not be nil if
	// [DefaultAddrProcConfig.UseRDNS] is true.
	Exchanger rdns.Exchanger

	// PrivateSubnets are used to determine if an incoming IP address is
	// private.  It must not be nil.
	PrivateSubnets netutil.SubnetSet

	// AddressUpdater is used to update the information about a client's IP
	// address.  It must not be nil.
	AddressUpdater AddressUpdater

	// InitialAddresses are the addresses that are queued for processing
	// immediately by [NewDefaultAddrProc].
	InitialAddresses []netip.Addr

	// CatchPanics, if true, makes the address processor catch and log panics.
	//
	// TODO(a.garipov): Consider better ways to do this or apply this method to
	// other parts of the codebase.
	CatchPanics bool

	// UseRDNS, if true, enables resolving of client IP addresses using reverse
	// DNS.
	UseRDNS bool

	// UsePrivateRDNS, if true, enables resolving of private client IP addresses
	// using reverse DNS.  See [DefaultAddrProcConfig.PrivateSubnets].
	UsePrivateRDNS bool

	// UseWHOIS, if true, enables resolving of client IP addresses using WHOIS.
	UseWHOIS bool
}

// AddressUpdater is the interface for storages of DNS clients that can update
// information about them.
//
// TODO(a.garipov): Consider using the actual client storage once it is moved
// into this package.
type AddressUpdater interface {
	// UpdateAddress updates information about an IP address, setting host (if
	// not empty) and WHOIS information (if not nil).
	UpdateAddress(ctx context.Context, ip netip.Addr, host string, info *whois.Info)
}

// DefaultAddrProc processes incoming client addresses with rDNS and WHOIS, if
// configured, and updates that information in a client storage.
type DefaultAddrProc struct {
	// logger is used to log the operation of address processor.
	logger *slog.Logger

	// clientIPsMu serializes closure of clientIPs and access to isClosed.
	clientIPsMu *sync.Mutex

	// clientIPs is the channel queueing client processing tasks.
	clientIPs chan netip.Addr

	// rdns is used to perform rDNS lookups of clients' IP addresses.
	rdns rdns.Interface

	// whois is used to perform WHOIS lookups of clients' IP addresses.
	whois whois.Interface

	// addrUpdater is used to update the information about a client's IP
	// address.
	addrUpdater AddressUpdater

	// privateSubnets are used to determine if an incoming IP address is
	// private.
	privateSubnets netutil.SubnetSet

	// isClosed is set to true once the address processor is closed.
	isClosed bool

	// usePrivateRDNS, if true, enables resolving of private client IP addresses
	// using reverse DNS.
	usePrivateRDNS bool
}

const (
	// defaultQueueSize is the size of queue of IPs for rDNS and WHOIS
	// processing.
	defaultQueueSize = 255

	// defaultCacheSize is the maximum size of the cache for rDNS and WHOIS
	// processing.  It must be greater than zero.
	defaultCacheSize = 10_000

	// defaultIPTTL is the Time to Live duration for IP addresses cached by
	// rDNS and WHOIS.
	defaultIPTTL = 1 * time.Hour
)

// NewDefaultAddrProc returns a new running client address processor.  c must
// not be nil.
func NewDefaultAddrProc(c *DefaultAddrProcConfig) (p *DefaultAddrProc) {
	p = &DefaultAddrProc{
		logger:         c.BaseLogger.With(slogutil.KeyPrefix, "addrproc"),
		clientIPsMu:    &sync.Mutex{},
		clientIPs:      make(chan netip.Addr, defaultQueueSize),
		rdns:           &rdns.Empty{},
		addrUpdater:    c.AddressUpdater,
		whois:          &whois.Empty{},
		privateSubnets: c.PrivateSubnets,
		usePrivateRDNS: c.UsePrivateRDNS,
	}

	if c.UseRDNS {
		p.rdns = rdns.New(&rdns.Config{
			Logger:    c.BaseLogger.With(slogutil.KeyPrefix, "rdns"),
			Exchanger: c.Exchanger,
			CacheSize: defaultCacheSize,
			CacheTTL:  defaultIPTTL,
		})
	}

	if c.UseWHOIS {
		p.whois = newWHOIS(c.BaseLogger.With(slogutil.KeyPrefix, "whois"), c.DialContext)
	}

	// TODO(s.chzhen):  Pass context.
	ctx := context.TODO()

	go p.process(ctx, c.CatchPanics)

	for _, ip := range c.InitialAddresses {
		p.Process(ctx, ip)
	}

	return p
}

// newWHOIS returns a whois.Interface instance using the given function for
// dialing.
func newWHOIS(logger *slog.Logger, dialFunc aghnet.DialContextFunc) (w whois.Interface) {
	// TODO(s.chzhen):  Consider making configurable.
	const (
		// defaultTimeout is the timeout for WHOIS requests.
		defaultTimeout = 5 * time.Second

		// defaultMaxConnReadSize is an upper limit in bytes for reading from a
		// net.Conn.
		defaultMaxConnReadSize = 64 * 1024

		// defaultMaxRedirects is the maximum redirects count.
		defaultMaxRedirects = 5

		// defaultMaxInfoLen is the maximum length of whois.Info fields.
		defaultMaxInfoLen = 250
	)

	return whois.New(&whois.Config{
		Logger:          logger,
		DialContext:     dialFunc,
		ServerAddr:      whois.DefaultServer,
		Port:            whois.DefaultPort,
		Timeout:         defaultTimeout,
		CacheSize:       defaultCacheSize,
		MaxConnReadSize: defaultMaxConnReadSize,
		MaxRedirects:    defaultMaxRedirects,
		MaxInfoLen:      defaultMaxInfoLen,
		CacheTTL:        defaultIPTTL,
	})
}

// type check
var _ AddressProcessor = (*DefaultAddrProc)(nil)

// Process implements the [AddressProcessor] interface for *DefaultAddrProc.
func (p *DefaultAddrProc) Process(ctx context.Context, ip netip.Addr) {
	p.clientIPsMu.Lock()
	defer p.clientIPsMu.Unlock()

	if p.isClosed {
		return
	}

	select {
	case p.clientIPs <- ip:
		// Go on.
	default:
		p.logger.DebugContext(ctx, "ip channel is full", "len", len(p.clientIPs))
	}
}

// process processes the incoming client IP-address information.  It is intended
// to be used as a goroutine.  Once clientIPs is closed, process exits.
func (p *DefaultAddrProc) process(ctx context.Context, catchPanics bool) {
	if catchPanics {
		defer slogutil.RecoverAndLog(ctx, p.logger)
	}

	p.logger.InfoContext(ctx, "processing addresses")

	for ip := range p.clientIPs {
		host := p.processRDNS(ctx, ip)
		info := p.processWHOIS(ctx, ip)

		p.addrUpdater.UpdateAddress(ctx, ip, host, info)
	}

	p.logger.InfoContext(ctx, "finished processing addresses")
}

// processRDNS resolves the clients' IP addresses using reverse DNS.  host is
// empty if there were errors or if the information hasn't changed.
func (p *DefaultAddrProc) processRDNS(ctx context.Context, ip netip.Addr) (host string) {
	start := time.Now()
	p.logger.DebugContext(ctx, "processing rdns", "ip", ip)
	defer func() {
		p.logger.DebugContext(
			ctx,
			"finished processing rdns",
			"ip", ip,
			"host", host,
			"elapsed", time.Since(start),
		)
	}()

	ok := p.shouldResolve(ip)
	if !ok {
		return
	}

	host, changed := p.rdns.Process(ctx, ip)
	if !changed {
		host = ""
	}

	return host
}

// shouldResolve returns false if ip is a loopback address, or ip is private and
// resolving of private addresses is disabled.
func (p *DefaultAddrProc) shouldResolve(ip netip.Addr) (ok bool) {
	return !ip.IsLoopback() && (p.usePrivateRDNS || !p.privateSubnets.Contains(ip))
}

// processWHOIS looks up the information about clients' IP addresses in the
// WHOIS databases.  info is nil if there were errors or if the information
// hasn't changed.
func (p *DefaultAddrProc) processWHOIS(ctx context.Context, ip netip.Addr) (info *whois.Info) {
	start := time.Now()
	p.logger.DebugContext(ctx, "processing whois", "ip", ip)
	defer func() {
		p.logger.DebugContext(
			ctx,
			"finished processing whois",
			"ip", ip,
			"whois", info,
			"elapsed", time.Since(start),
		)
	}()

	// TODO(s.chzhen):  Move the timeout logic from WHOIS configuration to the
	// context.
	info, changed := p.whois.Process(ctx, ip)
	if !changed {
		info = nil
	}

	return info
}

// Close implements the [AddressProcessor] interface for *DefaultAddrProc.
func (p *DefaultAddrProc) Close() (err error) {
	p.clientIPsMu.Lock()
	defer p.clientIPsMu.Unlock()

	if p.isClosed {
		return ErrClosed
	}

	close(p.clientIPs)
	p.isClosed = true

	return nil
}
