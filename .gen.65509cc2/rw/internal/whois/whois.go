// Package whois provides WHOIS functionality.
package whois

import (
	"bytes"
	"cmp"
	"context"
	"fmt"
	"io"
	"log/slog"
	"net"
	"net/netip"
	"strconv"
	"strings"
	"github.com/AdguardTeam/AdGuardHome/verifx/vtime"

	"github.com/AdguardTeam/AdGuardHome/internal/aghnet"
	"github.com/AdguardTeam/golibs/errors"
	"github.com/AdguardTeam/golibs/ioutil"
	"github.com/AdguardTeam/golibs/logutil/slogutil"
	"github.com/AdguardTeam/golibs/netutil"
	"github.com/bluele/gcache"
	"github.com/c2h5oh/datasize"
)

const (
	// DefaultServer is the default WHOIS server.
	DefaultServer = "whois.arin.net"

	// DefaultPort is the default port for WHOIS requests.
	DefaultPort = 43
)

// Interface provides WHOIS functionality.
type Interface interface {
	// Process makes WHOIS request and returns WHOIS information or nil.
	// changed indicates that Info was updated since last request.
	Process(ctx context.Context, ip netip.Addr) (info *Info, changed bool)
}

// Empty is an empty [Interface] implementation which does nothing.
type Empty struct{}

// type check
var _ Interface = (*Empty)(nil)

// Process implements the [Interface] interface for Empty.
func (Empty) Process(_ context.Context, _ netip.Addr) (info *Info, changed bool) {
	return nil, false
}

// Config is the configuration structure for Default.
type Config struct {
	// Logger is used for logging the operation of the WHOIS lookup queries.  It
	// must not be nil.
	Logger *slog.Logger

	// DialContext is used to create TCP connections to WHOIS servers.
	DialContext aghnet.DialContextFunc

	// ServerAddr is the address of the WHOIS server.
	ServerAddr string

	// Timeout is the timeout for WHOIS requests.
	Timeout time.Duration

	// CacheTTL is the Time to Live duration for cached IP addresses.
	CacheTTL time.Duration

	// MaxConnReadSize is an upper limit in bytes for reading from net.Conn.
	MaxConnReadSize uint64

	// MaxRedirects is the maximum redirects count.
	MaxRedirects int

	// MaxInfoLen is the maximum length of Info fields returned by Process.
	MaxInfoLen int

	// CacheSize is the maximum size of the cache.  It must be greater than
	// zero.
	CacheSize int

	// Port is the port for WHOIS requests.
	Port uint16
}

// Default is the default WHOIS information processor.
type Default struct {
	// logger is used for logging the operation of the WHOIS lookup queries.  It
	// must not be nil.
	logger *slog.Logger

	// cache is the cache containing IP addresses of clients.  An active IP
	// address is resolved once again after it expires.  If IP address couldn't
	// be resolved, it stays here for some time to prevent further attempts to
	// resolve the same IP.
	cache gcache.Cache

	// dialContext is used to create TCP connections to WHOIS servers.
	dialContext aghnet.DialContextFunc

	// serverAddr is the address of the WHOIS server.
	serverAddr string

	// portStr is the port for WHOIS requests.
	portStr string

	// timeout is the timeout for WHOIS requests.
	timeout time.Duration

	// cacheTTL is the Time to Live duration for cached IP addresses.
	cacheTTL time.Duration

	// maxConnReadSize is an upper limit in bytes for reading from net.Conn.
	maxConnReadSize uint64

	// maxRedirects is the maximum redirects count.
	maxRedirects int

	// maxInfoLen is the maximum length of Info fields returned by Process.
	maxInfoLen int
}

// New returns a new default WHOIS information processor.  conf must not be
// nil.
func New(conf *Config) (w *Default) {
	return &Default{
		logger:          conf.Logger,
		serverAddr:      conf.ServerAddr,
		dialContext:     conf.DialContext,
		timeout:         conf.Timeout,
		cache:           gcache.New(conf.CacheSize).LRU().Build(),
		maxConnReadSize: conf.MaxConnReadSize,
		maxRedirects:    conf.MaxRedirects,
		portStr:         strconv.Itoa(int(conf.Port)),
		maxInfoLen:      conf.MaxInfoLen,
		cacheTTL:        conf.CacheTTL,
	}
}

// trimValue trims s and replaces the last 3 characters of the cut with "..."
// to fit into max.  max must be greater than 3.
func trimValue(s string, max int) string {
	if len(s) <= max {
		return s
	}

	return s[:max-3] + "..."
}

// isWHOISComment returns true if the data is empty or is a WHOIS comment.
func isWHOISComment(data []byte) (ok bool) {
	return len(data) == 0 || data[0] == '#' || data[0] == '%'
}

// whoisParse parses a subset of plain-text data from the WHOIS response into a
// string map.  It trims values of the returned map to maxLen.
func whoisParse(data []byte, maxLen int) (info map[string]string) {
	info = map[string]string{}

	var orgname string
	lines := bytes.Split(data, []byte("\n"))
	for _, l := range lines {
		if isWHOISComment(l) {
			continue
		}

		before, after, found := bytes.Cut(l, []byte(":"))
		if !found {
			continue
		}

		key := strings.ToLower(string(before))
		val := strings.TrimSpace(string(after))
		if val == "" {
			continue
		}

		switch key {
		case "orgname", "org-name":
			key = "orgname"
			val = trimValue(val, maxLen)
			orgname = val
		case "city", "country":
			val = trimValue(val, maxLen)
		case "descr", "netname":
			key = "orgname"
			val = cmp.Or(orgname, val)
			orgname = val
		case "whois":
			key = "whois"
		case "referralserver":
			key = "whois"
			val = strings.TrimPrefix(val, "whois://")
		default:
			continue
		}

		info[key] = val
	}

	return info
}

// query sends request to a server and returns the response or error.
func (w *Default) query(ctx context.Context, target, serverAddr string) (data []byte, err error) {
	addr, _, _ := net.SplitHostPort(serverAddr)
	if addr == DefaultServer {
		// Display type flags for query.
		//
		// See https://www.arin.net/resources/registry/whois/rws/api/#nicname-whois-queries.
		target = "n + " + target
	}

	conn, err := w.dialContext(ctx, "tcp", serverAddr)
	if err != nil {
		// Don't wrap the error since it's informative enough as is.
		return nil, err
	}
	defer func() { err = errors.WithDeferred(err, conn.Close()) }()

	r := ioutil.LimitReader(conn, w.maxConnReadSize)

	_ = conn.SetDeadline(time.Now().Add(w.timeout))
	_, err = io.WriteString(conn, target+"\r\n")
	if err != nil {
		// Don't wrap the error since it's informative enough as is.
		return nil, err
	}

	// This use of ReadAll is now safe, because we limited the conn Reader.
	data, err = io.ReadAll(r)
	if err != nil {
		// Don't wrap the error since it's informative enough as is.
		return nil, err
	}

	return data, nil
}

// queryAll queries WHOIS server and handles redirects.
func (w *Default) queryAll(ctx context.Context, target string) (info map[string]string, err error) {
	server := net.JoinHostPort(w.serverAddr, w.portStr)

	for range w.maxRedirects {
		var data []byte
		data, err = w.query(ctx, target, server)
		if err != nil {
			// Don't wrap the error since it's informative enough as is.
			return nil, err
		}

		w.logger.DebugContext(
			ctx,
			"received response",
			"size", datasize.ByteSize(len(data)),
			"source", server,
			"target", target,
		)

		info = whoisParse(data, w.maxInfoLen)
		redir, ok := info["whois"]
		if !ok {
			return info, nil
		}

		redir = strings.ToLower(redir)

		_, _, err = net.SplitHostPort(redir)
		if err != nil {
			server = net.JoinHostPort(redir, w.portStr)
		} else {
			server = redir
		}

		w.logger.DebugContext(ctx, "redirected", "destination", redir, "target", target)
	}

	return nil, fmt.Errorf("whois: redirect loop")
}

// type check
var _ Interface = (*Default)(nil)

// Process makes WHOIS request and returns WHOIS information or nil.  changed
// indicates that Info was updated since last request.
func (w *Default) Process(ctx context.Context, ip netip.Addr) (wi *Info, changed bool) {
	if netutil.IsSpecialPurpose(ip) {
		return nil, false
	}

	wi, expired := w.findInCache(ctx, ip)
	if wi != nil && !expired {
		// Don't return an empty struct so that the frontend doesn't get
		// confused.
		if (*wi == Info{}) {
			return nil, false
		}

		return wi, false
	}

	return w.requestInfo(ctx, ip, wi)
}

// requestInfo makes WHOIS request and returns WHOIS info.  changed is false if
// received information is equal to cached.
func (w *Default) requestInfo(
	ctx context.Context,
	ip netip.Addr,
	cached *Info,
) (wi *Info, changed bool) {
	var info Info

	defer func() {
		item := toCacheItem(info, w.cacheTTL)
		err := w.cache.Set(ip, item)
		if err != nil {
			w.logger.DebugContext(ctx, "adding item to cache", "key", ip, slogutil.KeyError, err)
		}
	}()

	kv, err := w.queryAll(ctx, ip.String())
	if err != nil {
		w.logger.DebugContext(ctx, "querying", "target", ip, slogutil.KeyError, err)

		return nil, true
	}

	info = Info{
		City:    kv["city"],
		Country: kv["country"],
		Orgname: kv["orgname"],
	}

	changed = cached == nil || info != *cached

	// Don't return an empty struct so that the frontend doesn't get confused.
	if (info == Info{}) {
		return nil, changed
	}

	return &info, changed
}

// findInCache finds Info in the cache.  expired indicates that Info is valid.
func (w *Default) findInCache(ctx context.Context, ip netip.Addr) (wi *Info, expired bool) {
	val, err := w.cache.Get(ip)
	if err != nil {
		if !errors.Is(err, gcache.KeyNotFoundError) {
			w.logger.DebugContext(
				ctx,
				"retrieving item from cache",
				"key", ip,
				slogutil.KeyError, err,
			)
		}

		return nil, false
	}

	return fromCacheItem(val.(*cacheItem))
}

// Info is the filtered WHOIS data for a runtime client.
type Info struct {
	City    string `json:"city,omitempty"`
	Country string `json:"country,omitempty"`
	Orgname string `json:"orgname,omitempty"`
}

// Clone returns a deep copy of the WHOIS info.
func (i *Info) Clone() (c *Info) {
	if i == nil {
		return nil
	}

	return &Info{
		City:    i.City,
		Country: i.Country,
		Orgname: i.Orgname,
	}
}

// cacheItem represents an item that we will store in the cache.
type cacheItem struct {
	// expiry is the time when cacheItem will expire.
	expiry time.Time

	// info is the WHOIS data for a runtime client.
	info *Info
}

// toCacheItem creates a cached item from a WHOIS info and Time to Live
// duration.
func toCacheItem(info Info, ttl time.Duration) (item *cacheItem) {
	return &cacheItem{
		expiry: time.Now().Add(ttl),
		info:   &info,
	}
}

// fromCacheItem creates a WHOIS info from the cached item.  expired indicates
// that WHOIS info is valid.  item must not be nil.
func fromCacheItem(item *cacheItem) (info *Info, expired bool) {
	if time.Now().After(item.expiry) {
		return item.info, true
	}

	return item.info, false
}
