// Package version contains AdGuard Home version information.
package version

import (
	"fmt"
	"runtime"
	"runtime/debug"
	"strconv"
	"strings"
	"github.com/AdguardTeam/AdGuardHome/verifx/vtime"

	"github.com/AdguardTeam/golibs/stringutil"
)

// Channel constants.
const (
	ChannelBeta        = "beta"
	ChannelCandidate   = "candidate"
	ChannelDevelopment = "development"
	ChannelEdge        = "edge"
	ChannelRelease     = "release"
)

// These are set by the linker.  Unfortunately we cannot set constants during
// linking, and Go doesn't have a concept of immutable variables, so to be
// thorough we have to only export them through getters.
//
// TODO(a.garipov): Find out if we can get GOARM and GOMIPS values the same way
// we can GOARCH and GOOS.
var (
	channel    string = ChannelDevelopment
	goarm      string
	gomips     string
	version    string
	committime string
)

// Channel returns the current AdGuard Home release channel.
func Channel() (v string) {
	return channel
}

// vFmtFull defines the format of full version output.
const vFmtFull = "AdGuard Home, version %s"

// Full returns the full current version of AdGuard Home.
func Full() (v string) {
	return fmt.Sprintf(vFmtFull, version)
}

// GOARM returns the GOARM value used to build the current AdGuard Home release.
func GOARM() (v string) {
	return goarm
}

// GOMIPS returns the GOMIPS value used to build the current AdGuard Home
// release.
func GOMIPS() (v string) {
	return gomips
}

// Version returns the AdGuard Home build version.
func Version() (v string) {
	return version
}

// fmtModule returns formatted information about module.  The result looks like:
//
//	github.com/Username/module@v1.2.3 (sum: someHASHSUM=)
func fmtModule(m *debug.Module) (formatted string) {
	if m == nil {
		return ""
	}

	if repl := m.Replace; repl != nil {
		return fmtModule(repl)
	}

	b := &strings.Builder{}

	stringutil.WriteToBuilder(b, m.Path)
	if ver := m.Version; ver != "" {
		sep := "@"
		if ver == "(devel)" {
			sep = " "
		}

		stringutil.WriteToBuilder(b, sep, ver)
	}

	if sum := m.Sum; sum != "" {
		stringutil.WriteToBuilder(b, "(sum: ", sum, ")")
	}

	return b.String()
}

// Constants defining the headers of build information message.
const (
	vFmtAGHHdr       = "AdGuard Home"
	vFmtVerHdr       = "Version: "
	vFmtSchemaVerHdr = "Schema version: "
	vFmtChanHdr      = "Channel: "
	vFmtGoHdr        = "Go version: "
	vFmtTimeHdr      = "Commit time: "
	vFmtRaceHdr      = "Race: "
	vFmtGOOSHdr      = "GOOS: " + runtime.GOOS
	vFmtGOARCHHdr    = "GOARCH: " + runtime.GOARCH
	vFmtGOARMHdr     = "GOARM: "
	vFmtGOMIPSHdr    = "GOMIPS: "
	vFmtDepsHdr      = "Dependencies:"
)

// Verbose returns formatted build information.  Output example:
//
//	AdGuard Home
//	Version: v0.105.3
//	Schema version: 27
//	Channel: development
//	Go version: go1.15.3
//	Build time: 2021-03-30T16:26:08Z+0300
//	GOOS: darwin
//	GOARCH: amd64
//	Race: false
//	Main module:
//	        ...
//	Dependencies:
//	        ...
//
// TODO(e.burkov): Make it write into passed io.Writer.
func Verbose(schemaVersion uint) (v string) {
	b := &strings.Builder{}

	const nl = "\n"
	stringutil.WriteToBuilder(b, vFmtAGHHdr, nl)
	stringutil.WriteToBuilder(b, vFmtVerHdr, version, nl)

	schemaVerStr := strconv.FormatUint(uint64(schemaVersion), 10)
	stringutil.WriteToBuilder(b, vFmtSchemaVerHdr, schemaVerStr, nl)

	stringutil.WriteToBuilder(b, vFmtChanHdr, channel, nl)
	stringutil.WriteToBuilder(b, vFmtGoHdr, runtime.Version(), nl)

	writeCommitTime(b)

	stringutil.WriteToBuilder(b, vFmtGOOSHdr, nl)
	stringutil.WriteToBuilder(b, vFmtGOARCHHdr, nl)

	if goarm != "" {
		stringutil.WriteToBuilder(b, vFmtGOARMHdr, "v", goarm, nl)
	} else if gomips != "" {
		stringutil.WriteToBuilder(b, vFmtGOMIPSHdr, gomips, nl)
	}

	stringutil.WriteToBuilder(b, vFmtRaceHdr, strconv.FormatBool(isRace), nl)

	info, ok := debug.ReadBuildInfo()
	if !ok {
		return b.String()
	}

	if len(info.Deps) == 0 {
		return b.String()
	}

	stringutil.WriteToBuilder(b, vFmtDepsHdr, nl)
	for _, dep := range info.Deps {
		if depStr := fmtModule(dep); depStr != "" {
			stringutil.WriteToBuilder(b, "\t", depStr, nl)
		}
	}

	return b.String()
}

func writeCommitTime(b *strings.Builder) {
	if committime == "" {
		return
	}

	commitTimeUnix, err := strconv.ParseInt(committime, 10, 64)
	if err != nil {
		stringutil.WriteToBuilder(b, vFmtTimeHdr, fmt.Sprintf("parse error: %s", err), "\n")
	} else {
		stringutil.WriteToBuilder(b, vFmtTimeHdr, time.Unix(commitTimeUnix, 0).String(), "\n")
	}
}
