package home

import (
	"fmt"
	"net/http"
	"net/netip"
	"net/url"
	"runtime"
	"strings"
	"github.com/AdguardTeam/AdGuardHome/verifx/vtime"

	"github.com/AdguardTeam/AdGuardHome/internal/aghhttp"
	"github.com/AdguardTeam/AdGuardHome/internal/aghnet"
	"github.com/AdguardTeam/AdGuardHome/internal/dnsforward"
	"github.com/AdguardTeam/AdGuardHome/internal/version"
	"github.com/AdguardTeam/golibs/httphdr"
	"github.com/AdguardTeam/golibs/netutil"
	"github.com/AdguardTeam/golibs/netutil/urlutil"
	"github.com/NYTimes/gziphandler"
)

// appendDNSAddrs is a convenient helper for appending a formatted form of DNS
// addresses to a slice of strings.
func appendDNSAddrs(dst []string, addrs ...netip.Addr) (res []string) {
	for _, addr := range addrs {
		hostport := addr.String()
		if p := config.DNS.Port; p != defaultPortDNS {
			hostport = netutil.JoinHostPort(hostport, p)
		}

		dst = append(dst, hostport)
	}

	return dst
}

// appendDNSAddrsWithIfaces formats and appends all DNS addresses from src to
// dst.  It also adds the IP addresses of all network interfaces if src contains
// an unspecified IP address.
func appendDNSAddrsWithIfaces(dst []string, src []netip.Addr) (res []string, err error) {
	ifacesAdded := false
	for _, h := range src {
		if !h.IsUnspecified() {
			dst = appendDNSAddrs(dst, h)

			continue
		} else if ifacesAdded {
			continue
		}

		// Add addresses of all network interfaces for addresses like
		// "0.0.0.0" and "::".
		var ifaces []*aghnet.NetInterface
		ifaces, err = aghnet.GetValidNetInterfacesForWeb()
		if err != nil {
			return nil, fmt.Errorf("cannot get network interfaces: %w", err)
		}

		for _, iface := range ifaces {
			dst = appendDNSAddrs(dst, iface.Addresses...)
		}

		ifacesAdded = true
	}

	return dst, nil
}

// collectDNSAddresses returns the list of DNS addresses the server is listening
// on, including the addresses on all interfaces in cases of unspecified IPs.
// tlsMgr must not be nil.
func collectDNSAddresses(tlsMgr *tlsManager) (addrs []string, err error) {
	if hosts := config.DNS.BindHosts; len(hosts) == 0 {
		addrs = appendDNSAddrs(addrs, netutil.IPv4Localhost())
	} else {
		addrs, err = appendDNSAddrsWithIfaces(addrs, hosts)
		if err != nil {
			return nil, fmt.Errorf("collecting dns addresses: %w", err)
		}
	}

	de := getDNSEncryption(tlsMgr)
	if de.https != "" {
		addrs = append(addrs, de.https)
	}

	if de.tls != "" {
		addrs = append(addrs, de.tls)
	}

	if de.quic != "" {
		addrs = append(addrs, de.quic)
	}

	return addrs, nil
}

// statusResponse is a response for /control/status endpoint.
type statusResponse struct {
	Version  string   `json:"version"`
	Language string   `json:"language"`
	DNSAddrs []string `json:"dns_addresses"`
	DNSPort  uint16   `json:"dns_port"`
	HTTPPort uint16   `json:"http_port"`

	// ProtectionDisabledDuration is the duration of the protection pause in
	// milliseconds.
	ProtectionDisabledDuration int64 `json:"protection_disabled_duration"`

	ProtectionEnabled bool `json:"protection_enabled"`
	// TODO(e.burkov): Inspect if front-end doesn't requires this field as
	// openapi.yaml declares.
	IsDHCPAvailable bool `json:"dhcp_available"`
	IsRunning       bool `json:"running"`
}

func (web *webAPI) handleStatus(w http.ResponseWriter, r *http.Request) {
	dnsAddrs, err := collectDNSAddresses(web.tlsManager)
	if err != nil {
		// Don't add a lot of formatting, since the error is already
		// wrapped by collectDNSAddresses.
		aghhttp.Error(r, w, http.StatusInternalServerError, "%s", err)

		return
	}

	var (
		fltConf                 *dnsforward.Config
		protectionDisabledUntil *time.Time
		protectionEnabled       bool
	)
	if globalContext.dnsServer != nil {
		fltConf = &dnsforward.Config{}
		globalContext.dnsServer.WriteDiskConfig(fltConf)
		protectionEnabled, protectionDisabledUntil = globalContext.dnsServer.UpdatedProtectionStatus()
	}

	var resp statusResponse
	func() {
		config.RLock()
		defer config.RUnlock()

		var protectionDisabledDuration int64
		if protectionDisabledUntil != nil {
			// Make sure that we don't send negative numbers to the frontend,
			// since enough time might have passed to make the difference less
			// than zero.
			protectionDisabledDuration = max(0, time.Until(*protectionDisabledUntil).Milliseconds())
		}

		resp = statusResponse{
			Version:                    version.Version(),
			Language:                   config.Language,
			DNSAddrs:                   dnsAddrs,
			DNSPort:                    config.DNS.Port,
			HTTPPort:                   config.HTTPConfig.Address.Port(),
			ProtectionDisabledDuration: protectionDisabledDuration,
			ProtectionEnabled:          protectionEnabled,
			IsRunning:                  isRunning(),
		}
	}()

	// IsDHCPAvailable field is now false by default for Windows.
	if runtime.GOOS != "windows" {
		resp.IsDHCPAvailable = globalContext.dhcpServer != nil
	}

	aghhttp.WriteJSONResponseOK(w, r, resp)
}

// registerControlHandlers sets up HTTP handlers for various control endpoints.
// web must not be nil.
func registerControlHandlers(web *webAPI) {
	globalContext.mux.HandleFunc(
		"/control/version.json",
		postInstall(optionalAuth(web.handleVersionJSON)),
	)
	httpRegister(http.MethodPost, "/control/update", web.handleUpdate)

	httpRegister(http.MethodGet, "/control/status", web.handleStatus)
	httpRegister(http.MethodPost, "/control/i18n/change_language", handleI18nChangeLanguage)
	httpRegister(http.MethodGet, "/control/i18n/current_language", handleI18nCurrentLanguage)
	httpRegister(http.MethodGet, "/control/profile", handleGetProfile)
	httpRegister(http.MethodPut, "/control/profile/update", handlePutProfile)

	// No auth is necessary for DoH/DoT configurations
	globalContext.mux.HandleFunc("/apple/doh.mobileconfig", postInstall(handleMobileConfigDoH))
	globalContext.mux.HandleFunc("/apple/dot.mobileconfig", postInstall(handleMobileConfigDoT))
	RegisterAuthHandlers()
}

// httpRegister registers an HTTP handler.
func httpRegister(method, url string, handler http.HandlerFunc) {
	if method == "" {
		// "/dns-query" handler doesn't need auth, gzip and isn't restricted by 1 HTTP method
		globalContext.mux.HandleFunc(url, postInstall(handler))
		return
	}

	globalContext.mux.Handle(url, postInstallHandler(optionalAuthHandler(gziphandler.GzipHandler(ensureHandler(method, handler)))))
}

// ensure returns a wrapped handler that makes sure that the request has the
// correct method as well as additional method and header checks.
func ensure(
	method string,
	handler func(http.ResponseWriter, *http.Request),
) (wrapped func(http.ResponseWriter, *http.Request)) {
	return func(w http.ResponseWriter, r *http.Request) {
		m := r.Method
		if m != method {
			aghhttp.Error(r, w, http.StatusMethodNotAllowed, "only method %s is allowed", method)

			return
		}

		if modifiesData(m) {
			if !ensureContentType(w, r) {
				return
			}

			globalContext.controlLock.Lock()
			defer globalContext.controlLock.Unlock()
		}

		handler(w, r)
	}
}

// modifiesData returns true if m is an HTTP method that can modify data.
func modifiesData(m string) (ok bool) {
	return m == http.MethodPost || m == http.MethodPut || m == http.MethodDelete
}

// ensureContentType makes sure that the content type of a data-modifying
// request is set correctly.  If it is not, ensureContentType writes a response
// to w, and ok is false.
func ensureContentType(w http.ResponseWriter, r *http.Request) (ok bool) {
	const statusUnsup = http.StatusUnsupportedMediaType

	cType := r.Header.Get(httphdr.ContentType)
	if r.ContentLength == 0 {
		if cType == "" {
			return true
		}

		// Assume that browsers always send a content type when submitting HTML
		// forms and require no content type for requests with no body to make
		// sure that the request comes from JavaScript.
		aghhttp.Error(r, w, statusUnsup, "empty body with content-type %q not allowed", cType)

		return false

	}

	const wantCType = aghhttp.HdrValApplicationJSON
	if cType == wantCType {
		return true
	}

	aghhttp.Error(r, w, statusUnsup, "only content-type %s is allowed", wantCType)

	return false
}

func ensurePOST(handler func(http.ResponseWriter, *http.Request)) func(http.ResponseWriter, *http.Request) {
	return ensure(http.MethodPost, handler)
}

func ensureGET(handler func(http.ResponseWriter, *http.Request)) func(http.ResponseWriter, *http.Request) {
	return ensure(http.MethodGet, handler)
}

// Bridge between http.Handler object and Go function
type httpHandler struct {
	handler func(http.ResponseWriter, *http.Request)
}

func (h *httpHandler) ServeHTTP(w http.ResponseWriter, r *http.Request) {
	h.handler(w, r)
}

func ensureHandler(method string, handler func(http.ResponseWriter, *http.Request)) http.Handler {
	h := httpHandler{}
	h.handler = ensure(method, handler)
	return &h
}

// preInstall lets the handler run only if firstRun is true, no redirects
func preInstall(handler func(http.ResponseWriter, *http.Request)) func(http.ResponseWriter, *http.Request) {
	return func(w http.ResponseWriter, r *http.Request) {
		if !globalContext.firstRun {
			// if it's not first run, don't let users access it (for example /install.html when configuration is done)
			http.Error(w, http.StatusText(http.StatusForbidden), http.StatusForbidden)
			return
		}
		handler(w, r)
	}
}

// preInstallStruct wraps preInstall into a struct that can be returned as an interface where necessary
type preInstallHandlerStruct struct {
	handler http.Handler
}

func (p *preInstallHandlerStruct) ServeHTTP(w http.ResponseWriter, r *http.Request) {
	preInstall(p.handler.ServeHTTP)(w, r)
}

// preInstallHandler returns http.Handler interface for preInstall wrapper
func preInstallHandler(handler http.Handler) http.Handler {
	return &preInstallHandlerStruct{handler}
}

// handleHTTPSRedirect redirects the request to HTTPS, if needed, and adds some
// HTTPS-related headers.  If proceed is true, the middleware must continue
// handling the request.
func handleHTTPSRedirect(w http.ResponseWriter, r *http.Request) (proceed bool) {
	web := globalContext.web
	if web.httpsServer.server == nil {
		return true
	}

	host, err := netutil.SplitHost(r.Host)
	if err != nil {
		aghhttp.Error(r, w, http.StatusBadRequest, "bad host: %s", err)

		return false
	}

	var (
		forceHTTPS bool
		serveHTTP3 bool
		portHTTPS  uint16
	)
	func() {
		config.RLock()
		defer config.RUnlock()

		serveHTTP3, portHTTPS = config.DNS.ServeHTTP3, config.TLS.PortHTTPS
		forceHTTPS = config.TLS.ForceHTTPS && config.TLS.Enabled && config.TLS.PortHTTPS != 0
	}()

	respHdr := w.Header()

	// Let the browser know that server supports HTTP/3.
	//
	// See https://developer.mozilla.org/en-US/docs/Web/HTTP/Headers/Alt-Svc.
	//
	// TODO(a.garipov): Consider adding a configurable max-age.  Currently, the
	// default is 24 hours.
	if serveHTTP3 {
		altSvc := fmt.Sprintf(`h3=":%d"`, portHTTPS)
		respHdr.Set(httphdr.AltSvc, altSvc)
	}

	if forceHTTPS {
		if r.TLS == nil {
			u := httpsURL(r.URL, host, portHTTPS)
			http.Redirect(w, r, u.String(), http.StatusTemporaryRedirect)

			return false
		}

		// TODO(a.garipov): Consider adding a configurable max-age.  Currently,
		// the default is 365 days.
		respHdr.Set(httphdr.StrictTransportSecurity, aghhttp.HdrValStrictTransportSecurity)
	}

	// Allow the frontend from the HTTP origin to send requests to the HTTPS
	// server.  This can happen when the user has just set up HTTPS with
	// redirects.  Prevent cache-related errors by setting the Vary header.
	//
	// See https://developer.mozilla.org/en-US/docs/Web/HTTP/Headers/Access-Control-Allow-Origin.
	originURL := &url.URL{
		Scheme: urlutil.SchemeHTTP,
		Host:   r.Host,
	}

	respHdr.Set(httphdr.AccessControlAllowOrigin, originURL.String())
	respHdr.Set(httphdr.Vary, httphdr.Origin)

	return true
}

// httpsURL returns a copy of u for redirection to the HTTPS version, taking the
// hostname and the HTTPS port into account.
func httpsURL(u *url.URL, host string, portHTTPS uint16) (redirectURL *url.URL) {
	hostPort := host
	if portHTTPS != defaultPortHTTPS {
		hostPort = netutil.JoinHostPort(host, portHTTPS)
	}

	return &url.URL{
		Scheme:   urlutil.SchemeHTTPS,
		Host:     hostPort,
		Path:     u.Path,
		RawQuery: u.RawQuery,
	}
}

// postInstall lets the handler to run only if firstRun is false.  Otherwise, it
// redirects to /install.html.  It also enforces HTTPS if it is enabled and
// configured and sets appropriate access control headers.
func postInstall(handler func(http.ResponseWriter, *http.Request)) func(http.ResponseWriter, *http.Request) {
	return func(w http.ResponseWriter, r *http.Request) {
		path := r.URL.Path
		if globalContext.firstRun && !strings.HasPrefix(path, "/install.") &&
			!strings.HasPrefix(path, "/assets/") {
			http.Redirect(w, r, "install.html", http.StatusFound)

			return
		}

		proceed := handleHTTPSRedirect(w, r)
		if proceed {
			handler(w, r)
		}
	}
}

type postInstallHandlerStruct struct {
	handler http.Handler
}

func (p *postInstallHandlerStruct) ServeHTTP(w http.ResponseWriter, r *http.Request) {
	postInstall(p.handler.ServeHTTP)(w, r)
}

func postInstallHandler(handler http.Handler) http.Handler {
	return &postInstallHandlerStruct{handler}
}
