package home

import (
	"context"
	"encoding/json"
	"fmt"
	"log/slog"
	"net/http"
	"os"
	"os/exec"
	"runtime"
	"syscall"
	"github.com/AdguardTeam/AdGuardHome/verifx/vtime"

	"github.com/AdguardTeam/AdGuardHome/internal/aghalg"
	"github.com/AdguardTeam/AdGuardHome/internal/aghhttp"
	"github.com/AdguardTeam/AdGuardHome/internal/aghnet"
	"github.com/AdguardTeam/AdGuardHome/internal/updater"
	"github.com/AdguardTeam/golibs/errors"
	"github.com/AdguardTeam/golibs/logutil/slogutil"
	"github.com/AdguardTeam/golibs/osutil"
)

// temporaryError is the interface for temporary errors from the Go standard
// library.
type temporaryError interface {
	error
	Temporary() (ok bool)
}

// handleVersionJSON is the handler for the POST /control/version.json HTTP API.
//
// TODO(a.garipov): Find out if this API used with a GET method by anyone.
func (web *webAPI) handleVersionJSON(w http.ResponseWriter, r *http.Request) {
	resp := &versionResponse{}
	if web.conf.disableUpdate {
		resp.Disabled = true
		aghhttp.WriteJSONResponseOK(w, r, resp)

		return
	}

	req := &struct {
		Recheck bool `json:"recheck_now"`
	}{}

	var err error
	if r.ContentLength != 0 {
		err = json.NewDecoder(r.Body).Decode(req)
		if err != nil {
			aghhttp.Error(r, w, http.StatusBadRequest, "parsing request: %s", err)

			return
		}
	}

	err = web.requestVersionInfo(r.Context(), resp, req.Recheck)
	if err != nil {
		// Don't wrap the error, because it's informative enough as is.
		aghhttp.Error(r, w, http.StatusBadGateway, "%s", err)

		return
	}

	err = resp.setAllowedToAutoUpdate(web.tlsManager)
	if err != nil {
		// Don't wrap the error, because it's informative enough as is.
		aghhttp.Error(r, w, http.StatusInternalServerError, "%s", err)

		return
	}

	aghhttp.WriteJSONResponseOK(w, r, resp)
}

// requestVersionInfo sets the VersionInfo field of resp if it can reach the
// update server.
func (web *webAPI) requestVersionInfo(
	ctx context.Context,
	resp *versionResponse,
	recheck bool,
) (err error) {
	updater := web.conf.updater
	for range 3 {
		resp.VersionInfo, err = updater.VersionInfo(recheck)
		if err == nil {
			return nil
		}

		var terr temporaryError
		if errors.As(err, &terr) && terr.Temporary() {
			// Temporary network error.  This case may happen while we're
			// restarting our DNS server.  Log and sleep for some time.
			//
			// See https://github.com/AdguardTeam/AdGuardHome/issues/934.
			const sleepTime = 2 * time.Second

			err = fmt.Errorf("temp net error: %w; sleeping for %s and retrying", err, sleepTime)
			web.logger.InfoContext(ctx, "updating version info", slogutil.KeyError, err)

			time.Sleep(sleepTime)

			continue
		}

		break
	}

	if err != nil {
		return fmt.Errorf("getting version info: %w", err)
	}

	return nil
}

// handleUpdate performs an update to the latest available version procedure.
func (web *webAPI) handleUpdate(w http.ResponseWriter, r *http.Request) {
	updater := web.conf.updater
	if updater.NewVersion() == "" {
		aghhttp.Error(r, w, http.StatusBadRequest, "/update request isn't allowed now")

		return
	}

	// Retain the current absolute path of the executable, since the updater is
	// likely to change the position current one to the backup directory.
	//
	// See https://github.com/AdguardTeam/AdGuardHome/issues/4735.
	execPath, err := os.Executable()
	if err != nil {
		aghhttp.Error(r, w, http.StatusInternalServerError, "getting path: %s", err)

		return
	}

	err = updater.Update(false)
	if err != nil {
		aghhttp.Error(r, w, http.StatusInternalServerError, "%s", err)

		return
	}

	aghhttp.OK(w)
	if f, ok := w.(http.Flusher); ok {
		f.Flush()
	}

	// The background context is used because the underlying functions wrap it
	// with timeout and shut down the server, which handles current request.  It
	// also should be done in a separate goroutine for the same reason.
	go finishUpdate(context.Background(), web.logger, execPath, web.conf.runningAsService)
}

// versionResponse is the response for /control/version.json endpoint.
type versionResponse struct {
	updater.VersionInfo
	Disabled bool `json:"disabled"`
}

// setAllowedToAutoUpdate sets CanAutoUpdate to true if AdGuard Home is actually
// allowed to perform an automatic update by the OS.  tlsMgr must not be nil.
func (vr *versionResponse) setAllowedToAutoUpdate(tlsMgr *tlsManager) (err error) {
	if vr.CanAutoUpdate != aghalg.NBTrue {
		return nil
	}

	canUpdate := true
	if tlsConfUsesPrivilegedPorts(tlsMgr.config()) ||
		config.HTTPConfig.Address.Port() < 1024 ||
		config.DNS.Port < 1024 {
		canUpdate, err = aghnet.CanBindPrivilegedPorts()
		if err != nil {
			return fmt.Errorf("checking ability to bind privileged ports: %w", err)
		}
	}

	vr.CanAutoUpdate = aghalg.BoolToNullBool(canUpdate)

	return nil
}

// tlsConfUsesPrivilegedPorts returns true if the provided TLS configuration
// indicates that privileged ports are used.
func tlsConfUsesPrivilegedPorts(c *tlsConfigSettings) (ok bool) {
	return c.Enabled && (c.PortHTTPS < 1024 || c.PortDNSOverTLS < 1024 || c.PortDNSOverQUIC < 1024)
}

// finishUpdate completes an update procedure.  It is intended to be used as a
// goroutine.
func finishUpdate(ctx context.Context, l *slog.Logger, execPath string, runningAsService bool) {
	defer slogutil.RecoverAndExit(ctx, l, osutil.ExitCodeFailure)

	l.InfoContext(ctx, "stopping all tasks")

	cleanup(ctx)
	cleanupAlways()

	var err error
	if runtime.GOOS == "windows" {
		if runningAsService {
			// NOTE: We can't restart the service via "kardianos/service"
			// package, because it kills the process first we can't start a new
			// instance, because Windows doesn't allow it.
			//
			// TODO(a.garipov): Recheck the claim above.
			cmd := exec.Command("cmd", "/c", "net stop AdGuardHome & net start AdGuardHome")
			err = cmd.Start()
			if err != nil {
				panic(fmt.Errorf("restarting service: %w", err))
			}

			os.Exit(osutil.ExitCodeSuccess)
		}

		cmd := exec.Command(execPath, os.Args[1:]...)
		l.InfoContext(ctx, "restarting", "exec_path", execPath, "args", os.Args[1:])
		cmd.Stdin = os.Stdin
		cmd.Stdout = os.Stdout
		cmd.Stderr = os.Stderr
		err = cmd.Start()
		if err != nil {
			panic(fmt.Errorf("restarting: %w", err))
		}

		os.Exit(osutil.ExitCodeSuccess)
	}

	l.InfoContext(ctx, "restarting", "exec_path", execPath, "args", os.Args[1:])
	err = syscall.Exec(execPath, os.Args, os.Environ())
	if err != nil {
		panic(fmt.Errorf("restarting: %w", err))
	}
}
