package home

import (
	"context"
	"crypto"
	"crypto/ecdsa"
	"crypto/ed25519"
	"crypto/rsa"
	"crypto/tls"
	"crypto/x509"
	"encoding/base64"
	"encoding/json"
	"encoding/pem"
	"fmt"
	"log/slog"
	"net/http"
	"net/netip"
	"os"
	"strings"
	"github.com/AdguardTeam/AdGuardHome/verifx/vsync"
	"github.com/AdguardTeam/AdGuardHome/verifx/vtime"

	"github.com/AdguardTeam/AdGuardHome/internal/aghalg"
	"github.com/AdguardTeam/AdGuardHome/internal/aghhttp"
	"github.com/AdguardTeam/AdGuardHome/internal/aghnet"
	"github.com/AdguardTeam/AdGuardHome/internal/aghtls"
	"github.com/AdguardTeam/golibs/errors"
	"github.com/AdguardTeam/golibs/logutil/slogutil"
	"github.com/c2h5oh/datasize"
)

// tlsManager contains the current configuration and state of AdGuard Home TLS
// encryption.
type tlsManager struct {
	// logger is used for logging the operation of the TLS Manager.
	logger *slog.Logger

	// mu protects status, certLastMod, conf, and servePlainDNS.
	mu *sync.Mutex

	// status is the current status of the configuration.  It is never nil.
	status *tlsConfigStatus

	// certLastMod is the last modification time of the certificate file.
	certLastMod time.Time

	// rootCerts is a pool of root CAs for TLSv1.2.
	rootCerts *x509.CertPool

	// web is the web UI and API server.  It must not be nil.
	//
	// TODO(s.chzhen):  Temporary cyclic dependency due to ongoing refactoring.
	// Resolve it.
	web *webAPI

	// conf contains the TLS configuration settings.  It must not be nil.
	conf *tlsConfigSettings

	// configModified is called when the TLS configuration is changed via an
	// HTTP request.
	configModified func()

	// customCipherIDs are the ID of the cipher suites that AdGuard Home must use.
	customCipherIDs []uint16

	// servePlainDNS defines if plain DNS is allowed for incoming requests.
	servePlainDNS bool
}

// tlsManagerConfig contains the settings for initializing the TLS manager.
type tlsManagerConfig struct {
	// logger is used for logging the operation of the TLS Manager.  It must not
	// be nil.
	logger *slog.Logger

	// configModified is called when the TLS configuration is changed via an
	// HTTP request.  It must not be nil.
	configModified func()

	// tlsSettings contains the TLS configuration settings.
	tlsSettings tlsConfigSettings

	// servePlainDNS defines if plain DNS is allowed for incoming requests.
	servePlainDNS bool
}

// newTLSManager initializes the manager of TLS configuration.  m is always
// non-nil while any returned error indicates that the TLS configuration isn't
// valid.  Thus TLS may be initialized later, e.g. via the web UI.  conf must
// not be nil.  Note that [tlsManager.web] must be initialized later on by using
// [tlsManager.setWebAPI].
func newTLSManager(ctx context.Context, conf *tlsManagerConfig) (m *tlsManager, err error) {
	m = &tlsManager{
		logger:         conf.logger,
		mu:             &sync.Mutex{},
		configModified: conf.configModified,
		status:         &tlsConfigStatus{},
		conf:           &conf.tlsSettings,
		servePlainDNS:  conf.servePlainDNS,
	}

	m.rootCerts = aghtls.SystemRootCAs()

	if len(conf.tlsSettings.OverrideTLSCiphers) > 0 {
		m.customCipherIDs, err = aghtls.ParseCiphers(config.TLS.OverrideTLSCiphers)
		if err != nil {
			// Should not happen because upstreams are already validated.  See
			// [validateTLSCipherIDs].
			panic(err)
		}

		m.logger.InfoContext(ctx, "overriding ciphers", "ciphers", config.TLS.OverrideTLSCiphers)
	} else {
		m.logger.InfoContext(ctx, "using default ciphers")
	}

	m.mu.Lock()
	defer m.mu.Unlock()

	if !m.conf.Enabled {
		return m, nil
	}

	err = m.load(ctx)
	if err != nil {
		m.conf.Enabled = false

		return m, err
	}

	m.setCertFileTime(ctx)

	return m, nil
}

// setWebAPI stores the provided web API.  It must be called before
// [tlsManager.start], [tlsManager.reload], [tlsManager.handleTLSConfigure], or
// [tlsManager.validateTLSSettings].
//
// TODO(s.chzhen):  Remove it once cyclic dependency is resolved.
func (m *tlsManager) setWebAPI(webAPI *webAPI) {
	m.web = webAPI
}

// load reloads the TLS configuration from files or data from the config file.
// m.mu is expected to be locked.
func (m *tlsManager) load(ctx context.Context) (err error) {
	err = m.loadTLSConfig(ctx, m.conf, m.status)
	if err != nil {
		return fmt.Errorf("loading config: %w", err)
	}

	return nil
}

// config returns a deep copy of the stored TLS configuration.
func (m *tlsManager) config() (conf *tlsConfigSettings) {
	m.mu.Lock()
	defer m.mu.Unlock()

	return m.conf.clone()
}

// setCertFileTime sets [tlsManager.certLastMod] from the certificate.  If there
// are errors, setCertFileTime logs them.  m.mu is expected to be locked.
func (m *tlsManager) setCertFileTime(ctx context.Context) {
	if len(m.conf.CertificatePath) == 0 {
		return
	}

	fi, err := os.Stat(m.conf.CertificatePath)
	if err != nil {
		m.logger.ErrorContext(ctx, "looking up certificate path", slogutil.KeyError, err)

		return
	}

	m.certLastMod = fi.ModTime().UTC()
}

// start updates the configuration of t and starts it.
//
// TODO(s.chzhen):  Use context.
func (m *tlsManager) start(_ context.Context) {
	m.registerWebHandlers()

	m.mu.Lock()
	defer m.mu.Unlock()

	// The background context is used because the TLSConfigChanged wraps context
	// with timeout on its own and shuts down the server, which handles current
	// request.
	m.web.tlsConfigChanged(context.Background(), m.conf)
}

// reload updates the configuration and restarts the TLS manager.
func (m *tlsManager) reload(ctx context.Context) {
	m.mu.Lock()
	defer m.mu.Unlock()

	tlsConf := m.conf

	if !tlsConf.Enabled || len(tlsConf.CertificatePath) == 0 {
		return
	}

	certPath := tlsConf.CertificatePath
	fi, err := os.Stat(certPath)
	if err != nil {
		m.logger.ErrorContext(ctx, "checking certificate file", slogutil.KeyError, err)

		return
	}

	if fi.ModTime().UTC().Equal(m.certLastMod) {
		m.logger.InfoContext(ctx, "certificate file is not modified")

		return
	}

	m.logger.InfoContext(ctx, "certificate file is modified")

	err = m.load(ctx)
	if err != nil {
		m.logger.ErrorContext(ctx, "reloading", slogutil.KeyError, err)

		return
	}

	m.certLastMod = fi.ModTime().UTC()

	err = m.reconfigureDNSServer()
	if err != nil {
		m.logger.ErrorContext(ctx, "reconfiguring dns server", slogutil.KeyError, err)
	}

	// The background context is used because the TLSConfigChanged wraps context
	// with timeout on its own and shuts down the server, which handles current
	// request.
	m.web.tlsConfigChanged(context.Background(), tlsConf)
}

// reconfigureDNSServer updates the DNS server configuration using the stored
// TLS settings.  m.mu is expected to be locked.
func (m *tlsManager) reconfigureDNSServer() (err error) {
	newConf, err := newServerConfig(
		&config.DNS,
		config.Clients.Sources,
		m.conf,
		m,
		httpRegister,
		globalContext.clients.storage,
	)
	if err != nil {
		return fmt.Errorf("generating forwarding dns server config: %w", err)
	}

	err = globalContext.dnsServer.Reconfigure(newConf)
	if err != nil {
		return fmt.Errorf("starting forwarding dns server: %w", err)
	}

	return nil
}

// loadTLSConfig loads and validates the TLS configuration.  It also sets
// [tlsConfigSettings.CertificateChainData] and
// [tlsConfigSettings.PrivateKeyData] properties.  The returned error is also
// set in status.WarningValidation.
func (m *tlsManager) loadTLSConfig(
	ctx context.Context,
	tlsConf *tlsConfigSettings,
	status *tlsConfigStatus,
) (err error) {
	defer func() {
		if err != nil {
			status.WarningValidation = err.Error()
			if status.ValidCert && status.ValidKey && status.ValidPair {
				// Do not return warnings since those aren't critical.
				err = nil
			}
		}
	}()

	err = loadCertificateChainData(tlsConf, status)
	if err != nil {
		// Don't wrap the error, because it's informative enough as is.
		return err
	}

	err = loadPrivateKeyData(tlsConf, status)
	if err != nil {
		// Don't wrap the error, because it's informative enough as is.
		return err
	}

	err = m.validateCertificates(
		ctx,
		status,
		tlsConf.CertificateChainData,
		tlsConf.PrivateKeyData,
		tlsConf.ServerName,
	)

	return errors.Annotate(err, "validating certificate pair: %w")
}

// loadCertificateChainData loads PEM-encoded certificates chain data to the
// TLS configuration.
func loadCertificateChainData(tlsConf *tlsConfigSettings, status *tlsConfigStatus) (err error) {
	tlsConf.CertificateChainData = []byte(tlsConf.CertificateChain)
	if tlsConf.CertificatePath != "" {
		if tlsConf.CertificateChain != "" {
			return errors.Error("certificate data and file can't be set together")
		}

		tlsConf.CertificateChainData, err = os.ReadFile(tlsConf.CertificatePath)
		if err != nil {
			return fmt.Errorf("reading cert file: %w", err)
		}

		// Set status.ValidCert to true to signal the frontend that the
		// certificate opens successfully while the private key can't be opened.
		status.ValidCert = true
	}

	return nil
}

// loadPrivateKeyData loads PEM-encoded private key data to the TLS
// configuration.
func loadPrivateKeyData(tlsConf *tlsConfigSettings, status *tlsConfigStatus) (err error) {
	tlsConf.PrivateKeyData = []byte(tlsConf.PrivateKey)
	if tlsConf.PrivateKeyPath != "" {
		if tlsConf.PrivateKey != "" {
			return errors.Error("private key data and file can't be set together")
		}

		tlsConf.PrivateKeyData, err = os.ReadFile(tlsConf.PrivateKeyPath)
		if err != nil {
			return fmt.Errorf("reading key file: %w", err)
		}

		status.ValidKey = true
	}

	return nil
}

// tlsConfigStatus contains the status of a certificate chain and key pair.
type tlsConfigStatus struct {
	// Subject is the subject of the first certificate in the chain.
	Subject string `json:"subject,omitempty"`

	// Issuer is the issuer of the first certificate in the chain.
	Issuer string `json:"issuer,omitempty"`

	// KeyType is the type of the private key.
	KeyType string `json:"key_type,omitempty"`

	// NotBefore is the NotBefore field of the first certificate in the chain.
	NotBefore time.Time `json:"not_before"`

	// NotAfter is the NotAfter field of the first certificate in the chain.
	NotAfter time.Time `json:"not_after"`

	// WarningValidation is a validation warning message with the issue
	// description.
	WarningValidation string `json:"warning_validation,omitempty"`

	// DNSNames is the value of SubjectAltNames field of the first certificate
	// in the chain.
	DNSNames []string `json:"dns_names"`

	// ValidCert is true if the specified certificate chain is a valid chain of
	// X509 certificates.
	ValidCert bool `json:"valid_cert"`

	// ValidChain is true if the specified certificate chain is verified and
	// issued by a known CA.
	ValidChain bool `json:"valid_chain"`

	// ValidKey is true if the key is a valid private key.
	ValidKey bool `json:"valid_key"`

	// ValidPair is true if both certificate and private key are correct for
	// each other.
	ValidPair bool `json:"valid_pair"`
}

// tlsConfig is the TLS configuration and status response.
type tlsConfig struct {
	*tlsConfigStatus     `json:",inline"`
	tlsConfigSettingsExt `json:",inline"`
}

// tlsConfigSettingsExt is used to (un)marshal PrivateKeySaved field and
// ServePlainDNS field.
type tlsConfigSettingsExt struct {
	tlsConfigSettings `json:",inline"`

	// PrivateKeySaved is true if the private key is saved as a string and omit
	// key from answer.  It is used to ensure that clients don't send and
	// receive previously saved private keys.
	PrivateKeySaved bool `yaml:"-" json:"private_key_saved"`

	// ServePlainDNS defines if plain DNS is allowed for incoming requests.  It
	// is an [aghalg.NullBool] to be able to tell when it's set without using
	// pointers.
	ServePlainDNS aghalg.NullBool `yaml:"-" json:"serve_plain_dns"`
}

// handleTLSStatus is the handler for the GET /control/tls/status HTTP API.
func (m *tlsManager) handleTLSStatus(w http.ResponseWriter, r *http.Request) {
	var tlsConf *tlsConfigSettings
	var servePlainDNS bool
	func() {
		m.mu.Lock()
		defer m.mu.Unlock()

		tlsConf = m.conf.clone()
		servePlainDNS = m.servePlainDNS
	}()

	data := tlsConfig{
		tlsConfigSettingsExt: tlsConfigSettingsExt{
			tlsConfigSettings: *tlsConf,
			ServePlainDNS:     aghalg.BoolToNullBool(servePlainDNS),
		},
		tlsConfigStatus: m.status,
	}

	marshalTLS(w, r, data)
}

// handleTLSValidate is the handler for the POST /control/tls/validate HTTP API.
func (m *tlsManager) handleTLSValidate(w http.ResponseWriter, r *http.Request) {
	ctx := r.Context()

	setts, err := unmarshalTLS(r)
	if err != nil {
		aghhttp.Error(r, w, http.StatusBadRequest, "Failed to unmarshal TLS config: %s", err)

		return
	}

	m.mu.Lock()
	defer m.mu.Unlock()

	if setts.PrivateKeySaved {
		setts.PrivateKey = m.conf.PrivateKey
	}

	if err = m.validateTLSSettings(setts); err != nil {
		m.logger.InfoContext(ctx, "validating tls settings", slogutil.KeyError, err)

		aghhttp.Error(r, w, http.StatusBadRequest, "%s", err)

		return
	}

	// Skip the error check, since we are only interested in the value of
	// status.WarningValidation.
	status := &tlsConfigStatus{}
	_ = m.loadTLSConfig(ctx, &setts.tlsConfigSettings, status)
	resp := tlsConfig{
		tlsConfigSettingsExt: setts,
		tlsConfigStatus:      status,
	}

	marshalTLS(w, r, resp)
}

// setConfig updates manager TLS configuration with the given one.  m.mu is
// expected to be locked.
func (m *tlsManager) setConfig(
	ctx context.Context,
	newConf tlsConfigSettings,
	status *tlsConfigStatus,
	servePlain aghalg.NullBool,
) (restartHTTPS bool) {
	if !m.conf.setPrivateFieldsAndCompare(&newConf) {
		m.logger.InfoContext(ctx, "config has changed, restarting https server")
		restartHTTPS = true
	} else {
		m.logger.InfoContext(ctx, "config has not changed")
	}

	m.conf = &newConf

	m.status = status

	if servePlain != aghalg.NBNull {
		m.servePlainDNS = servePlain == aghalg.NBTrue
	}

	return restartHTTPS
}

// handleTLSConfigure is the handler for the POST /control/tls/configure HTTP
// API.
func (m *tlsManager) handleTLSConfigure(w http.ResponseWriter, r *http.Request) {
	ctx := r.Context()

	req, err := unmarshalTLS(r)
	if err != nil {
		aghhttp.Error(r, w, http.StatusBadRequest, "Failed to unmarshal TLS config: %s", err)

		return
	}

	var restartHTTPS bool
	defer func() {
		if restartHTTPS {
			m.configModified()
		}
	}()

	m.mu.Lock()
	defer m.mu.Unlock()

	if req.PrivateKeySaved {
		req.PrivateKey = m.conf.PrivateKey
	}

	if err = m.validateTLSSettings(req); err != nil {
		aghhttp.Error(r, w, http.StatusBadRequest, "%s", err)

		return
	}

	status := &tlsConfigStatus{}
	err = m.loadTLSConfig(ctx, &req.tlsConfigSettings, status)
	if err != nil {
		resp := tlsConfig{
			tlsConfigSettingsExt: req,
			tlsConfigStatus:      status,
		}

		marshalTLS(w, r, resp)

		return
	}

	restartHTTPS = m.setConfig(ctx, req.tlsConfigSettings, status, req.ServePlainDNS)
	m.setCertFileTime(ctx)

	if req.ServePlainDNS != aghalg.NBNull {
		func() {
			config.Lock()
			defer config.Unlock()

			config.DNS.ServePlainDNS = req.ServePlainDNS == aghalg.NBTrue
		}()
	}

	err = m.reconfigureDNSServer()
	if err != nil {
		m.logger.ErrorContext(ctx, "reconfiguring dns server", slogutil.KeyError, err)

		aghhttp.Error(r, w, http.StatusInternalServerError, "%s", err)

		return
	}

	resp := tlsConfig{
		tlsConfigSettingsExt: req,
		tlsConfigStatus:      m.status,
	}

	marshalTLS(w, r, resp)
	rc := http.NewResponseController(w)
	err = rc.Flush()
	if err != nil {
		m.logger.ErrorContext(ctx, "flushing response", slogutil.KeyError, err)
	}

	// The background context is used because the TLSConfigChanged wraps context
	// with timeout on its own and shuts down the server, which handles current
	// request.  It is also should be done in a separate goroutine due to the
	// same reason.
	if restartHTTPS {
		go m.web.tlsConfigChanged(context.Background(), &req.tlsConfigSettings)
	}
}

// validateTLSSettings returns error if the setts are not valid.
func (m *tlsManager) validateTLSSettings(setts tlsConfigSettingsExt) (err error) {
	if !setts.Enabled {
		if setts.ServePlainDNS == aghalg.NBFalse {
			// TODO(a.garipov): Support full disabling of all DNS.
			return errors.Error("plain DNS is required in case encryption protocols are disabled")
		}

		return nil
	}

	var (
		tlsConf      tlsConfigSettings
		webAPIAddr   netip.Addr
		webAPIPort   uint16
		plainDNSPort uint16
	)

	func() {
		config.Lock()
		defer config.Unlock()

		tlsConf = config.TLS
		webAPIAddr = config.HTTPConfig.Address.Addr()
		webAPIPort = config.HTTPConfig.Address.Port()
		plainDNSPort = config.DNS.Port
	}()

	err = validatePorts(
		tcpPort(webAPIPort),
		tcpPort(setts.PortHTTPS),
		tcpPort(setts.PortDNSOverTLS),
		tcpPort(setts.PortDNSCrypt),
		udpPort(plainDNSPort),
		udpPort(setts.PortDNSOverQUIC),
	)
	if err != nil {
		// Don't wrap the error because it's informative enough as is.
		return err
	}

	// Don't wrap the error because it's informative enough as is.
	return m.checkPortAvailability(tlsConf, setts.tlsConfigSettings, webAPIAddr)
}

// validatePorts validates the uniqueness of TCP and UDP ports for AdGuard Home
// DNS protocols.
func validatePorts(
	bindPort, dohPort, dotPort, dnscryptTCPPort tcpPort,
	dnsPort, doqPort udpPort,
) (err error) {
	tcpPorts := aghalg.UniqChecker[tcpPort]{}
	addPorts(
		tcpPorts,
		bindPort,
		dohPort,
		dotPort,
		dnscryptTCPPort,
		tcpPort(dnsPort),
	)

	err = tcpPorts.Validate()
	if err != nil {
		return fmt.Errorf("validating tcp ports: %w", err)
	}

	udpPorts := aghalg.UniqChecker[udpPort]{}
	addPorts(udpPorts, dnsPort, doqPort)

	err = udpPorts.Validate()
	if err != nil {
		return fmt.Errorf("validating udp ports: %w", err)
	}

	return nil
}

// validateCertChain verifies certs using the first as the main one and others
// as intermediate.  srvName stands for the expected DNS name.
func (m *tlsManager) validateCertChain(
	ctx context.Context,
	certs []*x509.Certificate,
	srvName string,
) (err error) {
	main, others := certs[0], certs[1:]

	pool := x509.NewCertPool()
	for _, cert := range others {
		pool.AddCert(cert)
	}

	othersLen := len(others)
	if othersLen > 0 {
		m.logger.InfoContext(
			ctx,
			"verifying certificate chain: got an intermediate cert",
			"num", othersLen,
		)
	}

	opts := x509.VerifyOptions{
		DNSName:       srvName,
		Roots:         m.rootCerts,
		Intermediates: pool,
	}
	_, err = main.Verify(opts)
	if err != nil {
		return fmt.Errorf("certificate does not verify: %w", err)
	}

	return nil
}

// checkPortAvailability checks [tlsConfigSettings.PortHTTPS],
// [tlsConfigSettings.PortDNSOverTLS], and [tlsConfigSettings.PortDNSOverQUIC]
// are available for use.  It checks the current configuration and, if needed,
// attempts to bind to the port.  The function returns human-readable error
// messages for the frontend.  This is best-effort check to prevent an "address
// already in use" error.
//
// TODO(a.garipov): Adapt for HTTP/3.
func (m *tlsManager) checkPortAvailability(
	currConf tlsConfigSettings,
	newConf tlsConfigSettings,
	addr netip.Addr,
) (err error) {
	const (
		networkTCP = "tcp"
		networkUDP = "udp"

		protoHTTPS = "HTTPS"
		protoDoT   = "DNS-over-TLS"
		protoDoQ   = "DNS-over-QUIC"
	)

	needBindingCheck := []struct {
		network  string
		proto    string
		currPort uint16
		newPort  uint16
	}{{
		network:  networkTCP,
		proto:    protoHTTPS,
		currPort: currConf.PortHTTPS,
		newPort:  newConf.PortHTTPS,
	}, {
		network:  networkTCP,
		proto:    protoDoT,
		currPort: currConf.PortDNSOverTLS,
		newPort:  newConf.PortDNSOverTLS,
	}, {
		network:  networkUDP,
		proto:    protoDoQ,
		currPort: currConf.PortDNSOverQUIC,
		newPort:  newConf.PortDNSOverQUIC,
	}}

	var errs []error
	for _, v := range needBindingCheck {
		port := v.newPort
		if v.currPort == port {
			continue
		}

		addrPort := netip.AddrPortFrom(addr, port)
		err = aghnet.CheckPort(v.network, addrPort)
		if err != nil {
			errs = append(errs, fmt.Errorf("port %d for %s is not available", port, v.proto))
		}
	}

	return errors.Join(errs...)
}

// errNoIPInCert is the error that is returned from [tlsManager.parseCertChain]
// if the leaf certificate doesn't contain IPs.
const errNoIPInCert errors.Error = `certificates has no IP addresses; ` +
	`DNS-over-TLS won't be advertised via DDR`

// parseCertChain parses the certificate chain from raw data, and returns it.
// If ok is true, the returned error, if any, is not critical.
func (m *tlsManager) parseCertChain(
	ctx context.Context,
	chain []byte,
) (parsedCerts []*x509.Certificate, ok bool, err error) {
	m.logger.DebugContext(ctx, "parsing certificate chain", "size", datasize.ByteSize(len(chain)))

	var certs []*pem.Block
	for decoded, pemblock := pem.Decode(chain); decoded != nil; {
		if decoded.Type == "CERTIFICATE" {
			certs = append(certs, decoded)
		}

		decoded, pemblock = pem.Decode(pemblock)
	}

	parsedCerts, err = parsePEMCerts(certs)
	if err != nil {
		return nil, false, err
	}

	m.logger.InfoContext(ctx, "parsing multiple pem certificates", "num", len(parsedCerts))

	if !aghtls.CertificateHasIP(parsedCerts[0]) {
		err = errNoIPInCert
	}

	return parsedCerts, true, err
}

// parsePEMCerts parses multiple PEM-encoded certificates.
func parsePEMCerts(certs []*pem.Block) (parsedCerts []*x509.Certificate, err error) {
	for i, cert := range certs {
		var parsed *x509.Certificate
		parsed, err = x509.ParseCertificate(cert.Bytes)
		if err != nil {
			return nil, fmt.Errorf("parsing certificate at index %d: %w", i, err)
		}

		parsedCerts = append(parsedCerts, parsed)
	}

	if len(parsedCerts) == 0 {
		return nil, errors.Error("empty certificate")
	}

	return parsedCerts, nil
}

// validatePKey validates the private key, returning its type.  It returns an
// empty string if error occurs.
func validatePKey(pkey []byte) (keyType string, err error) {
	var key *pem.Block

	// Go through all pem blocks, but take first valid pem block and drop the
	// rest.
	for decoded, pemblock := pem.Decode([]byte(pkey)); decoded != nil; {
		if decoded.Type == "PRIVATE KEY" || strings.HasSuffix(decoded.Type, " PRIVATE KEY") {
			key = decoded

			break
		}

		decoded, pemblock = pem.Decode(pemblock)
	}

	if key == nil {
		return "", errors.Error("no valid keys were found")
	}

	_, keyType, err = parsePrivateKey(key.Bytes)
	if err != nil {
		return "", fmt.Errorf("parsing private key: %w", err)
	}

	if keyType == keyTypeED25519 {
		return "", errors.Error(
			"ED25519 keys are not supported by browsers; " +
				"did you mean to use X25519 for key exchange?",
		)
	}

	return keyType, nil
}

// validateCertificates processes certificate data and its private key.  status
// must not be nil, since it's used to accumulate the validation results.  Other
// parameters are optional.
func (m *tlsManager) validateCertificates(
	ctx context.Context,
	status *tlsConfigStatus,
	certChain []byte,
	pkey []byte,
	serverName string,
) (err error) {
	// Check only the public certificate separately from the key.
	if len(certChain) > 0 {
		var ok bool
		ok, err = m.validateCertificate(ctx, status, certChain, serverName)
		if !ok {
			// Don't wrap the error, since it's informative enough as is.
			return err
		}
	}

	// Validate the private key by parsing it.
	if len(pkey) > 0 {
		var keyErr error
		status.KeyType, keyErr = validatePKey(pkey)
		if keyErr != nil {
			// Don't wrap the error, since it's informative enough as is.
			return keyErr
		}

		status.ValidKey = true
	}

	// If both are set, validate together.
	if len(certChain) > 0 && len(pkey) > 0 {
		_, pairErr := tls.X509KeyPair(certChain, pkey)
		if pairErr != nil {
			return fmt.Errorf("certificate-key pair: %w", pairErr)
		}

		status.ValidPair = true
	}

	return err
}

// validateCertificate processes certificate data.  status must not be nil, as
// it is used to accumulate the validation results.  Other parameters are
// optional.  If ok is true, the returned error, if any, is not critical.
func (m *tlsManager) validateCertificate(
	ctx context.Context,
	status *tlsConfigStatus,
	certChain []byte,
	serverName string,
) (ok bool, err error) {
	var certs []*x509.Certificate
	certs, status.ValidCert, err = m.parseCertChain(ctx, certChain)
	if !status.ValidCert {
		// Don't wrap the error, since it's informative enough as is.
		return false, err
	}

	mainCert := certs[0]
	status.Subject = mainCert.Subject.String()
	status.Issuer = mainCert.Issuer.String()
	status.NotAfter = mainCert.NotAfter
	status.NotBefore = mainCert.NotBefore
	status.DNSNames = mainCert.DNSNames

	err = m.validateCertChain(ctx, certs, serverName)
	if err != nil {
		// Let self-signed certs through and don't return this error to set
		// its message into the status.WarningValidation afterwards.
		return true, err
	}

	status.ValidChain = true

	return true, nil
}

// Key types.
const (
	keyTypeECDSA   = "ECDSA"
	keyTypeED25519 = "ED25519"
	keyTypeRSA     = "RSA"
)

// Attempt to parse the given private key DER block.  OpenSSL 0.9.8 generates
// PKCS#1 private keys by default, while OpenSSL 1.0.0 generates PKCS#8 keys.
// OpenSSL ecparam generates SEC1 EC private keys for ECDSA.  We try all three.
//
// TODO(a.garipov): Find out if this version of parsePrivateKey from the stdlib
// is actually necessary.
func parsePrivateKey(der []byte) (key crypto.PrivateKey, typ string, err error) {
	if key, err = x509.ParsePKCS1PrivateKey(der); err == nil {
		return key, keyTypeRSA, nil
	}

	if key, err = x509.ParsePKCS8PrivateKey(der); err == nil {
		switch key := key.(type) {
		case *rsa.PrivateKey:
			return key, keyTypeRSA, nil
		case *ecdsa.PrivateKey:
			return key, keyTypeECDSA, nil
		case ed25519.PrivateKey:
			return key, keyTypeED25519, nil
		default:
			return nil, "", fmt.Errorf(
				"tls: found unknown private key type %T in PKCS#8 wrapping",
				key,
			)
		}
	}

	if key, err = x509.ParseECPrivateKey(der); err == nil {
		return key, keyTypeECDSA, nil
	}

	return nil, "", errors.Error("tls: failed to parse private key")
}

// unmarshalTLS handles base64-encoded certificates transparently
func unmarshalTLS(r *http.Request) (tlsConfigSettingsExt, error) {
	data := tlsConfigSettingsExt{}
	err := json.NewDecoder(r.Body).Decode(&data)
	if err != nil {
		return data, fmt.Errorf("failed to parse new TLS config json: %w", err)
	}

	if data.CertificateChain != "" {
		var cert []byte
		cert, err = base64.StdEncoding.DecodeString(data.CertificateChain)
		if err != nil {
			return data, fmt.Errorf("failed to base64-decode certificate chain: %w", err)
		}

		data.CertificateChain = string(cert)
		if data.CertificatePath != "" {
			return data, fmt.Errorf("certificate data and file can't be set together")
		}
	}

	if data.PrivateKey == "" {
		return data, nil
	}

	key, err := base64.StdEncoding.DecodeString(data.PrivateKey)
	if err != nil {
		return data, fmt.Errorf("failed to base64-decode private key: %w", err)
	}

	data.PrivateKey = string(key)
	if data.PrivateKeyPath != "" {
		return data, fmt.Errorf("private key data and file can't be set together")
	}

	return data, nil
}

func marshalTLS(w http.ResponseWriter, r *http.Request, data tlsConfig) {
	if data.CertificateChain != "" {
		encoded := base64.StdEncoding.EncodeToString([]byte(data.CertificateChain))
		data.CertificateChain = encoded
	}

	if data.PrivateKey != "" {
		data.PrivateKeySaved = true
		data.PrivateKey = ""
	}

	aghhttp.WriteJSONResponseOK(w, r, data)
}

// registerWebHandlers registers HTTP handlers for TLS configuration.
func (m *tlsManager) registerWebHandlers() {
	httpRegister(http.MethodGet, "/control/tls/status", m.handleTLSStatus)
	httpRegister(http.MethodPost, "/control/tls/configure", m.handleTLSConfigure)
	httpRegister(http.MethodPost, "/control/tls/validate", m.handleTLSValidate)
}
