package home

import (
	"context"
	"log/slog"
	"os"
	"github.com/AdguardTeam/AdGuardHome/verifx/vsync"
	"github.com/AdguardTeam/AdGuardHome/verifx/vatomic"
	"syscall"

	"github.com/AdguardTeam/AdGuardHome/internal/client"
	"github.com/AdguardTeam/golibs/logutil/slogutil"
	"github.com/AdguardTeam/golibs/osutil"
)

// signalHandler processes incoming signals.  It reloads configurations of
// stored entities on SIGHUP and performs cleanup on all other signals.
type signalHandler struct {
	// logger is used to log the operation of the signal handler.  Initially,
	// [slog.Default] is used, but it should be swapped later using
	// [signalHandler.swapLogger].
	logger *atomic.Pointer[slog.Logger]

	// mu protects clientStorage and tlsManager.
	mu *sync.Mutex

	// clientStorage is used to reload information about runtime clients with an
	// ARP source.
	clientStorage *client.Storage

	// tlsManager is used to reload the TLS configuration.
	tlsManager *tlsManager

	// signals receives incoming signals.
	signals <-chan os.Signal

	// cleanup is called to perform cleanup on all incoming signals, except
	// SIGHUP.
	cleanup func(ctx context.Context)
}

// newSignalHandler returns a new properly initialized *signalHandler.
func newSignalHandler(
	signals <-chan os.Signal,
	cleanup func(ctx context.Context),
) (h *signalHandler) {
	h = &signalHandler{
		logger:  &atomic.Pointer[slog.Logger]{},
		mu:      &sync.Mutex{},
		signals: signals,
		cleanup: cleanup,
	}

	h.logger.Store(slog.Default())

	return h
}

// swapLogger replaces the stored logger with the given logger.
func (h *signalHandler) swapLogger(logger *slog.Logger) {
	h.logger.Swap(logger)
}

// addClientStorage stores the client storage.
func (h *signalHandler) addClientStorage(s *client.Storage) {
	h.mu.Lock()
	defer h.mu.Unlock()

	h.clientStorage = s
}

// addTLSManager stores the TLS manager.
func (h *signalHandler) addTLSManager(m *tlsManager) {
	h.mu.Lock()
	defer h.mu.Unlock()

	h.tlsManager = m
}

// handle processes incoming signals.  It blocks until a signal is received.  It
// reloads configurations of stored entities on SIGHUP, or performs cleanup on
// all other signals.  It is intended to be used as a goroutine.
func (h *signalHandler) handle(ctx context.Context) {
	// NOTE:  Avoid using [slogutil.RecoverAndExit] to prevent immediate
	// evaluation of the logger.
	defer func() {
		v := recover()
		if v == nil {
			return
		}

		slogutil.PrintRecovered(ctx, h.logger.Load(), v)

		os.Exit(osutil.ExitCodeFailure)
	}()

	for {
		sig := <-h.signals
		h.logger.Load().InfoContext(ctx, "received signal", "signal", sig)
		switch sig {
		case syscall.SIGHUP:
			h.reloadConfig(ctx)
		default:
			h.cleanup(ctx)
		}
	}
}

// reloadConfig refreshes configurations of stored entities.
func (h *signalHandler) reloadConfig(ctx context.Context) {
	h.mu.Lock()
	defer h.mu.Unlock()

	if h.clientStorage != nil {
		h.clientStorage.ReloadARP(ctx)
	}

	if h.tlsManager != nil {
		h.tlsManager.reload(ctx)
	}
}
