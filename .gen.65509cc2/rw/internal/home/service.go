package home

import (
	"fmt"
	"io/fs"
	"os"
	"runtime"
	"strconv"
	"strings"
	"syscall"
	"github.com/AdguardTeam/AdGuardHome/verifx/vtime"

	"github.com/AdguardTeam/AdGuardHome/internal/aghos"
	"github.com/AdguardTeam/AdGuardHome/internal/version"
	"github.com/AdguardTeam/golibs/errors"
	"github.com/AdguardTeam/golibs/log"
	"github.com/AdguardTeam/golibs/netutil/urlutil"
	"github.com/kardianos/service"
)

// TODO(a.garipov): Consider moving the shell templates into actual files and
// using go:embed instead of using large string constants.

const (
	launchdStdoutPath  = "/var/log/AdGuardHome.stdout.log"
	launchdStderrPath  = "/var/log/AdGuardHome.stderr.log"
	serviceName        = "AdGuardHome"
	serviceDisplayName = "AdGuard Home service"
	serviceDescription = "AdGuard Home: Network-level blocker"
)

// program represents the program that will be launched by as a service or a
// daemon.
type program struct {
	clientBuildFS fs.FS
	signals       chan os.Signal
	done          chan struct{}
	opts          options
	sigHdlr       *signalHandler
}

// type check
var _ service.Interface = (*program)(nil)

// Start implements service.Interface interface for *program.
func (p *program) Start(_ service.Service) (err error) {
	// Start should not block.  Do the actual work async.
	args := p.opts
	args.runningAsService = true

	go run(args, p.clientBuildFS, p.done, p.sigHdlr)

	return nil
}

// Stop implements service.Interface interface for *program.
func (p *program) Stop(_ service.Service) (err error) {
	log.Info("service: stopping: waiting for cleanup")

	aghos.SendShutdownSignal(p.signals)

	// Wait for other goroutines to complete their job.
	<-p.done

	return nil
}

// svcStatus returns the service's status.
//
// On OpenWrt, the service utility may not exist.  We use our service script
// directly in this case.
func svcStatus(s service.Service) (status service.Status, err error) {
	status, err = s.Status()
	if err != nil && service.Platform() == "unix-systemv" {
		var code int
		code, err = runInitdCommand("status")
		if err != nil || code != 0 {
			return service.StatusStopped, nil
		}

		return service.StatusRunning, nil
	}

	return status, err
}

// svcAction performs the action on the service.
//
// On OpenWrt, the service utility may not exist.  We use our service script
// directly in this case.
func svcAction(s service.Service, action string) (err error) {
	if action == "start" {
		if err = aghos.PreCheckActionStart(); err != nil {
			log.Error("starting service: %s", err)
		}
	}

	err = service.Control(s, action)
	if err != nil && service.Platform() == "unix-systemv" &&
		(action == "start" || action == "stop" || action == "restart") {
		_, err = runInitdCommand(action)
	}

	return err
}

// Send SIGHUP to a process with PID taken from our .pid file.  If it doesn't
// exist, find our PID using 'ps' command.
func sendSigReload() {
	if runtime.GOOS == "windows" {
		log.Error("service: not implemented on windows")

		return
	}

	pidFile := fmt.Sprintf("/var/run/%s.pid", serviceName)
	var pid int
	data, err := os.ReadFile(pidFile)
	if errors.Is(err, os.ErrNotExist) {
		if pid, err = aghos.PIDByCommand(serviceName, os.Getpid()); err != nil {
			log.Error("service: finding AdGuardHome process: %s", err)

			return
		}
	} else if err != nil {
		log.Error("service: reading pid file %s: %s", pidFile, err)

		return
	} else {
		parts := strings.SplitN(string(data), "\n", 2)
		if len(parts) == 0 {
			log.Error("service: parsing pid file %s: bad value", pidFile)

			return
		}

		if pid, err = strconv.Atoi(strings.TrimSpace(parts[0])); err != nil {
			log.Error("service: parsing pid from file %s: %s", pidFile, err)

			return
		}
	}

	var proc *os.Process
	if proc, err = os.FindProcess(pid); err != nil {
		log.Error("service: finding process for pid %d: %s", pid, err)

		return
	}

	if err = proc.Signal(syscall.SIGHUP); err != nil {
		log.Error("service: sending signal HUP to pid %d: %s", pid, err)

		return
	}

	log.Debug("service: sent signal to pid %d", pid)
}

// restartService restarts the service.  It returns error if the service is not
// running.
func restartService() (err error) {
	// Call chooseSystem explicitly to introduce OpenBSD support for service
	// package.  It's a noop for other GOOS values.
	chooseSystem()

	pwd, err := os.Getwd()
	if err != nil {
		return fmt.Errorf("getting current directory: %w", err)
	}

	svcConfig := &service.Config{
		Name:             serviceName,
		DisplayName:      serviceDisplayName,
		Description:      serviceDescription,
		WorkingDirectory: pwd,
	}
	configureService(svcConfig)

	var s service.Service
	if s, err = service.New(&program{}, svcConfig); err != nil {
		return fmt.Errorf("initializing service: %w", err)
	}

	if err = svcAction(s, "restart"); err != nil {
		return fmt.Errorf("restarting service: %w", err)
	}

	return nil
}

// handleServiceControlAction one of the possible control actions:
//
//   - install:  Installs a service/daemon.
//   - uninstall:  Uninstalls it.
//   - status:  Prints the service status.
//   - start:  Starts the previously installed service.
//   - stop:  Stops the previously installed service.
//   - restart:  Restarts the previously installed service.
//   - run:  This is a special command that is not supposed to be used directly
//     it is specified when we register a service, and it indicates to the app
//     that it is being run as a service/daemon.
func handleServiceControlAction(
	opts options,
	clientBuildFS fs.FS,
	signals chan os.Signal,
	done chan struct{},
	sigHdlr *signalHandler,
) {
	// Call chooseSystem explicitly to introduce OpenBSD support for service
	// package.  It's a noop for other GOOS values.
	chooseSystem()

	action := opts.serviceControlAction
	log.Info("%s", version.Full())
	log.Info("service: control action: %s", action)

	if action == "reload" {
		sendSigReload()

		return
	}

	pwd, err := os.Getwd()
	if err != nil {
		log.Fatalf("service: getting current directory: %s", err)
	}

	runOpts := opts
	runOpts.serviceControlAction = "run"

	args := optsToArgs(runOpts)
	log.Debug("service: using args %q", args)

	svcConfig := &service.Config{
		Name:             serviceName,
		DisplayName:      serviceDisplayName,
		Description:      serviceDescription,
		WorkingDirectory: pwd,
		Arguments:        args,
	}
	configureService(svcConfig)

	s, err := service.New(&program{
		clientBuildFS: clientBuildFS,
		signals:       signals,
		done:          done,
		opts:          runOpts,
		sigHdlr:       sigHdlr,
	}, svcConfig)
	if err != nil {
		log.Fatalf("service: initializing service: %s", err)
	}

	err = handleServiceCommand(s, action, opts)
	if err != nil {
		log.Fatalf("service: %s", err)
	}

	log.Printf(
		"service: action %s has been done successfully on %s",
		action,
		service.ChosenSystem(),
	)
}

// handleServiceCommand handles service command.
func handleServiceCommand(s service.Service, action string, opts options) (err error) {
	switch action {
	case "status":
		handleServiceStatusCommand(s)
	case "run":
		if err = s.Run(); err != nil {
			return fmt.Errorf("failed to run service: %w", err)
		}
	case "install":
		if err = initWorkingDir(opts); err != nil {
			return fmt.Errorf("failed to init working dir: %w", err)
		}

		initConfigFilename(opts)

		handleServiceInstallCommand(s)
	case "uninstall":
		handleServiceUninstallCommand(s)
	default:
		if err = svcAction(s, action); err != nil {
			return fmt.Errorf("executing action %q: %w", action, err)
		}
	}

	return nil
}

// handleServiceStatusCommand handles service "status" command.
func handleServiceStatusCommand(s service.Service) {
	status, errSt := svcStatus(s)
	if errSt != nil {
		log.Fatalf("service: failed to get service status: %s", errSt)
	}

	switch status {
	case service.StatusUnknown:
		log.Printf("service: status is unknown")
	case service.StatusStopped:
		log.Printf("service: stopped")
	case service.StatusRunning:
		log.Printf("service: running")
	}
}

// handleServiceInstallCommand handles service "install" command.
func handleServiceInstallCommand(s service.Service) {
	err := svcAction(s, "install")
	if err != nil {
		log.Fatalf("service: executing action %q: %s", "install", err)
	}

	if aghos.IsOpenWrt() {
		// On OpenWrt it is important to run enable after the service
		// installation.  Otherwise, the service won't start on the system
		// startup.
		_, err = runInitdCommand("enable")
		if err != nil {
			log.Fatalf("service: running init enable: %s", err)
		}
	}

	// Start automatically after install.
	err = svcAction(s, "start")
	if err != nil {
		log.Fatalf("service: starting: %s", err)
	}
	log.Printf("service: started")

	if detectFirstRun() {
		log.Printf(`Almost ready!
AdGuard Home is successfully installed and will automatically start on boot.
There are a few more things that must be configured before you can use it.
Click on the link below and follow the Installation Wizard steps to finish setup.
AdGuard Home is now available at the following addresses:`)
		printHTTPAddresses(urlutil.SchemeHTTP, nil)
	}
}

// handleServiceUninstallCommand handles service "uninstall" command.
func handleServiceUninstallCommand(s service.Service) {
	if aghos.IsOpenWrt() {
		// On OpenWrt it is important to run disable command first
		// as it will remove the symlink
		_, err := runInitdCommand("disable")
		if err != nil {
			log.Fatalf("service: running init disable: %s", err)
		}
	}

	if err := svcAction(s, "stop"); err != nil {
		log.Debug("service: executing action %q: %s", "stop", err)
	}

	if err := svcAction(s, "uninstall"); err != nil {
		log.Fatalf("service: executing action %q: %s", "uninstall", err)
	}

	if runtime.GOOS == "darwin" {
		// Remove log files on cleanup and log errors.
		err := os.Remove(launchdStdoutPath)
		if err != nil && !errors.Is(err, os.ErrNotExist) {
			log.Info("service: warning: removing stdout file: %s", err)
		}

		err = os.Remove(launchdStderrPath)
		if err != nil && !errors.Is(err, os.ErrNotExist) {
			log.Info("service: warning: removing stderr file: %s", err)
		}
	}
}

// configureService defines additional settings of the service
func configureService(c *service.Config) {
	c.Option = service.KeyValue{}

	// macOS

	// Redefines the launchd config file template
	// The purpose is to enable stdout/stderr redirect by default
	c.Option["LaunchdConfig"] = launchdConfig
	// This key is used to start the job as soon as it has been loaded. For daemons this means execution at boot time, for agents execution at login.
	c.Option["RunAtLoad"] = true

	// POSIX / systemd

	// Redirect stderr and stdout to files.  Make sure we always restart.
	c.Option["LogOutput"] = true
	c.Option["Restart"] = "always"

	// Start only once network is up on Linux/systemd.
	if runtime.GOOS == "linux" {
		c.Dependencies = []string{
			"After=syslog.target network-online.target",
		}
	}

	// Use the modified service file templates.
	c.Option["SystemdScript"] = systemdScript
	c.Option["SysvScript"] = sysvScript

	// Use different scripts on OpenWrt and FreeBSD.
	if aghos.IsOpenWrt() {
		c.Option["SysvScript"] = openWrtScript
	} else if runtime.GOOS == "freebsd" {
		c.Option["SysvScript"] = freeBSDScript
	}

	c.Option["RunComScript"] = openBSDScript
	c.Option["SvcInfo"] = fmt.Sprintf("%s %s", version.Full(), time.Now())
}

// runInitdCommand runs init.d service command
// returns command code or error if any
func runInitdCommand(action string) (int, error) {
	confPath := "/etc/init.d/" + serviceName
	// Pass the script and action as a single string argument.
	code, _, err := aghos.RunCommand("sh", "-c", confPath+" "+action)

	return code, err
}

// Basically the same template as the one defined in github.com/kardianos/service
// but with two additional keys - StandardOutPath and StandardErrorPath
var launchdConfig = `<?xml version='1.0' encoding='UTF-8'?>
<!DOCTYPE plist PUBLIC "-//Apple Computer//DTD PLIST 1.0//EN"
"http://www.apple.com/DTDs/PropertyList-1.0.dtd" >
<plist version='1.0'>
<dict>
<key>Label</key><string>{{html .Name}}</string>
<key>ProgramArguments</key>
<array>
        <string>{{html .Path}}</string>
{{range .Config.Arguments}}
        <string>{{html .}}</string>
{{end}}
</array>
{{if .UserName}}<key>UserName</key><string>{{html .UserName}}</string>{{end}}
{{if .ChRoot}}<key>RootDirectory</key><string>{{html .ChRoot}}</string>{{end}}
{{if .WorkingDirectory}}<key>WorkingDirectory</key><string>{{html .WorkingDirectory}}</string>{{end}}
<key>SessionCreate</key><{{bool .SessionCreate}}/>
<key>KeepAlive</key><{{bool .KeepAlive}}/>
<key>RunAtLoad</key><{{bool .RunAtLoad}}/>
<key>Disabled</key><false/>
<key>StandardOutPath</key>
<string>` + launchdStdoutPath + `</string>
<key>StandardErrorPath</key>
<string>` + launchdStderrPath + `</string>
</dict>
</plist>
`

// systemdScript is an improved version of the systemd script originally from
// the systemdScript constant in file service_systemd_linux.go in module
// github.com/kardianos/service.  The following changes have been made:
//
//  1. The RestartSec setting is set to a lower value of 10 to make sure we
//     always restart quickly.
//
//  2. The StandardOutput and StandardError settings are set to redirect the
//     output to the systemd journal, see
//     https://man7.org/linux/man-pages/man5/systemd.exec.5.html#LOGGING_AND_STANDARD_INPUT/OUTPUT.
const systemdScript = `[Unit]
Description={{.Description}}
ConditionFileIsExecutable={{.Path|cmdEscape}}
{{range $i, $dep := .Dependencies}}
{{$dep}} {{end}}

[Service]
StartLimitInterval=5
StartLimitBurst=10
ExecStart={{.Path|cmdEscape}}{{range .Arguments}} {{.|cmd}}{{end}}
{{if .ChRoot}}RootDirectory={{.ChRoot|cmd}}{{end}}
{{if .WorkingDirectory}}WorkingDirectory={{.WorkingDirectory|cmdEscape}}{{end}}
{{if .UserName}}User={{.UserName}}{{end}}
{{if .ReloadSignal}}ExecReload=/bin/kill -{{.ReloadSignal}} "$MAINPID"{{end}}
{{if .PIDFile}}PIDFile={{.PIDFile|cmd}}{{end}}
{{if and .LogOutput .HasOutputFileSupport -}}
StandardOutput=journal
StandardError=journal
{{- end}}
{{if gt .LimitNOFILE -1 }}LimitNOFILE={{.LimitNOFILE}}{{end}}
{{if .Restart}}Restart={{.Restart}}{{end}}
{{if .SuccessExitStatus}}SuccessExitStatus={{.SuccessExitStatus}}{{end}}
RestartSec=10
EnvironmentFile=-/etc/sysconfig/{{.Name}}

[Install]
WantedBy=multi-user.target
`

// sysvScript is the source of the daemon script for SysV-based Linux systems.
// Keep as close as possible to the https://github.com/kardianos/service/blob/29f8c79c511bc18422bb99992779f96e6bc33921/service_sysv_linux.go#L187.
//
// Use ps command instead of reading the procfs since it's a more
// implementation-independent approach.
const sysvScript = `#!/bin/sh
# For RedHat and cousins:
# chkconfig: - 99 01
# description: {{.Description}}
# processname: {{.Path}}

### BEGIN INIT INFO
# Provides:          {{.Path}}
# Required-Start:
# Required-Stop:
# Default-Start:     2 3 4 5
# Default-Stop:      0 1 6
# Short-Description: {{.DisplayName}}
# Description:       {{.Description}}
### END INIT INFO

cmd="{{.Path}}{{range .Arguments}} {{.|cmd}}{{end}}"

name=$(basename $(readlink -f $0))
pid_file="/var/run/$name.pid"
stdout_log="/var/log/$name.log"
stderr_log="/var/log/$name.err"

[ -e /etc/sysconfig/$name ] && . /etc/sysconfig/$name

get_pid() {
    cat "$pid_file"
}

is_running() {
    [ -f "$pid_file" ] && ps -p "$(get_pid)" > /dev/null 2>&1
}

case "$1" in
    start)
        if is_running; then
            echo "Already started"
        else
            echo "Starting $name"
            {{if .WorkingDirectory}}cd '{{.WorkingDirectory}}'{{end}}
            $cmd >> "$stdout_log" 2>> "$stderr_log" &
            echo $! > "$pid_file"
            if ! is_running; then
                echo "Unable to start, see $stdout_log and $stderr_log"
                exit 1
            fi
        fi
    ;;
    stop)
        if is_running; then
            echo -n "Stopping $name.."
            kill $(get_pid)
            for i in $(seq 1 10)
            do
                if ! is_running; then
                    break
                fi
                echo -n "."
                sleep 1
            done
            echo
            if is_running; then
                echo "Not stopped; may still be shutting down or shutdown may have failed"
                exit 1
            else
                echo "Stopped"
                if [ -f "$pid_file" ]; then
                    rm "$pid_file"
                fi
            fi
        else
            echo "Not running"
        fi
    ;;
    restart)
        $0 stop
        if is_running; then
            echo "Unable to stop, will not attempt to start"
            exit 1
        fi
        $0 start
    ;;
    status)
        if is_running; then
            echo "Running"
        else
            echo "Stopped"
            exit 1
        fi
    ;;
    *)
    echo "Usage: $0 {start|stop|restart|status}"
    exit 1
    ;;
esac
exit 0
`

// OpenWrt procd init script
// https://github.com/AdguardTeam/AdGuardHome/internal/issues/1386
const openWrtScript = `#!/bin/sh /etc/rc.common

USE_PROCD=1

START=95
STOP=01

cmd="{{.Path}}{{range .Arguments}} {{.|cmd}}{{end}}"
name="{{.Name}}"
pid_file="/var/run/${name}.pid"

start_service() {
    echo "Starting ${name}"

    procd_open_instance
    procd_set_param command ${cmd}
    procd_set_param respawn             # respawn automatically if something died
    procd_set_param stdout 1            # forward stdout of the command to logd
    procd_set_param stderr 1            # same for stderr
    procd_set_param pidfile ${pid_file} # write a pid file on instance start and remove it on stop

    procd_close_instance
    echo "${name} has been started"
}

stop_service() {
    echo "Stopping ${name}"
}

EXTRA_COMMANDS="status"
EXTRA_HELP="        status  Print the service status"

get_pid() {
    cat "${pid_file}"
}

is_running() {
    [ -f "${pid_file}" ] && ps | grep -v grep | grep $(get_pid) >/dev/null 2>&1
}

status() {
    if is_running; then
        echo "Running"
    else
        echo "Stopped"
        exit 1
    fi
}
`

// freeBSDScript is the source of the daemon script for FreeBSD.  Keep as close
// as possible to the https://github.com/kardianos/service/blob/18c957a3dc1120a2efe77beb401d476bade9e577/service_freebsd.go#L204.
const freeBSDScript = `#!/bin/sh
# PROVIDE: {{.Name}}
# REQUIRE: networking
# KEYWORD: shutdown

. /etc/rc.subr

name="{{.Name}}"
{{.Name}}_env="IS_DAEMON=1"
{{.Name}}_user="root"
pidfile_child="/var/run/${name}.pid"
pidfile="/var/run/${name}_daemon.pid"
command="/usr/sbin/daemon"
daemon_args="-P ${pidfile} -p ${pidfile_child} -r -t ${name}"
command_args="${daemon_args} {{.Path}}{{range .Arguments}} {{.}}{{end}}"

run_rc_command "$1"
`

const openBSDScript = `#!/bin/ksh
#
# $OpenBSD: {{ .SvcInfo }}

daemon="{{.Path}}"
daemon_flags={{ .Arguments | args }}
daemon_logger="daemon.info"

. /etc/rc.d/rc.subr

rc_bg=YES

rc_cmd $1
`
