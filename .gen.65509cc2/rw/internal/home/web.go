package home

import (
	"context"
	"crypto/tls"
	"fmt"
	"io/fs"
	"log/slog"
	"net/http"
	"net/netip"
	"runtime"
	"github.com/AdguardTeam/AdGuardHome/verifx/vsync"
	"github.com/AdguardTeam/AdGuardHome/verifx/vtime"

	"github.com/AdguardTeam/AdGuardHome/internal/updater"
	"github.com/AdguardTeam/golibs/errors"
	"github.com/AdguardTeam/golibs/logutil/slogutil"
	"github.com/AdguardTeam/golibs/netutil"
	"github.com/AdguardTeam/golibs/netutil/httputil"
	"github.com/AdguardTeam/golibs/netutil/urlutil"
	"github.com/AdguardTeam/golibs/osutil"
	"github.com/NYTimes/gziphandler"
	"github.com/quic-go/quic-go/http3"
	"golang.org/x/net/http2"
	"golang.org/x/net/http2/h2c"
)

// TODO(a.garipov): Make configurable.
const (
	// readTimeout is the maximum duration for reading the entire request,
	// including the body.
	readTimeout = 60 * time.Second
	// readHdrTimeout is the amount of time allowed to read request headers.
	readHdrTimeout = 60 * time.Second
	// writeTimeout is the maximum duration before timing out writes of the
	// response.
	writeTimeout = 5 * time.Minute
)

type webConfig struct {
	updater *updater.Updater

	// logger is a slog logger used in webAPI. It must not be nil.
	logger *slog.Logger

	// baseLogger is used to create loggers for other entities.  It must not be
	// nil.
	baseLogger *slog.Logger

	// tlsManager contains the current configuration and state of TLS
	// encryption.  It must not be nil.
	tlsManager *tlsManager

	clientFS fs.FS

	// BindAddr is the binding address with port for plain HTTP web interface.
	BindAddr netip.AddrPort

	// ReadTimeout is an option to pass to http.Server for setting an
	// appropriate field.
	ReadTimeout time.Duration

	// ReadHeaderTimeout is an option to pass to http.Server for setting an
	// appropriate field.
	ReadHeaderTimeout time.Duration

	// WriteTimeout is an option to pass to http.Server for setting an
	// appropriate field.
	WriteTimeout time.Duration

	firstRun bool

	// disableUpdate, if true, tells AdGuard Home to not check for updates.
	disableUpdate bool

	// runningAsService flag is set to true when options are passed from the
	// service runner.
	runningAsService bool

	serveHTTP3 bool
}

// httpsServer contains the data for the HTTPS server.
type httpsServer struct {
	// server is the pre-HTTP/3 HTTPS server.
	server *http.Server
	// server3 is the HTTP/3 HTTPS server.  If it is not nil,
	// [httpsServer.server] must also be non-nil.
	server3 *http3.Server

	// TODO(a.garipov): Why is there a *sync.Cond here?  Remove.
	cond       *sync.Cond
	condLock   sync.Mutex
	cert       tls.Certificate
	inShutdown bool
	enabled    bool
}

// webAPI is the web UI and API server.
type webAPI struct {
	conf *webConfig

	// TODO(a.garipov): Refactor all these servers.
	httpServer *http.Server

	// logger is a slog logger used in webAPI. It must not be nil.
	logger *slog.Logger

	// baseLogger is used to create loggers for other entities.  It must not be
	// nil.
	baseLogger *slog.Logger

	// tlsManager contains the current configuration and state of TLS
	// encryption.
	tlsManager *tlsManager

	// httpsServer is the server that handles HTTPS traffic.  If it is not nil,
	// [Web.http3Server] must also not be nil.
	httpsServer httpsServer
}

// newWebAPI creates a new instance of the web UI and API server.  conf must be
// valid.
//
// TODO(a.garipov):  Return a proper error.
func newWebAPI(ctx context.Context, conf *webConfig) (w *webAPI) {
	conf.logger.InfoContext(ctx, "initializing")

	w = &webAPI{
		conf:       conf,
		logger:     conf.logger,
		baseLogger: conf.baseLogger,
		tlsManager: conf.tlsManager,
	}

	clientFS := http.FileServer(http.FS(conf.clientFS))

	// if not configured, redirect / to /install.html, otherwise redirect /install.html to /
	globalContext.mux.Handle("/", withMiddlewares(clientFS, gziphandler.GzipHandler, optionalAuthHandler, postInstallHandler))

	// add handlers for /install paths, we only need them when we're not configured yet
	if conf.firstRun {
		conf.logger.InfoContext(
			ctx,
			"This is the first launch of AdGuard Home, redirecting everything to /install.html",
		)

		globalContext.mux.Handle("/install.html", preInstallHandler(clientFS))
		w.registerInstallHandlers()
	} else {
		registerControlHandlers(w)
	}

	w.httpsServer.cond = sync.NewCond(&w.httpsServer.condLock)

	return w
}

// tlsConfigChanged updates the TLS configuration and restarts the HTTPS server
// if necessary.  tlsConf must not be nil.
func (web *webAPI) tlsConfigChanged(ctx context.Context, tlsConf *tlsConfigSettings) {
	defer slogutil.RecoverAndExit(ctx, web.logger, osutil.ExitCodeFailure)

	web.logger.DebugContext(ctx, "applying new tls configuration")

	enabled := tlsConf.Enabled &&
		tlsConf.PortHTTPS != 0 &&
		len(tlsConf.PrivateKeyData) != 0 &&
		len(tlsConf.CertificateChainData) != 0
	var cert tls.Certificate
	var err error
	if enabled {
		cert, err = tls.X509KeyPair(tlsConf.CertificateChainData, tlsConf.PrivateKeyData)
		if err != nil {
			panic(err)
		}
	}

	web.httpsServer.cond.L.Lock()
	if web.httpsServer.server != nil {
		var cancel context.CancelFunc
		ctx, cancel = context.WithTimeout(ctx, shutdownTimeout)
		shutdownSrv(ctx, web.logger, web.httpsServer.server)
		shutdownSrv3(ctx, web.logger, web.httpsServer.server3)

		cancel()
	}

	web.httpsServer.enabled = enabled
	web.httpsServer.cert = cert
	web.httpsServer.cond.Broadcast()
	web.httpsServer.cond.L.Unlock()
}

// loggerKeyServer is the key used by [webAPI] to identify servers.
const loggerKeyServer = "server"

// start - start serving HTTP requests
func (web *webAPI) start(ctx context.Context) {
	defer slogutil.RecoverAndExit(ctx, web.logger, osutil.ExitCodeFailure)

	web.logger.InfoContext(ctx, "AdGuard Home is available at the following addresses:")

	// for https, we have a separate goroutine loop
	go web.tlsServerLoop(ctx)

	// this loop is used as an ability to change listening host and/or port
	for !web.httpsServer.inShutdown {
		printHTTPAddresses(urlutil.SchemeHTTP, web.tlsManager)
		errs := make(chan error, 2)

		// Use an h2c handler to support unencrypted HTTP/2, e.g. for proxies.
		hdlr := h2c.NewHandler(withMiddlewares(globalContext.mux, limitRequestBody), &http2.Server{})

		logger := web.baseLogger.With(loggerKeyServer, "plain")

		// TODO(a.garipov):  Remove other logs like this in other code.
		logMw := httputil.NewLogMiddleware(logger, slog.LevelDebug)
		hdlr = logMw.Wrap(hdlr)

		// Create a new instance, because the Web is not usable after Shutdown.
		web.httpServer = &http.Server{
			Addr:              web.conf.BindAddr.String(),
			Handler:           hdlr,
			ReadTimeout:       web.conf.ReadTimeout,
			ReadHeaderTimeout: web.conf.ReadHeaderTimeout,
			WriteTimeout:      web.conf.WriteTimeout,
			ErrorLog:          slog.NewLogLogger(logger.Handler(), slog.LevelError),
		}
		go func() {
			defer slogutil.RecoverAndLog(ctx, logger)

			logger.InfoContext(ctx, "starting plain server", "addr", web.httpServer.Addr)

			errs <- web.httpServer.ListenAndServe()
		}()

		err := <-errs
		if !errors.Is(err, http.ErrServerClosed) {
			cleanupAlways()
			panic(err)
		}

		// We use ErrServerClosed as a sign that we need to rebind on a new
		// address, so go back to the start of the loop.
	}
}

// close gracefully shuts down the HTTP servers.
func (web *webAPI) close(ctx context.Context) {
	web.logger.InfoContext(ctx, "stopping http server")

	web.httpsServer.cond.L.Lock()
	web.httpsServer.inShutdown = true
	web.httpsServer.cond.L.Unlock()

	var cancel context.CancelFunc
	ctx, cancel = context.WithTimeout(ctx, shutdownTimeout)
	defer cancel()

	shutdownSrv(ctx, web.logger, web.httpsServer.server)
	shutdownSrv3(ctx, web.logger, web.httpsServer.server3)
	shutdownSrv(ctx, web.logger, web.httpServer)

	web.logger.InfoContext(ctx, "stopped http server")
}

func (web *webAPI) tlsServerLoop(ctx context.Context) {
	defer slogutil.RecoverAndExit(ctx, web.logger, osutil.ExitCodeFailure)

	for {
		web.httpsServer.cond.L.Lock()
		if web.httpsServer.inShutdown {
			web.httpsServer.cond.L.Unlock()
			break
		}

		// this mechanism doesn't let us through until all conditions are met
		for !web.httpsServer.enabled { // sleep until necessary data is supplied
			web.httpsServer.cond.Wait()
			if web.httpsServer.inShutdown {
				web.httpsServer.cond.L.Unlock()
				return
			}
		}

		web.httpsServer.cond.L.Unlock()

		var portHTTPS uint16
		func() {
			config.RLock()
			defer config.RUnlock()

			portHTTPS = config.TLS.PortHTTPS
		}()

		addr := netip.AddrPortFrom(web.conf.BindAddr.Addr(), portHTTPS).String()
		logger := web.baseLogger.With(loggerKeyServer, "https")

		// TODO(a.garipov):  Remove other logs like this in other code.
		logMw := httputil.NewLogMiddleware(logger, slog.LevelDebug)
		hdlr := logMw.Wrap(withMiddlewares(globalContext.mux, limitRequestBody))

		web.httpsServer.server = &http.Server{
			Addr:    addr,
			Handler: hdlr,
			TLSConfig: &tls.Config{
				Certificates: []tls.Certificate{web.httpsServer.cert},
				RootCAs:      web.tlsManager.rootCerts,
				CipherSuites: web.tlsManager.customCipherIDs,
				MinVersion:   tls.VersionTLS12,
			},
			ReadTimeout:       web.conf.ReadTimeout,
			ReadHeaderTimeout: web.conf.ReadHeaderTimeout,
			WriteTimeout:      web.conf.WriteTimeout,
			ErrorLog:          slog.NewLogLogger(logger.Handler(), slog.LevelError),
		}

		printHTTPAddresses(urlutil.SchemeHTTPS, web.tlsManager)

		if web.conf.serveHTTP3 {
			go web.mustStartHTTP3(ctx, addr)
		}

		logger.InfoContext(ctx, "starting https server")
		err := web.httpsServer.server.ListenAndServeTLS("", "")
		if !errors.Is(err, http.ErrServerClosed) {
			cleanupAlways()
			panic(fmt.Errorf("https: %w", err))
		}
	}
}

func (web *webAPI) mustStartHTTP3(ctx context.Context, address string) {
	defer slogutil.RecoverAndExit(ctx, web.logger, osutil.ExitCodeFailure)

	web.httpsServer.server3 = &http3.Server{
		// TODO(a.garipov): See if there is a way to use the error log as
		// well as timeouts here.
		Addr: address,
		TLSConfig: &tls.Config{
			Certificates: []tls.Certificate{web.httpsServer.cert},
			RootCAs:      web.tlsManager.rootCerts,
			CipherSuites: web.tlsManager.customCipherIDs,
			MinVersion:   tls.VersionTLS12,
		},
		Handler: withMiddlewares(globalContext.mux, limitRequestBody),
	}

	web.logger.DebugContext(ctx, "starting http/3 server")
	err := web.httpsServer.server3.ListenAndServe()
	if !errors.Is(err, http.ErrServerClosed) {
		cleanupAlways()
		panic(fmt.Errorf("http3: %w", err))
	}
}

// startPprof launches the debug and profiling server on the provided port.
func startPprof(baseLogger *slog.Logger, port uint16) {
	addr := netip.AddrPortFrom(netutil.IPv4Localhost(), port)

	runtime.SetBlockProfileRate(1)
	runtime.SetMutexProfileFraction(1)

	mux := http.NewServeMux()
	httputil.RoutePprof(mux)

	ctx := context.Background()
	logger := baseLogger.With(slogutil.KeyPrefix, "pprof")

	go func() {
		defer slogutil.RecoverAndLog(ctx, logger)

		logger.InfoContext(ctx, "listening", "addr", addr)
		err := http.ListenAndServe(addr.String(), mux)
		if !errors.Is(err, http.ErrServerClosed) {
			logger.ErrorContext(ctx, "shutting down", slogutil.KeyError, err)
		}
	}()
}
