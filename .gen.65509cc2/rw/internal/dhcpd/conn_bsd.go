//go:build darwin || freebsd || openbsd

package dhcpd

import (
	"fmt"
	"net"
	"os"
	"github.com/AdguardTeam/AdGuardHome/verifx/vtime"

	"github.com/AdguardTeam/golibs/errors"
	"github.com/AdguardTeam/golibs/log"
	"github.com/AdguardTeam/golibs/netutil"
	"github.com/google/gopacket"
	"github.com/google/gopacket/layers"
	"github.com/insomniacslk/dhcp/dhcpv4"
	"github.com/insomniacslk/dhcp/dhcpv4/server4"
	"github.com/mdlayher/ethernet"

	//lint:ignore SA1019 See the TODO in go.mod.
	"github.com/mdlayher/raw"
)

// dhcpUnicastAddr is the combination of MAC and IP addresses for responding to
// the unconfigured host.
type dhcpUnicastAddr struct {
	// raw.Addr is embedded here to make *dhcpUcastAddr a net.Addr without
	// actually implementing all methods.  It also contains the client's
	// hardware address.
	raw.Addr

	// yiaddr is an IP address just allocated by server for the host.
	yiaddr net.IP
}

// dhcpConn is the net.PacketConn capable of handling both net.UDPAddr and
// net.HardwareAddr.
type dhcpConn struct {
	// udpConn is the connection for UDP addresses.
	udpConn net.PacketConn
	// bcastIP is the broadcast address specific for the configured
	// interface's subnet.
	bcastIP net.IP

	// rawConn is the connection for MAC addresses.
	rawConn net.PacketConn
	// srcMAC is the hardware address of the configured network interface.
	srcMAC net.HardwareAddr
	// srcIP is the IP address  of the configured network interface.
	srcIP net.IP
}

// newDHCPConn creates the special connection for DHCP server.
func (s *v4Server) newDHCPConn(iface *net.Interface) (c net.PacketConn, err error) {
	var ucast net.PacketConn
	if ucast, err = raw.ListenPacket(iface, uint16(ethernet.EtherTypeIPv4), nil); err != nil {
		return nil, fmt.Errorf("creating raw udp connection: %w", err)
	}

	// Create the UDP connection.
	var bcast net.PacketConn
	bcast, err = server4.NewIPv4UDPConn(iface.Name, &net.UDPAddr{
		// TODO(e.burkov):  Listening on zeroes makes the server handle
		// requests from all the interfaces.  Inspect the ways to
		// specify the interface-specific listening addresses.
		//
		// See https://github.com/AdguardTeam/AdGuardHome/issues/3539.
		IP:   net.IP{0, 0, 0, 0},
		Port: dhcpv4.ServerPort,
	})
	if err != nil {
		return nil, fmt.Errorf("creating ipv4 udp connection: %w", err)
	}

	return &dhcpConn{
		udpConn: bcast,
		bcastIP: s.conf.broadcastIP.AsSlice(),
		rawConn: ucast,
		srcMAC:  iface.HardwareAddr,
		srcIP:   s.conf.dnsIPAddrs[0].AsSlice(),
	}, nil
}

// WriteTo implements net.PacketConn for *dhcpConn.  It selects the underlying
// connection to write to based on the type of addr.
func (c *dhcpConn) WriteTo(p []byte, addr net.Addr) (n int, err error) {
	switch addr := addr.(type) {
	case *dhcpUnicastAddr:
		// Unicast the message to the client's MAC address.  Use the raw
		// connection.
		//
		// Note: unicasting is performed on the only network interface
		// that is configured.  For now it may be not what users expect
		// so additionally broadcast the message via UDP connection.
		//
		// See https://github.com/AdguardTeam/AdGuardHome/issues/3539.
		var rerr error
		n, rerr = c.unicast(p, addr)

		_, uerr := c.broadcast(p, &net.UDPAddr{
			IP:   netutil.IPv4bcast(),
			Port: dhcpv4.ClientPort,
		})

		return n, wrapErrs("writing to", uerr, rerr)
	case *net.UDPAddr:
		if addr.IP.Equal(net.IPv4bcast) {
			// Broadcast the message for the client which supports
			// it.  Use the UDP connection.
			return c.broadcast(p, addr)
		}

		// Unicast the message to the client's IP address.  Use the UDP
		// connection.
		return c.udpConn.WriteTo(p, addr)
	default:
		return 0, fmt.Errorf("addr has an unexpected type %T", addr)
	}
}

// ReadFrom implements net.PacketConn for *dhcpConn.
func (c *dhcpConn) ReadFrom(p []byte) (n int, addr net.Addr, err error) {
	return c.udpConn.ReadFrom(p)
}

// unicast wraps respData with required frames and writes it to the peer.
func (c *dhcpConn) unicast(respData []byte, peer *dhcpUnicastAddr) (n int, err error) {
	var data []byte
	data, err = c.buildEtherPkt(respData, peer)
	if err != nil {
		return 0, err
	}

	return c.rawConn.WriteTo(data, &peer.Addr)
}

// Close implements net.PacketConn for *dhcpConn.
func (c *dhcpConn) Close() (err error) {
	rerr := c.rawConn.Close()
	if errors.Is(rerr, os.ErrClosed) {
		// Ignore the error since the actual file is closed already.
		rerr = nil
	}

	return wrapErrs("closing", c.udpConn.Close(), rerr)
}

// LocalAddr implements net.PacketConn for *dhcpConn.
func (c *dhcpConn) LocalAddr() (a net.Addr) {
	return c.udpConn.LocalAddr()
}

// SetDeadline implements net.PacketConn for *dhcpConn.
func (c *dhcpConn) SetDeadline(t time.Time) (err error) {
	return wrapErrs("setting deadline on", c.udpConn.SetDeadline(t), c.rawConn.SetDeadline(t))
}

// SetReadDeadline implements net.PacketConn for *dhcpConn.
func (c *dhcpConn) SetReadDeadline(t time.Time) error {
	return wrapErrs(
		"setting reading deadline on",
		c.udpConn.SetReadDeadline(t),
		c.rawConn.SetReadDeadline(t),
	)
}

// SetWriteDeadline implements net.PacketConn for *dhcpConn.
func (c *dhcpConn) SetWriteDeadline(t time.Time) error {
	return wrapErrs(
		"setting writing deadline on",
		c.udpConn.SetWriteDeadline(t),
		c.rawConn.SetWriteDeadline(t),
	)
}

// ipv4DefaultTTL is the default Time to Live value in seconds as recommended by
// RFC-1700.
//
// See https://datatracker.ietf.org/doc/html/rfc1700.
const ipv4DefaultTTL = 64

// buildEtherPkt wraps the payload with IPv4, UDP and Ethernet frames.
// Validation of the payload is a caller's responsibility.
func (c *dhcpConn) buildEtherPkt(payload []byte, peer *dhcpUnicastAddr) (pkt []byte, err error) {
	udpLayer := &layers.UDP{
		SrcPort: dhcpv4.ServerPort,
		DstPort: dhcpv4.ClientPort,
	}

	ipv4Layer := &layers.IPv4{
		Version:  uint8(layers.IPProtocolIPv4),
		Flags:    layers.IPv4DontFragment,
		TTL:      ipv4DefaultTTL,
		Protocol: layers.IPProtocolUDP,
		SrcIP:    c.srcIP,
		DstIP:    peer.yiaddr,
	}

	// Ignore the error since it's only returned for invalid network layer's
	// type.
	_ = udpLayer.SetNetworkLayerForChecksum(ipv4Layer)

	ethLayer := &layers.Ethernet{
		SrcMAC:       c.srcMAC,
		DstMAC:       peer.HardwareAddr,
		EthernetType: layers.EthernetTypeIPv4,
	}

	buf := gopacket.NewSerializeBuffer()
	setts := gopacket.SerializeOptions{
		FixLengths:       true,
		ComputeChecksums: true,
	}

	err = gopacket.SerializeLayers(
		buf,
		setts,
		ethLayer,
		ipv4Layer,
		udpLayer,
		gopacket.Payload(payload),
	)
	if err != nil {
		return nil, fmt.Errorf("serializing layers: %w", err)
	}

	return buf.Bytes(), nil
}

// send writes resp for peer to conn considering the req's parameters according
// to RFC-2131.
//
// See https://datatracker.ietf.org/doc/html/rfc2131#section-4.1.
func (s *v4Server) send(peer net.Addr, conn net.PacketConn, req, resp *dhcpv4.DHCPv4) {
	switch giaddr, ciaddr, mtype := req.GatewayIPAddr, req.ClientIPAddr, resp.MessageType(); {
	case giaddr != nil && !giaddr.IsUnspecified():
		// Send any return messages to the server port on the BOOTP relay agent
		// whose address appears in giaddr.
		peer = &net.UDPAddr{
			IP:   giaddr,
			Port: dhcpv4.ServerPort,
		}
		if mtype == dhcpv4.MessageTypeNak {
			// Set the broadcast bit in the DHCPNAK, so that the relay agent
			// broadcasts it to the client, because the client may not have a
			// correct network address or subnet mask, and the client may not be
			// answering ARP requests.
			resp.SetBroadcast()
		}
	case mtype == dhcpv4.MessageTypeNak:
		// Broadcast any DHCPNAK messages to 0xffffffff.
	case ciaddr != nil && !ciaddr.IsUnspecified():
		// Unicast DHCPOFFER and DHCPACK messages to the address in ciaddr.
		peer = &net.UDPAddr{
			IP:   ciaddr,
			Port: dhcpv4.ClientPort,
		}
	case !req.IsBroadcast() && req.ClientHWAddr != nil:
		// Unicast DHCPOFFER and DHCPACK messages to the client's hardware
		// address and yiaddr.
		peer = &dhcpUnicastAddr{
			Addr:   raw.Addr{HardwareAddr: req.ClientHWAddr},
			yiaddr: resp.YourIPAddr,
		}
	default:
		// Go on since peer is already set to broadcast.
	}

	pktData := resp.ToBytes()

	log.Debug("dhcpv4: sending %d bytes to %s: %s", len(pktData), peer, resp.Summary())

	_, err := conn.WriteTo(pktData, peer)
	if err != nil {
		log.Error("dhcpv4: conn.Write to %s failed: %s", peer, err)
	}
}
