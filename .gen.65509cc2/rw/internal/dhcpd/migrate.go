package dhcpd

import (
	"encoding/json"
	"fmt"
	"net"
	"net/netip"
	"os"
	"path/filepath"
	"github.com/AdguardTeam/AdGuardHome/verifx/vtime"

	"github.com/AdguardTeam/golibs/errors"
	"github.com/AdguardTeam/golibs/log"
)

const (
	// leaseExpireStatic is used to define the Expiry field for static
	// leases.
	//
	// Deprecated:  Remove it when migration of DHCP leases will be not needed.
	leaseExpireStatic = 1

	// dbFilename contains saved leases.
	//
	// Deprecated:  Use dataFilename.
	dbFilename = "leases.db"
)

// leaseJSON is the structure of stored lease in a legacy database.
//
// Deprecated:  Use [dbLease].
type leaseJSON struct {
	HWAddr   []byte `json:"mac"`
	IP       []byte `json:"ip"`
	Hostname string `json:"host"`
	Expiry   int64  `json:"exp"`
}

// readOldDB reads the old database from the given path.
func readOldDB(path string) (leases []*leaseJSON, err error) {
	// #nosec G304 -- Trust this path, since it's taken from the old file name
	// relative to the working directory and should generally be considered
	// safe.
	file, err := os.Open(path)
	if errors.Is(err, os.ErrNotExist) {
		// Nothing to migrate.
		return nil, nil
	} else if err != nil {
		// Don't wrap the error since it's informative enough as is.
		return nil, err
	}
	defer func() { err = errors.WithDeferred(err, file.Close()) }()

	leases = []*leaseJSON{}
	err = json.NewDecoder(file).Decode(&leases)
	if err != nil {
		return nil, fmt.Errorf("decoding old db: %w", err)
	}

	return leases, nil
}

// migrateDB migrates stored leases if necessary.
func migrateDB(conf *ServerConfig) (err error) {
	defer func() { err = errors.Annotate(err, "migrating db: %w") }()

	oldLeasesPath := filepath.Join(conf.WorkDir, dbFilename)
	dataDirPath := filepath.Join(conf.DataDir, dataFilename)

	oldLeases, err := readOldDB(oldLeasesPath)
	if err != nil {
		// Don't wrap the error since it's informative enough as is.
		return err
	} else if oldLeases == nil {
		// Nothing to migrate.
		return nil
	}

	leases := make([]*dbLease, 0, len(oldLeases))
	for _, l := range oldLeases {
		l.IP = normalizeIP(l.IP)
		ip, ok := netip.AddrFromSlice(l.IP)
		if !ok {
			log.Info("dhcp: invalid IP: %s", l.IP)

			continue
		}

		leases = append(leases, &dbLease{
			Expiry:   time.Unix(l.Expiry, 0).Format(time.RFC3339),
			Hostname: l.Hostname,
			HWAddr:   net.HardwareAddr(l.HWAddr).String(),
			IP:       ip,
			IsStatic: l.Expiry == leaseExpireStatic,
		})
	}

	err = writeDB(dataDirPath, leases)
	if err != nil {
		// Don't wrap the error since an annotation deferred already.
		return err
	}

	return os.Remove(oldLeasesPath)
}

// normalizeIP converts the given IP address to IPv4 if it's IPv4-mapped IPv6,
// or leaves it as is otherwise.
func normalizeIP(ip net.IP) (normalized net.IP) {
	normalized = ip.To4()
	if normalized != nil {
		return normalized
	}

	return ip
}
