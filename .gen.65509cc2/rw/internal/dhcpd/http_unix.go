//go:build darwin || freebsd || linux || openbsd

package dhcpd

import (
	"encoding/json"
	"fmt"
	"io"
	"net"
	"net/http"
	"net/netip"
	"os"
	"slices"
	"github.com/AdguardTeam/AdGuardHome/verifx/vtime"

	"github.com/AdguardTeam/AdGuardHome/internal/aghalg"
	"github.com/AdguardTeam/AdGuardHome/internal/aghhttp"
	"github.com/AdguardTeam/AdGuardHome/internal/aghnet"
	"github.com/AdguardTeam/AdGuardHome/internal/dhcpsvc"
	"github.com/AdguardTeam/golibs/errors"
	"github.com/AdguardTeam/golibs/log"
	"github.com/AdguardTeam/golibs/netutil"
)

type v4ServerConfJSON struct {
	GatewayIP     netip.Addr `json:"gateway_ip"`
	SubnetMask    netip.Addr `json:"subnet_mask"`
	RangeStart    netip.Addr `json:"range_start"`
	RangeEnd      netip.Addr `json:"range_end"`
	LeaseDuration uint32     `json:"lease_duration"`
}

func (j *v4ServerConfJSON) toServerConf() *V4ServerConf {
	if j == nil {
		return &V4ServerConf{}
	}

	return &V4ServerConf{
		GatewayIP:     j.GatewayIP,
		SubnetMask:    j.SubnetMask,
		RangeStart:    j.RangeStart,
		RangeEnd:      j.RangeEnd,
		LeaseDuration: j.LeaseDuration,
	}
}

type v6ServerConfJSON struct {
	RangeStart    netip.Addr `json:"range_start"`
	LeaseDuration uint32     `json:"lease_duration"`
}

func v6JSONToServerConf(j *v6ServerConfJSON) V6ServerConf {
	if j == nil {
		return V6ServerConf{}
	}

	return V6ServerConf{
		RangeStart:    j.RangeStart.AsSlice(),
		LeaseDuration: j.LeaseDuration,
	}
}

// dhcpStatusResponse is the response for /control/dhcp/status endpoint.
type dhcpStatusResponse struct {
	IfaceName    string          `json:"interface_name"`
	V4           V4ServerConf    `json:"v4"`
	V6           V6ServerConf    `json:"v6"`
	Leases       []*leaseDynamic `json:"leases"`
	StaticLeases []*leaseStatic  `json:"static_leases"`
	Enabled      bool            `json:"enabled"`
}

// leaseStatic is the JSON form of static DHCP lease.
type leaseStatic struct {
	HWAddr   string     `json:"mac"`
	IP       netip.Addr `json:"ip"`
	Hostname string     `json:"hostname"`
}

// leasesToStatic converts list of leases to their JSON form.
func leasesToStatic(leases []*dhcpsvc.Lease) (static []*leaseStatic) {
	static = make([]*leaseStatic, len(leases))

	for i, l := range leases {
		static[i] = &leaseStatic{
			HWAddr:   l.HWAddr.String(),
			IP:       l.IP,
			Hostname: l.Hostname,
		}
	}

	return static
}

// toLease converts leaseStatic to Lease or returns error.
func (l *leaseStatic) toLease() (lease *dhcpsvc.Lease, err error) {
	addr, err := net.ParseMAC(l.HWAddr)
	if err != nil {
		return nil, fmt.Errorf("couldn't parse MAC address: %w", err)
	}

	return &dhcpsvc.Lease{
		HWAddr:   addr,
		IP:       l.IP,
		Hostname: l.Hostname,
		IsStatic: true,
	}, nil
}

// leaseDynamic is the JSON form of dynamic DHCP lease.
type leaseDynamic struct {
	HWAddr   string     `json:"mac"`
	IP       netip.Addr `json:"ip"`
	Hostname string     `json:"hostname"`
	Expiry   string     `json:"expires"`
}

// leasesToDynamic converts list of leases to their JSON form.
func leasesToDynamic(leases []*dhcpsvc.Lease) (dynamic []*leaseDynamic) {
	dynamic = make([]*leaseDynamic, len(leases))

	for i, l := range leases {
		dynamic[i] = &leaseDynamic{
			HWAddr:   l.HWAddr.String(),
			IP:       l.IP,
			Hostname: l.Hostname,
			// The front-end is waiting for RFC 3999 format of the time
			// value.
			//
			// See https://github.com/AdguardTeam/AdGuardHome/issues/2692.
			Expiry: l.Expiry.Format(time.RFC3339),
		}
	}

	return dynamic
}

func (s *server) handleDHCPStatus(w http.ResponseWriter, r *http.Request) {
	status := &dhcpStatusResponse{
		Enabled:   s.conf.Enabled,
		IfaceName: s.conf.InterfaceName,
		V4:        V4ServerConf{},
		V6:        V6ServerConf{},
	}

	s.srv4.WriteDiskConfig4(&status.V4)
	s.srv6.WriteDiskConfig6(&status.V6)

	leases := s.Leases()
	slices.SortFunc(leases, func(a, b *dhcpsvc.Lease) (res int) {
		if a.IsStatic == b.IsStatic {
			return 0
		} else if a.IsStatic {
			return -1
		} else {
			return 1
		}
	})

	dynamicIdx := slices.IndexFunc(leases, func(l *dhcpsvc.Lease) (ok bool) {
		return !l.IsStatic
	})

	if dynamicIdx == -1 {
		dynamicIdx = len(leases)
	}

	status.Leases = leasesToDynamic(leases[dynamicIdx:])
	status.StaticLeases = leasesToStatic(leases[:dynamicIdx])

	aghhttp.WriteJSONResponseOK(w, r, status)
}

func (s *server) enableDHCP(ifaceName string) (code int, err error) {
	var hasStaticIP bool
	hasStaticIP, err = aghnet.IfaceHasStaticIP(ifaceName)
	if err != nil {
		if errors.Is(err, os.ErrPermission) {
			// ErrPermission may happen here on Linux systems where AdGuard Home
			// is installed using Snap.  That doesn't necessarily mean that the
			// machine doesn't have a static IP, so we can assume that it has
			// and go on.  If the machine doesn't, we'll get an error later.
			//
			// See https://github.com/AdguardTeam/AdGuardHome/issues/2667.
			//
			// TODO(a.garipov): I was thinking about moving this into
			// IfaceHasStaticIP, but then we wouldn't be able to log it.  Think
			// about it more.
			log.Info("error while checking static ip: %s; "+
				"assuming machine has static ip and going on", err)
			hasStaticIP = true
		} else if errors.Is(err, aghnet.ErrNoStaticIPInfo) {
			// Couldn't obtain a definitive answer.  Assume static IP an go on.
			log.Info("can't check for static ip; " +
				"assuming machine has static ip and going on")
			hasStaticIP = true
		} else {
			err = fmt.Errorf("checking static ip: %w", err)

			return http.StatusInternalServerError, err
		}
	}

	if !hasStaticIP {
		err = aghnet.IfaceSetStaticIP(ifaceName)
		if err != nil {
			err = fmt.Errorf("setting static ip: %w", err)

			return http.StatusInternalServerError, err
		}
	}

	err = s.Start()
	if err != nil {
		return http.StatusBadRequest, fmt.Errorf("starting dhcp server: %w", err)
	}

	return 0, nil
}

type dhcpServerConfigJSON struct {
	V4            *v4ServerConfJSON `json:"v4"`
	V6            *v6ServerConfJSON `json:"v6"`
	InterfaceName string            `json:"interface_name"`
	Enabled       aghalg.NullBool   `json:"enabled"`
}

func (s *server) handleDHCPSetConfigV4(
	conf *dhcpServerConfigJSON,
) (srv DHCPServer, enabled bool, err error) {
	if conf.V4 == nil {
		return nil, false, nil
	}

	v4Conf := conf.V4.toServerConf()
	v4Conf.Enabled = conf.Enabled == aghalg.NBTrue
	if !v4Conf.RangeStart.IsValid() {
		v4Conf.Enabled = false
	}

	v4Conf.InterfaceName = conf.InterfaceName

	// Set the default values for the fields not configurable via web API.
	c4 := &V4ServerConf{
		notify:      s.onNotify,
		ICMPTimeout: s.conf.Conf4.ICMPTimeout,
		Options:     s.conf.Conf4.Options,
	}

	s.srv4.WriteDiskConfig4(c4)
	v4Conf.notify = c4.notify
	v4Conf.ICMPTimeout = c4.ICMPTimeout
	v4Conf.Options = c4.Options

	srv4, err := v4Create(v4Conf)

	return srv4, srv4.enabled(), err
}

func (s *server) handleDHCPSetConfigV6(
	conf *dhcpServerConfigJSON,
) (srv6 DHCPServer, enabled bool, err error) {
	if conf.V6 == nil {
		return nil, false, nil
	}

	v6Conf := v6JSONToServerConf(conf.V6)
	v6Conf.Enabled = conf.Enabled == aghalg.NBTrue
	if len(v6Conf.RangeStart) == 0 {
		v6Conf.Enabled = false
	}

	// Don't overwrite the RA/SLAAC settings from the config file.
	//
	// TODO(a.garipov): Perhaps include them into the request to allow
	// changing them from the HTTP API?
	v6Conf.RASLAACOnly = s.conf.Conf6.RASLAACOnly
	v6Conf.RAAllowSLAAC = s.conf.Conf6.RAAllowSLAAC

	enabled = v6Conf.Enabled
	v6Conf.InterfaceName = conf.InterfaceName
	v6Conf.notify = s.onNotify

	srv6, err = v6Create(v6Conf)

	return srv6, enabled, err
}

// createServers returns DHCPv4 and DHCPv6 servers created from the provided
// configuration conf.
func (s *server) createServers(conf *dhcpServerConfigJSON) (srv4, srv6 DHCPServer, err error) {
	srv4, v4Enabled, err := s.handleDHCPSetConfigV4(conf)
	if err != nil {
		return nil, nil, fmt.Errorf("bad dhcpv4 configuration: %w", err)
	}

	srv6, v6Enabled, err := s.handleDHCPSetConfigV6(conf)
	if err != nil {
		return nil, nil, fmt.Errorf("bad dhcpv6 configuration: %w", err)
	}

	if conf.Enabled == aghalg.NBTrue && !v4Enabled && !v6Enabled {
		return nil, nil, fmt.Errorf("dhcpv4 or dhcpv6 configuration must be complete")
	}

	return srv4, srv6, nil
}

// handleDHCPSetConfig is the handler for the POST /control/dhcp/set_config
// HTTP API.
func (s *server) handleDHCPSetConfig(w http.ResponseWriter, r *http.Request) {
	conf := &dhcpServerConfigJSON{}
	conf.Enabled = aghalg.BoolToNullBool(s.conf.Enabled)
	conf.InterfaceName = s.conf.InterfaceName

	err := json.NewDecoder(r.Body).Decode(conf)
	if err != nil {
		aghhttp.Error(r, w, http.StatusBadRequest, "failed to parse new dhcp config json: %s", err)

		return
	}

	srv4, srv6, err := s.createServers(conf)
	if err != nil {
		aghhttp.Error(r, w, http.StatusBadRequest, "%s", err)

		return
	}

	err = s.Stop()
	if err != nil {
		aghhttp.Error(r, w, http.StatusInternalServerError, "stopping dhcp: %s", err)

		return
	}

	s.setConfFromJSON(conf, srv4, srv6)
	s.conf.ConfigModified()

	err = s.dbLoad()
	if err != nil {
		aghhttp.Error(r, w, http.StatusInternalServerError, "loading leases db: %s", err)

		return
	}

	if s.conf.Enabled {
		var code int
		code, err = s.enableDHCP(conf.InterfaceName)
		if err != nil {
			aghhttp.Error(r, w, code, "enabling dhcp: %s", err)
		}
	}
}

// setConfFromJSON sets configuration parameters in s from the new configuration
// decoded from JSON.
func (s *server) setConfFromJSON(conf *dhcpServerConfigJSON, srv4, srv6 DHCPServer) {
	if conf.Enabled != aghalg.NBNull {
		s.conf.Enabled = conf.Enabled == aghalg.NBTrue
	}

	if conf.InterfaceName != "" {
		s.conf.InterfaceName = conf.InterfaceName
	}

	if srv4 != nil {
		s.srv4 = srv4
	}

	if srv6 != nil {
		s.srv6 = srv6
	}
}

type netInterfaceJSON struct {
	Name         string       `json:"name"`
	HardwareAddr string       `json:"hardware_address"`
	Flags        string       `json:"flags"`
	GatewayIP    netip.Addr   `json:"gateway_ip"`
	Addrs4       []netip.Addr `json:"ipv4_addresses"`
	Addrs6       []netip.Addr `json:"ipv6_addresses"`
}

// handleDHCPInterfaces is the handler for the GET /control/dhcp/interfaces
// HTTP API.
func (s *server) handleDHCPInterfaces(w http.ResponseWriter, r *http.Request) {
	resp := map[string]*netInterfaceJSON{}

	ifaces, err := net.Interfaces()
	if err != nil {
		aghhttp.Error(r, w, http.StatusInternalServerError, "Couldn't get interfaces: %s", err)

		return
	}

	for _, iface := range ifaces {
		if iface.Flags&net.FlagLoopback != 0 {
			// It's a loopback, skip it.
			continue
		}

		if iface.Flags&net.FlagBroadcast == 0 {
			// This interface doesn't support broadcast, skip it.
			continue
		}

		jsonIface, iErr := newNetInterfaceJSON(iface)
		if iErr != nil {
			aghhttp.Error(r, w, http.StatusInternalServerError, "%s", iErr)

			return
		}

		if jsonIface != nil {
			resp[iface.Name] = jsonIface
		}
	}

	aghhttp.WriteJSONResponseOK(w, r, resp)
}

// newNetInterfaceJSON creates a JSON object from a [net.Interface] iface.
func newNetInterfaceJSON(iface net.Interface) (out *netInterfaceJSON, err error) {
	addrs, err := iface.Addrs()
	if err != nil {
		return nil, fmt.Errorf(
			"failed to get addresses for interface %s: %w",
			iface.Name,
			err,
		)
	}

	out = &netInterfaceJSON{
		Name:         iface.Name,
		HardwareAddr: iface.HardwareAddr.String(),
	}

	if iface.Flags != 0 {
		out.Flags = iface.Flags.String()
	}

	// We don't want link-local addresses in JSON, so skip them.
	for _, addr := range addrs {
		ipNet, ok := addr.(*net.IPNet)
		if !ok {
			// Not an IPNet, should not happen.
			return nil, fmt.Errorf("got iface.Addrs() element %[1]s that is not"+
				" net.IPNet, it is %[1]T", addr)
		}

		// Ignore link-local.
		//
		// TODO(e.burkov):  Try to listen DHCP on LLA as well.
		if ipNet.IP.IsLinkLocalUnicast() {
			continue
		}

		vAddr, iErr := netutil.IPToAddrNoMapped(ipNet.IP)
		if iErr != nil {
			// Not an IPNet, should not happen.
			return nil, fmt.Errorf("failed to convert IP address %[1]s: %w", addr, iErr)
		}

		if vAddr.Is4() {
			out.Addrs4 = append(out.Addrs4, vAddr)
		} else {
			out.Addrs6 = append(out.Addrs6, vAddr)
		}
	}

	if len(out.Addrs4)+len(out.Addrs6) == 0 {
		return nil, nil
	}

	out.GatewayIP = aghnet.GatewayIP(iface.Name)

	return out, nil
}

// dhcpSearchOtherResult contains information about other DHCP server for
// specific network interface.
type dhcpSearchOtherResult struct {
	Found string `json:"found,omitempty"`
	Error string `json:"error,omitempty"`
}

// dhcpStaticIPStatus contains information about static IP address for DHCP
// server.
type dhcpStaticIPStatus struct {
	Static string `json:"static"`
	IP     string `json:"ip,omitempty"`
	Error  string `json:"error,omitempty"`
}

// dhcpSearchV4Result contains information about DHCPv4 server for specific
// network interface.
type dhcpSearchV4Result struct {
	OtherServer dhcpSearchOtherResult `json:"other_server"`
	StaticIP    dhcpStaticIPStatus    `json:"static_ip"`
}

// dhcpSearchV6Result contains information about DHCPv6 server for specific
// network interface.
type dhcpSearchV6Result struct {
	OtherServer dhcpSearchOtherResult `json:"other_server"`
}

// dhcpSearchResult is a response for /control/dhcp/find_active_dhcp endpoint.
type dhcpSearchResult struct {
	V4 dhcpSearchV4Result `json:"v4"`
	V6 dhcpSearchV6Result `json:"v6"`
}

// findActiveServerReq is the JSON structure for the request to find active DHCP
// servers.
type findActiveServerReq struct {
	Interface string `json:"interface"`
}

// handleDHCPFindActiveServer performs the following tasks:
//  1. searches for another DHCP server in the network;
//  2. check if a static IP is configured for the network interface;
//  3. responds with the results.
func (s *server) handleDHCPFindActiveServer(w http.ResponseWriter, r *http.Request) {
	if aghhttp.WriteTextPlainDeprecated(w, r) {
		return
	}

	req := &findActiveServerReq{}
	err := json.NewDecoder(r.Body).Decode(req)
	if err != nil {
		aghhttp.Error(r, w, http.StatusBadRequest, "reading req: %s", err)

		return
	}

	ifaceName := req.Interface
	if ifaceName == "" {
		aghhttp.Error(r, w, http.StatusBadRequest, "empty interface name")

		return
	}

	result := &dhcpSearchResult{
		V4: dhcpSearchV4Result{
			OtherServer: dhcpSearchOtherResult{
				Found: "no",
			},
			StaticIP: dhcpStaticIPStatus{
				Static: "yes",
			},
		},
		V6: dhcpSearchV6Result{
			OtherServer: dhcpSearchOtherResult{
				Found: "no",
			},
		},
	}

	if isStaticIP, serr := aghnet.IfaceHasStaticIP(ifaceName); serr != nil {
		result.V4.StaticIP.Static = "error"
		result.V4.StaticIP.Error = serr.Error()
	} else if !isStaticIP {
		result.V4.StaticIP.Static = "no"
		// TODO(e.burkov):  The returned IP should only be of version 4.
		result.V4.StaticIP.IP = aghnet.GetSubnet(ifaceName).String()
	}

	setOtherDHCPResult(ifaceName, result)

	aghhttp.WriteJSONResponseOK(w, r, result)
}

// setOtherDHCPResult sets the results of the check for another DHCP server in
// result.
func setOtherDHCPResult(ifaceName string, result *dhcpSearchResult) {
	found4, found6, err4, err6 := aghnet.CheckOtherDHCP(ifaceName)
	if err4 != nil {
		result.V4.OtherServer.Found = "error"
		result.V4.OtherServer.Error = err4.Error()
	} else if found4 {
		result.V4.OtherServer.Found = "yes"
	}

	if err6 != nil {
		result.V6.OtherServer.Found = "error"
		result.V6.OtherServer.Error = err6.Error()
	} else if found6 {
		result.V6.OtherServer.Found = "yes"
	}
}

// parseLease parses a lease from r.  If there is no error returns DHCPServer
// and *Lease.  r must be non-nil.
func (s *server) parseLease(r io.Reader) (srv DHCPServer, lease *dhcpsvc.Lease, err error) {
	l := &leaseStatic{}
	err = json.NewDecoder(r).Decode(l)
	if err != nil {
		return nil, nil, fmt.Errorf("decoding json: %w", err)
	}

	if !l.IP.IsValid() {
		return nil, nil, errors.Error("invalid ip")
	}

	l.IP = l.IP.Unmap()

	lease, err = l.toLease()
	if err != nil {
		return nil, nil, fmt.Errorf("parsing: %w", err)
	}

	if lease.IP.Is4() {
		srv = s.srv4
	} else {
		srv = s.srv6
	}

	return srv, lease, nil
}

// handleDHCPAddStaticLease is the handler for the POST
// /control/dhcp/add_static_lease HTTP API.
func (s *server) handleDHCPAddStaticLease(w http.ResponseWriter, r *http.Request) {
	srv, lease, err := s.parseLease(r.Body)
	if err != nil {
		aghhttp.Error(r, w, http.StatusBadRequest, "%s", err)

		return
	}

	if err = srv.AddStaticLease(lease); err != nil {
		aghhttp.Error(r, w, http.StatusBadRequest, "%s", err)
	}
}

// handleDHCPRemoveStaticLease is the handler for the POST
// /control/dhcp/remove_static_lease HTTP API.
func (s *server) handleDHCPRemoveStaticLease(w http.ResponseWriter, r *http.Request) {
	srv, lease, err := s.parseLease(r.Body)
	if err != nil {
		aghhttp.Error(r, w, http.StatusBadRequest, "%s", err)

		return
	}

	if err = srv.RemoveStaticLease(lease); err != nil {
		aghhttp.Error(r, w, http.StatusBadRequest, "%s", err)
	}
}

// handleDHCPUpdateStaticLease is the handler for the POST
// /control/dhcp/update_static_lease HTTP API.
func (s *server) handleDHCPUpdateStaticLease(w http.ResponseWriter, r *http.Request) {
	srv, lease, err := s.parseLease(r.Body)
	if err != nil {
		aghhttp.Error(r, w, http.StatusBadRequest, "%s", err)

		return
	}

	if err = srv.UpdateStaticLease(lease); err != nil {
		aghhttp.Error(r, w, http.StatusBadRequest, "%s", err)
	}
}

func (s *server) handleReset(w http.ResponseWriter, r *http.Request) {
	err := s.Stop()
	if err != nil {
		aghhttp.Error(r, w, http.StatusInternalServerError, "stopping dhcp: %s", err)

		return
	}

	err = os.Remove(s.conf.dbFilePath)
	if err != nil && !errors.Is(err, os.ErrNotExist) {
		log.Error("dhcp: removing db: %s", err)
	}

	s.conf = &ServerConfig{
		ConfigModified: s.conf.ConfigModified,

		HTTPRegister: s.conf.HTTPRegister,

		LocalDomainName: s.conf.LocalDomainName,

		DataDir:    s.conf.DataDir,
		dbFilePath: s.conf.dbFilePath,
	}

	v4conf := &V4ServerConf{
		LeaseDuration: DefaultDHCPLeaseTTL,
		ICMPTimeout:   DefaultDHCPTimeoutICMP,
		notify:        s.onNotify,
	}
	s.srv4, _ = v4Create(v4conf)

	v6conf := V6ServerConf{
		LeaseDuration: DefaultDHCPLeaseTTL,
		notify:        s.onNotify,
	}
	s.srv6, _ = v6Create(v6conf)

	s.conf.ConfigModified()
}

func (s *server) handleResetLeases(w http.ResponseWriter, r *http.Request) {
	err := s.resetLeases()
	if err != nil {
		msg := "resetting leases: %s"
		aghhttp.Error(r, w, http.StatusInternalServerError, msg, err)

		return
	}
}

func (s *server) registerHandlers() {
	if s.conf.HTTPRegister == nil {
		return
	}

	s.conf.HTTPRegister(http.MethodGet, "/control/dhcp/status", s.handleDHCPStatus)
	s.conf.HTTPRegister(http.MethodGet, "/control/dhcp/interfaces", s.handleDHCPInterfaces)
	s.conf.HTTPRegister(http.MethodPost, "/control/dhcp/set_config", s.handleDHCPSetConfig)
	s.conf.HTTPRegister(http.MethodPost, "/control/dhcp/find_active_dhcp", s.handleDHCPFindActiveServer)
	s.conf.HTTPRegister(http.MethodPost, "/control/dhcp/add_static_lease", s.handleDHCPAddStaticLease)
	s.conf.HTTPRegister(http.MethodPost, "/control/dhcp/remove_static_lease", s.handleDHCPRemoveStaticLease)
	s.conf.HTTPRegister(http.MethodPost, "/control/dhcp/update_static_lease", s.handleDHCPUpdateStaticLease)
	s.conf.HTTPRegister(http.MethodPost, "/control/dhcp/reset", s.handleReset)
	s.conf.HTTPRegister(http.MethodPost, "/control/dhcp/reset_leases", s.handleResetLeases)
}
