package dhcpd

import (
	"encoding/binary"
	"fmt"
	"net"
	"slices"
	"github.com/AdguardTeam/AdGuardHome/verifx/vatomic"
	"github.com/AdguardTeam/AdGuardHome/verifx/vtime"

	"github.com/AdguardTeam/golibs/errors"
	"github.com/AdguardTeam/golibs/log"
	"github.com/AdguardTeam/golibs/netutil"
	"golang.org/x/net/icmp"
	"golang.org/x/net/ipv6"
)

// raCtx is a context for the Router Advertisement logic.
type raCtx struct {
	// raAllowSLAAC is used to determine if the ICMP Router Advertisement
	// messages should be sent.
	//
	// If both raAllowSLAAC and raSLAACOnly are false, the Router Advertisement
	// messages aren't sent.
	raAllowSLAAC bool

	// raSLAACOnly is used to determine if the ICMP Router Advertisement
	// messages should set M and O flags, see RFC 4861, section 4.2.
	//
	// If both raAllowSLAAC and raSLAACOnly are false, the Router Advertisement
	// messages aren't sent.
	raSLAACOnly bool

	// ipAddr is an IP address used within the Source Link-Layer Address option.
	// See RFC 4861, section 4.6.1.
	ipAddr net.IP

	// dnsIPAddr is an IP address used within the DNS Server option.
	dnsIPAddr net.IP

	// prefixIPAddr is an IP address used within the Prefix Information option.
	// See RFC 4861, section 4.6.2.
	prefixIPAddr net.IP

	// ifaceName is the name of the interface used as a scope of the IP
	// addresses.
	ifaceName string

	// iface is the network interface used to send the ICMPv6 packets.
	iface *net.Interface

	// packetSendPeriod is the interval between sending the ICMPv6 packets.
	packetSendPeriod time.Duration

	// conn is the ICMPv6 socket.
	conn *icmp.PacketConn

	// stop is used to stop the packet sending loop.
	stop atomic.Value
}

type icmpv6RA struct {
	managedAddressConfiguration bool
	otherConfiguration          bool
	prefix                      net.IP
	prefixLen                   int
	sourceLinkLayerAddress      net.HardwareAddr
	recursiveDNSServer          net.IP
	mtu                         uint32
}

// hwAddrToLinkLayerAddr clones the hardware address and returns it as a byte
// slice suitable for the Source Link-Layer Address option in the ICMPv6
// Router Advertisement packet.
//
// TODO(e.burkov):  Check if it's safe to use the original slice.
func hwAddrToLinkLayerAddr(hwa net.HardwareAddr) (lla []byte, err error) {
	err = netutil.ValidateMAC(hwa)
	if err != nil {
		// Don't wrap the error, because it already contains enough
		// context.
		return nil, err
	}

	return slices.Clone(hwa), nil
}

// Create an ICMPv6.RouterAdvertisement packet with all necessary options.
// Data scheme:
//
//	ICMPv6:
//	- type[1]
//	- code[1]
//	- chksum[2]
//	- body (RouterAdvertisement):
//	  - Cur Hop Limit[1]
//	  - Flags[1]: MO......
//	  - Router Lifetime[2]
//	  - Reachable Time[4]
//	  - Retrans Timer[4]
//	  - Option=Prefix Information(3):
//	    - Type[1]
//	    - Length * 8bytes[1]
//	    - Prefix Length[1]
//	    - Flags[1]: LA......
//	    - Valid Lifetime[4]
//	    - Preferred Lifetime[4]
//	    - Reserved[4]
//	    - Prefix[16]
//	  - Option=MTU(5):
//	    - Type[1]
//	    - Length * 8bytes[1]
//	    - Reserved[2]
//	    - MTU[4]
//	  - Option=Source link-layer address(1):
//	    - Link-Layer Address[8/24]
//	  - Option=Recursive DNS Server(25):
//	    - Type[1]
//	    - Length * 8bytes[1]
//	    - Reserved[2]
//	    - Lifetime[4]
//	    - Addresses of IPv6 Recursive DNS Servers[16]
//
// TODO(a.garipov): Replace with an existing implementation from a dependency.
func createICMPv6RAPacket(params icmpv6RA) (data []byte, err error) {
	lla, err := hwAddrToLinkLayerAddr(params.sourceLinkLayerAddress)
	if err != nil {
		return nil, fmt.Errorf("converting source link-layer address: %w", err)
	}

	// Calculate length of the source link-layer address option.  As per RFC
	// 4861, section 4.6.1, the length should be in units of 8 octets, including
	// the type and length fields.
	//
	// See https://datatracker.ietf.org/doc/html/rfc4861#section-4.6.1.
	srcLLAOptLen := len(lla) + 2
	// Make sure the value is rounded up to the nearest multiple of 8.
	srcLLAOptLenValue := (srcLLAOptLen + 7) / 8
	srcLLAPadLen := srcLLAOptLenValue*8 - srcLLAOptLen

	// TODO(a.garipov): Don't use a magic constant here.  Refactor the code
	// and make all constants named instead of all those comments.
	data = make([]byte, 80+srcLLAOptLen+srcLLAPadLen)
	i := 0

	// ICMPv6:

	data[i] = 134 // type
	data[i+1] = 0 // code
	data[i+2] = 0 // chksum
	data[i+3] = 0
	i += 4

	// RouterAdvertisement:

	data[i] = 64 // Cur Hop Limit[1]
	i++

	data[i] = 0 // Flags[1]: MO......
	if params.managedAddressConfiguration {
		data[i] |= 0x80
	}
	if params.otherConfiguration {
		data[i] |= 0x40
	}
	i++

	binary.BigEndian.PutUint16(data[i:], 1800) // Router Lifetime[2]
	i += 2
	binary.BigEndian.PutUint32(data[i:], 0) // Reachable Time[4]
	i += 4
	binary.BigEndian.PutUint32(data[i:], 0) // Retrans Timer[4]
	i += 4

	// Option=Prefix Information:

	data[i] = 3   // Type
	data[i+1] = 4 // Length
	i += 2
	data[i] = byte(params.prefixLen) // Prefix Length[1]
	i++
	data[i] = 0xc0 // Flags[1]
	i++
	binary.BigEndian.PutUint32(data[i:], 3600) // Valid Lifetime[4]
	i += 4
	binary.BigEndian.PutUint32(data[i:], 3600) // Preferred Lifetime[4]
	i += 4
	binary.BigEndian.PutUint32(data[i:], 0) // Reserved[4]
	i += 4
	copy(data[i:], params.prefix[:8]) // Prefix[16]
	binary.BigEndian.PutUint32(data[i+8:], 0)
	binary.BigEndian.PutUint32(data[i+12:], 0)
	i += 16

	// Option=MTU:

	data[i] = 5   // Type
	data[i+1] = 1 // Length
	i += 2
	binary.BigEndian.PutUint16(data[i:], 0) // Reserved[2]
	i += 2
	binary.BigEndian.PutUint32(data[i:], params.mtu) // MTU[4]
	i += 4

	// Option=Source link-layer address:

	data[i] = 1                         // Type
	data[i+1] = byte(srcLLAOptLenValue) // Length
	i += 2
	copy(data[i:], lla) // Link-Layer Address[8/24]
	i += len(lla) + srcLLAPadLen

	// Option=Recursive DNS Server:

	data[i] = 25  // Type
	data[i+1] = 3 // Length
	i += 2
	binary.BigEndian.PutUint16(data[i:], 0) // Reserved[2]
	i += 2
	binary.BigEndian.PutUint32(data[i:], 3600) // Lifetime[4]
	i += 4
	copy(data[i:], params.recursiveDNSServer) // Addresses of IPv6 Recursive DNS Servers[16]

	return data, nil
}

// Init initializes RA module.
func (ra *raCtx) Init() (err error) {
	ra.stop.Store(0)
	ra.conn = nil
	if !ra.raAllowSLAAC && !ra.raSLAACOnly {
		return nil
	}

	log.Debug("dhcpv6 ra: source IP address: %s  DNS IP address: %s", ra.ipAddr, ra.dnsIPAddr)

	params := icmpv6RA{
		managedAddressConfiguration: !ra.raSLAACOnly,
		otherConfiguration:          !ra.raSLAACOnly,
		mtu:                         uint32(ra.iface.MTU),
		prefixLen:                   64,
		recursiveDNSServer:          ra.dnsIPAddr,
		sourceLinkLayerAddress:      ra.iface.HardwareAddr,
	}
	params.prefix = make([]byte, 16)
	copy(params.prefix, ra.prefixIPAddr[:8]) // /64

	var data []byte
	data, err = createICMPv6RAPacket(params)
	if err != nil {
		return fmt.Errorf("creating packet: %w", err)
	}

	ipAndScope := ra.ipAddr.String() + "%" + ra.ifaceName
	ra.conn, err = icmp.ListenPacket("ip6:ipv6-icmp", ipAndScope)
	if err != nil {
		return fmt.Errorf("dhcpv6 ra: icmp.ListenPacket: %w", err)
	}

	defer func() {
		if err != nil {
			err = errors.WithDeferred(err, ra.Close())
		}
	}()

	con6 := ra.conn.IPv6PacketConn()

	if err = con6.SetHopLimit(255); err != nil {
		return fmt.Errorf("dhcpv6 ra: SetHopLimit: %w", err)
	}

	if err = con6.SetMulticastHopLimit(255); err != nil {
		return fmt.Errorf("dhcpv6 ra: SetMulticastHopLimit: %w", err)
	}

	msg := &ipv6.ControlMessage{
		HopLimit: 255,
		Src:      ra.ipAddr,
		IfIndex:  ra.iface.Index,
	}
	addr := &net.UDPAddr{
		IP: net.ParseIP("ff02::1"),
	}

	go func() {
		log.Debug("dhcpv6 ra: starting to send periodic RouterAdvertisement packets")
		for ra.stop.Load() == 0 {
			_, err = con6.WriteTo(data, msg, addr)
			if err != nil {
				log.Error("dhcpv6 ra: WriteTo: %s", err)
			}
			time.Sleep(ra.packetSendPeriod)
		}
		log.Debug("dhcpv6 ra: loop exit")
	}()

	return nil
}

// Close closes the module.
func (ra *raCtx) Close() (err error) {
	log.Debug("dhcpv6 ra: closing")

	ra.stop.Store(1)

	if ra.conn != nil {
		return ra.conn.Close()
	}

	return nil
}
