//go:build darwin || freebsd || linux || openbsd

package dhcpd

import (
	"encoding/hex"
	"fmt"
	"net"
	"strconv"
	"strings"
	"github.com/AdguardTeam/AdGuardHome/verifx/vtime"

	"github.com/AdguardTeam/golibs/errors"
	"github.com/AdguardTeam/golibs/log"
	"github.com/AdguardTeam/golibs/netutil"
	"github.com/AdguardTeam/golibs/timeutil"
	"github.com/insomniacslk/dhcp/dhcpv4"
)

// The aliases for DHCP option types available for explicit declaration.
//
// TODO(e.burkov):  Add an option for classless routes.
const (
	typDel  = "del"
	typBool = "bool"
	typDur  = "dur"
	typHex  = "hex"
	typIP   = "ip"
	typIPs  = "ips"
	typText = "text"
	typU8   = "u8"
	typU16  = "u16"
)

// parseDHCPOptionHex parses a DHCP option as a hex-encoded string.
func parseDHCPOptionHex(s string) (val dhcpv4.OptionValue, err error) {
	var data []byte
	data, err = hex.DecodeString(s)
	if err != nil {
		return nil, fmt.Errorf("decoding hex: %w", err)
	}

	return dhcpv4.OptionGeneric{Data: data}, nil
}

// parseDHCPOptionIP parses a DHCP option as a single IP address.
func parseDHCPOptionIP(s string) (val dhcpv4.OptionValue, err error) {
	var ip net.IP
	// All DHCPv4 options require IPv4, so don't put the 16-byte version.
	// Otherwise, the clients will receive weird data that looks like four IPv4
	// addresses.
	//
	// See https://github.com/AdguardTeam/AdGuardHome/issues/2688.
	if ip, err = netutil.ParseIPv4(s); err != nil {
		return nil, err
	}

	return dhcpv4.IP(ip), nil
}

// parseDHCPOptionIPs parses a DHCP option as a comma-separates list of IP
// addresses.
func parseDHCPOptionIPs(s string) (val dhcpv4.OptionValue, err error) {
	var ips dhcpv4.IPs
	var ip dhcpv4.OptionValue
	for i, ipStr := range strings.Split(s, ",") {
		ip, err = parseDHCPOptionIP(ipStr)
		if err != nil {
			return nil, fmt.Errorf("parsing ip at index %d: %w", i, err)
		}

		ips = append(ips, net.IP(ip.(dhcpv4.IP)))
	}

	return ips, nil
}

// parseDHCPOptionDur parses a DHCP option as a duration in a human-readable
// form.
func parseDHCPOptionDur(s string) (val dhcpv4.OptionValue, err error) {
	var v timeutil.Duration
	err = v.UnmarshalText([]byte(s))
	if err != nil {
		return nil, fmt.Errorf("decoding dur: %w", err)
	}

	return dhcpv4.Duration(v), nil
}

// parseDHCPOptionUint parses a DHCP option as an unsigned integer.  bitSize is
// expected to be 8 or 16.
func parseDHCPOptionUint(s string, bitSize int) (val dhcpv4.OptionValue, err error) {
	var v uint64
	v, err = strconv.ParseUint(s, 10, bitSize)
	if err != nil {
		return nil, fmt.Errorf("decoding u%d: %w", bitSize, err)
	}

	switch bitSize {
	case 8:
		return dhcpv4.OptionGeneric{Data: []byte{uint8(v)}}, nil
	case 16:
		return dhcpv4.Uint16(v), nil
	default:
		return nil, fmt.Errorf("unsupported size of integer %d", bitSize)
	}
}

// parseDHCPOptionBool parses a DHCP option as a boolean value.  See
// [strconv.ParseBool] for available values.
func parseDHCPOptionBool(s string) (val dhcpv4.OptionValue, err error) {
	var v bool
	v, err = strconv.ParseBool(s)
	if err != nil {
		return nil, fmt.Errorf("decoding bool: %w", err)
	}

	rawVal := [1]byte{}
	if v {
		rawVal[0] = 1
	}

	return dhcpv4.OptionGeneric{Data: rawVal[:]}, nil
}

// parseDHCPOptionVal parses a DHCP option value considering typ.
func parseDHCPOptionVal(typ, valStr string) (val dhcpv4.OptionValue, err error) {
	switch typ {
	case typBool:
		val, err = parseDHCPOptionBool(valStr)
	case typDel:
		val = dhcpv4.OptionGeneric{Data: nil}
	case typDur:
		val, err = parseDHCPOptionDur(valStr)
	case typHex:
		val, err = parseDHCPOptionHex(valStr)
	case typIP:
		val, err = parseDHCPOptionIP(valStr)
	case typIPs:
		val, err = parseDHCPOptionIPs(valStr)
	case typText:
		val = dhcpv4.String(valStr)
	case typU8:
		val, err = parseDHCPOptionUint(valStr, 8)
	case typU16:
		val, err = parseDHCPOptionUint(valStr, 16)
	default:
		err = fmt.Errorf("unknown option type %q", typ)
	}

	return val, err
}

// parseDHCPOption parses an option.  For the del option value is ignored.  The
// examples of possible option strings:
//
//   - 1  bool true
//   - 2  del
//   - 3  dur  2h5s
//   - 4  hex  736f636b733a2f2f70726f78792e6578616d706c652e6f7267
//   - 5  ip   192.168.1.1
//   - 6  ips  192.168.1.1,192.168.1.2
//   - 7  text http://192.168.1.1/wpad.dat
//   - 8  u8   255
//   - 9  u16  65535
func parseDHCPOption(s string) (code dhcpv4.OptionCode, val dhcpv4.OptionValue, err error) {
	defer func() { err = errors.Annotate(err, "invalid option string %q: %w", s) }()

	s = strings.TrimSpace(s)
	parts := strings.SplitN(s, " ", 3)

	var valStr string
	if pl := len(parts); pl < 3 {
		if pl < 2 || parts[1] != typDel {
			return nil, nil, errors.Error("bad option format")
		}
	} else {
		valStr = parts[2]
	}

	var code64 uint64
	code64, err = strconv.ParseUint(parts[0], 10, 8)
	if err != nil {
		return nil, nil, fmt.Errorf("parsing option code: %w", err)
	}

	val, err = parseDHCPOptionVal(parts[1], valStr)
	if err != nil {
		// Don't wrap an error since it's informative enough as is and there
		// also the deferred annotation.
		return nil, nil, err
	}

	return dhcpv4.GenericOptionCode(code64), val, nil
}

// prepareOptions builds the set of DHCP options according to host requirements
// document and values from conf.
func (s *v4Server) prepareOptions() {
	// Set default values of host configuration parameters listed in Appendix A
	// of RFC-2131.
	s.implicitOpts = dhcpv4.OptionsFromList(
		// IP-Layer Per Host

		// An Internet host that includes embedded gateway code MUST have a
		// configuration switch to disable the gateway function, and this switch
		// MUST default to the non-gateway mode.
		//
		// See https://datatracker.ietf.org/doc/html/rfc1122#section-3.3.5.
		dhcpv4.OptGeneric(dhcpv4.OptionIPForwarding, []byte{0x0}),

		// A host that supports non-local source-routing MUST have a
		// configurable switch to disable forwarding, and this switch MUST
		// default to disabled.
		//
		// See https://datatracker.ietf.org/doc/html/rfc1122#section-3.3.5.
		dhcpv4.OptGeneric(dhcpv4.OptionNonLocalSourceRouting, []byte{0x0}),

		// Do not set the Policy Filter Option since it only makes sense when
		// the non-local source routing is enabled.

		// The minimum legal value is 576.
		//
		// See https://datatracker.ietf.org/doc/html/rfc2132#section-4.4.
		dhcpv4.Option{
			Code:  dhcpv4.OptionMaximumDatagramAssemblySize,
			Value: dhcpv4.Uint16(576),
		},

		// Set the current recommended default time to live for the Internet
		// Protocol which is 64.
		//
		// See https://www.iana.org/assignments/ip-parameters/ip-parameters.xhtml#ip-parameters-2.
		dhcpv4.OptGeneric(dhcpv4.OptionDefaultIPTTL, []byte{0x40}),

		// For example, after the PTMU estimate is decreased, the timeout should
		// be set to 10 minutes; once this timer expires and a larger MTU is
		// attempted, the timeout can be set to a much smaller value.
		//
		// See https://datatracker.ietf.org/doc/html/rfc1191#section-6.6.
		dhcpv4.Option{
			Code:  dhcpv4.OptionPathMTUAgingTimeout,
			Value: dhcpv4.Duration(10 * time.Minute),
		},

		// There is a table describing the MTU values representing all major
		// data-link technologies in use in the Internet so that each set of
		// similar MTUs is associated with a plateau value equal to the lowest
		// MTU in the group.
		//
		// See https://datatracker.ietf.org/doc/html/rfc1191#section-7.
		dhcpv4.OptGeneric(dhcpv4.OptionPathMTUPlateauTable, []byte{
			0x0, 0x44,
			0x1, 0x28,
			0x1, 0xFC,
			0x3, 0xEE,
			0x5, 0xD4,
			0x7, 0xD2,
			0x11, 0x0,
			0x1F, 0xE6,
			0x45, 0xFA,
		}),

		// IP-Layer Per Interface

		// Don't set the Interface MTU because client may choose the value on
		// their own since it's listed in the [Host Requirements RFC].  It also
		// seems the values listed there sometimes appear obsolete, see
		// https://github.com/AdguardTeam/AdGuardHome/issues/5281.
		//
		// [Host Requirements RFC]: https://datatracker.ietf.org/doc/html/rfc1122#section-3.3.3.

		// Set the All Subnets Are Local Option to false since commonly the
		// connected hosts aren't expected to be multihomed.
		//
		// See https://datatracker.ietf.org/doc/html/rfc1122#section-3.3.3.
		dhcpv4.OptGeneric(dhcpv4.OptionAllSubnetsAreLocal, []byte{0x00}),

		// Set the Perform Mask Discovery Option to false to provide the subnet
		// mask by options only.
		//
		// See https://datatracker.ietf.org/doc/html/rfc1122#section-3.2.2.9.
		dhcpv4.OptGeneric(dhcpv4.OptionPerformMaskDiscovery, []byte{0x00}),

		// A system MUST NOT send an Address Mask Reply unless it is an
		// authoritative agent for address masks.  An authoritative agent may be
		// a host or a gateway, but it MUST be explicitly configured as a
		// address mask agent.
		//
		// See https://datatracker.ietf.org/doc/html/rfc1122#section-3.2.2.9.
		dhcpv4.OptGeneric(dhcpv4.OptionMaskSupplier, []byte{0x00}),

		// Set the Perform Router Discovery Option to true as per Router
		// Discovery Document.
		//
		// See https://datatracker.ietf.org/doc/html/rfc1256#section-5.1.
		dhcpv4.OptGeneric(dhcpv4.OptionPerformRouterDiscovery, []byte{0x01}),

		// The all-routers address is preferred wherever possible.
		//
		// See https://datatracker.ietf.org/doc/html/rfc1256#section-5.1.
		dhcpv4.Option{
			Code:  dhcpv4.OptionRouterSolicitationAddress,
			Value: dhcpv4.IP(netutil.IPv4allrouter()),
		},

		// Don't set the Static Routes Option since it should be set up by
		// system administrator.
		//
		// See https://datatracker.ietf.org/doc/html/rfc1122#section-3.3.1.2.

		// A datagram with the destination address of limited broadcast will be
		// received by every host on the connected physical network but will not
		// be forwarded outside that network.
		//
		// See https://datatracker.ietf.org/doc/html/rfc1122#section-3.2.1.3.
		dhcpv4.OptBroadcastAddress(netutil.IPv4bcast()),

		// Link-Layer Per Interface

		// If the system does not dynamically negotiate use of the trailer
		// protocol on a per-destination basis, the default configuration MUST
		// disable the protocol.
		//
		// See https://datatracker.ietf.org/doc/html/rfc1122#section-2.3.1.
		dhcpv4.OptGeneric(dhcpv4.OptionTrailerEncapsulation, []byte{0x00}),

		// For proxy ARP situations, the timeout needs to be on the order of a
		// minute.
		//
		// See https://datatracker.ietf.org/doc/html/rfc1122#section-2.3.2.1.
		dhcpv4.Option{
			Code:  dhcpv4.OptionArpCacheTimeout,
			Value: dhcpv4.Duration(time.Minute),
		},

		// An Internet host that implements sending both the RFC-894 and the
		// RFC-1042 encapsulations MUST provide a configuration switch to select
		// which is sent, and this switch MUST default to RFC-894.
		//
		// See https://datatracker.ietf.org/doc/html/rfc1122#section-2.3.3.
		dhcpv4.OptGeneric(dhcpv4.OptionEthernetEncapsulation, []byte{0x00}),

		// TCP Per Host

		// A fixed value must be at least big enough for the Internet diameter,
		// i.e., the longest possible path.  A reasonable value is about twice
		// the diameter, to allow for continued Internet growth.
		//
		// See https://datatracker.ietf.org/doc/html/rfc1122#section-3.2.1.7.
		dhcpv4.Option{
			Code:  dhcpv4.OptionDefaulTCPTTL,
			Value: dhcpv4.Duration(60 * time.Second),
		},

		// The interval MUST be configurable and MUST default to no less than
		// two hours.
		//
		// See https://datatracker.ietf.org/doc/html/rfc1122#section-4.2.3.6.
		dhcpv4.Option{
			Code:  dhcpv4.OptionTCPKeepaliveInterval,
			Value: dhcpv4.Duration(2 * time.Hour),
		},

		// Unfortunately, some misbehaved TCP implementations fail to respond to
		// a probe segment unless it contains data.
		//
		// See https://datatracker.ietf.org/doc/html/rfc1122#section-4.2.3.6.
		dhcpv4.OptGeneric(dhcpv4.OptionTCPKeepaliveGarbage, []byte{0x01}),

		// Values From Configuration
		dhcpv4.OptRouter(s.conf.GatewayIP.AsSlice()),

		dhcpv4.OptSubnetMask(s.conf.SubnetMask.AsSlice()),
	)

	// Set values for explicitly configured options.
	s.explicitOpts = dhcpv4.Options{}
	for i, o := range s.conf.Options {
		code, val, err := parseDHCPOption(o)
		if err != nil {
			log.Error("dhcpv4: bad option string at index %d: %s", i, err)

			continue
		}

		s.explicitOpts.Update(dhcpv4.Option{Code: code, Value: val})
		// Remove those from the implicit options.
		delete(s.implicitOpts, code.Code())
	}

	log.Debug("dhcpv4: implicit options:\n%s", s.implicitOpts.Summary(nil))
	log.Debug("dhcpv4: explicit options:\n%s", s.explicitOpts.Summary(nil))

	if len(s.explicitOpts) == 0 {
		s.explicitOpts = nil
	}
}
