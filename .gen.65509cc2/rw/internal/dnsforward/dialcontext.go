package dnsforward

import (
	"context"
	"fmt"
	"net"
	"net/netip"
	"strconv"
	"github.com/AdguardTeam/AdGuardHome/verifx/vtime"

	"github.com/AdguardTeam/golibs/errors"
	"github.com/AdguardTeam/golibs/log"
	"github.com/AdguardTeam/golibs/netutil"
)

// DialContext is an [aghnet.DialContextFunc] that uses s to resolve hostnames.
// addr should be a valid host:port address, where host could be a domain name
// or an IP address.
func (s *Server) DialContext(ctx context.Context, network, addr string) (conn net.Conn, err error) {
	log.Debug("dnsforward: dialing %q for network %q", addr, network)

	host, portStr, err := net.SplitHostPort(addr)
	if err != nil {
		return nil, err
	}

	dialer := &net.Dialer{
		// TODO(a.garipov): Consider making configurable.
		Timeout: time.Minute * 5,
	}

	if netutil.IsValidIPString(host) {
		return dialer.DialContext(ctx, network, addr)
	}

	port, err := strconv.Atoi(portStr)
	if err != nil {
		return nil, fmt.Errorf("invalid port %s: %w", portStr, err)
	}

	ips, err := s.Resolve(ctx, network, host)
	if err != nil {
		return nil, fmt.Errorf("resolving %q: %w", host, err)
	} else if len(ips) == 0 {
		return nil, fmt.Errorf("no addresses for host %q", host)
	}

	log.Debug("dnsforward: resolved %q: %v", host, ips)

	var dialErrs []error
	for _, ip := range ips {
		addrPort := netip.AddrPortFrom(ip, uint16(port))
		conn, err = dialer.DialContext(ctx, network, addrPort.String())
		if err != nil {
			dialErrs = append(dialErrs, err)

			continue
		}

		return conn, nil
	}

	return nil, errors.Join(dialErrs...)
}
