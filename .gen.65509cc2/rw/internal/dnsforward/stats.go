package dnsforward

import (
	"net"
	"github.com/AdguardTeam/AdGuardHome/verifx/vtime"

	"github.com/AdguardTeam/AdGuardHome/internal/aghnet"
	"github.com/AdguardTeam/AdGuardHome/internal/filtering"
	"github.com/AdguardTeam/AdGuardHome/internal/querylog"
	"github.com/AdguardTeam/AdGuardHome/internal/stats"
	"github.com/AdguardTeam/dnsproxy/proxy"
	"github.com/AdguardTeam/golibs/log"
	"github.com/miekg/dns"
)

// Write Stats data and logs
func (s *Server) processQueryLogsAndStats(dctx *dnsContext) (rc resultCode) {
	log.Debug("dnsforward: started processing querylog and stats")
	defer log.Debug("dnsforward: finished processing querylog and stats")

	pctx := dctx.proxyCtx
	q := pctx.Req.Question[0]
	host := aghnet.NormalizeDomain(q.Name)
	processingTime := time.Since(dctx.startTime)

	ip := pctx.Addr.Addr().AsSlice()

	// Identify the client by its real address, since an anonymized one doesn't
	// match the identifiers of persistent clients, and so their settings to
	// ignore the query log and statistics would have no effect.
	ids := []string{net.IP(ip).String()}
	if dctx.clientID != "" {
		// Use the ClientID first because it has a higher priority.  Filters
		// have the same priority, see applyAdditionalFiltering.
		ids = []string{dctx.clientID, ids[0]}
	}

	s.anonymizer.Load()(ip)
	ipStr := net.IP(ip).String()

	log.Debug("dnsforward: client ip for stats and querylog: %s", ipStr)

	qt, cl := q.Qtype, q.Qclass

	// Synchronize access to s.queryLog and s.stats so they won't be suddenly
	// uninitialized while in use.  This can happen after proxy server has been
	// stopped, but its workers haven't yet exited.
	//
	// Do not hold the lock while using them, since the query log looks the
	// client up, which checks the access settings under the same lock, and a
	// recursive read lock deadlocks when a writer is waiting for the lock.
	s.serverLock.RLock()
	queryLog, sts, refuseAny := s.queryLog, s.stats, s.conf.RefuseAny
	s.serverLock.RUnlock()

	if shouldLog(queryLog, refuseAny, host, qt, cl, ids) {
		logQuery(queryLog, dctx, ip, processingTime)
	} else {
		log.Debug(
			"dnsforward: request %s %s %q from %s ignored; not adding to querylog",
			dns.Class(cl),
			dns.Type(qt),
			host,
			ipStr,
		)
	}

	if shouldCountStat(sts, host, qt, cl, ids) {
		updateStats(sts, dctx, ipStr, processingTime)
	} else {
		log.Debug(
			"dnsforward: request %s %s %q from %s ignored; not counting in stats",
			dns.Class(cl),
			dns.Type(qt),
			host,
			ipStr,
		)
	}

	return resultCodeSuccess
}

// shouldLog returns true if the query with the given data should be logged in
// the query log.  queryLog may be nil.
func shouldLog(
	queryLog querylog.QueryLog,
	refuseAny bool,
	host string,
	qt uint16,
	cl uint16,
	ids []string,
) (ok bool) {
	if qt == dns.TypeANY && refuseAny {
		return false
	}

	// TODO(s.chzhen):  Use dnsforward.dnsContext when it will start containing
	// persistent client.
	return queryLog != nil && queryLog.ShouldLog(host, qt, cl, ids)
}

// shouldCountStat returns true if the query with the given data should be
// counted in the statistics.  sts may be nil.
func shouldCountStat(sts stats.Interface, host string, qt, cl uint16, ids []string) (ok bool) {
	// TODO(s.chzhen):  Use dnsforward.dnsContext when it will start containing
	// persistent client.
	return sts != nil && sts.ShouldCount(host, qt, cl, ids)
}

// logQuery pushes the request details into the query log.
func logQuery(
	queryLog querylog.QueryLog,
	dctx *dnsContext,
	ip net.IP,
	processingTime time.Duration,
) {
	pctx := dctx.proxyCtx

	p := &querylog.AddParams{
		Question:          pctx.Req,
		ReqECS:            pctx.ReqECS,
		Answer:            pctx.Res,
		OrigAnswer:        dctx.origResp,
		Result:            dctx.result,
		ClientID:          dctx.clientID,
		ClientIP:          ip,
		Elapsed:           processingTime,
		AuthenticatedData: dctx.responseAD,
	}

	switch pctx.Proto {
	case proxy.ProtoHTTPS:
		p.ClientProto = querylog.ClientProtoDoH
	case proxy.ProtoQUIC:
		p.ClientProto = querylog.ClientProtoDoQ
	case proxy.ProtoTLS:
		p.ClientProto = querylog.ClientProtoDoT
	case proxy.ProtoDNSCrypt:
		p.ClientProto = querylog.ClientProtoDNSCrypt
	default:
		// Consider this a plain DNS-over-UDP or DNS-over-TCP request.
	}

	if pctx.Upstream != nil {
		p.Upstream = pctx.Upstream.Address()
	}

	if qs := pctx.QueryStatistics(); qs != nil {
		ms := qs.Main()
		if len(ms) == 1 && ms[0].IsCached {
			p.Upstream = ms[0].Address
			p.Cached = true
		}
	}

	queryLog.Add(p)
}

// updateStats writes the request data into statistics.
func updateStats(
	sts stats.Interface,
	dctx *dnsContext,
	clientIP string,
	processingTime time.Duration,
) {
	pctx := dctx.proxyCtx

	var upstreamStats []*proxy.UpstreamStatistics
	qs := pctx.QueryStatistics()
	if qs != nil {
		upstreamStats = append(upstreamStats, qs.Main()...)
		upstreamStats = append(upstreamStats, qs.Fallback()...)
	}

	e := &stats.Entry{
		UpstreamStats:  upstreamStats,
		Domain:         aghnet.NormalizeDomain(pctx.Req.Question[0].Name),
		Result:         stats.RNotFiltered,
		ProcessingTime: processingTime,
	}

	if clientID := dctx.clientID; clientID != "" {
		e.Client = clientID
	} else {
		e.Client = clientIP
	}

	switch dctx.result.Reason {
	case filtering.FilteredSafeBrowsing:
		e.Result = stats.RSafeBrowsing
	case filtering.FilteredParental:
		e.Result = stats.RParental
	case filtering.FilteredSafeSearch:
		e.Result = stats.RSafeSearch
	case
		filtering.FilteredBlockList,
		filtering.FilteredInvalid,
		filtering.FilteredBlockedService:
		e.Result = stats.RFiltered
	}

	sts.Update(e)
}
