package dnsforward

import (
	"fmt"
	"slices"
	"github.com/AdguardTeam/AdGuardHome/verifx/vtime"

	"github.com/AdguardTeam/AdGuardHome/internal/aghnet"
	"github.com/AdguardTeam/dnsproxy/proxy"
	"github.com/AdguardTeam/dnsproxy/upstream"
	"github.com/AdguardTeam/golibs/log"
	"github.com/AdguardTeam/golibs/netutil"
	"github.com/AdguardTeam/golibs/stringutil"
)

// newBootstrap returns a bootstrap resolver based on the configuration of s.
// boots are the upstream resolvers that should be closed after use.  r is the
// actual bootstrap resolver, which may include the system hosts.
//
// TODO(e.burkov):  This function currently returns a resolver and a slice of
// the upstream resolvers, which are essentially the same.  boots are returned
// for being able to close them afterwards, but it introduces an implicit
// contract that r could only be used before that.  Anyway, this code should
// improve when the [proxy.UpstreamConfig] will become an [upstream.Resolver]
// and be used here.
func newBootstrap(
	addrs []string,
	etcHosts upstream.Resolver,
	opts *upstream.Options,
) (r upstream.Resolver, boots []*upstream.UpstreamResolver, err error) {
	if len(addrs) == 0 {
		addrs = defaultBootstrap
	}

	boots, err = aghnet.ParseBootstraps(addrs, opts)
	if err != nil {
		// Don't wrap the error, since it's informative enough as is.
		return nil, nil, err
	}

	var parallel upstream.ParallelResolver
	for _, b := range boots {
		parallel = append(parallel, upstream.NewCachingResolver(b))
	}

	if etcHosts != nil {
		r = upstream.ConsequentResolver{etcHosts, parallel}
	} else {
		r = parallel
	}

	return r, boots, nil
}

// newUpstreamConfig returns the upstream configuration based on upstreams.  If
// upstreams slice specifies no default upstreams, defaultUpstreams are used to
// create upstreams with no domain specifications.  opts are used when creating
// upstream configuration.
func newUpstreamConfig(
	upstreams []string,
	defaultUpstreams []string,
	opts *upstream.Options,
) (uc *proxy.UpstreamConfig, err error) {
	uc, err = proxy.ParseUpstreamsConfig(upstreams, opts)
	if err != nil {
		return uc, fmt.Errorf("parsing upstreams: %w", err)
	}

	if len(uc.Upstreams) == 0 && len(defaultUpstreams) > 0 {
		log.Info("dnsforward: warning: no default upstreams specified, using %v", defaultUpstreams)

		var defaultUpstreamConfig *proxy.UpstreamConfig
		defaultUpstreamConfig, err = proxy.ParseUpstreamsConfig(defaultUpstreams, opts)
		if err != nil {
			return uc, fmt.Errorf("parsing default upstreams: %w", err)
		}

		uc.Upstreams = defaultUpstreamConfig.Upstreams
	}

	return uc, nil
}

// newPrivateConfig creates an upstream configuration for resolving PTR records
// for local addresses.  The configuration is built either from the provided
// addresses or from the system resolvers.  unwanted filters the resulting
// upstream configuration.
func newPrivateConfig(
	addrs []string,
	unwanted addrPortSet,
	sysResolvers SystemResolvers,
	privateNets netutil.SubnetSet,
	opts *upstream.Options,
) (uc *proxy.UpstreamConfig, err error) {
	confNeedsFiltering := len(addrs) > 0
	if confNeedsFiltering {
		addrs = stringutil.FilterOut(addrs, aghnet.IsCommentOrEmpty)
	} else {
		sysResolvers := slices.DeleteFunc(slices.Clone(sysResolvers.Addrs()), unwanted.Has)
		addrs = make([]string, 0, len(sysResolvers))
		for _, r := range sysResolvers {
			addrs = append(addrs, r.String())
		}
	}

	log.Debug("dnsforward: private-use upstreams: %v", addrs)

	uc, err = proxy.ParseUpstreamsConfig(addrs, opts)
	if err != nil {
		return uc, fmt.Errorf("preparing private upstreams: %w", err)
	}

	if confNeedsFiltering {
		err = filterOutAddrs(uc, unwanted)
		if err != nil {
			return uc, fmt.Errorf("filtering private upstreams: %w", err)
		}
	}

	// Prevalidate the config to catch the exact error before creating proxy.
	// See TODO on [PrivateRDNSError].
	err = proxy.ValidatePrivateConfig(uc, privateNets)
	if err != nil {
		return uc, &PrivateRDNSError{err: err}
	}

	return uc, nil
}

// setProxyUpstreamMode sets the upstream mode and related settings in conf
// based on provided parameters.
func setProxyUpstreamMode(
	conf *proxy.Config,
	upstreamMode UpstreamMode,
	fastestTimeout time.Duration,
) (err error) {
	switch upstreamMode {
	case UpstreamModeParallel:
		conf.UpstreamMode = proxy.UpstreamModeParallel
	case UpstreamModeFastestAddr:
		conf.UpstreamMode = proxy.UpstreamModeFastestAddr
		conf.FastestPingTimeout = fastestTimeout
	case UpstreamModeLoadBalance:
		conf.UpstreamMode = proxy.UpstreamModeLoadBalance
	default:
		return fmt.Errorf("unexpected value %q", upstreamMode)
	}

	return nil
}
