package dnsforward

import (
	"fmt"
	"github.com/AdguardTeam/AdGuardHome/verifx/vsync"

	"github.com/AdguardTeam/dnsproxy/proxy"
	"github.com/AdguardTeam/dnsproxy/upstream"
	"github.com/AdguardTeam/golibs/errors"
	"github.com/AdguardTeam/golibs/log"
	"github.com/miekg/dns"
)

// upstreamConfigValidator parses each section of an upstream configuration into
// a corresponding [*proxy.UpstreamConfig] and checks the actual DNS
// availability of each upstream.
type upstreamConfigValidator struct {
	// generalUpstreamResults contains upstream results of a general section.
	generalUpstreamResults map[string]*upstreamResult

	// fallbackUpstreamResults contains upstream results of a fallback section.
	fallbackUpstreamResults map[string]*upstreamResult

	// privateUpstreamResults contains upstream results of a private section.
	privateUpstreamResults map[string]*upstreamResult

	// generalParseResults contains parsing results of a general section.
	generalParseResults []*parseResult

	// fallbackParseResults contains parsing results of a fallback section.
	fallbackParseResults []*parseResult

	// privateParseResults contains parsing results of a private section.
	privateParseResults []*parseResult
}

// upstreamResult is a result of parsing of an [upstream.Upstream] within an
// [proxy.UpstreamConfig].
type upstreamResult struct {
	// server is the parsed upstream.
	server upstream.Upstream

	// err is the upstream check error.
	err error

	// isSpecific is true if the upstream is domain-specific.
	isSpecific bool
}

// parseResult contains a original piece of upstream configuration and a
// corresponding error.
type parseResult struct {
	err      *proxy.ParseError
	original string
}

// newUpstreamConfigValidator parses the upstream configuration and returns a
// validator for it.  cv already contains the parsed upstreams along with errors
// related.
func newUpstreamConfigValidator(
	general []string,
	fallback []string,
	private []string,
	opts *upstream.Options,
) (cv *upstreamConfigValidator) {
	cv = &upstreamConfigValidator{
		generalUpstreamResults:  map[string]*upstreamResult{},
		fallbackUpstreamResults: map[string]*upstreamResult{},
		privateUpstreamResults:  map[string]*upstreamResult{},
	}

	conf, err := proxy.ParseUpstreamsConfig(general, opts)
	cv.generalParseResults = collectErrResults(general, err)
	insertConfResults(conf, cv.generalUpstreamResults)

	conf, err = proxy.ParseUpstreamsConfig(fallback, opts)
	cv.fallbackParseResults = collectErrResults(fallback, err)
	insertConfResults(conf, cv.fallbackUpstreamResults)

	conf, err = proxy.ParseUpstreamsConfig(private, opts)
	cv.privateParseResults = collectErrResults(private, err)
	insertConfResults(conf, cv.privateUpstreamResults)

	return cv
}

// collectErrResults parses err and returns parsing results containing the
// original upstream configuration line and the corresponding error.  err can be
// nil.
func collectErrResults(lines []string, err error) (results []*parseResult) {
	if err == nil {
		return nil
	}

	// limit is a maximum length for upstream configuration lines.
	const limit = 80

	wrapper, ok := err.(errors.WrapperSlice)
	if !ok {
		log.Debug("dnsforward: configvalidator: unwrapping: %s", err)

		return nil
	}

	errs := wrapper.Unwrap()
	results = make([]*parseResult, 0, len(errs))
	for i, e := range errs {
		var parseErr *proxy.ParseError
		if !errors.As(e, &parseErr) {
			log.Debug("dnsforward: configvalidator: inserting unexpected error %d: %s", i, err)

			continue
		}

		idx := parseErr.Idx
		line := []rune(lines[idx])
		if len(line) > limit {
			line = line[:limit]
			line[limit-1] = '…'
		}

		results = append(results, &parseResult{
			original: string(line),
			err:      parseErr,
		})
	}

	return results
}

// insertConfResults parses conf and inserts the upstream result into results.
// It can insert multiple results as well as none.
func insertConfResults(conf *proxy.UpstreamConfig, results map[string]*upstreamResult) {
	insertListResults(conf.Upstreams, results, false)

	for _, ups := range conf.DomainReservedUpstreams {
		insertListResults(ups, results, true)
	}

	for _, ups := range conf.SpecifiedDomainUpstreams {
		insertListResults(ups, results, true)
	}
}

// insertListResults constructs upstream results from the upstream list and
// inserts them into results.  It can insert multiple results as well as none.
func insertListResults(ups []upstream.Upstream, results map[string]*upstreamResult, specific bool) {
	for _, u := range ups {
		addr := u.Address()
		_, ok := results[addr]
		if ok {
			continue
		}

		results[addr] = &upstreamResult{
			server:     u,
			isSpecific: specific,
		}
	}
}

// check tries to exchange with each successfully parsed upstream and enriches
// the results with the healthcheck errors.  It should not be called after the
// [upsConfValidator.close] method, since it makes no sense to check the closed
// upstreams.
func (cv *upstreamConfigValidator) check() {
	const (
		// testTLD is the special-use fully-qualified domain name for testing
		// the DNS server reachability.
		//
		// See https://datatracker.ietf.org/doc/html/rfc6761#section-6.2.
		testTLD = "test."

		// inAddrARPATLD is the special-use fully-qualified domain name for PTR
		// IP address resolution.
		//
		// See https://datatracker.ietf.org/doc/html/rfc1035#section-3.5.
		inAddrARPATLD = "in-addr.arpa."
	)

	commonChecker := &healthchecker{
		hostname: testTLD,
		qtype:    dns.TypeA,
		ansEmpty: true,
	}

	arpaChecker := &healthchecker{
		hostname: inAddrARPATLD,
		qtype:    dns.TypePTR,
		ansEmpty: false,
	}

	wg := &sync.WaitGroup{}
	wg.Add(len(cv.generalUpstreamResults) +
		len(cv.fallbackUpstreamResults) +
		len(cv.privateUpstreamResults))

	for _, res := range cv.generalUpstreamResults {
		go checkSrv(res, wg, commonChecker)
	}
	for _, res := range cv.fallbackUpstreamResults {
		go checkSrv(res, wg, commonChecker)
	}
	for _, res := range cv.privateUpstreamResults {
		go checkSrv(res, wg, arpaChecker)
	}

	wg.Wait()
}

// checkSrv runs hc on the server from res, if any, and stores any occurred
// error in res.  wg is always marked done in the end.  It is intended to be
// used as a goroutine.
func checkSrv(res *upstreamResult, wg *sync.WaitGroup, hc *healthchecker) {
	defer log.OnPanic(fmt.Sprintf("dnsforward: checking upstream %s", res.server.Address()))
	defer wg.Done()

	res.err = hc.check(res.server)
	if res.err != nil && res.isSpecific {
		res.err = domainSpecificTestError{Err: res.err}
	}
}

// close closes all the upstreams that were successfully parsed.  It enriches
// the results with deferred closing errors.
func (cv *upstreamConfigValidator) close() {
	all := []map[string]*upstreamResult{
		cv.generalUpstreamResults,
		cv.fallbackUpstreamResults,
		cv.privateUpstreamResults,
	}

	for _, m := range all {
		for _, r := range m {
			r.err = errors.WithDeferred(r.err, r.server.Close())
		}
	}
}

// sections of the upstream configuration according to the text label of the
// localization.
//
// Keep in sync with client/src/__locales/en.json.
//
// TODO(s.chzhen):  Refactor.
const (
	generalTextLabel  = "upstream_dns"
	fallbackTextLabel = "fallback_dns_title"
	privateTextLabel  = "local_ptr_title"
)

// status returns all the data collected during parsing, healthcheck, and
// closing of the upstreams.  The returned map is keyed by the original upstream
// configuration piece and contains the corresponding error or "OK" if there was
// no error.
func (cv *upstreamConfigValidator) status() (results map[string]string) {
	// Names of the upstream configuration sections for logging.
	const (
		generalSection  = "general"
		fallbackSection = "fallback"
		privateSection  = "private"
	)

	results = map[string]string{}

	for original, res := range cv.generalUpstreamResults {
		upstreamResultToStatus(generalSection, string(original), res, results)
	}
	for original, res := range cv.fallbackUpstreamResults {
		upstreamResultToStatus(fallbackSection, string(original), res, results)
	}
	for original, res := range cv.privateUpstreamResults {
		upstreamResultToStatus(privateSection, string(original), res, results)
	}

	parseResultToStatus(generalTextLabel, generalSection, cv.generalParseResults, results)
	parseResultToStatus(fallbackTextLabel, fallbackSection, cv.fallbackParseResults, results)
	parseResultToStatus(privateTextLabel, privateSection, cv.privateParseResults, results)

	return results
}

// upstreamResultToStatus puts "OK" or an error message from res into resMap.
// section is the name of the upstream configuration section, i.e. "general",
// "fallback", or "private", and only used for logging.
//
// TODO(e.burkov):  Currently, the HTTP handler expects that all the results are
// put together in a single map, which may lead to collisions, see AG-27539.
// Improve the results compilation.
func upstreamResultToStatus(
	section string,
	original string,
	res *upstreamResult,
	resMap map[string]string,
) {
	val := "OK"
	if res.err != nil {
		val = res.err.Error()
	}

	prevVal := resMap[original]
	switch prevVal {
	case "":
		resMap[original] = val
	case val:
		log.Debug("dnsforward: duplicating %s config line %q", section, original)
	default:
		log.Debug(
			"dnsforward: warning: %s config line %q (%v) had different result %v",
			section,
			val,
			original,
			prevVal,
		)
	}
}

// parseResultToStatus puts parsing error messages from results into resMap.
// section is the name of the upstream configuration section, i.e. "general",
// "fallback", or "private", and only used for logging.
//
// Parsing error message has the following format:
//
//	sectionTextLabel line: parsing error
//
// Where sectionTextLabel is a section text label of a localization and line is
// a line number.
func parseResultToStatus(
	textLabel string,
	section string,
	results []*parseResult,
	resMap map[string]string,
) {
	for _, res := range results {
		original := res.original
		_, ok := resMap[original]
		if ok {
			log.Debug("dnsforward: duplicating %s parsing error %q", section, original)

			continue
		}

		resMap[original] = fmt.Sprintf("%s %d: parsing error", textLabel, res.err.Idx+1)
	}
}

// domainSpecificTestError is a wrapper for errors returned by checkDNS to mark
// the tested upstream domain-specific and therefore consider its errors
// non-critical.
//
// TODO(a.garipov):  Some common mechanism of distinguishing between errors and
// warnings (non-critical errors) is desired.
type domainSpecificTestError struct {
	// Err is the actual error occurred during healthcheck test.
	Err error
}

// type check
var _ error = domainSpecificTestError{}

// Error implements the [error] interface for domainSpecificTestError.
func (err domainSpecificTestError) Error() (msg string) {
	return fmt.Sprintf("WARNING: %s", err.Err)
}

// type check
var _ errors.Wrapper = domainSpecificTestError{}

// Unwrap implements the [errors.Wrapper] interface for domainSpecificTestError.
func (err domainSpecificTestError) Unwrap() (wrapped error) {
	return err.Err
}

// healthchecker checks the upstream's status by exchanging with it.
type healthchecker struct {
	// hostname is the name of the host to put into healthcheck DNS request.
	hostname string

	// qtype is the type of DNS request to use for healthcheck.
	qtype uint16

	// ansEmpty defines if the answer section within the response is expected to
	// be empty.
	ansEmpty bool
}

// check exchanges with u and validates the response.
func (h *healthchecker) check(u upstream.Upstream) (err error) {
	req := &dns.Msg{
		MsgHdr: dns.MsgHdr{
			Id:               dns.Id(),
			RecursionDesired: true,
		},
		Question: []dns.Question{{
			Name:   h.hostname,
			Qtype:  h.qtype,
			Qclass: dns.ClassINET,
		}},
	}

	reply, err := u.Exchange(req)
	if err != nil {
		return fmt.Errorf("couldn't communicate with upstream: %w", err)
	} else if h.ansEmpty && len(reply.Answer) > 0 {
		return errors.Error("wrong response")
	}

	return nil
}
