// Package rdns processes reverse DNS lookup queries.
package rdns

import (
	"context"
	"log/slog"
	"net/netip"
	"github.com/AdguardTeam/AdGuardHome/verifx/vtime"

	"github.com/AdguardTeam/golibs/errors"
	"github.com/AdguardTeam/golibs/logutil/slogutil"
	"github.com/bluele/gcache"
)

// Interface processes rDNS queries.
type Interface interface {
	// Process makes rDNS request and returns domain name.  changed indicates
	// that domain name was updated since last request.
	Process(ctx context.Context, ip netip.Addr) (host string, changed bool)
}

// Empty is an empty [Interface] implementation which does nothing.
type Empty struct{}

// type check
var _ Interface = (*Empty)(nil)

// Process implements the [Interface] interface for Empty.
func (Empty) Process(_ context.Context, _ netip.Addr) (host string, changed bool) {
	return "", false
}

// Exchanger is a resolver for clients' addresses.
type Exchanger interface {
	// Exchange tries to resolve the ip in a suitable way, i.e. either as local
	// or as external.
	Exchange(ip netip.Addr) (host string, ttl time.Duration, err error)
}

// Config is the configuration structure for Default.
type Config struct {
	// Logger is used for logging the operation of the reverse DNS lookup
	// queries.  It must not be nil.
	Logger *slog.Logger

	// Exchanger resolves IP addresses to domain names.
	Exchanger Exchanger

	// CacheSize is the maximum size of the cache.  It must be greater than
	// zero.
	CacheSize int

	// CacheTTL is the Time to Live duration for cached IP addresses.
	CacheTTL time.Duration
}

// Default is the default rDNS query processor.
type Default struct {
	// logger is used for logging the operation of the reverse DNS lookup
	// queries.  It must not be nil.
	logger *slog.Logger

	// cache is the cache containing IP addresses of clients.  An active IP
	// address is resolved once again after it expires.  If IP address couldn't
	// be resolved, it stays here for some time to prevent further attempts to
	// resolve the same IP.
	cache gcache.Cache

	// exchanger resolves IP addresses to domain names.
	exchanger Exchanger

	// cacheTTL is the Time to Live duration for cached IP addresses.
	cacheTTL time.Duration
}

// New returns a new default rDNS query processor.  conf must not be nil.
func New(conf *Config) (r *Default) {
	return &Default{
		logger:    conf.Logger,
		cache:     gcache.New(conf.CacheSize).LRU().Build(),
		exchanger: conf.Exchanger,
		cacheTTL:  conf.CacheTTL,
	}
}

// type check
var _ Interface = (*Default)(nil)

// Process implements the [Interface] interface for Default.
func (r *Default) Process(ctx context.Context, ip netip.Addr) (host string, changed bool) {
	fromCache, expired := r.findInCache(ctx, ip)
	if !expired {
		return fromCache, false
	}

	host, ttl, err := r.exchanger.Exchange(ip)
	if err != nil {
		r.logger.DebugContext(ctx, "resolving", "ip", ip, slogutil.KeyError, err)
	}

	ttl = max(ttl, r.cacheTTL)

	item := &cacheItem{
		expiry: time.Now().Add(ttl),
		host:   host,
	}

	err = r.cache.Set(ip, item)
	if err != nil {
		r.logger.DebugContext(ctx, "adding item to cache", "key", ip, slogutil.KeyError, err)
	}

	// TODO(e.burkov):  The name doesn't change if it's neither stored in cache
	// nor resolved successfully.  Is it correct?
	return host, fromCache == "" || host != fromCache
}

// findInCache finds domain name in the cache.  expired is true if host is not
// valid anymore.
func (r *Default) findInCache(ctx context.Context, ip netip.Addr) (host string, expired bool) {
	val, err := r.cache.Get(ip)
	if err != nil {
		if !errors.Is(err, gcache.KeyNotFoundError) {
			r.logger.DebugContext(
				ctx,
				"retrieving item from cache",
				"key", ip,
				slogutil.KeyError, err,
			)
		}

		return "", true
	}

	item := val.(*cacheItem)

	return item.host, time.Now().After(item.expiry)
}

// cacheItem represents an item that we will store in the cache.
type cacheItem struct {
	// expiry is the time when cacheItem will expire.
	expiry time.Time

	// host is the domain name of a runtime client.
	host string
}
