//go:build linux

package ipset

import (
	"bytes"
	"context"
	"fmt"
	"log/slog"
	"net"
	"strings"
	"github.com/AdguardTeam/AdGuardHome/verifx/vsync"

	"github.com/AdguardTeam/golibs/container"
	"github.com/AdguardTeam/golibs/errors"
	"github.com/AdguardTeam/golibs/logutil/slogutil"
	"github.com/digineo/go-ipset/v2"
	"github.com/mdlayher/netlink"
	"github.com/ti-mo/netfilter"
	"golang.org/x/sys/unix"
)

// How to test on a real Linux machine:
//
//  1. Run "sudo ipset create example_set hash:ip family ipv4".
//
//  2. Run "sudo ipset list example_set".  The Members field should be empty.
//
//  3. Add the line "example.com/example_set" to your AdGuardHome.yaml.
//
//  4. Start AdGuardHome.
//
//  5. Make requests to example.com and its subdomains.
//
//  6. Run "sudo ipset list example_set".  The Members field should contain the
//     resolved IP addresses.

// newManager returns a new Linux ipset manager.
func newManager(ctx context.Context, conf *Config) (set Manager, err error) {
	return newManagerWithDialer(ctx, conf, defaultDial)
}

// defaultDial is the default netfilter dialing function.
func defaultDial(pf netfilter.ProtoFamily, conf *netlink.Config) (conn ipsetConn, err error) {
	c, err := ipset.Dial(pf, conf)
	if err != nil {
		return nil, err
	}

	return &queryConn{c}, nil
}

// queryConn is the [ipsetConn] implementation with listAll method, which
// returns the list of properties of all available ipsets.
type queryConn struct {
	*ipset.Conn
}

// type check
var _ ipsetConn = (*queryConn)(nil)

// listAll returns the list of properties of all available ipsets.
//
// TODO(s.chzhen):  Use https://github.com/vishvananda/netlink.
func (qc *queryConn) listAll() (sets []props, err error) {
	msg, err := netfilter.MarshalNetlink(
		netfilter.Header{
			// The family doesn't seem to matter.  See TODO on parseIpsetConfig.
			Family:      qc.Conn.Family,
			SubsystemID: netfilter.NFSubsysIPSet,
			MessageType: netfilter.MessageType(ipset.CmdList),
			Flags:       netlink.Request | netlink.Dump,
		},
		[]netfilter.Attribute{{
			Type: uint16(ipset.AttrProtocol),
			Data: []byte{ipset.Protocol},
		}},
	)
	if err != nil {
		return nil, fmt.Errorf("marshaling netlink msg: %w", err)
	}

	// We assume it's OK to call a method of an unexported type
	// [ipset.connector], since there is no negative effects.
	ms, err := qc.Conn.Conn.Query(msg)
	if err != nil {
		return nil, fmt.Errorf("querying netlink msg: %w", err)
	}

	for i, s := range ms {
		p := props{}
		err = p.unmarshalMessage(s)
		if err != nil {
			return nil, fmt.Errorf("unmarshaling netlink msg at index %d: %w", i, err)
		}

		sets = append(sets, p)
	}

	return sets, nil
}

// ipsetConn is the ipset conn interface.
type ipsetConn interface {
	Add(name string, entries ...*ipset.Entry) (err error)
	Close() (err error)
	Header(name string) (p *ipset.HeaderPolicy, err error)
	listAll() (sets []props, err error)
}

// dialer creates an ipsetConn.
type dialer func(pf netfilter.ProtoFamily, conf *netlink.Config) (conn ipsetConn, err error)

// props contains one Linux Netfilter ipset properties.
type props struct {
	// name of the ipset.
	name string

	// typeName of the ipset.
	typeName string

	// family of the IP addresses in the ipset.
	family netfilter.ProtoFamily

	// isPersistent indicates that ipset has no timeout parameter and all
	// entries are added permanently.
	isPersistent bool
}

// unmarshalMessage unmarshals netlink message and sets the properties of the
// ipset.
func (p *props) unmarshalMessage(msg netlink.Message) (err error) {
	_, attrs, err := netfilter.UnmarshalNetlink(msg)
	if err != nil {
		// Don't wrap the error since it's informative enough as is.
		return err
	}

	// By default ipset has no timeout parameter.
	p.isPersistent = true

	for _, a := range attrs {
		p.parseAttribute(a)
	}

	return nil
}

// parseAttribute parses netfilter attribute and sets the name and family of
// the ipset.
func (p *props) parseAttribute(a netfilter.Attribute) {
	switch ipset.AttributeType(a.Type) {
	case ipset.AttrData:
		p.parseAttrData(a)
	case ipset.AttrSetName:
		// Trim the null character.
		p.name = string(bytes.Trim(a.Data, "\x00"))
	case ipset.AttrTypeName:
		p.typeName = string(bytes.Trim(a.Data, "\x00"))
	case ipset.AttrFamily:
		p.family = netfilter.ProtoFamily(a.Data[0])
	default:
		// Go on.
	}
}

// parseAttrData parses attribute data and sets the timeout of the ipset.
func (p *props) parseAttrData(a netfilter.Attribute) {
	for _, a := range a.Children {
		switch ipset.AttributeType(a.Type) {
		case ipset.AttrTimeout:
			timeout := a.Uint32()
			p.isPersistent = timeout == 0
		default:
			// Go on.
		}
	}
}

// manager is the Linux Netfilter ipset manager.
type manager struct {
	nameToIpset    map[string]props
	domainToIpsets map[string][]props

	logger *slog.Logger

	dial dialer

	// mu protects all properties below.
	mu *sync.Mutex

	// TODO(a.garipov): Currently, the ipset list is static, and we don't read
	// the IPs already in sets, so we can assume that all incoming IPs are
	// either added to all corresponding ipsets or not.  When that stops being
	// the case, for example if we add dynamic reconfiguration of ipsets, this
	// map will need to become a per-ipset-name one.
	addedIPs *container.MapSet[ipInIpsetEntry]

	ipv4Conn ipsetConn
	ipv6Conn ipsetConn
}

// ipInIpsetEntry is the type for entries in [manager.addIPs].
type ipInIpsetEntry struct {
	ipsetName string
	// TODO(schzen):  Use netip.Addr.
	ipArr [net.IPv6len]byte
}

// dialNetfilter establishes connections to Linux's netfilter module.
func (m *manager) dialNetfilter(conf *netlink.Config) (err error) {
	// The kernel API does not actually require two sockets but package
	// github.com/digineo/go-ipset does.
	//
	// TODO(a.garipov): Perhaps we can ditch package ipset altogether and just
	// use packages netfilter and netlink.
	m.ipv4Conn, err = m.dial(netfilter.ProtoIPv4, conf)
	if err != nil {
		return fmt.Errorf("dialing v4: %w", err)
	}

	m.ipv6Conn, err = m.dial(netfilter.ProtoIPv6, conf)
	if err != nil {
		return fmt.Errorf("dialing v6: %w", err)
	}

	return nil
}

// parseIpsetConfigLine parses one ipset configuration line.
func parseIpsetConfigLine(confStr string) (hosts, ipsetNames []string, err error) {
	confStr = strings.TrimSpace(confStr)
	hostsAndNames := strings.Split(confStr, "/")
	if len(hostsAndNames) != 2 {
		return nil, nil, fmt.Errorf("invalid value %q: expected one slash", confStr)
	}

	hosts = strings.Split(hostsAndNames[0], ",")
	ipsetNames = strings.Split(hostsAndNames[1], ",")

	if len(ipsetNames) == 0 {
		return nil, nil, nil
	}

	for i := range ipsetNames {
		ipsetNames[i] = strings.TrimSpace(ipsetNames[i])
		if len(ipsetNames[i]) == 0 {
			return nil, nil, fmt.Errorf("invalid value %q: empty ipset name", confStr)
		}
	}

	for i := range hosts {
		hosts[i] = strings.ToLower(strings.TrimSpace(hosts[i]))
	}

	return hosts, ipsetNames, nil
}

// parseIpsetConfig parses the ipset configuration and stores ipsets.  It
// returns an error if the configuration can't be used.
func (m *manager) parseIpsetConfig(ctx context.Context, ipsetConf []string) (err error) {
	// The family doesn't seem to matter when we use a header query, so query
	// only the IPv4 one.
	//
	// TODO(a.garipov): Find out if this is a bug or a feature.
	all, err := m.ipv4Conn.listAll()
	if err != nil {
		// Don't wrap the error since it's informative enough as is.
		return err
	}

	currentlyKnown := map[string]props{}
	for _, p := range all {
		currentlyKnown[p.name] = p
	}

	for i, confStr := range ipsetConf {
		var hosts, ipsetNames []string
		hosts, ipsetNames, err = parseIpsetConfigLine(confStr)
		if err != nil {
			return fmt.Errorf("config line at idx %d: %w", i, err)
		}

		var ipsets []props
		ipsets, err = m.ipsets(ctx, ipsetNames, currentlyKnown)
		if err != nil {
			return fmt.Errorf("getting ipsets from config line at idx %d: %w", i, err)
		}

		for _, host := range hosts {
			m.domainToIpsets[host] = append(m.domainToIpsets[host], ipsets...)
		}
	}

	return nil
}

// ipsetProps returns the properties of an ipset with the given name.
//
// Additional header data query.  See https://github.com/AdguardTeam/AdGuardHome/issues/6420.
//
// TODO(s.chzhen):  Use *props.
func (m *manager) ipsetProps(name string) (p props, err error) {
	// The family doesn't seem to matter when we use a header query, so
	// query only the IPv4 one.
	//
	// TODO(a.garipov): Find out if this is a bug or a feature.
	var res *ipset.HeaderPolicy
	res, err = m.ipv4Conn.Header(name)
	if err != nil {
		return props{}, err
	}

	if res == nil || res.Family == nil {
		return props{}, errors.Error("empty response or no family data")
	}

	family := netfilter.ProtoFamily(res.Family.Value)
	if family != netfilter.ProtoIPv4 && family != netfilter.ProtoIPv6 {
		return props{}, fmt.Errorf("unexpected ipset family %q", family)
	}

	typeName := res.TypeName.Get()

	return props{
		name:         name,
		typeName:     typeName,
		family:       family,
		isPersistent: false,
	}, nil
}

// ipsets returns ipset properties of currently known ipsets.  It also makes an
// additional ipset header data query if needed.
func (m *manager) ipsets(
	ctx context.Context,
	names []string,
	currentlyKnown map[string]props,
) (sets []props, err error) {
	for _, n := range names {
		p, ok := currentlyKnown[n]
		if !ok {
			return nil, fmt.Errorf("unknown ipset %q", n)
		}

		if p.family != netfilter.ProtoIPv4 && p.family != netfilter.ProtoIPv6 {
			m.logger.DebugContext(
				ctx,
				"got unexpected ipset family while getting set properties",
				"set_name", p.name,
				"set_type", p.typeName,
				"set_family", p.family,
			)

			p, err = m.ipsetProps(n)
			if err != nil {
				return nil, fmt.Errorf("%q %q making header query: %w", p.name, p.typeName, err)
			}
		}

		m.nameToIpset[n] = p
		sets = append(sets, p)
	}

	return sets, nil
}

// newManagerWithDialer returns a new Linux ipset manager using the provided
// dialer.
func newManagerWithDialer(ctx context.Context, conf *Config, dial dialer) (mgr Manager, err error) {
	defer func() { err = errors.Annotate(err, "ipset: %w") }()

	m := &manager{
		mu: &sync.Mutex{},

		nameToIpset:    make(map[string]props),
		domainToIpsets: make(map[string][]props),

		logger: conf.Logger,

		dial: dial,

		addedIPs: container.NewMapSet[ipInIpsetEntry](),
	}

	err = m.dialNetfilter(&netlink.Config{})
	if err != nil {
		if errors.Is(err, unix.EPROTONOSUPPORT) {
			// The implementation doesn't support this protocol version.  Just
			// issue a warning.
			m.logger.WarnContext(ctx, "dialing netfilter", slogutil.KeyError, err)

			return nil, nil
		}

		return nil, fmt.Errorf("dialing netfilter: %w", err)
	}

	err = m.parseIpsetConfig(ctx, conf.Lines)
	if err != nil {
		return nil, fmt.Errorf("getting ipsets: %w", err)
	}

	m.logger.DebugContext(ctx, "initialized")

	return m, nil
}

// lookupHost find the ipsets for the host, taking subdomain wildcards into
// account.
func (m *manager) lookupHost(host string) (sets []props) {
	// Search for matching ipset hosts starting with most specific domain.
	// We could use a trie here but the simple, inefficient solution isn't
	// that expensive: ~10 ns for TLD + SLD vs. ~140 ns for 10 subdomains on
	// an AMD Ryzen 7 PRO 4750U CPU; ~120 ns vs. ~ 1500 ns on a Raspberry
	// Pi's ARMv7 rev 4 CPU.
	for i := 0; ; i++ {
		host = host[i:]
		sets = m.domainToIpsets[host]
		if sets != nil {
			return sets
		}

		i = strings.Index(host, ".")
		if i == -1 {
			break
		}
	}

	// Check the root catch-all one.
	return m.domainToIpsets[""]
}

// addIPs adds the IP addresses for the host to the ipset.  set must be same
// family as set's family.
func (m *manager) addIPs(host string, set props, ips []net.IP) (n int, err error) {
	if len(ips) == 0 {
		return 0, nil
	}

	var entries []*ipset.Entry
	var newAddedEntries []ipInIpsetEntry
	for _, ip := range ips {
		e := ipInIpsetEntry{
			ipsetName: set.name,
		}
		copy(e.ipArr[:], ip.To16())

		if m.addedIPs.Has(e) {
			continue
		}

		entries = append(entries, ipset.NewEntry(ipset.EntryIP(ip)))
		newAddedEntries = append(newAddedEntries, e)
	}

	n = len(entries)
	if n == 0 {
		return 0, nil
	}

	var conn ipsetConn
	switch set.family {
	case netfilter.ProtoIPv4:
		conn = m.ipv4Conn
	case netfilter.ProtoIPv6:
		conn = m.ipv6Conn
	default:
		return 0, fmt.Errorf("unexpected family %s for ipset %q", set.family, set.name)
	}

	err = conn.Add(set.name, entries...)
	if err != nil {
		return 0, fmt.Errorf("adding %q%s to %q %q: %w", host, ips, set.name, set.typeName, err)
	}

	// Only add these to the cache once we're sure that all of them were
	// actually sent to the ipset.
	for _, e := range newAddedEntries {
		s := m.nameToIpset[e.ipsetName]
		if s.isPersistent {
			m.addedIPs.Add(e)
		}
	}

	return n, nil
}

// addToSets adds the IP addresses to the corresponding ipset.
func (m *manager) addToSets(
	ctx context.Context,
	host string,
	ip4s []net.IP,
	ip6s []net.IP,
	sets []props,
) (n int, err error) {
	for _, set := range sets {
		var nn int
		switch set.family {
		case netfilter.ProtoIPv4:
			nn, err = m.addIPs(host, set, ip4s)
			if err != nil {
				return n, err
			}
		case netfilter.ProtoIPv6:
			nn, err = m.addIPs(host, set, ip6s)
			if err != nil {
				return n, err
			}
		default:
			return n, fmt.Errorf("%q %q unexpected family %q", set.name, set.typeName, set.family)
		}

		m.logger.DebugContext(
			ctx,
			"added ips to set",
			"ips_num", nn,
			"set_name", set.name,
			"set_type", set.typeName,
		)

		n += nn
	}

	return n, nil
}

// Add implements the [Manager] interface for *manager.
func (m *manager) Add(ctx context.Context, host string, ip4s, ip6s []net.IP) (n int, err error) {
	m.mu.Lock()
	defer m.mu.Unlock()

	sets := m.lookupHost(host)
	if len(sets) == 0 {
		return 0, nil
	}

	m.logger.DebugContext(ctx, "found sets", "set_num", len(sets))

	return m.addToSets(ctx, host, ip4s, ip6s, sets)
}

// Close implements the [Manager] interface for *manager.
func (m *manager) Close() (err error) {
	m.mu.Lock()
	defer m.mu.Unlock()

	var errs []error

	// Close both and collect errors so that the errors from closing one
	// don't interfere with closing the other.
	err = m.ipv4Conn.Close()
	if err != nil {
		errs = append(errs, err)
	}

	err = m.ipv6Conn.Close()
	if err != nil {
		errs = append(errs, err)
	}

	return errors.Annotate(errors.Join(errs...), "closing ipsets: %w")
}
