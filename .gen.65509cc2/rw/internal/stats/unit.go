package stats

import (
	"bytes"
	"encoding/binary"
	"encoding/gob"
	"fmt"
	"maps"
	"slices"
	"github.com/AdguardTeam/AdGuardHome/verifx/vtime"

	"github.com/AdguardTeam/AdGuardHome/internal/aghnet"
	"github.com/AdguardTeam/dnsproxy/proxy"
	"github.com/AdguardTeam/golibs/errors"
	"github.com/AdguardTeam/golibs/logutil/slogutil"
	"go.etcd.io/bbolt"
)

const (
	// maxDomains is the max number of top domains to return.
	maxDomains = 100

	// maxClients is the max number of top clients to return.
	maxClients = 100

	// maxUpstreams is the max number of top upstreams to return.
	maxUpstreams = 100
)

// UnitIDGenFunc is the signature of a function that generates a unique ID for
// the statistics unit.
type UnitIDGenFunc func() (id uint32)

// Supported values of [StatsResp.TimeUnits].
const (
	timeUnitsHours = "hours"
	timeUnitsDays  = "days"
)

// Result is the resulting code of processing the DNS request.
type Result int

// Supported Result values.
//
// TODO(e.burkov):  Think about better naming.
const (
	RNotFiltered Result = iota + 1
	RFiltered
	RSafeBrowsing
	RSafeSearch
	RParental

	resultLast = RParental + 1
)

// Entry is a statistics data entry.
type Entry struct {
	// Clients is the client's primary ID.
	//
	// TODO(a.garipov): Make this a {net.IP, string} enum?
	Client string

	// Domain is the domain name requested.
	Domain string

	// UpstreamStats contains the DNS query statistics for both the upstream and
	// fallback DNS servers.  Don't modify items in the slice.
	UpstreamStats []*proxy.UpstreamStatistics

	// Result is the result of processing the request.
	Result Result

	// ProcessingTime is the duration of the request processing from the start
	// of the request including timeouts.
	ProcessingTime time.Duration
}

// validate returns an error if entry is not valid.
func (e *Entry) validate() (err error) {
	switch {
	case e.Result == 0:
		return errors.Error("result code is not set")
	case e.Result >= resultLast:
		return fmt.Errorf("unknown result code %d", e.Result)
	case e.Domain == "":
		return errors.Error("domain is empty")
	case e.Client == "":
		return errors.Error("client is empty")
	default:
		return nil
	}
}

// unit collects the statistics data for a specific period of time.
type unit struct {
	// domains stores the number of requests for each domain.
	domains map[string]uint64

	// blockedDomains stores the number of requests for each domain that has
	// been blocked.
	blockedDomains map[string]uint64

	// clients stores the number of requests from each client.
	clients map[string]uint64

	// upstreamsResponses stores the number of responses from each upstream.
	upstreamsResponses map[string]uint64

	// upstreamsTimeSum stores the sum of durations of successful queries in
	// microseconds to each upstream.
	upstreamsTimeSum map[string]uint64

	// nResult stores the number of requests grouped by it's result.
	nResult []uint64

	// id is the unique unit's identifier.  It's set to an absolute hour number
	// since the beginning of UNIX time by the default ID generating function.
	//
	// Must not be rewritten after creating to be accessed concurrently without
	// using mu.
	id uint32

	// nTotal stores the total number of requests.
	nTotal uint64

	// timeSum stores the sum of processing time in microseconds of each request
	// written by the unit.
	timeSum uint64
}

// newUnit allocates the new *unit.
func newUnit(id uint32) (u *unit) {
	return &unit{
		domains:            map[string]uint64{},
		blockedDomains:     map[string]uint64{},
		clients:            map[string]uint64{},
		upstreamsResponses: map[string]uint64{},
		upstreamsTimeSum:   map[string]uint64{},
		nResult:            make([]uint64, resultLast),
		id:                 id,
	}
}

// countPair is a single name-number pair for deserializing statistics data into
// the database.
type countPair struct {
	Name  string
	Count uint64
}

// unitDB is the structure for serializing statistics data into the database.
//
// NOTE: Do not change the names or types of fields, as this structure is used
// for GOB encoding.
type unitDB struct {
	// NResult is the number of requests by the result's kind.
	NResult []uint64

	// Domains is the number of requests for each domain name.
	Domains []countPair

	// BlockedDomains is the number of requests blocked for each domain name.
	BlockedDomains []countPair

	// Clients is the number of requests from each client.
	Clients []countPair

	// UpstreamsResponses is the number of responses from each upstream.
	UpstreamsResponses []countPair

	// UpstreamsTimeSum is the sum of processing time in microseconds of
	// responses from each upstream.
	UpstreamsTimeSum []countPair

	// NTotal is the total number of requests.
	NTotal uint64

	// TimeAvg is the average of processing times in microseconds of all the
	// requests in the unit.
	TimeAvg uint32
}

// newUnitID is the default UnitIDGenFunc that generates the unique id hourly.
func newUnitID() (id uint32) {
	const secsInHour = int64(time.Hour / time.Second)

	return uint32(time.Now().Unix() / secsInHour)
}

func finishTxn(tx *bbolt.Tx, commit bool) (err error) {
	if commit {
		err = errors.Annotate(tx.Commit(), "committing: %w")
	} else {
		err = errors.Annotate(tx.Rollback(), "rolling back: %w")
	}

	return err
}

// bucketNameLen is the length of a bucket, a 64-bit unsigned integer.
//
// TODO(a.garipov): Find out why a 64-bit integer is used when IDs seem to
// always be 32 bits.
const bucketNameLen = 8

// idToUnitName converts a numerical ID into a database unit name.
func idToUnitName(id uint32) (name []byte) {
	n := [bucketNameLen]byte{}
	binary.BigEndian.PutUint64(n[:], uint64(id))

	return n[:]
}

// unitNameToID converts a database unit name into a numerical ID.  ok is false
// if name is not a valid database unit name.
func unitNameToID(name []byte) (id uint32, ok bool) {
	if len(name) < bucketNameLen {
		return 0, false
	}

	return uint32(binary.BigEndian.Uint64(name)), true
}

// compareCount used to sort countPair by Count in descending order.
func (a countPair) compareCount(b countPair) (res int) {
	switch x, y := a.Count, b.Count; {
	case x > y:
		return -1
	case x < y:
		return +1
	default:
		return 0
	}
}

func convertMapToSlice(m map[string]uint64, maxVal int) (s []countPair) {
	s = make([]countPair, 0, len(m))
	for k, v := range m {
		s = append(s, countPair{Name: k, Count: v})
	}

	slices.SortFunc(s, countPair.compareCount)

	return s[:min(maxVal, len(s))]
}

func convertSliceToMap(a []countPair) (m map[string]uint64) {
	m = map[string]uint64{}
	for _, it := range a {
		m[it.Name] = it.Count
	}

	return m
}

// serialize converts u to the *unitDB.  It's safe for concurrent use.  u must
// not be nil.
func (u *unit) serialize() (udb *unitDB) {
	var timeAvg uint32 = 0
	if u.nTotal != 0 {
		timeAvg = uint32(u.timeSum / u.nTotal)
	}

	return &unitDB{
		NTotal:             u.nTotal,
		NResult:            u.nResult,
		Domains:            convertMapToSlice(u.domains, maxDomains),
		BlockedDomains:     convertMapToSlice(u.blockedDomains, maxDomains),
		Clients:            convertMapToSlice(u.clients, maxClients),
		UpstreamsResponses: convertMapToSlice(u.upstreamsResponses, maxUpstreams),
		UpstreamsTimeSum:   convertMapToSlice(u.upstreamsTimeSum, maxUpstreams),
		TimeAvg:            timeAvg,
	}
}

// loadUnitFromDB loads unit by id from the database.
func (s *StatsCtx) loadUnitFromDB(tx *bbolt.Tx, id uint32) (udb *unitDB) {
	bkt := tx.Bucket(idToUnitName(id))
	if bkt == nil {
		return nil
	}

	s.logger.Debug("loading unit", "id", id)

	var buf bytes.Buffer
	buf.Write(bkt.Get([]byte{0}))
	udb = &unitDB{}

	err := gob.NewDecoder(&buf).Decode(udb)
	if err != nil {
		s.logger.Error("gob decode", slogutil.KeyError, err)

		return nil
	}

	return udb
}

// deserialize assigns the appropriate values from udb to u.  u must not be nil.
// It's safe for concurrent use.
func (u *unit) deserialize(udb *unitDB) {
	if udb == nil {
		return
	}

	u.nTotal = udb.NTotal
	u.nResult = make([]uint64, resultLast)
	copy(u.nResult, udb.NResult)
	u.domains = convertSliceToMap(udb.Domains)
	u.blockedDomains = convertSliceToMap(udb.BlockedDomains)
	u.clients = convertSliceToMap(udb.Clients)
	u.upstreamsResponses = convertSliceToMap(udb.UpstreamsResponses)
	u.upstreamsTimeSum = convertSliceToMap(udb.UpstreamsTimeSum)
	u.timeSum = uint64(udb.TimeAvg) * udb.NTotal
}

// add adds new data to u.  It's safe for concurrent use.
func (u *unit) add(e *Entry) {
	u.nResult[e.Result]++
	if e.Result == RNotFiltered {
		u.domains[e.Domain]++
	} else {
		u.blockedDomains[e.Domain]++
	}

	u.clients[e.Client]++
	pt := uint64(e.ProcessingTime.Microseconds())
	u.timeSum += pt
	u.nTotal++

	for _, s := range e.UpstreamStats {
		if s.IsCached || s.Error != nil {
			continue
		}

		addr := s.Address
		u.upstreamsResponses[addr]++
		u.upstreamsTimeSum[addr] += uint64(s.QueryDuration.Microseconds())
	}
}

// flushUnitToDB puts udb to the database at id.
func (s *StatsCtx) flushUnitToDB(udb *unitDB, tx *bbolt.Tx, id uint32) (err error) {
	s.logger.Debug("flushing unit", "id", id, "req_num", udb.NTotal)

	bkt, err := tx.CreateBucketIfNotExists(idToUnitName(id))
	if err != nil {
		return fmt.Errorf("creating bucket: %w", err)
	}

	buf := &bytes.Buffer{}
	err = gob.NewEncoder(buf).Encode(udb)
	if err != nil {
		return fmt.Errorf("encoding unit: %w", err)
	}

	err = bkt.Put([]byte{0}, buf.Bytes())
	if err != nil {
		return fmt.Errorf("putting unit to database: %w", err)
	}

	return nil
}

func convertTopSlice(a []countPair) (m []map[string]uint64) {
	m = make([]map[string]uint64, 0, len(a))
	for _, it := range a {
		m = append(m, map[string]uint64{it.Name: it.Count})
	}

	return m
}

// pairsGetter is a signature for topsCollector argument.
type pairsGetter func(u *unitDB) (pairs []countPair)

// topsCollector collects statistics about highest values from the given *unitDB
// slice using pg to retrieve data.
func topsCollector(units []*unitDB, max int, ignored *aghnet.IgnoreEngine, pg pairsGetter) []map[string]uint64 {
	m := map[string]uint64{}
	for _, u := range units {
		for _, cp := range pg(u) {
			if !ignored.Has(cp.Name) {
				m[cp.Name] += cp.Count
			}
		}
	}
	a2 := convertMapToSlice(m, max)

	return convertTopSlice(a2)
}

// getData returns the statistics data using the following algorithm:
//
//  1. Prepare a slice of N units, where N is the value of "limit" configuration
//     setting.  Load data for the most recent units from the file.  If a unit
//     with required ID doesn't exist, just add an empty unit.  Get data for the
//     current unit.
//
//  2. Process data from the units and prepare an output map object, including
//     per time unit counters (DNS queries per time-unit, blocked queries per
//     time unit, etc.).  If the time unit is hour, just add values from each
//     unit to the slice; otherwise, the time unit is day, so aggregate per-hour
//     data into days.
//
//     To get the top counters (queries per domain, queries per blocked domain,
//     etc.), first sum up data for all units into a single map.  Then,  get the
//     pairs with the highest numbers.
//
//     The total counters (DNS queries, blocked, etc.) are just the sum of data
//     for all units.
func (s *StatsCtx) getData(limit uint32) (resp *StatsResp, ok bool) {
	if limit == 0 {
		return &StatsResp{
			TimeUnits: "days",

			TopBlocked:            []topAddrs{},
			TopClients:            []topAddrs{},
			TopQueried:            []topAddrs{},
			TopUpstreamsResponses: []topAddrs{},
			TopUpstreamsAvgTime:   []topAddrsFloat{},

			BlockedFiltering:     []uint64{},
			DNSQueries:           []uint64{},
			ReplacedParental:     []uint64{},
			ReplacedSafebrowsing: []uint64{},
		}, true
	}

	units, curID := s.loadUnits(limit)
	if units == nil {
		return &StatsResp{}, false
	}

	return s.dataFromUnits(units, curID), true
}

// dataFromUnits collects and returns the statistics data.
func (s *StatsCtx) dataFromUnits(units []*unitDB, curID uint32) (resp *StatsResp) {
	topUpstreamsResponses, topUpstreamsAvgTime := topUpstreamsPairs(units)

	resp = &StatsResp{
		TopQueried:            topsCollector(units, maxDomains, s.ignored, func(u *unitDB) (pairs []countPair) { return u.Domains }),
		TopBlocked:            topsCollector(units, maxDomains, s.ignored, func(u *unitDB) (pairs []countPair) { return u.BlockedDomains }),
		TopUpstreamsResponses: topUpstreamsResponses,
		TopUpstreamsAvgTime:   topUpstreamsAvgTime,
		TopClients:            topsCollector(units, maxClients, nil, topClientPairs(s)),
	}

	s.fillCollectedStats(resp, units, curID)

	// Total counters:
	sum := unitDB{
		NResult: make([]uint64, resultLast),
	}
	var timeN uint32
	for _, u := range units {
		sum.NTotal += u.NTotal
		sum.TimeAvg += u.TimeAvg
		if u.TimeAvg != 0 {
			timeN++
		}
		sum.NResult[RFiltered] += u.NResult[RFiltered]
		sum.NResult[RSafeBrowsing] += u.NResult[RSafeBrowsing]
		sum.NResult[RSafeSearch] += u.NResult[RSafeSearch]
		sum.NResult[RParental] += u.NResult[RParental]
	}

	resp.NumDNSQueries = sum.NTotal
	resp.NumBlockedFiltering = sum.NResult[RFiltered]
	resp.NumReplacedSafebrowsing = sum.NResult[RSafeBrowsing]
	resp.NumReplacedSafesearch = sum.NResult[RSafeSearch]
	resp.NumReplacedParental = sum.NResult[RParental]

	if timeN != 0 {
		resp.AvgProcessingTime = microsecondsToSeconds(float64(sum.TimeAvg / timeN))
	}

	return resp
}

// fillCollectedStats fills data with collected statistics.
func (s *StatsCtx) fillCollectedStats(data *StatsResp, units []*unitDB, curID uint32) {
	size := len(units)
	data.TimeUnits = timeUnitsHours

	daysCount := size / 24
	if daysCount > 7 {
		size = daysCount
		data.TimeUnits = timeUnitsDays
	}

	data.DNSQueries = make([]uint64, size)
	data.BlockedFiltering = make([]uint64, size)
	data.ReplacedSafebrowsing = make([]uint64, size)
	data.ReplacedParental = make([]uint64, size)

	if data.TimeUnits == timeUnitsDays {
		s.fillCollectedStatsDaily(data, units, curID, size)

		return
	}

	for i, u := range units {
		data.DNSQueries[i] += u.NTotal
		data.BlockedFiltering[i] += u.NResult[RFiltered]
		data.ReplacedSafebrowsing[i] += u.NResult[RSafeBrowsing]
		data.ReplacedParental[i] += u.NResult[RParental]
	}
}

// fillCollectedStatsDaily fills data with collected daily statistics.  units
// must contain data for the count of days.
//
// TODO(s.chzhen):  Improve collection of statistics for frontend.  Dashboard
// cards should contain statistics for the whole interval without rounding to
// days.
func (s *StatsCtx) fillCollectedStatsDaily(
	data *StatsResp,
	units []*unitDB,
	curHour uint32,
	days int,
) {
	// Per time unit counters: 720 hours may span 31 days, so we skip data for
	// the first hours in this case.  align_ceil(24)
	hours := countHours(curHour, days)
	units = units[len(units)-hours:]

	for i, u := range units {
		day := i / 24

		data.DNSQueries[day] += u.NTotal
		data.BlockedFiltering[day] += u.NResult[RFiltered]
		data.ReplacedSafebrowsing[day] += u.NResult[RSafeBrowsing]
		data.ReplacedParental[day] += u.NResult[RParental]
	}
}

// countHours returns the number of hours in the last days.
func countHours(curHour uint32, days int) (n int) {
	hoursInCurDay := int(curHour % 24)
	if hoursInCurDay == 0 {
		hoursInCurDay = 24
	}

	hoursInRestDays := (days - 1) * 24

	return hoursInRestDays + hoursInCurDay
}

func topClientPairs(s *StatsCtx) (pg pairsGetter) {
	return func(u *unitDB) (clients []countPair) {
		for _, c := range u.Clients {
			if c.Name != "" && !s.shouldCountClient([]string{c.Name}) {
				continue
			}

			clients = append(clients, c)
		}

		return clients
	}
}

// topUpstreamsPairs returns sorted lists of number of total responses and the
// average of processing time for each upstream.
func topUpstreamsPairs(
	units []*unitDB,
) (topUpstreamsResponses []topAddrs, topUpstreamsAvgTime []topAddrsFloat) {
	upstreamsResponses := topAddrs{}
	upstreamsTimeSum := topAddrsFloat{}

	for _, u := range units {
		for _, cp := range u.UpstreamsResponses {
			upstreamsResponses[cp.Name] += cp.Count
		}

		for _, cp := range u.UpstreamsTimeSum {
			upstreamsTimeSum[cp.Name] += float64(cp.Count)
		}
	}

	upstreamsAvgTime := topAddrsFloat{}

	for u, n := range upstreamsResponses {
		total := upstreamsTimeSum[u]

		if total != 0 {
			upstreamsAvgTime[u] = microsecondsToSeconds(total / float64(n))
		}
	}

	upstreamsPairs := convertMapToSlice(upstreamsResponses, maxUpstreams)
	topUpstreamsResponses = convertTopSlice(upstreamsPairs)

	return topUpstreamsResponses, prepareTopUpstreamsAvgTime(upstreamsAvgTime)
}

// microsecondsToSeconds converts microseconds to seconds.
//
// NOTE:  Frontend expects time duration in seconds as floating-point number
// with double precision.
func microsecondsToSeconds(n float64) (r float64) {
	const micro = 1e-6

	return n * micro
}

// prepareTopUpstreamsAvgTime returns sorted list of average processing times
// of the DNS requests from each upstream.
func prepareTopUpstreamsAvgTime(
	upstreamsAvgTime topAddrsFloat,
) (topUpstreamsAvgTime []topAddrsFloat) {
	keys := slices.SortedStableFunc(maps.Keys(upstreamsAvgTime), func(a, b string) (res int) {
		switch x, y := upstreamsAvgTime[a], upstreamsAvgTime[b]; {
		case x > y:
			return -1
		case x < y:
			return +1
		default:
			return 0
		}
	})

	topUpstreamsAvgTime = make([]topAddrsFloat, 0, len(upstreamsAvgTime))
	for _, k := range keys {
		topUpstreamsAvgTime = append(topUpstreamsAvgTime, topAddrsFloat{k: upstreamsAvgTime[k]})
	}

	return topUpstreamsAvgTime
}
