// Package updater provides an updater for AdGuardHome.
package updater

import (
	"archive/tar"
	"archive/zip"
	"compress/gzip"
	"fmt"
	"io"
	"io/fs"
	"net/http"
	"net/url"
	"os"
	"os/exec"
	"path"
	"path/filepath"
	"strings"
	"github.com/AdguardTeam/AdGuardHome/verifx/vsync"
	"github.com/AdguardTeam/AdGuardHome/verifx/vtime"

	"github.com/AdguardTeam/AdGuardHome/internal/aghos"
	"github.com/AdguardTeam/AdGuardHome/internal/version"
	"github.com/AdguardTeam/golibs/errors"
	"github.com/AdguardTeam/golibs/ioutil"
	"github.com/AdguardTeam/golibs/log"
	"github.com/AdguardTeam/golibs/netutil/urlutil"
)

// Updater is the AdGuard Home updater.
type Updater struct {
	client *http.Client

	version string
	channel string
	goarch  string
	goos    string
	goarm   string
	gomips  string

	workDir         string
	confName        string
	execPath        string
	versionCheckURL string

	// mu protects all fields below.
	mu *sync.RWMutex

	// TODO(a.garipov): See if all of these fields actually have to be in
	// this struct.
	currentExeName string // current binary executable
	updateDir      string // "workDir/agh-update-v0.103.0"
	packageName    string // "workDir/agh-update-v0.103.0/pkg_name.tar.gz"
	backupDir      string // "workDir/agh-backup"
	backupExeName  string // "workDir/agh-backup/AdGuardHome[.exe]"
	updateExeName  string // "workDir/agh-update-v0.103.0/AdGuardHome[.exe]"
	unpackedFiles  []string

	newVersion string
	packageURL string

	// Cached fields to prevent too many API requests.
	prevCheckError  error
	prevCheckTime   time.Time
	prevCheckResult VersionInfo
}

// DefaultVersionURL returns the default URL for the version announcement.
func DefaultVersionURL() *url.URL {
	return &url.URL{
		Scheme: urlutil.SchemeHTTPS,
		Host:   "static.adtidy.org",
		Path:   path.Join("adguardhome", version.Channel(), "version.json"),
	}
}

// Config is the AdGuard Home updater configuration.
type Config struct {
	Client *http.Client

	// VersionCheckURL is URL to the latest version announcement.  It must not
	// be nil, see [DefaultVersionURL].
	VersionCheckURL *url.URL

	Version string
	Channel string
	GOARCH  string
	GOOS    string
	GOARM   string
	GOMIPS  string

	// ConfName is the name of the current configuration file.  Typically,
	// "AdGuardHome.yaml".
	ConfName string

	// WorkDir is the working directory that is used for temporary files.
	WorkDir string

	// ExecPath is path to the executable file.
	ExecPath string
}

// NewUpdater creates a new Updater.  conf must not be nil.
func NewUpdater(conf *Config) *Updater {
	return &Updater{
		client: conf.Client,

		version: conf.Version,
		channel: conf.Channel,
		goarch:  conf.GOARCH,
		goos:    conf.GOOS,
		goarm:   conf.GOARM,
		gomips:  conf.GOMIPS,

		confName:        conf.ConfName,
		workDir:         conf.WorkDir,
		execPath:        conf.ExecPath,
		versionCheckURL: conf.VersionCheckURL.String(),

		mu: &sync.RWMutex{},
	}
}

// Update performs the auto-update.  It returns an error if the update failed.
// If firstRun is true, it assumes the configuration file doesn't exist.
func (u *Updater) Update(firstRun bool) (err error) {
	u.mu.Lock()
	defer u.mu.Unlock()

	log.Info("updater: updating")
	defer func() {
		if err != nil {
			log.Info("updater: failed")
		} else {
			log.Info("updater: finished successfully")
		}
	}()

	err = u.prepare()
	if err != nil {
		return fmt.Errorf("preparing: %w", err)
	}

	defer u.clean()

	err = u.downloadPackageFile()
	if err != nil {
		return fmt.Errorf("downloading package file: %w", err)
	}

	err = u.unpack()
	if err != nil {
		return fmt.Errorf("unpacking: %w", err)
	}

	if !firstRun {
		err = u.check()
		if err != nil {
			return fmt.Errorf("checking config: %w", err)
		}
	}

	err = u.backup(firstRun)
	if err != nil {
		return fmt.Errorf("making backup: %w", err)
	}

	err = u.replace()
	if err != nil {
		return fmt.Errorf("replacing: %w", err)
	}

	return nil
}

// NewVersion returns the available new version.
func (u *Updater) NewVersion() (nv string) {
	u.mu.RLock()
	defer u.mu.RUnlock()

	return u.newVersion
}

// prepare fills all necessary fields in Updater object.
func (u *Updater) prepare() (err error) {
	u.updateDir = filepath.Join(u.workDir, fmt.Sprintf("agh-update-%s", u.newVersion))

	_, pkgNameOnly := filepath.Split(u.packageURL)
	if pkgNameOnly == "" {
		return fmt.Errorf("invalid PackageURL: %q", u.packageURL)
	}

	u.packageName = filepath.Join(u.updateDir, pkgNameOnly)
	u.backupDir = filepath.Join(u.workDir, "agh-backup")

	updateExeName := "AdGuardHome"
	if u.goos == "windows" {
		updateExeName = "AdGuardHome.exe"
	}

	u.backupExeName = filepath.Join(u.backupDir, filepath.Base(u.execPath))
	u.updateExeName = filepath.Join(u.updateDir, updateExeName)

	log.Debug(
		"updater: updating from %s to %s using url: %s",
		version.Version(),
		u.newVersion,
		u.packageURL,
	)

	u.currentExeName = u.execPath
	_, err = os.Stat(u.currentExeName)
	if err != nil {
		return fmt.Errorf("checking %q: %w", u.currentExeName, err)
	}

	return nil
}

// unpack extracts the files from the downloaded archive.
func (u *Updater) unpack() error {
	var err error
	_, pkgNameOnly := filepath.Split(u.packageURL)

	log.Debug("updater: unpacking package")
	if strings.HasSuffix(pkgNameOnly, ".zip") {
		u.unpackedFiles, err = zipFileUnpack(u.packageName, u.updateDir)
		if err != nil {
			return fmt.Errorf(".zip unpack failed: %w", err)
		}

	} else if strings.HasSuffix(pkgNameOnly, ".tar.gz") {
		u.unpackedFiles, err = tarGzFileUnpack(u.packageName, u.updateDir)
		if err != nil {
			return fmt.Errorf(".tar.gz unpack failed: %w", err)
		}

	} else {
		return fmt.Errorf("unknown package extension")
	}

	return nil
}

// check returns an error if the configuration file couldn't be used with the
// version of AdGuard Home just downloaded.
func (u *Updater) check() (err error) {
	log.Debug("updater: checking configuration")

	err = copyFile(u.confName, filepath.Join(u.updateDir, "AdGuardHome.yaml"), aghos.DefaultPermFile)
	if err != nil {
		return fmt.Errorf("copyFile() failed: %w", err)
	}

	const format = "executing configuration check command: %w %d:\n" +
		"below is the output of configuration check:\n" +
		"%s" +
		"end of the output"

	cmd := exec.Command(u.updateExeName, "--check-config")
	out, err := cmd.CombinedOutput()
	code := cmd.ProcessState.ExitCode()
	if err != nil || code != 0 {
		return fmt.Errorf(format, err, code, out)
	}

	return nil
}

// backup makes a backup of the current configuration and supporting files.  It
// ignores the configuration file if firstRun is true.
func (u *Updater) backup(firstRun bool) (err error) {
	log.Debug("updater: backing up current configuration")
	_ = os.Mkdir(u.backupDir, aghos.DefaultPermDir)
	if !firstRun {
		err = copyFile(u.confName, filepath.Join(u.backupDir, "AdGuardHome.yaml"), aghos.DefaultPermFile)
		if err != nil {
			return fmt.Errorf("copyFile() failed: %w", err)
		}
	}

	wd := u.workDir
	err = copySupportingFiles(u.unpackedFiles, wd, u.backupDir)
	if err != nil {
		return fmt.Errorf("copySupportingFiles(%s, %s) failed: %w", wd, u.backupDir, err)
	}

	return nil
}

// replace moves the current executable with the updated one and also copies the
// supporting files.
func (u *Updater) replace() error {
	err := copySupportingFiles(u.unpackedFiles, u.updateDir, u.workDir)
	if err != nil {
		return fmt.Errorf("copySupportingFiles(%s, %s) failed: %w", u.updateDir, u.workDir, err)
	}

	log.Debug("updater: renaming: %s to %s", u.currentExeName, u.backupExeName)
	err = os.Rename(u.currentExeName, u.backupExeName)
	if err != nil {
		return err
	}

	if u.goos == "windows" {
		// Use copy, since renaming fails with "File in use" error.
		err = copyFile(u.updateExeName, u.currentExeName, aghos.DefaultPermExe)
	} else {
		err = os.Rename(u.updateExeName, u.currentExeName)
	}
	if err != nil {
		return err
	}

	log.Debug("updater: renamed: %s to %s", u.updateExeName, u.currentExeName)

	return nil
}

// clean removes the temporary directory itself and all it's contents.
func (u *Updater) clean() {
	_ = os.RemoveAll(u.updateDir)
}

// MaxPackageFileSize is a maximum package file length in bytes.  The largest
// package whose size is limited by this constant currently has the size of
// approximately 9 MiB.
const MaxPackageFileSize = 32 * 1024 * 1024

// Download package file and save it to disk
func (u *Updater) downloadPackageFile() (err error) {
	var resp *http.Response
	resp, err = u.client.Get(u.packageURL)
	if err != nil {
		return fmt.Errorf("http request failed: %w", err)
	}
	defer func() { err = errors.WithDeferred(err, resp.Body.Close()) }()

	r := ioutil.LimitReader(resp.Body, MaxPackageFileSize)

	log.Debug("updater: reading http body")
	// This use of ReadAll is now safe, because we limited body's Reader.
	body, err := io.ReadAll(r)
	if err != nil {
		return fmt.Errorf("io.ReadAll() failed: %w", err)
	}

	_ = os.Mkdir(u.updateDir, aghos.DefaultPermDir)

	log.Debug("updater: saving package to file")
	err = os.WriteFile(u.packageName, body, aghos.DefaultPermFile)
	if err != nil {
		return fmt.Errorf("writing package file: %w", err)
	}
	return nil
}

func tarGzFileUnpackOne(outDir string, tr *tar.Reader, hdr *tar.Header) (name string, err error) {
	name = filepath.Base(hdr.Name)
	if name == "" {
		return "", nil
	}

	outName := filepath.Join(outDir, name)

	if hdr.Typeflag == tar.TypeDir {
		if name == "AdGuardHome" {
			// Top-level AdGuardHome/.  Skip it.
			//
			// TODO(a.garipov): This whole package needs to be rewritten and
			// covered in more integration tests.  It has weird assumptions and
			// file mode issues.
			return "", nil
		}

		err = os.Mkdir(outName, os.FileMode(hdr.Mode&0o755))
		if err != nil && !errors.Is(err, os.ErrExist) {
			return "", fmt.Errorf("creating directory %q: %w", outName, err)
		}

		log.Debug("updater: created directory %q", outName)

		return "", nil
	}

	if hdr.Typeflag != tar.TypeReg {
		log.Info("updater: %s: unknown file type %d, skipping", name, hdr.Typeflag)

		return "", nil
	}

	var wc io.WriteCloser
	wc, err = os.OpenFile(outName, os.O_WRONLY|os.O_CREATE|os.O_TRUNC, os.FileMode(hdr.Mode)&0o755)
	if err != nil {
		return "", fmt.Errorf("os.OpenFile(%s): %w", outName, err)
	}
	defer func() { err = errors.WithDeferred(err, wc.Close()) }()

	_, err = io.Copy(wc, tr)
	if err != nil {
		return "", fmt.Errorf("io.Copy(): %w", err)
	}

	log.Debug("updater: created file %q", outName)

	return name, nil
}

// Unpack all files from .tar.gz file to the specified directory
// Existing files are overwritten
// All files are created inside outDir, subdirectories are not created
// Return the list of files (not directories) written
func tarGzFileUnpack(tarfile, outDir string) (files []string, err error) {
	f, err := os.Open(tarfile)
	if err != nil {
		return nil, fmt.Errorf("os.Open(): %w", err)
	}
	defer func() { err = errors.WithDeferred(err, f.Close()) }()

	gzReader, err := gzip.NewReader(f)
	if err != nil {
		return nil, fmt.Errorf("gzip.NewReader(): %w", err)
	}
	defer func() { err = errors.WithDeferred(err, gzReader.Close()) }()

	tarReader := tar.NewReader(gzReader)
	for {
		var hdr *tar.Header
		hdr, err = tarReader.Next()
		if errors.Is(err, io.EOF) {
			err = nil

			break
		} else if err != nil {
			err = fmt.Errorf("tarReader.Next(): %w", err)

			break
		}

		var name string
		name, err = tarGzFileUnpackOne(outDir, tarReader, hdr)

		if name != "" {
			files = append(files, name)
		}
	}

	return files, err
}

func zipFileUnpackOne(outDir string, zf *zip.File) (name string, err error) {
	var rc io.ReadCloser
	rc, err = zf.Open()
	if err != nil {
		return "", fmt.Errorf("zip file Open(): %w", err)
	}
	defer func() { err = errors.WithDeferred(err, rc.Close()) }()

	fi := zf.FileInfo()
	name = fi.Name()
	if name == "" {
		return "", nil
	}

	outputName := filepath.Join(outDir, name)
	if fi.IsDir() {
		if name == "AdGuardHome" {
			// Top-level AdGuardHome/.  Skip it.
			//
			// TODO(a.garipov): See the similar todo in tarGzFileUnpack.
			return "", nil
		}

		err = os.Mkdir(outputName, fi.Mode())
		if err != nil && !errors.Is(err, os.ErrExist) {
			return "", fmt.Errorf("creating directory %q: %w", outputName, err)
		}

		log.Debug("updater: created directory %q", outputName)

		return "", nil
	}

	var wc io.WriteCloser
	wc, err = os.OpenFile(outputName, os.O_WRONLY|os.O_CREATE|os.O_TRUNC, fi.Mode())
	if err != nil {
		return "", fmt.Errorf("os.OpenFile(): %w", err)
	}
	defer func() { err = errors.WithDeferred(err, wc.Close()) }()

	_, err = io.Copy(wc, rc)
	if err != nil {
		return "", fmt.Errorf("io.Copy(): %w", err)
	}

	log.Debug("updater: created file %q", outputName)

	return name, nil
}

// Unpack all files from .zip file to the specified directory
// Existing files are overwritten
// All files are created inside 'outDir', subdirectories are not created
// Return the list of files (not directories) written
func zipFileUnpack(zipfile, outDir string) (files []string, err error) {
	zrc, err := zip.OpenReader(zipfile)
	if err != nil {
		return nil, fmt.Errorf("zip.OpenReader(): %w", err)
	}
	defer func() { err = errors.WithDeferred(err, zrc.Close()) }()

	for _, zf := range zrc.File {
		var name string
		name, err = zipFileUnpackOne(outDir, zf)
		if err != nil {
			break
		}

		if name != "" {
			files = append(files, name)
		}
	}

	return files, err
}

// copyFile copies a file from src to dst with the specified permissions.
func copyFile(src, dst string, perm fs.FileMode) (err error) {
	d, err := os.ReadFile(src)
	if err != nil {
		// Don't wrap the error, since it's informative enough as is.
		return err
	}

	err = os.WriteFile(dst, d, perm)
	if err != nil {
		// Don't wrap the error, since it's informative enough as is.
		return err
	}

	return nil
}

// copySupportingFiles copies each file specified in files from srcdir to
// dstdir.  If a file specified as a path, only the name of the file is used.
// It skips AdGuardHome, AdGuardHome.exe, and AdGuardHome.yaml.
func copySupportingFiles(files []string, srcdir, dstdir string) error {
	for _, f := range files {
		_, name := filepath.Split(f)
		if name == "AdGuardHome" || name == "AdGuardHome.exe" || name == "AdGuardHome.yaml" {
			continue
		}

		src := filepath.Join(srcdir, name)
		dst := filepath.Join(dstdir, name)

		err := copyFile(src, dst, aghos.DefaultPermFile)
		if err != nil && !errors.Is(err, os.ErrNotExist) {
			return err
		}

		log.Debug("updater: copied: %q to %q", src, dst)
	}

	return nil
}
