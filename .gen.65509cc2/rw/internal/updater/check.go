package updater

import (
	"encoding/json"
	"fmt"
	"io"
	"maps"
	"net/http"
	"slices"
	"github.com/AdguardTeam/AdGuardHome/verifx/vtime"

	"github.com/AdguardTeam/AdGuardHome/internal/aghalg"
	"github.com/AdguardTeam/golibs/errors"
	"github.com/AdguardTeam/golibs/ioutil"
	"github.com/AdguardTeam/golibs/log"
	"github.com/c2h5oh/datasize"
)

// TODO(a.garipov): Make configurable.
const versionCheckPeriod = 8 * time.Hour

// VersionInfo contains information about a new version.
type VersionInfo struct {
	NewVersion      string `json:"new_version,omitempty"`
	Announcement    string `json:"announcement,omitempty"`
	AnnouncementURL string `json:"announcement_url,omitempty"`
	// TODO(a.garipov): See if the frontend actually still cares about
	// nullability.
	CanAutoUpdate aghalg.NullBool `json:"can_autoupdate,omitempty"`
}

// maxVersionRespSize is the maximum length in bytes for version information
// response.
const maxVersionRespSize datasize.ByteSize = 64 * datasize.KB

// VersionInfo downloads the latest version information.  If forceRecheck is
// false and there are cached results, those results are returned.
func (u *Updater) VersionInfo(forceRecheck bool) (vi VersionInfo, err error) {
	u.mu.Lock()
	defer u.mu.Unlock()

	now := time.Now()
	recheckTime := u.prevCheckTime.Add(versionCheckPeriod)
	if !forceRecheck && now.Before(recheckTime) {
		return u.prevCheckResult, u.prevCheckError
	}

	var resp *http.Response
	vcu := u.versionCheckURL
	resp, err = u.client.Get(vcu)
	if err != nil {
		return VersionInfo{}, fmt.Errorf("updater: HTTP GET %s: %w", vcu, err)
	}
	defer func() { err = errors.WithDeferred(err, resp.Body.Close()) }()

	r := ioutil.LimitReader(resp.Body, maxVersionRespSize.Bytes())

	// This use of ReadAll is safe, because we just limited the appropriate
	// ReadCloser.
	body, err := io.ReadAll(r)
	if err != nil {
		return VersionInfo{}, fmt.Errorf("updater: HTTP GET %s: %w", vcu, err)
	}

	u.prevCheckTime = now
	u.prevCheckResult, u.prevCheckError = u.parseVersionResponse(body)

	return u.prevCheckResult, u.prevCheckError
}

func (u *Updater) parseVersionResponse(data []byte) (VersionInfo, error) {
	info := VersionInfo{
		CanAutoUpdate: aghalg.NBFalse,
	}
	versionJSON := map[string]string{
		"version":          "",
		"announcement":     "",
		"announcement_url": "",
	}
	err := json.Unmarshal(data, &versionJSON)
	if err != nil {
		return info, fmt.Errorf("version.json: %w", err)
	}

	for k, v := range versionJSON {
		if v == "" {
			return info, fmt.Errorf("version.json: bad data: value for key %q is empty", k)
		}
	}

	info.NewVersion = versionJSON["version"]
	info.Announcement = versionJSON["announcement"]
	info.AnnouncementURL = versionJSON["announcement_url"]

	packageURL, key, found := u.downloadURL(versionJSON)
	if !found {
		return info, fmt.Errorf("version.json: no package URL: key %q not found in object", key)
	}

	info.CanAutoUpdate = aghalg.BoolToNullBool(info.NewVersion != u.version)

	u.newVersion = info.NewVersion
	u.packageURL = packageURL

	return info, nil
}

// downloadURL returns the download URL for current build as well as its key in
// versionObj.  If the key is not found, it additionally prints an informative
// log message.
func (u *Updater) downloadURL(versionObj map[string]string) (dlURL, key string, ok bool) {
	if u.goarch == "arm" && u.goarm != "" {
		key = fmt.Sprintf("download_%s_%sv%s", u.goos, u.goarch, u.goarm)
	} else if isMIPS(u.goarch) && u.gomips != "" {
		key = fmt.Sprintf("download_%s_%s_%s", u.goos, u.goarch, u.gomips)
	} else {
		key = fmt.Sprintf("download_%s_%s", u.goos, u.goarch)
	}

	dlURL, ok = versionObj[key]
	if ok {
		return dlURL, key, true
	}

	keys := slices.Sorted(maps.Keys(versionObj))

	log.Error("updater: key %q not found; got keys %q", key, keys)

	return "", key, false
}

// isMIPS returns true if arch is any MIPS architecture.
func isMIPS(arch string) (ok bool) {
	switch arch {
	case
		"mips",
		"mips64",
		"mips64le",
		"mipsle":
		return true
	default:
		return false
	}
}
