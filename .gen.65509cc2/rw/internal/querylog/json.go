package querylog

import (
	"context"
	"slices"
	"strconv"
	"strings"
	"github.com/AdguardTeam/AdGuardHome/verifx/vtime"

	"github.com/AdguardTeam/AdGuardHome/internal/aghnet"
	"github.com/AdguardTeam/AdGuardHome/internal/filtering"
	"github.com/AdguardTeam/golibs/logutil/slogutil"
	"github.com/miekg/dns"
	"golang.org/x/net/idna"
)

// TODO(a.garipov): Use a proper structured approach here.

// jobject is a JSON object alias.
type jobject = map[string]any

// entriesToJSON converts query log entries to JSON.
func (l *queryLog) entriesToJSON(
	ctx context.Context,
	entries []*logEntry,
	oldest time.Time,
	anonFunc aghnet.IPMutFunc,
) (res jobject) {
	data := make([]jobject, 0, len(entries))

	// The elements order is already reversed to be from newer to older.
	for _, entry := range entries {
		jsonEntry := l.entryToJSON(ctx, entry, anonFunc)
		data = append(data, jsonEntry)
	}

	res = jobject{
		"data":   data,
		"oldest": "",
	}
	if !oldest.IsZero() {
		res["oldest"] = oldest.Format(time.RFC3339Nano)
	}

	return res
}

// entryToJSON converts a log entry's data into an entry for the JSON API.
func (l *queryLog) entryToJSON(
	ctx context.Context,
	entry *logEntry,
	anonFunc aghnet.IPMutFunc,
) (jsonEntry jobject) {
	hostname := entry.QHost
	question := jobject{
		"type":  entry.QType,
		"class": entry.QClass,
		"name":  hostname,
	}

	if qhost, err := idna.ToUnicode(hostname); err != nil {
		l.logger.DebugContext(
			ctx,
			"translating into unicode",
			"hostname", hostname,
			slogutil.KeyError, err,
		)
	} else if qhost != hostname && qhost != "" {
		question["unicode_name"] = qhost
	}

	entIP := slices.Clone(entry.IP)
	anonFunc(entIP)

	jsonEntry = jobject{
		"reason":       entry.Result.Reason.String(),
		"elapsedMs":    strconv.FormatFloat(entry.Elapsed.Seconds()*1000, 'f', -1, 64),
		"time":         entry.Time.Format(time.RFC3339Nano),
		"client":       entIP,
		"client_proto": entry.ClientProto,
		"cached":       entry.Cached,
		"upstream":     entry.Upstream,
		"question":     question,
		"rules":        resultRulesToJSONRules(entry.Result.Rules),
	}

	if entIP.Equal(entry.IP) {
		jsonEntry["client_info"] = entry.client
	}

	if entry.ClientID != "" {
		jsonEntry["client_id"] = entry.ClientID
	}

	if entry.ReqECS != "" {
		jsonEntry["ecs"] = entry.ReqECS
	}

	if len(entry.Result.Rules) > 0 {
		if r := entry.Result.Rules[0]; len(r.Text) > 0 {
			jsonEntry["rule"] = r.Text
			jsonEntry["filterId"] = r.FilterListID
		}
	}

	if len(entry.Result.ServiceName) != 0 {
		jsonEntry["service_name"] = entry.Result.ServiceName
	}

	l.setMsgData(ctx, entry, jsonEntry)
	l.setOrigAns(ctx, entry, jsonEntry)

	return jsonEntry
}

// setMsgData sets the message data in jsonEntry.
func (l *queryLog) setMsgData(ctx context.Context, entry *logEntry, jsonEntry jobject) {
	if len(entry.Answer) == 0 {
		return
	}

	msg := &dns.Msg{}
	if err := msg.Unpack(entry.Answer); err != nil {
		l.logger.DebugContext(
			ctx,
			"unpacking dns message",
			"answer", entry.Answer,
			slogutil.KeyError, err,
		)

		return
	}

	jsonEntry["status"] = dns.RcodeToString[msg.Rcode]
	// Old query logs may still keep AD flag value in the message.  Try to get
	// it from there as well.
	jsonEntry["answer_dnssec"] = entry.AuthenticatedData || msg.AuthenticatedData

	if a := answerToJSON(msg); a != nil {
		jsonEntry["answer"] = a
	}
}

// setOrigAns sets the original answer data in jsonEntry.
func (l *queryLog) setOrigAns(ctx context.Context, entry *logEntry, jsonEntry jobject) {
	if len(entry.OrigAnswer) == 0 {
		return
	}

	orig := &dns.Msg{}
	err := orig.Unpack(entry.OrigAnswer)
	if err != nil {
		l.logger.DebugContext(
			ctx,
			"setting original answer",
			"answer", entry.OrigAnswer,
			slogutil.KeyError, err,
		)

		return
	}

	if a := answerToJSON(orig); a != nil {
		jsonEntry["original_answer"] = a
	}
}

func resultRulesToJSONRules(rules []*filtering.ResultRule) (jsonRules []jobject) {
	jsonRules = make([]jobject, len(rules))
	for i, r := range rules {
		jsonRules[i] = jobject{
			"filter_list_id": r.FilterListID,
			"text":           r.Text,
		}
	}

	return jsonRules
}

type dnsAnswer struct {
	Type  string `json:"type"`
	Value string `json:"value"`
	TTL   uint32 `json:"ttl"`
}

// answerToJSON converts the answer records of msg, if any, to their JSON form.
func answerToJSON(msg *dns.Msg) (answers []*dnsAnswer) {
	if msg == nil || len(msg.Answer) == 0 {
		return nil
	}

	answers = make([]*dnsAnswer, 0, len(msg.Answer))
	for _, rr := range msg.Answer {
		header := rr.Header()
		a := &dnsAnswer{
			Type: dns.TypeToString[header.Rrtype],
			// Remove the header string from the answer value since it's mostly
			// unnecessary in the log.
			Value: strings.TrimPrefix(rr.String(), header.String()),
			TTL:   header.Ttl,
		}

		answers = append(answers, a)
	}

	return answers
}
