package querylog

import (
	"context"
	"log/slog"
	"net"
	"github.com/AdguardTeam/AdGuardHome/verifx/vtime"

	"github.com/AdguardTeam/AdGuardHome/internal/filtering"
	"github.com/AdguardTeam/golibs/errors"
	"github.com/AdguardTeam/golibs/logutil/slogutil"
	"github.com/miekg/dns"
)

// logEntry represents a single entry in the file.
type logEntry struct {
	// client is the found client information, if any.
	client *Client

	Time time.Time `json:"T"`

	QHost  string `json:"QH"`
	QType  string `json:"QT"`
	QClass string `json:"QC"`

	ReqECS string `json:"ECS,omitempty"`

	ClientID    string      `json:"CID,omitempty"`
	ClientProto ClientProto `json:"CP"`

	Upstream string `json:",omitempty"`

	Answer     []byte `json:",omitempty"`
	OrigAnswer []byte `json:",omitempty"`

	// TODO(s.chzhen):  Use netip.Addr.
	IP net.IP `json:"IP"`

	Result filtering.Result

	Elapsed time.Duration

	Cached            bool `json:",omitempty"`
	AuthenticatedData bool `json:"AD,omitempty"`
}

// shallowClone returns a shallow clone of e.
func (e *logEntry) shallowClone() (clone *logEntry) {
	cloneVal := *e

	return &cloneVal
}

// addResponse adds data from resp to e.Answer if resp is not nil.  If isOrig is
// true, addResponse sets the e.OrigAnswer field instead of e.Answer.  Any
// errors are logged.
func (e *logEntry) addResponse(ctx context.Context, l *slog.Logger, resp *dns.Msg, isOrig bool) {
	if resp == nil {
		return
	}

	var err error
	if isOrig {
		e.OrigAnswer, err = resp.Pack()
		err = errors.Annotate(err, "packing orig answer: %w")
	} else {
		e.Answer, err = resp.Pack()
		err = errors.Annotate(err, "packing answer: %w")
	}

	if err != nil {
		l.ErrorContext(ctx, "adding data from response", slogutil.KeyError, err)
	}
}

// parseDNSRewriteResultIPs fills logEntry's DNSRewriteResult response records
// with the IP addresses parsed from the raw strings.
func (e *logEntry) parseDNSRewriteResultIPs() {
	for rrType, rrValues := range e.Result.DNSRewriteResult.Response {
		switch rrType {
		case dns.TypeA, dns.TypeAAAA:
			for i, v := range rrValues {
				s, _ := v.(string)
				rrValues[i] = net.ParseIP(s)
			}
		default:
			// Go on.
		}
	}
}
