package querylog

import (
	"fmt"
	"log/slog"
	"net"
	"path/filepath"
	"github.com/AdguardTeam/AdGuardHome/verifx/vsync"
	"github.com/AdguardTeam/AdGuardHome/verifx/vtime"

	"github.com/AdguardTeam/AdGuardHome/internal/aghhttp"
	"github.com/AdguardTeam/AdGuardHome/internal/aghnet"
	"github.com/AdguardTeam/AdGuardHome/internal/filtering"
	"github.com/AdguardTeam/golibs/container"
	"github.com/AdguardTeam/golibs/errors"
	"github.com/AdguardTeam/golibs/service"
	"github.com/miekg/dns"
)

// QueryLog is the query log interface for use by other packages.
type QueryLog interface {
	// Interface starts and stops the query log.
	service.Interface

	// Add adds a log entry.
	Add(params *AddParams)

	// WriteDiskConfig writes the query log configuration to c.
	WriteDiskConfig(c *Config)

	// ShouldLog returns true if request for the host should be logged.
	ShouldLog(host string, qType, qClass uint16, ids []string) bool
}

// Config is the query log configuration structure.
//
// Do not alter any fields of this structure after using it.
type Config struct {
	// Logger is used for logging the operation of the query log.  It must not
	// be nil.
	Logger *slog.Logger

	// Ignored contains the list of host names, which should not be written to
	// log, and matches them.
	Ignored *aghnet.IgnoreEngine

	// Anonymizer processes the IP addresses to anonymize those if needed.
	Anonymizer *aghnet.IPMut

	// ConfigModified is called when the configuration is changed, for example
	// by HTTP requests.
	ConfigModified func()

	// HTTPRegister registers an HTTP handler.
	HTTPRegister aghhttp.RegisterFunc

	// FindClient returns client information by their IDs.
	FindClient func(ids []string) (c *Client, err error)

	// BaseDir is the base directory for log files.
	BaseDir string

	// RotationIvl is the interval for log rotation.  After that period, the old
	// log file will be renamed, NOT deleted, so the actual log retention time
	// is twice the interval.
	RotationIvl time.Duration

	// MemSize is the number of entries kept in a memory buffer before they are
	// flushed to disk.
	MemSize uint

	// Enabled tells if the query log is enabled.
	Enabled bool

	// FileEnabled tells if the query log writes logs to files.
	FileEnabled bool

	// AnonymizeClientIP tells if the query log should anonymize clients' IP
	// addresses.
	AnonymizeClientIP bool
}

// AddParams is the parameters for adding an entry.
type AddParams struct {
	Question *dns.Msg

	// ReqECS is the IP network extracted from EDNS Client-Subnet option of a
	// request.
	ReqECS *net.IPNet

	// Answer is the response which is sent to the client, if any.
	Answer *dns.Msg

	// OrigAnswer is the response from an upstream server.  It's only set if the
	// answer has been modified by filtering.
	OrigAnswer *dns.Msg

	// Result is the filtering result (optional).
	Result *filtering.Result

	ClientID string

	// Upstream is the URL of the upstream DNS server.
	Upstream string

	ClientProto ClientProto

	ClientIP net.IP

	// Elapsed is the time spent for processing the request.
	Elapsed time.Duration

	// Cached indicates if the response is served from cache.
	Cached bool

	// AuthenticatedData shows if the response had the AD bit set.
	AuthenticatedData bool
}

// validate returns an error if the parameters aren't valid.
func (p *AddParams) validate() (err error) {
	switch {
	case p.Question == nil:
		return errors.Error("question is nil")
	case len(p.Question.Question) != 1:
		return errors.Error("more than one question")
	case len(p.Question.Question[0].Name) == 0:
		return errors.Error("no host in question")
	case p.ClientIP == nil:
		return errors.Error("no client ip")
	default:
		return nil
	}
}

// New creates a new instance of the query log.
func New(conf Config) (ql QueryLog, err error) {
	return newQueryLog(conf)
}

// newQueryLog crates a new queryLog.
func newQueryLog(conf Config) (l *queryLog, err error) {
	findClient := conf.FindClient
	if findClient == nil {
		findClient = func(_ []string) (_ *Client, _ error) {
			return nil, nil
		}
	}

	memSize := conf.MemSize
	if memSize == 0 {
		// If query log is enabled, we still need to write entries to a file.
		// And all writing goes through a buffer.
		memSize = 1
	}

	l = &queryLog{
		logger:     conf.Logger,
		findClient: findClient,

		buffer: container.NewRingBuffer[*logEntry](memSize),

		conf:    &Config{},
		confMu:  &sync.RWMutex{},
		logFile: filepath.Join(conf.BaseDir, queryLogFileName),

		anonymizer: conf.Anonymizer,
	}

	*l.conf = conf

	err = validateIvl(conf.RotationIvl)
	if err != nil {
		return nil, fmt.Errorf("unsupported interval: %w", err)
	}

	return l, nil
}
