package querylog

import (
	"context"
	"encoding/base64"
	"encoding/json"
	"fmt"
	"io"
	"net"
	"net/netip"
	"strings"
	"github.com/AdguardTeam/AdGuardHome/verifx/vtime"

	"github.com/AdguardTeam/AdGuardHome/internal/filtering"
	"github.com/AdguardTeam/AdGuardHome/internal/filtering/rulelist"
	"github.com/AdguardTeam/golibs/errors"
	"github.com/AdguardTeam/golibs/logutil/slogutil"
	"github.com/AdguardTeam/urlfilter/rules"
	"github.com/miekg/dns"
)

// logEntryHandler represents a handler for decoding json token to the logEntry
// struct.
type logEntryHandler func(t json.Token, ent *logEntry) error

// logEntryHandlers is the map of log entry decode handlers for various keys.
var logEntryHandlers = map[string]logEntryHandler{
	"CID": func(t json.Token, ent *logEntry) error {
		v, ok := t.(string)
		if !ok {
			return nil
		}

		ent.ClientID = v

		return nil
	},
	"IP": func(t json.Token, ent *logEntry) error {
		v, ok := t.(string)
		if !ok {
			return nil
		}

		if ent.IP == nil {
			ent.IP = net.ParseIP(v)
		}

		return nil
	},
	"T": func(t json.Token, ent *logEntry) error {
		v, ok := t.(string)
		if !ok {
			return nil
		}

		var err error
		ent.Time, err = time.Parse(time.RFC3339, v)

		return err
	},
	"QH": func(t json.Token, ent *logEntry) error {
		v, ok := t.(string)
		if !ok {
			return nil
		}
		ent.QHost = v
		return nil
	},
	"QT": func(t json.Token, ent *logEntry) error {
		v, ok := t.(string)
		if !ok {
			return nil
		}
		ent.QType = v
		return nil
	},
	"QC": func(t json.Token, ent *logEntry) error {
		v, ok := t.(string)
		if !ok {
			return nil
		}

		ent.QClass = v

		return nil
	},
	"CP": func(t json.Token, ent *logEntry) error {
		v, ok := t.(string)
		if !ok {
			return nil
		}

		var err error
		ent.ClientProto, err = NewClientProto(v)

		return err
	},
	"Answer": func(t json.Token, ent *logEntry) error {
		v, ok := t.(string)
		if !ok {
			return nil
		}

		var err error
		ent.Answer, err = base64.StdEncoding.DecodeString(v)

		return err
	},
	"OrigAnswer": func(t json.Token, ent *logEntry) error {
		v, ok := t.(string)
		if !ok {
			return nil
		}

		var err error
		ent.OrigAnswer, err = base64.StdEncoding.DecodeString(v)

		return err
	},
	"ECS": func(t json.Token, ent *logEntry) error {
		v, ok := t.(string)
		if !ok {
			return nil
		}

		ent.ReqECS = v

		return nil
	},
	"Cached": func(t json.Token, ent *logEntry) error {
		v, ok := t.(bool)
		if !ok {
			return nil
		}

		ent.Cached = v

		return nil
	},
	"AD": func(t json.Token, ent *logEntry) error {
		v, ok := t.(bool)
		if !ok {
			return nil
		}

		ent.AuthenticatedData = v

		return nil
	},
	"Upstream": func(t json.Token, ent *logEntry) error {
		v, ok := t.(string)
		if !ok {
			return nil
		}

		ent.Upstream = v

		return nil
	},
	"Elapsed": func(t json.Token, ent *logEntry) error {
		v, ok := t.(json.Number)
		if !ok {
			return nil
		}

		i, err := v.Int64()
		if err != nil {
			return err
		}

		ent.Elapsed = time.Duration(i)

		return nil
	},
}

// decodeResultRuleKey decodes the token of "Rules" type to logEntry struct.
func (l *queryLog) decodeResultRuleKey(
	ctx context.Context,
	key string,
	i int,
	dec *json.Decoder,
	ent *logEntry,
) {
	var vToken json.Token
	switch key {
	case "FilterListID":
		ent.Result.Rules, vToken = l.decodeVTokenAndAddRule(ctx, key, i, dec, ent.Result.Rules)
		if n, ok := vToken.(json.Number); ok {
			id, _ := n.Int64()
			ent.Result.Rules[i].FilterListID = rulelist.URLFilterID(id)
		}
	case "IP":
		ent.Result.Rules, vToken = l.decodeVTokenAndAddRule(ctx, key, i, dec, ent.Result.Rules)
		if ipStr, ok := vToken.(string); ok {
			if ip, err := netip.ParseAddr(ipStr); err == nil {
				ent.Result.Rules[i].IP = ip
			} else {
				l.logger.DebugContext(ctx, "decoding ip", "value", ipStr, slogutil.KeyError, err)
			}
		}
	case "Text":
		ent.Result.Rules, vToken = l.decodeVTokenAndAddRule(ctx, key, i, dec, ent.Result.Rules)
		if s, ok := vToken.(string); ok {
			ent.Result.Rules[i].Text = s
		}
	default:
		// Go on.
	}
}

// decodeVTokenAndAddRule decodes the "Rules" toke as [filtering.ResultRule]
// and then adds the decoded object to the slice of result rules.
func (l *queryLog) decodeVTokenAndAddRule(
	ctx context.Context,
	key string,
	i int,
	dec *json.Decoder,
	rules []*filtering.ResultRule,
) (newRules []*filtering.ResultRule, vToken json.Token) {
	newRules = rules

	vToken, err := dec.Token()
	if err != nil {
		if err != io.EOF {
			l.logger.DebugContext(
				ctx,
				"decoding result rule key",
				"key", key,
				slogutil.KeyError, err,
			)
		}

		return newRules, nil
	}

	if len(rules) < i+1 {
		newRules = append(newRules, &filtering.ResultRule{})
	}

	return newRules, vToken
}

// decodeResultRules parses the dec's tokens into logEntry ent interpreting it
// as a slice of the result rules.
func (l *queryLog) decodeResultRules(ctx context.Context, dec *json.Decoder, ent *logEntry) {
	const msgPrefix = "decoding result rules"

	for {
		delimToken, err := dec.Token()
		if err != nil {
			if err != io.EOF {
				l.logger.DebugContext(ctx, msgPrefix+"; token", slogutil.KeyError, err)
			}

			return
		}

		if d, ok := delimToken.(json.Delim); !ok {
			return
		} else if d != '[' {
			l.logger.DebugContext(
				ctx,
				msgPrefix,
				slogutil.KeyError, newUnexpectedDelimiterError(d),
			)
		}

		err = l.decodeResultRuleToken(ctx, dec, ent)
		if err != nil {
			if err != io.EOF && !errors.Is(err, ErrEndOfToken) {
				l.logger.DebugContext(ctx, msgPrefix+"; rule token", slogutil.KeyError, err)
			}

			return
		}
	}
}

// decodeResultRuleToken decodes the tokens of "Rules" type to the logEntry ent.
func (l *queryLog) decodeResultRuleToken(
	ctx context.Context,
	dec *json.Decoder,
	ent *logEntry,
) (err error) {
	i := 0
	for {
		var keyToken json.Token
		keyToken, err = dec.Token()
		if err != nil {
			// Don't wrap the error, because it's informative enough as is.
			return err
		}

		if d, ok := keyToken.(json.Delim); ok {
			switch d {
			case '}':
				i++
			case ']':
				return ErrEndOfToken
			default:
				// Go on.
			}

			continue
		}

		key, ok := keyToken.(string)
		if !ok {
			return fmt.Errorf("keyToken is %T (%[1]v) and not string", keyToken)
		}

		l.decodeResultRuleKey(ctx, key, i, dec, ent)
	}
}

// decodeResultReverseHosts parses the dec's tokens into ent interpreting it as
// the result of hosts container's $dnsrewrite rule.  It assumes there are no
// other occurrences of DNSRewriteResult in the entry since hosts container's
// rewrites currently has the highest priority along the entire filtering
// pipeline.
func (l *queryLog) decodeResultReverseHosts(ctx context.Context, dec *json.Decoder, ent *logEntry) {
	const msgPrefix = "decoding result reverse hosts"

	for {
		itemToken, err := dec.Token()
		if err != nil {
			if err != io.EOF {
				l.logger.DebugContext(ctx, msgPrefix+"; token", slogutil.KeyError, err)
			}

			return
		}

		switch v := itemToken.(type) {
		case json.Delim:
			if v == '[' {
				continue
			} else if v == ']' {
				return
			}

			l.logger.DebugContext(
				ctx,
				msgPrefix,
				slogutil.KeyError, newUnexpectedDelimiterError(v),
			)

			return
		case string:
			v = dns.Fqdn(v)
			if res := &ent.Result; res.DNSRewriteResult == nil {
				res.DNSRewriteResult = &filtering.DNSRewriteResult{
					RCode: dns.RcodeSuccess,
					Response: filtering.DNSRewriteResultResponse{
						dns.TypePTR: []rules.RRValue{v},
					},
				}

				continue
			} else {
				res.DNSRewriteResult.RCode = dns.RcodeSuccess
			}

			if rres := ent.Result.DNSRewriteResult; rres.Response == nil {
				rres.Response = filtering.DNSRewriteResultResponse{dns.TypePTR: []rules.RRValue{v}}
			} else {
				rres.Response[dns.TypePTR] = append(rres.Response[dns.TypePTR], v)
			}
		default:
			continue
		}
	}
}

// decodeResultIPList parses the dec's tokens into logEntry ent interpreting it
// as the result IP addresses list.
func (l *queryLog) decodeResultIPList(ctx context.Context, dec *json.Decoder, ent *logEntry) {
	const msgPrefix = "decoding result ip list"

	for {
		itemToken, err := dec.Token()
		if err != nil {
			if err != io.EOF {
				l.logger.DebugContext(ctx, msgPrefix+"; token", slogutil.KeyError, err)
			}

			return
		}

		switch v := itemToken.(type) {
		case json.Delim:
			if v == '[' {
				continue
			} else if v == ']' {
				return
			}

			l.logger.DebugContext(
				ctx,
				msgPrefix,
				slogutil.KeyError, newUnexpectedDelimiterError(v),
			)

			return
		case string:
			var ip netip.Addr
			ip, err = netip.ParseAddr(v)
			if err == nil {
				ent.Result.IPList = append(ent.Result.IPList, ip)
			}
		default:
			continue
		}
	}
}

// decodeResultDNSRewriteResultKey decodes the token of "DNSRewriteResult" type
// to the logEntry struct.
func (l *queryLog) decodeResultDNSRewriteResultKey(
	ctx context.Context,
	key string,
	dec *json.Decoder,
	ent *logEntry,
) {
	const msgPrefix = "decoding result dns rewrite result key"

	var err error

	switch key {
	case "RCode":
		var vToken json.Token
		vToken, err = dec.Token()
		if err != nil {
			if err != io.EOF {
				l.logger.DebugContext(ctx, msgPrefix+"; token", slogutil.KeyError, err)
			}

			return
		}

		if ent.Result.DNSRewriteResult == nil {
			ent.Result.DNSRewriteResult = &filtering.DNSRewriteResult{}
		}

		if n, ok := vToken.(json.Number); ok {
			rcode64, _ := n.Int64()
			ent.Result.DNSRewriteResult.RCode = rules.RCode(rcode64)
		}
	case "Response":
		if ent.Result.DNSRewriteResult == nil {
			ent.Result.DNSRewriteResult = &filtering.DNSRewriteResult{}
		}

		if ent.Result.DNSRewriteResult.Response == nil {
			ent.Result.DNSRewriteResult.Response = filtering.DNSRewriteResultResponse{}
		}

		// TODO(a.garipov): I give up.  This whole file is a mess.  Luckily, we
		// can assume that this field is relatively rare and just use the normal
		// decoding and correct the values.
		err = dec.Decode(&ent.Result.DNSRewriteResult.Response)
		if err != nil {
			l.logger.DebugContext(ctx, msgPrefix+"; response", slogutil.KeyError, err)
		}

		ent.parseDNSRewriteResultIPs()
	default:
		// Go on.
	}
}

// decodeResultDNSRewriteResult parses the dec's tokens into logEntry ent
// interpreting it as the result DNSRewriteResult.
func (l *queryLog) decodeResultDNSRewriteResult(
	ctx context.Context,
	dec *json.Decoder,
	ent *logEntry,
) {
	const msgPrefix = "decoding result dns rewrite result"

	for {
		key, err := parseKeyToken(dec)
		if err != nil {
			if err != io.EOF && !errors.Is(err, ErrEndOfToken) {
				l.logger.DebugContext(ctx, msgPrefix+"; token", slogutil.KeyError, err)
			}

			return
		}

		if key == "" {
			continue
		}

		l.decodeResultDNSRewriteResultKey(ctx, key, dec, ent)
	}
}

// translateResult converts some fields of the ent.Result to the format
// consistent with current implementation.
func translateResult(ent *logEntry) {
	res := &ent.Result
	if res.Reason != filtering.RewrittenAutoHosts || len(res.IPList) == 0 {
		return
	}

	if res.DNSRewriteResult == nil {
		res.DNSRewriteResult = &filtering.DNSRewriteResult{
			RCode: dns.RcodeSuccess,
		}
	}

	if res.DNSRewriteResult.Response == nil {
		res.DNSRewriteResult.Response = filtering.DNSRewriteResultResponse{}
	}

	resp := res.DNSRewriteResult.Response
	for _, ip := range res.IPList {
		qType := dns.TypeAAAA
		if ip.Is4() {
			qType = dns.TypeA
		}

		resp[qType] = append(resp[qType], ip)
	}

	res.IPList = nil
}

// ErrEndOfToken is an error returned by parse key token when the closing
// bracket is found.
const ErrEndOfToken errors.Error = "end of token"

// parseKeyToken parses the dec's token key.
func parseKeyToken(dec *json.Decoder) (key string, err error) {
	keyToken, err := dec.Token()
	if err != nil {
		return "", err
	}

	if d, ok := keyToken.(json.Delim); ok {
		if d == '}' {
			return "", ErrEndOfToken
		}

		return "", nil
	}

	key, ok := keyToken.(string)
	if !ok {
		return "", fmt.Errorf("keyToken is %T (%[1]v) and not string", keyToken)
	}

	return key, nil
}

// decodeResult decodes a token of "Result" type to logEntry struct.
func (l *queryLog) decodeResult(ctx context.Context, dec *json.Decoder, ent *logEntry) {
	const msgPrefix = "decoding result"

	defer translateResult(ent)

	for {
		key, err := parseKeyToken(dec)
		if err != nil {
			if err != io.EOF && !errors.Is(err, ErrEndOfToken) {
				l.logger.DebugContext(ctx, msgPrefix+"; token", slogutil.KeyError, err)
			}

			return
		}

		if key == "" {
			continue
		}

		ok := l.resultDecHandler(ctx, key, dec, ent)
		if ok {
			continue
		}

		handler, ok := resultHandlers[key]
		if !ok {
			continue
		}

		val, err := dec.Token()
		if err != nil {
			return
		}

		if err = handler(val, ent); err != nil {
			l.logger.DebugContext(ctx, msgPrefix+"; handler", slogutil.KeyError, err)

			return
		}
	}
}

// resultHandlers is the map of log entry decode handlers for various keys.
var resultHandlers = map[string]logEntryHandler{
	"IsFiltered": func(t json.Token, ent *logEntry) error {
		v, ok := t.(bool)
		if !ok {
			return nil
		}

		ent.Result.IsFiltered = v

		return nil
	},
	"Rule": func(t json.Token, ent *logEntry) error {
		s, ok := t.(string)
		if !ok {
			return nil
		}

		l := len(ent.Result.Rules)
		if l == 0 {
			ent.Result.Rules = []*filtering.ResultRule{{}}
			l++
		}

		ent.Result.Rules[l-1].Text = s

		return nil
	},
	"FilterID": func(t json.Token, ent *logEntry) error {
		n, ok := t.(json.Number)
		if !ok {
			return nil
		}

		id, err := n.Int64()
		if err != nil {
			return err
		}

		l := len(ent.Result.Rules)
		if l == 0 {
			ent.Result.Rules = []*filtering.ResultRule{{}}
			l++
		}

		ent.Result.Rules[l-1].FilterListID = rulelist.URLFilterID(id)

		return nil
	},
	"Reason": func(t json.Token, ent *logEntry) error {
		v, ok := t.(json.Number)
		if !ok {
			return nil
		}

		i, err := v.Int64()
		if err != nil {
			return err
		}

		ent.Result.Reason = filtering.Reason(i)

		return nil
	},
	"ServiceName": func(t json.Token, ent *logEntry) error {
		s, ok := t.(string)
		if !ok {
			return nil
		}

		ent.Result.ServiceName = s

		return nil
	},
	"CanonName": func(t json.Token, ent *logEntry) error {
		s, ok := t.(string)
		if !ok {
			return nil
		}

		ent.Result.CanonName = s

		return nil
	},
}

// resultDecHandlers calls a decode handler for key if there is one.
func (l *queryLog) resultDecHandler(
	ctx context.Context,
	name string,
	dec *json.Decoder,
	ent *logEntry,
) (ok bool) {
	ok = true
	switch name {
	case "ReverseHosts":
		l.decodeResultReverseHosts(ctx, dec, ent)
	case "IPList":
		l.decodeResultIPList(ctx, dec, ent)
	case "Rules":
		l.decodeResultRules(ctx, dec, ent)
	case "DNSRewriteResult":
		l.decodeResultDNSRewriteResult(ctx, dec, ent)
	default:
		ok = false
	}

	return ok
}

// decodeLogEntry decodes string str to logEntry ent.
func (l *queryLog) decodeLogEntry(ctx context.Context, ent *logEntry, str string) {
	const msgPrefix = "decoding log entry"

	dec := json.NewDecoder(strings.NewReader(str))
	dec.UseNumber()

	for {
		keyToken, err := dec.Token()
		if err != nil {
			if err != io.EOF {
				l.logger.DebugContext(ctx, msgPrefix+"; token", slogutil.KeyError, err)
			}

			return
		}

		if _, ok := keyToken.(json.Delim); ok {
			continue
		}

		key, ok := keyToken.(string)
		if !ok {
			err = fmt.Errorf("%s: keyToken is %T (%[2]v) and not string", msgPrefix, keyToken)
			l.logger.DebugContext(ctx, msgPrefix, slogutil.KeyError, err)

			return
		}

		if key == "Result" {
			l.decodeResult(ctx, dec, ent)

			continue
		}

		handler, ok := logEntryHandlers[key]
		if !ok {
			continue
		}

		val, err := dec.Token()
		if err != nil {
			return
		}

		if err = handler(val, ent); err != nil {
			l.logger.DebugContext(ctx, msgPrefix+"; handler", slogutil.KeyError, err)

			return
		}
	}
}

// newUnexpectedDelimiterError is a helper for creating informative errors.
func newUnexpectedDelimiterError(d json.Delim) (err error) {
	return fmt.Errorf("unexpected delimiter: %q", d)
}
