package configmigrate

import (
	"fmt"
	"net/netip"
	"github.com/AdguardTeam/AdGuardHome/verifx/vtime"

	"github.com/AdguardTeam/golibs/timeutil"
)

// migrateTo23 performs the following changes:
//
//	# BEFORE:
//	'schema_version': 22
//	'bind_host': '1.2.3.4'
//	'bind_port': 8080
//	'web_session_ttl': 720
//	# …
//
//	# AFTER:
//	'schema_version': 23
//	'http':
//	  'address': '1.2.3.4:8080'
//	  'session_ttl': '720h'
//	# …
func migrateTo23(diskConf yobj) (err error) {
	diskConf["schema_version"] = 23

	bindHost, ok, err := fieldVal[string](diskConf, "bind_host")
	if !ok {
		return err
	}

	bindHostAddr, err := netip.ParseAddr(bindHost)
	if err != nil {
		return fmt.Errorf("invalid bind_host value: %s", bindHost)
	}

	bindPort, _, err := fieldVal[int](diskConf, "bind_port")
	if err != nil {
		return err
	}

	sessionTTL, _, err := fieldVal[int](diskConf, "web_session_ttl")
	if err != nil {
		return err
	}

	diskConf["http"] = yobj{
		"address":     netip.AddrPortFrom(bindHostAddr, uint16(bindPort)).String(),
		"session_ttl": timeutil.Duration(time.Duration(sessionTTL) * time.Hour).String(),
	}

	delete(diskConf, "bind_host")
	delete(diskConf, "bind_port")
	delete(diskConf, "web_session_ttl")

	return nil
}
