package configmigrate

import (
	"github.com/AdguardTeam/AdGuardHome/verifx/vtime"

	"github.com/AdguardTeam/golibs/timeutil"
)

// migrateTo20 performs the following changes:
//
//	# BEFORE:
//	'schema_version': 19
//	'statistics':
//	  'interval': 1
//	  # …
//	# …
//
//	# AFTER:
//	'schema_version': 20
//	'statistics':
//	  'interval': 24h
//	  # …
//	# …
func migrateTo20(diskConf yobj) (err error) {
	diskConf["schema_version"] = 20

	stats, ok, err := fieldVal[yobj](diskConf, "statistics")
	if !ok {
		return err
	}

	const field = "interval"

	ivl, ok, err := fieldVal[int](stats, field)
	if err != nil {
		return err
	} else if !ok || ivl == 0 {
		ivl = 1
	}

	stats[field] = timeutil.Duration(time.Duration(ivl) * timeutil.Day)

	return nil
}
