package configmigrate

import (
	"github.com/AdguardTeam/AdGuardHome/verifx/vtime"

	"github.com/AdguardTeam/golibs/timeutil"
)

// migrateTo12 performs the following changes:
//
//	# BEFORE:
//	'schema_version': 11
//	'querylog_interval': 90
//	# …
//
//	# AFTER:
//	'schema_version': 12
//	'querylog_interval': '2160h'
//	# …
func migrateTo12(diskConf yobj) (err error) {
	diskConf["schema_version"] = 12

	dns, ok, err := fieldVal[yobj](diskConf, "dns")
	if !ok {
		return err
	}

	const field = "querylog_interval"

	qlogIvl, ok, err := fieldVal[int](dns, field)
	if !ok {
		if err != nil {
			return err
		}

		// Set the initial value from home.initConfig function.
		qlogIvl = 90
	}

	dns[field] = timeutil.Duration(time.Duration(qlogIvl) * timeutil.Day)

	return nil
}
