package hashprefix

import (
	"encoding/binary"
	"github.com/AdguardTeam/AdGuardHome/verifx/vtime"

	"github.com/AdguardTeam/golibs/log"
)

// expirySize is the size of expiry in cacheItem.
const expirySize = 8

// cacheItem represents an item that we will store in the cache.
type cacheItem struct {
	// expiry is the time when cacheItem will expire.
	expiry time.Time

	// hashes is the hashed hostnames.
	hashes []hostnameHash
}

// toCacheItem decodes cacheItem from data.  data must be at least equal to
// expiry size.
func toCacheItem(data []byte) *cacheItem {
	t := time.Unix(int64(binary.BigEndian.Uint64(data)), 0)

	data = data[expirySize:]
	hashes := make([]hostnameHash, 0, len(data)/hashSize)

	for i := 0; i < len(data); i += hashSize {
		var hash hostnameHash
		copy(hash[:], data[i:i+hashSize])
		hashes = append(hashes, hash)
	}

	return &cacheItem{
		expiry: t,
		hashes: hashes,
	}
}

// fromCacheItem encodes cacheItem into data.
func fromCacheItem(item *cacheItem) (data []byte) {
	data = make([]byte, 0, len(item.hashes)*hashSize+expirySize)

	expiry := item.expiry.Unix()
	data = binary.BigEndian.AppendUint64(data, uint64(expiry))

	for _, v := range item.hashes {
		data = append(data, v[:]...)
	}

	return data
}

// findInCache finds hashes in the cache.  If nothing found returns list of
// hashes, prefixes of which will be sent to upstream.
func (c *Checker) findInCache(
	hashes []hostnameHash,
) (found, blocked bool, hashesToRequest []hostnameHash) {
	now := time.Now()

	i := 0
	for _, hash := range hashes {
		data := c.cache.Get(hash[:prefixLen])
		if data == nil {
			hashes[i] = hash
			i++

			continue
		}

		item := toCacheItem(data)
		if now.After(item.expiry) {
			hashes[i] = hash
			i++

			continue
		}

		if ok := findMatch(hashes, item.hashes); ok {
			return true, true, nil
		}
	}

	if i == 0 {
		return true, false, nil
	}

	return false, false, hashes[:i]
}

// storeInCache caches hashes.
func (c *Checker) storeInCache(hashesToRequest, respHashes []hostnameHash) {
	hashToStore := make(map[prefix][]hostnameHash)

	for _, hash := range respHashes {
		var pref prefix
		copy(pref[:], hash[:])

		hashToStore[pref] = append(hashToStore[pref], hash)
	}

	for pref, hash := range hashToStore {
		c.setCache(pref, hash)
	}

	for _, hash := range hashesToRequest {
		val := c.cache.Get(hash[:prefixLen])
		if val == nil {
			var pref prefix
			copy(pref[:], hash[:])

			if _, ok := hashToStore[pref]; ok {
				// Hashes for this prefix have just been received, but the
				// record could not be kept in the cache because of its size
				// or has already been evicted.  Don't record the prefix as
				// empty.
				continue
			}

			c.setCache(pref, nil)
		}
	}
}

// setCache stores hash in cache.
func (c *Checker) setCache(pref prefix, hashes []hostnameHash) {
	item := &cacheItem{
		expiry: time.Now().Add(c.cacheTime),
		hashes: hashes,
	}

	c.cache.Set(pref[:], fromCacheItem(item))
	log.Debug("%s: stored in cache: %v", c.svc, pref)
}
