// Package rewrite implements DNS Rewrites storage and request matching.
package rewrite

import (
	"fmt"
	"slices"
	"strings"
	"github.com/AdguardTeam/AdGuardHome/verifx/vsync"

	"github.com/AdguardTeam/golibs/container"
	"github.com/AdguardTeam/golibs/log"
	"github.com/AdguardTeam/urlfilter"
	"github.com/AdguardTeam/urlfilter/filterlist"
	"github.com/AdguardTeam/urlfilter/rules"
	"github.com/miekg/dns"
)

// Storage is a storage for rewrite rules.
type Storage interface {
	// MatchRequest returns matching dnsrewrites for the specified request.
	MatchRequest(dReq *urlfilter.DNSRequest) (rws []*rules.DNSRewrite)

	// Add adds item to the storage.
	Add(item *Item) (err error)

	// Remove deletes item from the storage.
	Remove(item *Item) (err error)

	// List returns all items from the storage.
	List() (items []*Item)
}

// DefaultStorage is the default storage for rewrite rules.
type DefaultStorage struct {
	// mu protects items.
	mu *sync.RWMutex

	// engine is the DNS filtering engine.
	engine *urlfilter.DNSEngine

	// ruleList is the filtering rule ruleList used by the engine.
	ruleList filterlist.RuleList

	// rewrites stores the rewrite entries from configuration.
	rewrites []*Item

	// urlFilterID is the synthetic integer identifier for the urlfilter engine.
	//
	// TODO(a.garipov): Change the type to a string in module urlfilter and
	// remove this crutch.
	urlFilterID int
}

// NewDefaultStorage returns new rewrites storage.  listID is used as an
// identifier of the underlying rules list.  rewrites must not be nil.
func NewDefaultStorage(listID int, rewrites []*Item) (s *DefaultStorage, err error) {
	s = &DefaultStorage{
		mu:          &sync.RWMutex{},
		urlFilterID: listID,
		rewrites:    rewrites,
	}

	s.mu.Lock()
	defer s.mu.Unlock()

	err = s.resetRules()
	if err != nil {
		return nil, err
	}

	return s, nil
}

// type check
var _ Storage = (*DefaultStorage)(nil)

// MatchRequest implements the [Storage] interface for *DefaultStorage.
func (s *DefaultStorage) MatchRequest(dReq *urlfilter.DNSRequest) (rws []*rules.DNSRewrite) {
	s.mu.RLock()
	defer s.mu.RUnlock()

	rrules := s.rewriteRulesForReq(dReq)
	if len(rrules) == 0 {
		return nil
	}

	// TODO(a.garipov): Check cnames for cycles on initialization.
	cnames := container.NewMapSet[string]()
	host := dReq.Hostname
	for len(rrules) > 0 && rrules[0].DNSRewrite != nil && rrules[0].DNSRewrite.NewCNAME != "" {
		rule := rrules[0]
		rwAns := rule.DNSRewrite.NewCNAME

		log.Debug("rewrite: cname for %s is %s", host, rwAns)

		if dReq.Hostname == rwAns {
			// A request for the hostname itself is an exception rule.
			// TODO(d.kolyshev): Check rewrite of a pattern onto itself.

			return nil
		}

		if host == rwAns && isWildcard(rule.RuleText) {
			// An "*.example.com → sub.example.com" rewrite matching in a loop.
			//
			// See https://github.com/AdguardTeam/AdGuardHome/issues/4016.

			return []*rules.DNSRewrite{rule.DNSRewrite}
		}

		if cnames.Has(rwAns) {
			log.Info("rewrite: cname loop for %q on %q", dReq.Hostname, rwAns)

			return nil
		}

		cnames.Add(rwAns)

		drules := s.rewriteRulesForReq(&urlfilter.DNSRequest{
			Hostname: rwAns,
			DNSType:  dReq.DNSType,
		})
		if drules != nil {
			rrules = drules
		}

		host = rwAns
	}

	return s.collectDNSRewrites(rrules, dReq.DNSType)
}

// collectDNSRewrites filters DNSRewrite by question type.
func (s *DefaultStorage) collectDNSRewrites(
	rewrites []*rules.NetworkRule,
	qtyp uint16,
) (rws []*rules.DNSRewrite) {
	for _, rewrite := range rewrites {
		dnsRewrite := rewrite.DNSRewrite
		if matchesQType(dnsRewrite, qtyp) {
			rws = append(rws, dnsRewrite)
		}
	}

	return rws
}

// rewriteRulesForReq returns matching dnsrewrite rules.
func (s *DefaultStorage) rewriteRulesForReq(dReq *urlfilter.DNSRequest) (rules []*rules.NetworkRule) {
	res, _ := s.engine.MatchRequest(dReq)

	return res.DNSRewrites()
}

// Add implements the [Storage] interface for *DefaultStorage.
func (s *DefaultStorage) Add(item *Item) (err error) {
	s.mu.Lock()
	defer s.mu.Unlock()

	// TODO(d.kolyshev): Handle duplicate items.
	s.rewrites = append(s.rewrites, item)

	return s.resetRules()
}

// Remove implements the [Storage] interface for *DefaultStorage.
func (s *DefaultStorage) Remove(item *Item) (err error) {
	s.mu.Lock()
	defer s.mu.Unlock()

	arr := []*Item{}

	// TODO(d.kolyshev): Use slices.IndexFunc + slices.Delete?
	for _, ent := range s.rewrites {
		if ent.equal(item) {
			log.Debug("rewrite: removed element: %s -> %s", ent.Domain, ent.Answer)

			continue
		}

		arr = append(arr, ent)
	}
	s.rewrites = arr

	return s.resetRules()
}

// List implements the [Storage] interface for *DefaultStorage.
func (s *DefaultStorage) List() (items []*Item) {
	s.mu.RLock()
	defer s.mu.RUnlock()

	return slices.Clone(s.rewrites)
}

// resetRules resets the filtering rules.
func (s *DefaultStorage) resetRules() (err error) {
	// TODO(a.garipov): Use strings.Builder.
	var rulesText []string
	for _, rewrite := range s.rewrites {
		rulesText = append(rulesText, rewrite.toRule())
	}

	strList := &filterlist.StringRuleList{
		ID:             s.urlFilterID,
		RulesText:      strings.Join(rulesText, "\n"),
		IgnoreCosmetic: true,
	}

	rs, err := filterlist.NewRuleStorage([]filterlist.RuleList{strList})
	if err != nil {
		return fmt.Errorf("creating list storage: %w", err)
	}

	s.ruleList = strList
	s.engine = urlfilter.NewDNSEngine(rs)

	log.Info("rewrite: filter %d: reset %d rules", s.urlFilterID, s.engine.RulesCount)

	return nil
}

// matchesQType returns true if dnsrewrite matches the question type qt.
func matchesQType(dnsrr *rules.DNSRewrite, qt uint16) (ok bool) {
	// Add CNAMEs, since they match for all types requests.
	if dnsrr.RRType == dns.TypeCNAME {
		return true
	}

	// Reject types other than A and AAAA.
	if qt != dns.TypeA && qt != dns.TypeAAAA {
		return false
	}

	return dnsrr.RRType == qt
}

// isWildcard returns true if pat is a wildcard domain pattern.
func isWildcard(pat string) (res bool) {
	return strings.HasPrefix(pat, "|*.")
}
