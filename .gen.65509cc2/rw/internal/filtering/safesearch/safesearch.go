// Package safesearch implements safesearch host matching.
package safesearch

import (
	"bytes"
	"context"
	"encoding/binary"
	"encoding/gob"
	"fmt"
	"log/slog"
	"net/netip"
	"strings"
	"github.com/AdguardTeam/AdGuardHome/verifx/vsync"
	"github.com/AdguardTeam/AdGuardHome/verifx/vtime"

	"github.com/AdguardTeam/AdGuardHome/internal/filtering"
	"github.com/AdguardTeam/AdGuardHome/internal/filtering/rulelist"
	"github.com/AdguardTeam/golibs/cache"
	"github.com/AdguardTeam/golibs/logutil/slogutil"
	"github.com/AdguardTeam/urlfilter"
	"github.com/AdguardTeam/urlfilter/filterlist"
	"github.com/AdguardTeam/urlfilter/rules"
	"github.com/c2h5oh/datasize"
	"github.com/miekg/dns"
)

// Attribute keys and values for logging.
const (
	LogPrefix    = "safesearch"
	LogKeyClient = "client"
)

// Service is a enum with service names used as search providers.
type Service string

// Service enum members.
const (
	Bing       Service = "bing"
	DuckDuckGo Service = "duckduckgo"
	Ecosia     Service = "ecosia"
	Google     Service = "google"
	Pixabay    Service = "pixabay"
	Yandex     Service = "yandex"
	YouTube    Service = "youtube"
)

// isServiceProtected returns true if the service safe search is active.
func isServiceProtected(s filtering.SafeSearchConfig, service Service) (ok bool) {
	switch service {
	case Bing:
		return s.Bing
	case DuckDuckGo:
		return s.DuckDuckGo
	case Ecosia:
		return s.Ecosia
	case Google:
		return s.Google
	case Pixabay:
		return s.Pixabay
	case Yandex:
		return s.Yandex
	case YouTube:
		return s.YouTube
	default:
		panic(fmt.Errorf("safesearch: invalid sources: not found service %q", service))
	}
}

// DefaultConfig is the configuration structure for [Default].
type DefaultConfig struct {
	// Logger is used for logging the operation of the safe search filter.
	Logger *slog.Logger

	// ClientName is the name of the persistent client associated with the safe
	// search filter, if there is one.
	ClientName string

	// CacheSize is the size of the filter results cache.
	CacheSize uint

	// CacheTTL is the Time to Live duration for cached items.
	CacheTTL time.Duration

	// ServicesConfig contains safe search settings for services.  It must not
	// be nil.
	ServicesConfig filtering.SafeSearchConfig
}

// Default is the default safe search filter that uses filtering rules with the
// dnsrewrite modifier.
type Default struct {
	// logger is used for logging the operation of the safe search filter.
	logger *slog.Logger

	// mu protects engine.
	mu *sync.RWMutex

	// engine is the filtering engine that contains the DNS rewrite rules.
	// engine may be nil, which means that this safe search filter is disabled.
	engine *urlfilter.DNSEngine

	// cache stores safe search filtering results.
	cache cache.Cache

	// cacheTTL is the Time to Live duration for cached items.
	cacheTTL time.Duration
}

// NewDefault returns an initialized default safe search filter.  ctx is used
// to log the initial refresh.
func NewDefault(ctx context.Context, conf *DefaultConfig) (ss *Default, err error) {
	ss = &Default{
		logger: conf.Logger,
		mu:     &sync.RWMutex{},
		cache: cache.New(cache.Config{
			EnableLRU: true,
			MaxSize:   conf.CacheSize,
		}),
		cacheTTL: conf.CacheTTL,
	}

	// TODO(s.chzhen):  Move to [Default.InitialRefresh].
	err = ss.resetEngine(ctx, rulelist.URLFilterIDSafeSearch, conf.ServicesConfig)
	if err != nil {
		// Don't wrap the error, because it's informative enough as is.
		return nil, err
	}

	return ss, nil
}

// resetEngine creates new engine for provided safe search configuration and
// sets it in ss.
func (ss *Default) resetEngine(
	ctx context.Context,
	listID int,
	conf filtering.SafeSearchConfig,
) (err error) {
	if !conf.Enabled {
		ss.logger.DebugContext(ctx, "disabled")

		return nil
	}

	var sb strings.Builder
	for service, serviceRules := range safeSearchRules {
		if isServiceProtected(conf, service) {
			sb.WriteString(serviceRules)
		}
	}

	strList := &filterlist.StringRuleList{
		ID:             listID,
		RulesText:      sb.String(),
		IgnoreCosmetic: true,
	}

	rs, err := filterlist.NewRuleStorage([]filterlist.RuleList{strList})
	if err != nil {
		return fmt.Errorf("creating rule storage: %w", err)
	}

	ss.engine = urlfilter.NewDNSEngine(rs)

	ss.logger.InfoContext(ctx, "reset rules", "count", ss.engine.RulesCount)

	return nil
}

// type check
var _ filtering.SafeSearch = (*Default)(nil)

// CheckHost implements the [filtering.SafeSearch] interface for *Default.
func (ss *Default) CheckHost(
	ctx context.Context,
	host string,
	qtype rules.RRType,
) (res filtering.Result, err error) {
	start := time.Now()
	defer func() {
		ss.logger.DebugContext(ctx, "lookup finished", "host", host, "elapsed", time.Since(start))
	}()

	switch qtype {
	case dns.TypeA, dns.TypeAAAA, dns.TypeHTTPS:
		// Go on.
	default:
		return filtering.Result{}, nil
	}

	// Check cache. Return cached result if it was found
	cachedValue, isFound := ss.getCachedResult(ctx, host, qtype)
	if isFound {
		ss.logger.DebugContext(ctx, "found in cache", "host", host)

		return cachedValue, nil
	}

	rewrite := ss.searchHost(host, qtype)
	if rewrite == nil {
		return filtering.Result{}, nil
	}

	fltRes, err := ss.newResult(rewrite, qtype)
	if err != nil {
		ss.logger.ErrorContext(ctx, "looking up addresses", "host", host, slogutil.KeyError, err)

		return filtering.Result{}, err
	}

	res = *fltRes

	// TODO(a.garipov): Consider switch back to resolving CNAME records IPs and
	// saving results to cache.
	ss.setCacheResult(ctx, host, qtype, res)

	return res, nil
}

// searchHost looks up DNS rewrites in the internal DNS filtering engine.
func (ss *Default) searchHost(host string, qtype rules.RRType) (res *rules.DNSRewrite) {
	ss.mu.RLock()
	defer ss.mu.RUnlock()

	if ss.engine == nil {
		return nil
	}

	r, _ := ss.engine.MatchRequest(&urlfilter.DNSRequest{
		Hostname: strings.ToLower(host),
		DNSType:  qtype,
	})

	rewritesRules := r.DNSRewrites()
	if len(rewritesRules) > 0 {
		return rewritesRules[0].DNSRewrite
	}

	return nil
}

// newResult creates Result object from rewrite rule.  qtype must be either
// [dns.TypeA] or [dns.TypeAAAA], or [dns.TypeHTTPS].  If err is nil, res is
// never nil, so that the empty result is converted into a NODATA response.
func (ss *Default) newResult(
	rewrite *rules.DNSRewrite,
	qtype rules.RRType,
) (res *filtering.Result, err error) {
	res = &filtering.Result{
		Reason:     filtering.FilteredSafeSearch,
		IsFiltered: true,
	}

	if rewrite.RRType == qtype {
		ip, ok := rewrite.Value.(netip.Addr)
		if !ok || ip == (netip.Addr{}) {
			return nil, fmt.Errorf("expected ip rewrite value, got %T(%[1]v)", rewrite.Value)
		}

		res.Rules = []*filtering.ResultRule{{
			FilterListID: rulelist.URLFilterIDSafeSearch,
			IP:           ip,
		}}

		return res, nil
	}

	res.CanonName = rewrite.NewCNAME

	return res, nil
}

// setCacheResult stores data in cache for host.  qtype is expected to be either
// [dns.TypeA] or [dns.TypeAAAA].
func (ss *Default) setCacheResult(
	ctx context.Context,
	host string,
	qtype rules.RRType,
	res filtering.Result,
) {
	expire := uint32(time.Now().Add(ss.cacheTTL).Unix())
	exp := make([]byte, 4)
	binary.BigEndian.PutUint32(exp, expire)
	buf := bytes.NewBuffer(exp)

	err := gob.NewEncoder(buf).Encode(res)
	if err != nil {
		ss.logger.ErrorContext(ctx, "cache encoding", slogutil.KeyError, err)

		return
	}

	val := buf.Bytes()
	_ = ss.cache.Set([]byte(dns.Type(qtype).String()+" "+host), val)

	ss.logger.DebugContext(
		ctx,
		"stored in cache",
		"host", host,
		"entry_size", datasize.ByteSize(len(val)),
	)
}

// getCachedResult returns stored data from cache for host.  qtype is expected
// to be either [dns.TypeA] or [dns.TypeAAAA].
func (ss *Default) getCachedResult(
	ctx context.Context,
	host string,
	qtype rules.RRType,
) (res filtering.Result, ok bool) {
	res = filtering.Result{}

	data := ss.cache.Get([]byte(dns.Type(qtype).String() + " " + host))
	if data == nil {
		return res, false
	}

	exp := binary.BigEndian.Uint32(data[:4])
	if exp <= uint32(time.Now().Unix()) {
		ss.cache.Del([]byte(host))

		return res, false
	}

	buf := bytes.NewBuffer(data[4:])

	err := gob.NewDecoder(buf).Decode(&res)
	if err != nil {
		ss.logger.ErrorContext(ctx, "cache decoding", slogutil.KeyError, err)

		return filtering.Result{}, false
	}

	return res, true
}

// Update implements the [filtering.SafeSearch] interface for *Default.  Update
// ignores the CustomResolver and Enabled fields.
func (ss *Default) Update(ctx context.Context, conf filtering.SafeSearchConfig) (err error) {
	ss.mu.Lock()
	defer ss.mu.Unlock()

	err = ss.resetEngine(ctx, rulelist.URLFilterIDSafeSearch, conf)
	if err != nil {
		// Don't wrap the error, because it's informative enough as is.
		return err
	}

	ss.cache.Clear()

	return nil
}
