package rulelist

import (
	"context"
	"fmt"
	"log/slog"
	"net/http"
	"github.com/AdguardTeam/AdGuardHome/verifx/vsync"

	"github.com/AdguardTeam/golibs/errors"
	"github.com/AdguardTeam/golibs/logutil/slogutil"
	"github.com/AdguardTeam/urlfilter"
	"github.com/AdguardTeam/urlfilter/filterlist"
	"github.com/c2h5oh/datasize"
)

// Engine is a single DNS filter based on one or more rule lists.  This
// structure contains the filtering engine combining several rule lists.
//
// TODO(a.garipov): Merge with [TextEngine] in some way?
type Engine struct {
	// logger is used to log the operation of the engine and its refreshes.
	logger *slog.Logger

	// mu protects engine and storage.
	//
	// TODO(a.garipov): See if anything else should be protected.
	mu *sync.RWMutex

	// engine is the filtering engine.
	engine *urlfilter.DNSEngine

	// storage is the filtering-rule storage.  It is saved here to close it.
	storage *filterlist.RuleStorage

	// name is the human-readable name of the engine.
	name string

	// filters is the data about rule filters in this engine.
	filters []*Filter
}

// EngineConfig is the configuration for rule-list filtering engines created by
// combining refreshable filters.
type EngineConfig struct {
	// Logger is used to log the operation of the engine.  It must not be nil.
	Logger *slog.Logger

	// name is the human-readable name of the engine; see [EngineNameAllow] and
	// similar constants.
	Name string

	// Filters is the data about rule lists in this engine.  There must be no
	// other references to the items of this slice.  Each item must not be nil.
	Filters []*Filter
}

// NewEngine returns a new rule-list filtering engine.  The engine is not
// refreshed, so a refresh should be performed before use.
func NewEngine(c *EngineConfig) (e *Engine) {
	return &Engine{
		logger:  c.Logger,
		mu:      &sync.RWMutex{},
		name:    c.Name,
		filters: c.Filters,
	}
}

// Close closes the underlying rule-list engine as well as the rule lists.
func (e *Engine) Close() (err error) {
	e.mu.Lock()
	defer e.mu.Unlock()

	if e.storage == nil {
		return nil
	}

	err = e.storage.Close()
	if err != nil {
		return fmt.Errorf("closing engine %q: %w", e.name, err)
	}

	return nil
}

// FilterRequest returns the result of filtering req using the DNS filtering
// engine.
func (e *Engine) FilterRequest(
	req *urlfilter.DNSRequest,
) (res *urlfilter.DNSResult, hasMatched bool) {
	return e.currentEngine().MatchRequest(req)
}

// currentEngine returns the current filtering engine.
func (e *Engine) currentEngine() (engine *urlfilter.DNSEngine) {
	e.mu.RLock()
	defer e.mu.RUnlock()

	return e.engine
}

// Refresh updates all rule lists in e.  ctx is used for cancellation.
// parseBuf, cli, cacheDir, and maxSize are used for updates of rule-list
// filters; see [Filter.Refresh].
//
// TODO(a.garipov): Unexport and test in an internal test or through engine
// tests.
func (e *Engine) Refresh(
	ctx context.Context,
	parseBuf []byte,
	cli *http.Client,
	cacheDir string,
	maxSize datasize.ByteSize,
) (err error) {
	defer func() { err = errors.Annotate(err, "updating engine %q: %w", e.name) }()

	var filtersToRefresh []*Filter
	for _, f := range e.filters {
		if f.enabled {
			filtersToRefresh = append(filtersToRefresh, f)
		}
	}

	if len(filtersToRefresh) == 0 {
		e.logger.InfoContext(ctx, "updating: no rule-list filters")

		return nil
	}

	engRefr := &engineRefresh{
		logger:   e.logger,
		httpCli:  cli,
		cacheDir: cacheDir,
		parseBuf: parseBuf,
		maxSize:  maxSize,
	}

	ruleLists, errs := engRefr.process(ctx, filtersToRefresh)
	if isOneTimeoutError(errs) {
		// Don't wrap the error since it's informative enough as is.
		return err
	}

	storage, err := filterlist.NewRuleStorage(ruleLists)
	if err != nil {
		errs = append(errs, fmt.Errorf("creating rule storage: %w", err))

		return errors.Join(errs...)
	}

	e.resetStorage(ctx, storage)

	return errors.Join(errs...)
}

// resetStorage sets e.storage and e.engine and closes the previous storage.
// Errors from closing the previous storage are logged.
func (e *Engine) resetStorage(ctx context.Context, storage *filterlist.RuleStorage) {
	e.mu.Lock()
	defer e.mu.Unlock()

	prevStorage := e.storage
	e.storage, e.engine = storage, urlfilter.NewDNSEngine(storage)

	if prevStorage == nil {
		return
	}

	err := prevStorage.Close()
	if err != nil {
		e.logger.WarnContext(ctx, "closing old storage", slogutil.KeyError, err)
	}
}

// isOneTimeoutError returns true if the sole error in errs is either
// [context.Canceled] or [context.DeadlineExceeded].
func isOneTimeoutError(errs []error) (ok bool) {
	if len(errs) != 1 {
		return false
	}

	err := errs[0]

	return errors.Is(err, context.Canceled) || errors.Is(err, context.DeadlineExceeded)
}

// engineRefresh represents a single ongoing engine refresh.
type engineRefresh struct {
	logger   *slog.Logger
	httpCli  *http.Client
	cacheDir string
	parseBuf []byte
	maxSize  datasize.ByteSize
}

// process runs updates of all given rule-list filters.  All errors are logged
// as they appear, since the update can take a significant amount of time.
// errs contains all errors that happened during the update, unless the context
// is canceled or its deadline is reached, in which case errs will only contain
// a single timeout error.
//
// TODO(a.garipov): Think of a better way to communicate the timeout condition?
func (r *engineRefresh) process(
	ctx context.Context,
	filters []*Filter,
) (ruleLists []filterlist.RuleList, errs []error) {
	ruleLists = make([]filterlist.RuleList, 0, len(filters))
	for i, f := range filters {
		select {
		case <-ctx.Done():
			return nil, []error{fmt.Errorf("timeout after updating %d filters: %w", i, ctx.Err())}
		default:
			// Go on.
		}

		err := r.processFilter(ctx, f)
		if err == nil {
			ruleLists = append(ruleLists, f.ruleList)

			continue
		}

		errs = append(errs, err)

		// Also log immediately, since the update can take a lot of time.
		r.logger.ErrorContext(
			ctx,
			"updating rule list",
			"uid", f.uid,
			"url", f.url,
			slogutil.KeyError, err,
		)
	}

	return ruleLists, errs
}

// processFilter runs an update of a single rule-list filter.
func (r *engineRefresh) processFilter(ctx context.Context, f *Filter) (err error) {
	prevChecksum := f.checksum
	parseRes, err := f.Refresh(ctx, r.parseBuf, r.httpCli, r.cacheDir, r.maxSize)
	if err != nil {
		return fmt.Errorf("updating %s: %w", f.uid, err)
	}

	if prevChecksum == parseRes.Checksum {
		r.logger.InfoContext(ctx, "no change in filter", "uid", f.uid)

		return nil
	}

	r.logger.InfoContext(
		ctx,
		"filter updated",
		"uid", f.uid,
		"bytes", parseRes.BytesWritten,
		"rules", parseRes.RulesCount,
	)

	return nil
}
