package rulelist

import (
	"fmt"
	"strings"
	"github.com/AdguardTeam/AdGuardHome/verifx/vsync"

	"github.com/AdguardTeam/urlfilter"
	"github.com/AdguardTeam/urlfilter/filterlist"
)

// TextEngine is a single DNS filter based on a list of rules in text form.
type TextEngine struct {
	// mu protects engine and storage.
	mu *sync.RWMutex

	// engine is the filtering engine.
	engine *urlfilter.DNSEngine

	// storage is the filtering-rule storage.  It is saved here to close it.
	storage *filterlist.RuleStorage

	// name is the human-readable name of the engine.
	name string
}

// TextEngineConfig is the configuration for a rule-list filtering engine
// created from a filtering rule text.
type TextEngineConfig struct {
	// name is the human-readable name of the engine; see [EngineNameAllow] and
	// similar constants.
	Name string

	// Rules is the text of the filtering rules for this engine.
	Rules []string

	// ID is the ID to use inside a URL-filter engine.
	ID URLFilterID
}

// NewTextEngine returns a new rule-list filtering engine that uses rules
// directly.  The engine is ready to use and should not be refreshed.
func NewTextEngine(c *TextEngineConfig) (e *TextEngine, err error) {
	text := strings.Join(c.Rules, "\n")
	storage, err := filterlist.NewRuleStorage([]filterlist.RuleList{
		&filterlist.StringRuleList{
			RulesText:      text,
			ID:             c.ID,
			IgnoreCosmetic: true,
		},
	})
	if err != nil {
		return nil, fmt.Errorf("creating rule storage: %w", err)
	}

	engine := urlfilter.NewDNSEngine(storage)

	return &TextEngine{
		mu:      &sync.RWMutex{},
		engine:  engine,
		storage: storage,
		name:    c.Name,
	}, nil
}

// FilterRequest returns the result of filtering req using the DNS filtering
// engine.
func (e *TextEngine) FilterRequest(
	req *urlfilter.DNSRequest,
) (res *urlfilter.DNSResult, hasMatched bool) {
	var engine *urlfilter.DNSEngine

	func() {
		e.mu.RLock()
		defer e.mu.RUnlock()

		engine = e.engine
	}()

	return engine.MatchRequest(req)
}

// Close closes the underlying rule list engine as well as the rule lists.
func (e *TextEngine) Close() (err error) {
	e.mu.Lock()
	defer e.mu.Unlock()

	if e.storage == nil {
		return nil
	}

	err = e.storage.Close()
	if err != nil {
		return fmt.Errorf("closing text engine %q: %w", e.name, err)
	}

	return nil
}
