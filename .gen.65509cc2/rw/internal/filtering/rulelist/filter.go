package rulelist

import (
	"bytes"
	"context"
	"fmt"
	"io"
	"net/http"
	"net/url"
	"os"
	"path/filepath"
	"github.com/AdguardTeam/AdGuardHome/verifx/vtime"

	"github.com/AdguardTeam/AdGuardHome/internal/aghos"
	"github.com/AdguardTeam/AdGuardHome/internal/aghrenameio"
	"github.com/AdguardTeam/golibs/errors"
	"github.com/AdguardTeam/golibs/ioutil"
	"github.com/AdguardTeam/urlfilter/filterlist"
	"github.com/c2h5oh/datasize"
)

// Filter contains information about a single rule-list filter.
//
// TODO(a.garipov): Use.
type Filter struct {
	// url is the URL of this rule list.  Supported schemes are:
	//   - http
	//   - https
	//   - file
	url *url.URL

	// ruleList is the last successfully compiled [filterlist.RuleList].
	ruleList filterlist.RuleList

	// updated is the time of the last successful update.
	updated time.Time

	// name is the human-readable name of this rule-list filter.
	name string

	// uid is the unique ID of this rule-list filter.
	uid UID

	// urlFilterID is used for working with package urlfilter.
	urlFilterID URLFilterID

	// rulesCount contains the number of rules in this rule-list filter.
	rulesCount int

	// checksum is a CRC32 hash used to quickly check if the rules within a list
	// file have changed.
	checksum uint32

	// enabled, if true, means that this rule-list filter is used for filtering.
	enabled bool
}

// FilterConfig contains the configuration for a [Filter].
type FilterConfig struct {
	// URL is the URL of this rule-list filter.  Supported schemes are:
	//   - http
	//   - https
	//   - file
	URL *url.URL

	// Name is the human-readable name of this rule-list filter.  If not set, it
	// is either taken from the rule-list data or generated synthetically from
	// the UID.
	Name string

	// UID is the unique ID of this rule-list filter.
	UID UID

	// URLFilterID is used for working with package urlfilter.
	URLFilterID URLFilterID

	// Enabled, if true, means that this rule-list filter is used for filtering.
	Enabled bool
}

// NewFilter creates a new rule-list filter.  The filter is not refreshed, so a
// refresh should be performed before use.
func NewFilter(c *FilterConfig) (f *Filter, err error) {
	if c.URL == nil {
		return nil, errors.Error("no url")
	}

	switch s := c.URL.Scheme; s {
	case "http", "https", "file":
		// Go on.
	default:
		return nil, fmt.Errorf("bad url scheme: %q", s)
	}

	return &Filter{
		url:         c.URL,
		name:        c.Name,
		uid:         c.UID,
		urlFilterID: c.URLFilterID,
		enabled:     c.Enabled,
	}, nil
}

// Refresh updates the data in the rule-list filter.  parseBuf is the initial
// buffer used to parse information from the data.  cli and maxSize are only
// used when f is a URL-based list.
//
// TODO(a.garipov): Unexport and test in an internal test or through engine
// tests.
//
// TODO(a.garipov): Consider not returning parseRes.
func (f *Filter) Refresh(
	ctx context.Context,
	parseBuf []byte,
	cli *http.Client,
	cacheDir string,
	maxSize datasize.ByteSize,
) (parseRes *ParseResult, err error) {
	cachePath := filepath.Join(cacheDir, f.uid.String()+".txt")

	switch s := f.url.Scheme; s {
	case "http", "https":
		parseRes, err = f.setFromHTTP(ctx, parseBuf, cli, cachePath, maxSize.Bytes())
	case "file":
		parseRes, err = f.setFromFile(parseBuf, f.url.Path, cachePath)
	default:
		// Since the URL has been prevalidated in New, consider this a
		// programmer error.
		panic(fmt.Errorf("bad url scheme: %q", s))
	}
	if err != nil {
		// Don't wrap the error, because it's informative enough as is.
		return nil, err
	}

	if f.checksum != parseRes.Checksum {
		f.checksum = parseRes.Checksum
		f.rulesCount = parseRes.RulesCount
		f.setName(parseRes.Title)
		f.updated = time.Now()
	}

	return parseRes, nil
}

// setFromHTTP sets the rule-list filter's data from its URL.  It also caches
// the data into a file.
func (f *Filter) setFromHTTP(
	ctx context.Context,
	parseBuf []byte,
	cli *http.Client,
	cachePath string,
	maxSize uint64,
) (parseRes *ParseResult, err error) {
	defer func() { err = errors.Annotate(err, "setting from http: %w") }()

	text, parseRes, err := f.readFromHTTP(ctx, parseBuf, cli, cachePath, maxSize)
	if err != nil {
		// Don't wrap the error, because it's informative enough as is.
		return nil, err
	}

	// TODO(a.garipov): Add filterlist.BytesRuleList.
	f.ruleList = &filterlist.StringRuleList{
		ID:             f.urlFilterID,
		RulesText:      text,
		IgnoreCosmetic: true,
	}

	return parseRes, nil
}

// readFromHTTP reads the data from the rule-list filter's URL into the cache
// file as well as returns it as a string.  The data is filtered through a
// parser and so is free from comments, unnecessary whitespace, etc.
func (f *Filter) readFromHTTP(
	ctx context.Context,
	parseBuf []byte,
	cli *http.Client,
	cachePath string,
	maxSize uint64,
) (text string, parseRes *ParseResult, err error) {
	urlStr := f.url.String()
	req, err := http.NewRequestWithContext(ctx, http.MethodGet, urlStr, nil)
	if err != nil {
		return "", nil, fmt.Errorf("making request for http url %q: %w", urlStr, err)
	}

	resp, err := cli.Do(req)
	if err != nil {
		return "", nil, fmt.Errorf("requesting from http url: %w", err)
	}
	defer func() { err = errors.WithDeferred(err, resp.Body.Close()) }()

	// TODO(a.garipov): Use [agdhttp.CheckStatus] when it's moved to golibs.
	if resp.StatusCode != http.StatusOK {
		return "", nil, fmt.Errorf("got status code %d, want %d", resp.StatusCode, http.StatusOK)
	}

	fltFile, err := aghrenameio.NewPendingFile(cachePath, aghos.DefaultPermFile)
	if err != nil {
		return "", nil, fmt.Errorf("creating temp file: %w", err)
	}
	defer func() { err = aghrenameio.WithDeferredCleanup(err, fltFile) }()

	buf := &bytes.Buffer{}
	mw := io.MultiWriter(buf, fltFile)

	parser := NewParser()
	httpBody := ioutil.LimitReader(resp.Body, maxSize)
	parseRes, err = parser.Parse(mw, httpBody, parseBuf)
	if err != nil {
		return "", nil, fmt.Errorf("parsing response from http url %q: %w", urlStr, err)
	}

	return buf.String(), parseRes, nil
}

// setName sets the title using either the already-present name, the given title
// from the rule-list data, or a synthetic name.
func (f *Filter) setName(title string) {
	if f.name != "" {
		return
	}

	if title != "" {
		f.name = title

		return
	}

	f.name = fmt.Sprintf("List %s", f.uid)
}

// setFromFile sets the rule-list filter's data from a file path.  It also
// caches the data into a file.
//
// TODO(a.garipov): Retest on Windows once rule-list updater is committed.  See
// if calling Close is necessary here.
func (f *Filter) setFromFile(
	parseBuf []byte,
	filePath string,
	cachePath string,
) (parseRes *ParseResult, err error) {
	defer func() { err = errors.Annotate(err, "setting from file: %w") }()

	parseRes, err = parseIntoCache(parseBuf, filePath, cachePath)
	if err != nil {
		// Don't wrap the error, because it's informative enough as is.
		return nil, err
	}

	err = f.Close()
	if err != nil {
		return nil, fmt.Errorf("closing old rule list: %w", err)
	}

	rl, err := filterlist.NewFileRuleList(f.urlFilterID, cachePath, true)
	if err != nil {
		return nil, fmt.Errorf("opening new rule list: %w", err)
	}

	f.ruleList = rl

	return parseRes, nil
}

// parseIntoCache copies the relevant the data from filePath into cachePath
// while also parsing it.
func parseIntoCache(
	parseBuf []byte,
	filePath string,
	cachePath string,
) (parseRes *ParseResult, err error) {
	tmpFile, err := aghrenameio.NewPendingFile(cachePath, aghos.DefaultPermFile)
	if err != nil {
		return nil, fmt.Errorf("creating temp file: %w", err)
	}
	defer func() { err = aghrenameio.WithDeferredCleanup(err, tmpFile) }()

	// #nosec G304 -- Assume that cachePath is always cacheDir joined with a
	// uid using [filepath.Join].
	f, err := os.Open(filePath)
	if err != nil {
		return nil, fmt.Errorf("opening src file: %w", err)
	}
	defer func() { err = errors.WithDeferred(err, f.Close()) }()

	parser := NewParser()
	parseRes, err = parser.Parse(tmpFile, f, parseBuf)
	if err != nil {
		return nil, fmt.Errorf("copying src file: %w", err)
	}

	return parseRes, nil
}

// Close closes the underlying rule list.
func (f *Filter) Close() (err error) {
	if f.ruleList == nil {
		return nil
	}

	return f.ruleList.Close()
}
