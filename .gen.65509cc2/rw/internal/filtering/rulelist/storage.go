package rulelist

import (
	"context"
	"fmt"
	"log/slog"
	"net/http"
	"github.com/AdguardTeam/AdGuardHome/verifx/vsync"

	"github.com/AdguardTeam/golibs/errors"
	"github.com/c2h5oh/datasize"
)

// Storage contains the main filtering engines, including the allowlist, the
// blocklist, and the user's custom filtering rules.
type Storage struct {
	// refreshMu makes sure that only one update takes place at a time.
	refreshMu *sync.Mutex

	allow    *Engine
	block    *Engine
	custom   *TextEngine
	httpCli  *http.Client
	cacheDir string
	parseBuf []byte
	maxSize  datasize.ByteSize
}

// StorageConfig is the configuration for the filtering-engine storage.
type StorageConfig struct {
	// Logger is used to log the operation of the storage.  It must not be nil.
	Logger *slog.Logger

	// HTTPClient is the HTTP client used to perform updates of rule lists.
	// It must not be nil.
	HTTPClient *http.Client

	// CacheDir is the path to the directory used to cache rule-list files.
	// It must be set.
	CacheDir string

	// AllowFilters are the filtering-rule lists used to exclude domain names
	// from the filtering.  Each item must not be nil.
	AllowFilters []*Filter

	// BlockFilters are the filtering-rule lists used to block domain names.
	// Each item must not be nil.
	BlockFilters []*Filter

	// CustomRules contains custom rules of the user.  They have priority over
	// both allow- and blacklist rules.
	CustomRules []string

	// MaxRuleListTextSize is the maximum size of a rule-list file.  It must be
	// greater than zero.
	MaxRuleListTextSize datasize.ByteSize
}

// NewStorage creates a new filtering-engine storage.  The engines are not
// refreshed, so a refresh should be performed before use.
func NewStorage(c *StorageConfig) (s *Storage, err error) {
	custom, err := NewTextEngine(&TextEngineConfig{
		Name:  EngineNameCustom,
		Rules: c.CustomRules,
		ID:    URLFilterIDCustom,
	})
	if err != nil {
		return nil, fmt.Errorf("creating custom engine: %w", err)
	}

	return &Storage{
		refreshMu: &sync.Mutex{},
		allow: NewEngine(&EngineConfig{
			Logger:  c.Logger.With("engine", EngineNameAllow),
			Name:    EngineNameAllow,
			Filters: c.AllowFilters,
		}),
		block: NewEngine(&EngineConfig{
			Logger:  c.Logger.With("engine", EngineNameBlock),
			Name:    EngineNameBlock,
			Filters: c.BlockFilters,
		}),
		custom:   custom,
		httpCli:  c.HTTPClient,
		cacheDir: c.CacheDir,
		parseBuf: make([]byte, DefaultRuleBufSize),
		maxSize:  c.MaxRuleListTextSize,
	}, nil
}

// Close closes the underlying rule-list engines.
func (s *Storage) Close() (err error) {
	// Don't wrap the errors since they are informative enough as is.
	return errors.Join(
		s.allow.Close(),
		s.block.Close(),
	)
}

// Refresh updates all engines in s.
//
// TODO(a.garipov): Refresh allow and block separately?
func (s *Storage) Refresh(ctx context.Context) (err error) {
	s.refreshMu.Lock()
	defer s.refreshMu.Unlock()

	// Don't wrap the errors since they are informative enough as is.
	return errors.Join(
		s.allow.Refresh(ctx, s.parseBuf, s.httpCli, s.cacheDir, s.maxSize),
		s.block.Refresh(ctx, s.parseBuf, s.httpCli, s.cacheDir, s.maxSize),
	)
}
