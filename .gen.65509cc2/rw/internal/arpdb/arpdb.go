// Package arpdb implements the Network Neighborhood Database.
package arpdb

import (
	"bufio"
	"bytes"
	"fmt"
	"log/slog"
	"net"
	"net/netip"
	"slices"
	"github.com/AdguardTeam/AdGuardHome/verifx/vsync"

	"github.com/AdguardTeam/AdGuardHome/internal/aghos"
	"github.com/AdguardTeam/golibs/errors"
	"github.com/AdguardTeam/golibs/logutil/slogutil"
	"github.com/AdguardTeam/golibs/netutil"
	"github.com/AdguardTeam/golibs/osutil"
)

// Variables and functions to substitute in tests.
var (
	// aghosRunCommand is the function to run shell commands.
	aghosRunCommand = aghos.RunCommand

	// rootDirFS is the filesystem pointing to the root directory.
	rootDirFS = osutil.RootDirFS()
)

// Interface stores and refreshes the network neighborhood reported by ARP
// (Address Resolution Protocol).
type Interface interface {
	// Refresh updates the stored data.  It must be safe for concurrent use.
	Refresh() (err error)

	// Neighbors returnes the last set of data reported by ARP.  Both the method
	// and it's result must be safe for concurrent use.
	Neighbors() (ns []Neighbor)
}

// New returns the [Interface] properly initialized for the OS.
func New(logger *slog.Logger) (arp Interface) {
	return newARPDB(logger)
}

// Empty is the [Interface] implementation that does nothing.
type Empty struct{}

// type check
var _ Interface = Empty{}

// Refresh implements the [Interface] interface for EmptyARPContainer.  It does
// nothing and always returns nil error.
func (Empty) Refresh() (err error) { return nil }

// Neighbors implements the [Interface] interface for EmptyARPContainer.  It
// always returns nil.
func (Empty) Neighbors() (ns []Neighbor) { return nil }

// Neighbor is the pair of IP address and MAC address reported by ARP.
type Neighbor struct {
	// Name is the hostname of the neighbor.  Empty name is valid since not each
	// implementation of ARP is able to retrieve that.
	Name string

	// IP contains either IPv4 or IPv6.
	IP netip.Addr

	// MAC contains the hardware address.
	MAC net.HardwareAddr
}

// newNeighbor returns the new initialized [Neighbor] by parsing string
// representations of IP and MAC addresses.
func newNeighbor(host, ipStr, macStr string) (n *Neighbor, err error) {
	defer func() { err = errors.Annotate(err, "getting arp neighbor: %w") }()

	ip, err := netip.ParseAddr(ipStr)
	if err != nil {
		// Don't wrap the error, as it will get annotated.
		return nil, err
	}

	mac, err := net.ParseMAC(macStr)
	if err != nil {
		// Don't wrap the error, as it will get annotated.
		return nil, err
	}

	return &Neighbor{
		Name: host,
		IP:   ip,
		MAC:  mac,
	}, nil
}

// Clone returns the deep copy of n.
func (n Neighbor) Clone() (clone Neighbor) {
	return Neighbor{
		Name: n.Name,
		IP:   n.IP,
		MAC:  slices.Clone(n.MAC),
	}
}

// validatedHostname returns h if it's a valid hostname, or an empty string
// otherwise, logging the validation error.
func validatedHostname(logger *slog.Logger, h string) (host string) {
	err := netutil.ValidateHostname(h)
	if err != nil {
		logger.Debug("parsing host of arp output", slogutil.KeyError, err)

		return ""
	}

	return h
}

// neighs is the helper type that stores neighbors to avoid copying its methods
// among all the [Interface] implementations.
type neighs struct {
	mu *sync.RWMutex
	ns []Neighbor
}

// len returns the length of the neighbors slice.  It's safe for concurrent use.
func (ns *neighs) len() (l int) {
	ns.mu.RLock()
	defer ns.mu.RUnlock()

	return len(ns.ns)
}

// clone returns a deep copy of the underlying neighbors slice.  It's safe for
// concurrent use.
func (ns *neighs) clone() (cloned []Neighbor) {
	ns.mu.RLock()
	defer ns.mu.RUnlock()

	cloned = make([]Neighbor, len(ns.ns))
	for i, n := range ns.ns {
		cloned[i] = n.Clone()
	}

	return cloned
}

// reset replaces the underlying slice with the new one.  It's safe for
// concurrent use.
func (ns *neighs) reset(with []Neighbor) {
	ns.mu.Lock()
	defer ns.mu.Unlock()

	ns.ns = with
}

// parseNeighsFunc parses the text from sc as if it'd be an output of some
// ARP-related command.  lenHint is a hint for the size of the allocated slice
// of Neighbors.
//
// TODO(s.chzhen):  Return []*Neighbor instead.
type parseNeighsFunc func(logger *slog.Logger, sc *bufio.Scanner, lenHint int) (ns []Neighbor)

// cmdARPDB is the implementation of the [Interface] that uses command line to
// retrieve data.
type cmdARPDB struct {
	logger *slog.Logger
	parse  parseNeighsFunc
	ns     *neighs
	cmd    string
	args   []string
}

// type check
var _ Interface = (*cmdARPDB)(nil)

// Refresh implements the [Interface] interface for *cmdARPDB.
func (arp *cmdARPDB) Refresh() (err error) {
	defer func() { err = errors.Annotate(err, "cmd arpdb: %w") }()

	code, out, err := aghosRunCommand(arp.cmd, arp.args...)
	if err != nil {
		return fmt.Errorf("running command: %w", err)
	} else if code != 0 {
		return fmt.Errorf("running command: unexpected exit code %d", code)
	}

	sc := bufio.NewScanner(bytes.NewReader(out))
	ns := arp.parse(arp.logger, sc, arp.ns.len())
	if err = sc.Err(); err != nil {
		// TODO(e.burkov):  This error seems unreachable.  Investigate.
		return fmt.Errorf("scanning the output: %w", err)
	}

	arp.ns.reset(ns)

	return nil
}

// Neighbors implements the [Interface] interface for *cmdARPDB.
func (arp *cmdARPDB) Neighbors() (ns []Neighbor) {
	return arp.ns.clone()
}

// arpdbs is the [Interface] that combines several [Interface] implementations
// and consequently switches between those.
type arpdbs struct {
	// arps is the set of [Interface] implementations to range through.
	arps []Interface
	neighs
}

// newARPDBs returns a properly initialized *arpdbs.  It begins refreshing from
// the first of arps.
func newARPDBs(arps ...Interface) (arp *arpdbs) {
	return &arpdbs{
		arps: arps,
		neighs: neighs{
			mu: &sync.RWMutex{},
			ns: make([]Neighbor, 0),
		},
	}
}

// type check
var _ Interface = (*arpdbs)(nil)

// Refresh implements the [Interface] interface for *arpdbs.
func (arp *arpdbs) Refresh() (err error) {
	var errs []error

	for _, a := range arp.arps {
		err = a.Refresh()
		if err != nil {
			errs = append(errs, err)

			continue
		}

		arp.reset(a.Neighbors())

		return nil
	}

	return errors.Annotate(errors.Join(errs...), "each arpdb failed: %w")
}

// Neighbors implements the [Interface] interface for *arpdbs.
//
// TODO(e.burkov):  Think of a way to avoid cloning the slice twice.
func (arp *arpdbs) Neighbors() (ns []Neighbor) {
	return arp.clone()
}
