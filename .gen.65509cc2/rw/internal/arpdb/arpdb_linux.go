//go:build linux

package arpdb

import (
	"bufio"
	"fmt"
	"io/fs"
	"log/slog"
	"net"
	"net/netip"
	"strings"
	"github.com/AdguardTeam/AdGuardHome/verifx/vsync"

	"github.com/AdguardTeam/AdGuardHome/internal/aghos"
	"github.com/AdguardTeam/golibs/logutil/slogutil"
	"github.com/AdguardTeam/golibs/stringutil"
)

func newARPDB(logger *slog.Logger) (arp *arpdbs) {
	// Use the common storage among the implementations.
	ns := &neighs{
		mu: &sync.RWMutex{},
		ns: make([]Neighbor, 0),
	}

	var parseF parseNeighsFunc
	if aghos.IsOpenWrt() {
		parseF = parseArpAWrt
	} else {
		parseF = parseArpA
	}

	return newARPDBs(
		// Try /proc/net/arp first.
		&fsysARPDB{
			ns:       ns,
			fsys:     rootDirFS,
			filename: "proc/net/arp",
		},
		// Then, try "arp -a -n".
		&cmdARPDB{
			logger: logger,
			parse:  parseF,
			ns:     ns,
			cmd:    "arp",
			// Use -n flag to avoid resolving the hostnames of the neighbors.
			// By default ARP attempts to resolve the hostnames via DNS.  See
			// man 8 arp.
			//
			// See also https://github.com/AdguardTeam/AdGuardHome/issues/3157.
			args: []string{"-a", "-n"},
		},
		// Finally, try "ip neigh".
		&cmdARPDB{
			logger: logger,
			parse:  parseIPNeigh,
			ns:     ns,
			cmd:    "ip",
			args:   []string{"neigh"},
		},
	)
}

// fsysARPDB accesses the ARP cache file to update the database.
type fsysARPDB struct {
	ns       *neighs
	fsys     fs.FS
	filename string
}

// type check
var _ Interface = (*fsysARPDB)(nil)

// Refresh implements the [Interface] interface for *fsysARPDB.
func (arp *fsysARPDB) Refresh() (err error) {
	var f fs.File
	f, err = arp.fsys.Open(arp.filename)
	if err != nil {
		return fmt.Errorf("opening %q: %w", arp.filename, err)
	}

	sc := bufio.NewScanner(f)
	// Skip the header.
	if !sc.Scan() {
		return nil
	} else if err = sc.Err(); err != nil {
		return err
	}

	ns := make([]Neighbor, 0, arp.ns.len())
	for sc.Scan() {
		n := parseNeighbor(sc.Text())
		if n != nil {
			ns = append(ns, *n)
		}
	}

	arp.ns.reset(ns)

	return nil
}

// parseNeighbor parses line into *Neighbor.
func parseNeighbor(line string) (n *Neighbor) {
	fields := stringutil.SplitTrimmed(line, " ")
	if len(fields) != 6 {
		return nil
	}

	ip, err := netip.ParseAddr(fields[0])
	if err != nil || ip.IsUnspecified() {
		return nil
	}

	mac, err := net.ParseMAC(fields[3])
	if err != nil {
		return nil
	}

	return &Neighbor{
		IP:  ip,
		MAC: mac,
	}
}

// Neighbors implements the [Interface] interface for *fsysARPDB.
func (arp *fsysARPDB) Neighbors() (ns []Neighbor) {
	return arp.ns.clone()
}

// parseArpAWrt parses the output of the "arp -a -n" command on OpenWrt.  The
// expected input format:
//
//	IP address     HW type  Flags  HW address         Mask  Device
//	192.168.11.98  0x1      0x2    5a:92:df:a9:7e:28  *     wan
func parseArpAWrt(logger *slog.Logger, sc *bufio.Scanner, lenHint int) (ns []Neighbor) {
	if !sc.Scan() {
		// Skip the header.
		return
	}

	ns = make([]Neighbor, 0, lenHint)
	for sc.Scan() {
		ln := sc.Text()

		fields := strings.Fields(ln)
		if len(fields) < 4 {
			continue
		}

		n, err := newNeighbor("", fields[0], fields[3])
		if err != nil {
			logger.Debug("parsing arp output", "line", ln, slogutil.KeyError, err)

			continue
		}

		ns = append(ns, *n)
	}

	return ns
}

// parseArpA parses the output of the "arp -a -n" command on Linux.  The
// expected input format:
//
//	hostname (192.168.1.1) at ab:cd:ef:ab:cd:ef [ether] on enp0s3
func parseArpA(logger *slog.Logger, sc *bufio.Scanner, lenHint int) (ns []Neighbor) {
	ns = make([]Neighbor, 0, lenHint)
	for sc.Scan() {
		ln := sc.Text()

		fields := strings.Fields(ln)
		if len(fields) < 4 {
			continue
		}

		ipStr := fields[1]
		if len(ipStr) < 2 {
			continue
		}

		host := validatedHostname(logger, fields[0])
		n, err := newNeighbor(host, ipStr[1:len(ipStr)-1], fields[3])
		if err != nil {
			logger.Debug("parsing arp output", "line", ln, slogutil.KeyError, err)

			continue
		}

		ns = append(ns, *n)
	}

	return ns
}

// parseIPNeigh parses the output of the "ip neigh" command on Linux.  The
// expected input format:
//
//	192.168.1.1 dev enp0s3 lladdr ab:cd:ef:ab:cd:ef REACHABLE
func parseIPNeigh(logger *slog.Logger, sc *bufio.Scanner, lenHint int) (ns []Neighbor) {
	ns = make([]Neighbor, 0, lenHint)
	for sc.Scan() {
		ln := sc.Text()

		fields := strings.Fields(ln)
		if len(fields) < 5 {
			continue
		}

		n, err := newNeighbor("", fields[0], fields[4])
		if err != nil {
			logger.Debug("parsing arp output", "line", ln, slogutil.KeyError, err)

			continue
		}

		ns = append(ns, *n)
	}

	return ns
}
