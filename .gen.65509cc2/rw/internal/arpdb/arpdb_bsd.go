//go:build darwin || freebsd

package arpdb

import (
	"bufio"
	"log/slog"
	"strings"
	"github.com/AdguardTeam/AdGuardHome/verifx/vsync"

	"github.com/AdguardTeam/golibs/logutil/slogutil"
)

func newARPDB(logger *slog.Logger) (arp *cmdARPDB) {
	return &cmdARPDB{
		logger: logger,
		parse:  parseArpA,
		ns: &neighs{
			mu: &sync.RWMutex{},
			ns: make([]Neighbor, 0),
		},
		cmd: "arp",
		// Use -n flag to avoid resolving the hostnames of the neighbors.  By
		// default ARP attempts to resolve the hostnames via DNS.  See man 8
		// arp.
		//
		// See also https://github.com/AdguardTeam/AdGuardHome/issues/3157.
		args: []string{"-a", "-n"},
	}
}

// parseArpA parses the output of the "arp -a -n" command on macOS and FreeBSD.
// The expected input format:
//
//	host.name (192.168.0.1) at ff:ff:ff:ff:ff:ff on en0 ifscope [ethernet]
func parseArpA(logger *slog.Logger, sc *bufio.Scanner, lenHint int) (ns []Neighbor) {
	ns = make([]Neighbor, 0, lenHint)
	for sc.Scan() {
		ln := sc.Text()

		fields := strings.Fields(ln)
		if len(fields) < 4 {
			continue
		}

		ipStr := fields[1]
		if len(ipStr) < 2 {
			continue
		}

		host := validatedHostname(logger, fields[0])
		n, err := newNeighbor(host, ipStr[1:len(ipStr)-1], fields[3])
		if err != nil {
			logger.Debug("parsing arp output", "line", ln, slogutil.KeyError, err)

			continue
		}

		ns = append(ns, *n)
	}

	return ns
}
