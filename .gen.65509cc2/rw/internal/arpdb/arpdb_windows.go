//go:build windows

package arpdb

import (
	"bufio"
	"log/slog"
	"strings"
	"github.com/AdguardTeam/AdGuardHome/verifx/vsync"

	"github.com/AdguardTeam/golibs/logutil/slogutil"
)

func newARPDB(logger *slog.Logger) (arp *cmdARPDB) {
	return &cmdARPDB{
		logger: logger,
		parse:  parseArpA,
		ns: &neighs{
			mu: &sync.RWMutex{},
			ns: make([]Neighbor, 0),
		},
		cmd:  "arp",
		args: []string{"/a"},
	}
}

// parseArpA parses the output of the "arp /a" command on Windows.  The expected
// input format (the first line is empty):
//
//	Interface: 192.168.56.16 --- 0x7
//	  Internet Address      Physical Address      Type
//	  192.168.56.1          0a-00-27-00-00-00     dynamic
//	  192.168.56.255        ff-ff-ff-ff-ff-ff     static
func parseArpA(logger *slog.Logger, sc *bufio.Scanner, lenHint int) (ns []Neighbor) {
	ns = make([]Neighbor, 0, lenHint)
	for sc.Scan() {
		ln := sc.Text()
		if ln == "" {
			continue
		}

		fields := strings.Fields(ln)
		if len(fields) != 3 {
			continue
		}

		n, err := newNeighbor("", fields[0], fields[1])
		if err != nil {
			logger.Debug("parsing arp output", "line", ln, slogutil.KeyError, err)

			continue
		}

		ns = append(ns, *n)
	}

	return ns
}
