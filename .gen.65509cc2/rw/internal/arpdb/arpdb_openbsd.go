//go:build openbsd

package arpdb

import (
	"bufio"
	"log/slog"
	"strings"
	"github.com/AdguardTeam/AdGuardHome/verifx/vsync"

	"github.com/AdguardTeam/golibs/logutil/slogutil"
)

func newARPDB(logger *slog.Logger) (arp *cmdARPDB) {
	return &cmdARPDB{
		logger: logger,
		parse:  parseArpA,
		ns: &neighs{
			mu: &sync.RWMutex{},
			ns: make([]Neighbor, 0),
		},
		cmd: "arp",
		// Use -n flag to avoid resolving the hostnames of the neighbors.  By
		// default ARP attempts to resolve the hostnames via DNS.  See man 8
		// arp.
		//
		// See also https://github.com/AdguardTeam/AdGuardHome/issues/3157.
		args: []string{"-a", "-n"},
	}
}

// parseArpA parses the output of the "arp -a -n" command on OpenBSD.  The
// expected input format:
//
//	Host        Ethernet Address  Netif Expire    Flags
//	192.168.1.1 ab:cd:ef:ab:cd:ef   em0 19m59s
func parseArpA(logger *slog.Logger, sc *bufio.Scanner, lenHint int) (ns []Neighbor) {
	// Skip the header.
	if !sc.Scan() {
		return nil
	}

	ns = make([]Neighbor, 0, lenHint)
	for sc.Scan() {
		ln := sc.Text()

		fields := strings.Fields(ln)
		if len(fields) < 2 {
			continue
		}

		n, err := newNeighbor("", fields[0], fields[1])
		if err != nil {
			logger.Debug("parsing arp output", "line", ln, slogutil.KeyError, err)

			continue
		}

		ns = append(ns, *n)
	}

	return ns
}
