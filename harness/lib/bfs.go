package lib

import (
	"encoding/json"
	"fmt"
	"sync"
	"sync/atomic"
)

// Step is what executing one history on the real code reports.
type Step struct {
	// Key is the canonical key of the reached state (implementation dump +
	// reference model).  Empty means "do not extend" (e.g. the last operation
	// was not applicable).
	Key string
	// NonTrivial marks a transition that is interesting by the harness' rule.
	NonTrivial bool
	// Outcome is a short label of what the last operation did (for the
	// distinct-outcomes count).
	Outcome string
	// VKey/VDesc report an oracle failure on this history.
	VKey, VDesc string
}

// BFS explores operation histories breadth-first.  A state is the history that
// reaches it; a successor is computed by Exec on a fresh instance.
type BFS[Op any] struct {
	C *Ctx
	// Ops is the alphabet, simplest first.
	Ops []Op
	// Exec builds a fresh instance, replays hist and checks the oracle on the
	// last operation.  It must be safe for concurrent use if Workers > 1.
	Exec func(hist []Op) Step
	// MaxDepth bounds the history length.
	MaxDepth int
	// Workers is the number of goroutines (in-process parallelism).
	Workers int
	// MaxStates stops the search (not exhaustive) when reached; 0 = none.
	MaxStates int
	// Confirm re-executes a violating history before it is reported.
	Confirm bool
}

// Run performs the search and records counters in C: states, transitions,
// nontrivial, max_depth, and Distinct("outcomes").
func (b *BFS[Op]) Run() {
	c := b.C
	if b.Workers < 1 {
		b.Workers = 1
	}
	seen := map[uint64]struct{}{}
	var seenMu sync.Mutex
	frontier := [][]Op{nil}
	root := b.Exec(nil)
	seen[Hash(root.Key)] = struct{}{}
	c.Distinct("states", root.Key)
	complete := true
	for depth := 1; depth <= b.MaxDepth && len(frontier) > 0; depth++ {
		var next [][]Op
		var nextMu sync.Mutex
		var idx atomic.Int64
		var stop atomic.Bool
		var wg sync.WaitGroup
		total := int64(len(frontier)) * int64(len(b.Ops))
		for w := 0; w < b.Workers; w++ {
			wg.Add(1)
			go func() {
				defer wg.Done()
				for {
					i := idx.Add(1) - 1
					if i >= total || stop.Load() {
						return
					}
					if i%256 == 0 && c.Expired() {
						stop.Store(true)
						return
					}
					hi, oi := int(i/int64(len(b.Ops))), int(i%int64(len(b.Ops)))
					if depth == 1 && !c.Mine(oi) {
						continue
					}
					h := frontier[hi]
					hist := make([]Op, len(h)+1)
					copy(hist, h)
					hist[len(h)] = b.Ops[oi]
					st := b.Exec(hist)
					c.Count("transitions", 1)
					if st.Outcome != "" {
						c.Distinct("outcomes", st.Outcome)
					}
					if st.VKey != "" {
						if b.Confirm {
							// Re-execute from scratch.  The same history must fail again; if
							// it does not, run it three more times: a violation that recurs is
							// reported as intermittent (the code under test has a source of
							// nondeterminism the harness does not own, e.g. random tokens and
							// map order), one that never recurs is a harness error.
							again, runs := 0, 0
							for k := 0; k < 4; k++ {
								runs++
								st2 := b.Exec(hist)
								if st2.VKey == st.VKey && k == 0 {
									again++
									break // deterministic: the usual case
								}
								if st2.VKey != "" {
									again++ // the history fails again, possibly with another symptom
								}
							}
							if again == 0 {
								// Not reported: either the harness is nondeterministic or the
								// failure is rare.  Counted; the parent turns a run that has
								// unconfirmed failures and no confirmed one into an engine error.
								c.Count("unconfirmed_violations", 1)
								c.Note("unconfirmed_violation", fmt.Sprintf("%q did not recur in 4 re-executions of %s", st.VKey, mustJSON(hist)))
								continue
							}
							if runs > 1 {
								st.VDesc = fmt.Sprintf("(intermittent: recurred in %d of %d re-executions of the same history) ", again, runs) + st.VDesc
							}
						}
						c.Violation(st.VKey, st.VDesc, hist)
						continue // do not extend violating states
					}
					if st.Key == "" {
						continue
					}
					if st.NonTrivial {
						c.Count("nontrivial_transitions", 1)
						c.Distinct("nontrivial", st.Key+"|"+st.Outcome)
					}
					hk := Hash(st.Key)
					seenMu.Lock()
					_, dup := seen[hk]
					if !dup {
						seen[hk] = struct{}{}
					}
					n := len(seen)
					seenMu.Unlock()
					if dup {
						continue
					}
					c.Distinct("states", st.Key)
					if n%5000 == 1 {
						c.Sample(map[string]any{"history": hist, "outcome": st.Outcome})
					}
					if b.MaxStates > 0 && n >= b.MaxStates {
						stop.Store(true)
						c.NotExhaustive(fmt.Sprintf("state cap %d", b.MaxStates))
					}
					nextMu.Lock()
					next = append(next, hist)
					nextMu.Unlock()
				}
			}()
		}
		wg.Wait()
		if stop.Load() {
			complete = false
			c.Note("bfs_depth_completed", fmt.Sprint(depth-1))
			break
		}
		c.Max("max_depth", int64(depth))
		c.Note("bfs_depth_completed", fmt.Sprint(depth))
		c.Note("bfs_frontier_after_last_level", fmt.Sprint(len(next)))
		frontier = next
	}
	if complete && len(frontier) == 0 {
		c.Note("bfs_closed", "true: no new states at the last level; every reachable state of this alphabet was visited")
	}
	if len(c.samples) == 0 && len(frontier) > 0 {
		c.Sample(map[string]any{"history": frontier[len(frontier)/2]})
	}
}

func mustJSON(v any) string {
	b, _ := json.Marshal(v)
	return string(b)
}
