// Package lib is the common runner of every verification harness: flag
// parsing, process sharding, counters, distinct-case sets, known findings,
// replay files and the evidence file (DESIGN.md §2.2, §2.6).
package lib

import (
	"bufio"
	"context"
	"encoding/json"
	"flag"
	"fmt"
	"hash/fnv"
	"os"
	"os/exec"
	"path/filepath"
	"runtime"
	"sort"
	"strconv"
	"strings"
	"sync"
	"time"
)

// Violation is one reported failure.
type Violation struct {
	Key    string          `json:"key"`
	Desc   string          `json:"desc"`
	Case   json.RawMessage `json:"case"`
	Replay string          `json:"replay,omitempty"`
}

// Partial is what one shard process reports to the parent.
type Partial struct {
	Counters   map[string]int64    `json:"counters"`
	Distinct   map[string][]uint64 `json:"distinct"`
	Samples    []any               `json:"samples"`
	Violations []Violation         `json:"violations"`
	Notes      map[string]string   `json:"notes"`
	Exhaustive bool                `json:"exhaustive"`
	EngineErr  string              `json:"engine_err"`
	Maxes      map[string]int64    `json:"maxes"`
}

// Ctx is handed to the harness body in every shard.
type Ctx struct {
	Prop     string
	Tier     string
	Seed     int64
	ShardI   int
	ShardN   int
	Deadline time.Time
	TmpDir   string

	mu         sync.Mutex
	counters   map[string]int64
	maxes      map[string]int64
	distinct   map[string]map[uint64]struct{}
	samples    []any
	violations []Violation
	vkeys      map[string]bool
	notes      map[string]string
	exhaustive bool
	engineErr  string
}

// Quick reports whether the tier is quick.
func (c *Ctx) Quick() bool { return c.Tier != "thorough" }

// Mine deals case idx to shards round-robin.
func (c *Ctx) Mine(idx int) bool { return c.ShardN <= 1 || idx%c.ShardN == c.ShardI }

// Count adds d to a named counter.
func (c *Ctx) Count(name string, d int64) {
	c.mu.Lock()
	c.counters[name] += d
	c.mu.Unlock()
}

// Max records the maximum of a named gauge.
func (c *Ctx) Max(name string, v int64) {
	c.mu.Lock()
	if v > c.maxes[name] {
		c.maxes[name] = v
	}
	c.mu.Unlock()
}

// MaxOf returns the current value of a named gauge.
func (c *Ctx) MaxOf(name string) int64 {
	c.mu.Lock()
	defer c.mu.Unlock()
	return c.maxes[name]
}

// Hash is the 64-bit FNV-1a of s.
func Hash(s string) uint64 {
	h := fnv.New64a()
	_, _ = h.Write([]byte(s))
	return h.Sum64()
}

// Distinct adds key to a named set; it reports whether the key was new in
// this shard.  Sets are merged across shards by the parent.
func (c *Ctx) Distinct(name, key string) bool {
	h := Hash(key)
	c.mu.Lock()
	defer c.mu.Unlock()
	m := c.distinct[name]
	if m == nil {
		m = map[uint64]struct{}{}
		c.distinct[name] = m
	}
	if _, ok := m[h]; ok {
		return false
	}
	m[h] = struct{}{}
	return true
}

// Sample keeps the first few cases for the evidence file.
func (c *Ctx) Sample(v any) {
	c.mu.Lock()
	if len(c.samples) < 4 {
		c.samples = append(c.samples, v)
	}
	c.mu.Unlock()
}

// Note records a free-text fact for the evidence file.
func (c *Ctx) Note(k, v string) {
	c.mu.Lock()
	c.notes[k] = v
	c.mu.Unlock()
}

// NotExhaustive marks that a cap (deadline, limit) was hit.
func (c *Ctx) NotExhaustive(why string) {
	c.mu.Lock()
	c.exhaustive = false
	c.notes["cap_hit"] = why
	c.mu.Unlock()
}

// EngineError records a harness fault (exit 2, no VIOLATION line).
func (c *Ctx) EngineError(msg string) {
	c.mu.Lock()
	if c.engineErr == "" {
		c.engineErr = msg
	}
	c.mu.Unlock()
}

// Expired reports whether the wall-clock budget is over; harnesses poll it at
// loop heads and stop (exit 0, exhaustive:false) when it is.
func (c *Ctx) Expired() bool {
	if c.Deadline.IsZero() {
		return false
	}
	if time.Now().After(c.Deadline) {
		c.NotExhaustive("time budget")
		return true
	}
	return false
}

// Violation records a failing case.  key identifies the specific failing
// input / call-site pair / history class for the known-findings file; cs is
// the replayable case.  Only the first violation per key is kept.
func (c *Ctx) Violation(key, desc string, cs any) {
	raw, _ := json.Marshal(cs)
	c.mu.Lock()
	defer c.mu.Unlock()
	c.counters["violating_cases"]++
	if c.vkeys[key] {
		return
	}
	c.vkeys[key] = true
	if len(c.violations) < 200 {
		c.violations = append(c.violations, Violation{Key: key, Desc: desc, Case: raw})
	}
}

// NumViolationKeys returns the number of distinct violation keys so far.
func (c *Ctx) NumViolationKeys() int {
	c.mu.Lock()
	defer c.mu.Unlock()
	return len(c.vkeys)
}

// Harness describes one property check.
type Harness struct {
	Prop  string
	Level string // evidence level
	// Shards is the number of worker processes (0 = GOMAXPROCS).
	Shards func(tier string) int
	// Budget is the wall-clock budget per tier.
	Budget func(tier string) time.Duration
	// Run explores this shard's part.
	Run func(c *Ctx)
	// Replay re-executes one case; returns a description if it violates.
	Replay func(c *Ctx, cs json.RawMessage) string
	// Evidence maps merged results to coverage keys.
	Evidence func(m *Merged) map[string]any
	// AltShard selects the shards that run the alternative binary named by
	// the environment variable VERIF_ALT_BIN (a second build of the same
	// harness, e.g. with scaled constants).
	AltShard func(i, n int) bool
	// Assumptions for the evidence file.
	Assumptions []string
}

// Merged is the parent's view of all shards.
type Merged struct {
	Counters   map[string]int64
	Maxes      map[string]int64
	Distinct   map[string]int
	Samples    []any
	Notes      map[string]string
	Exhaustive bool
	Tier       string
}

var (
	flagTier     = flag.String("tier", "quick", "quick|thorough")
	flagSeed     = flag.Int64("seed", 0, "seed")
	flagShard    = flag.String("shard", "", "i/n (worker mode)")
	flagOut      = flag.String("out", "", "partial output (worker mode)")
	flagEvidence = flag.String("evidence", "", "evidence file")
	flagReplay   = flag.String("replay", "", "replay file")
	flagKnown    = flag.String("known", "/verif/known-findings.txt", "known findings")
	flagReplays  = flag.String("replays", "/verif/replays", "replay dir")
	flagDeadline = flag.Int64("deadline", 0, "unix deadline (worker mode)")
	flagShards   = flag.Int("shards", 0, "override shard count")
	flagBudget   = flag.Duration("budget", 0, "override budget")
)

func newCtx(h *Harness) *Ctx {
	return &Ctx{
		Prop: h.Prop, Tier: *flagTier, Seed: *flagSeed, ShardN: 1,
		counters: map[string]int64{}, maxes: map[string]int64{}, distinct: map[string]map[uint64]struct{}{},
		vkeys: map[string]bool{}, notes: map[string]string{}, exhaustive: true,
	}
}

func mkTmp() string {
	base := "/dev/shm"
	if _, err := os.Stat(base); err != nil {
		base = os.TempDir()
	}
	d, err := os.MkdirTemp(base, "verif-")
	if err != nil {
		panic(err)
	}
	return d
}

// Main is the entry point of every harness binary.
func Main(h *Harness) {
	flag.Parse()
	if s := os.Getenv("VERIF_SEED"); s != "" && *flagSeed == 0 {
		if v, err := strconv.ParseInt(s, 10, 64); err == nil {
			*flagSeed = v
		}
	}
	if *flagReplay != "" {
		os.Exit(replayMain(h))
	}
	if *flagShard != "" {
		os.Exit(workerMain(h))
	}
	os.Exit(parentMain(h))
}

func replayMain(h *Harness) int {
	data, err := os.ReadFile(*flagReplay)
	if err != nil {
		fmt.Println("replay:", err)
		return 2
	}
	var v Violation
	if err = json.Unmarshal(data, &v); err != nil {
		fmt.Println("replay:", err)
		return 2
	}
	c := newCtx(h)
	c.TmpDir = mkTmp()
	defer os.RemoveAll(c.TmpDir)
	if h.Replay == nil {
		fmt.Println("replay not supported by this harness")
		return 2
	}
	d := h.Replay(c, v.Case)
	if d != "" {
		fmt.Printf("REPLAY VIOLATES property=%s key=%s\n%s\n", h.Prop, v.Key, d)
		return 1
	}
	fmt.Printf("REPLAY OK property=%s key=%s\n", h.Prop, v.Key)
	return 0
}

func workerMain(h *Harness) int {
	c := newCtx(h)
	if _, err := fmt.Sscanf(*flagShard, "%d/%d", &c.ShardI, &c.ShardN); err != nil {
		fmt.Println("bad -shard")
		return 2
	}
	if *flagDeadline != 0 {
		c.Deadline = time.Unix(*flagDeadline, 0)
	}
	c.TmpDir = mkTmp()
	defer os.RemoveAll(c.TmpDir)
	func() {
		defer func() {
			if r := recover(); r != nil {
				buf := make([]byte, 1<<16)
				n := runtime.Stack(buf, false)
				c.EngineError(fmt.Sprintf("harness panic: %v\n%s", r, buf[:n]))
			}
		}()
		h.Run(c)
	}()
	p := Partial{Counters: c.counters, Distinct: map[string][]uint64{}, Samples: c.samples,
		Violations: c.violations, Notes: c.notes, Exhaustive: c.exhaustive, EngineErr: c.engineErr, Maxes: c.maxes}
	for k, m := range c.distinct {
		l := make([]uint64, 0, len(m))
		for x := range m {
			l = append(l, x)
		}
		p.Distinct[k] = l
	}
	f, err := os.Create(*flagOut)
	if err != nil {
		fmt.Println(err)
		return 2
	}
	w := bufio.NewWriter(f)
	if err = json.NewEncoder(w).Encode(&p); err != nil {
		fmt.Println(err)
		return 2
	}
	_ = w.Flush()
	_ = f.Close()
	return 0
}

// known findings ------------------------------------------------------------

type knownSet struct {
	findings map[string]string // key -> description
}

func loadKnown(path, prop string) *knownSet {
	ks := &knownSet{findings: map[string]string{}}
	data, err := os.ReadFile(path)
	if err != nil {
		return ks
	}
	for _, line := range strings.Split(string(data), "\n") {
		line = strings.TrimSpace(line)
		if !strings.HasPrefix(line, "finding:") {
			continue // "fixed:" lines and comments suppress nothing
		}
		rest := strings.TrimSpace(strings.TrimPrefix(line, "finding:"))
		// finding: property=C07 key=<key> <what fails>
		fs := strings.SplitN(rest, " ", 3)
		if len(fs) < 2 || fs[0] != "property="+prop || !strings.HasPrefix(fs[1], "key=") {
			continue
		}
		desc := ""
		if len(fs) == 3 {
			desc = fs[2]
		}
		ks.findings[strings.TrimPrefix(fs[1], "key=")] = desc
	}
	return ks
}

func parentMain(h *Harness) int {
	start := time.Now()
	tier := *flagTier
	n := runtime.GOMAXPROCS(0)
	if h.Shards != nil {
		n = h.Shards(tier)
	}
	if *flagShards > 0 {
		n = *flagShards
	}
	if n < 1 {
		n = 1
	}
	budget := 10 * time.Minute
	if h.Budget != nil {
		budget = h.Budget(tier)
	}
	if *flagBudget > 0 {
		budget = *flagBudget
	}
	deadline := start.Add(budget)
	tmp := mkTmp()
	defer os.RemoveAll(tmp)
	self, _ := os.Executable()
	type res struct {
		p   Partial
		err string
	}
	results := make([]res, n)
	var wg sync.WaitGroup
	for i := 0; i < n; i++ {
		i := i
		wg.Add(1)
		go func() {
			defer wg.Done()
			out := filepath.Join(tmp, fmt.Sprintf("part-%d.json", i))
			bin := self
			if alt := os.Getenv("VERIF_ALT_BIN"); alt != "" && h.AltShard != nil && h.AltShard(i, n) {
				bin = alt
			}
			// A worker honours the deadline itself; one that is still running long
			// after it is stuck inside the code under test and is killed.
			grace := 4 * time.Minute
			if budget > 10*time.Minute {
				grace = 10 * time.Minute
			}
			ctx, cancel := context.WithDeadline(context.Background(), deadline.Add(grace))
			defer cancel()
			cmd := exec.CommandContext(ctx, bin, "-tier", tier, "-seed", fmt.Sprint(*flagSeed), "-shard", fmt.Sprintf("%d/%d", i, n),
				"-out", out, "-deadline", fmt.Sprint(deadline.Unix()))
			logf, _ := os.Create(filepath.Join(tmp, fmt.Sprintf("log-%d.txt", i)))
			cmd.Stdout, cmd.Stderr = logf, logf
			gmp := runtime.NumCPU() / n
			if gmp < 2 {
				gmp = 2
			}
			cmd.Env = append(os.Environ(), fmt.Sprintf("GOMAXPROCS=%d", gmp))
			err := cmd.Run()
			_ = logf.Close()
			if err != nil && ctx.Err() != nil {
				results[i].err = fmt.Sprintf("shard %d: worker stuck: it was still running %s after the end of its time budget and was killed (signal: killed)", i, grace)
				return
			}
			if err != nil {
				lg, _ := os.ReadFile(logf.Name())
				if len(lg) > 4000 {
					lg = lg[len(lg)-4000:]
				}
				results[i].err = fmt.Sprintf("shard %d: %v\n%s", i, err, lg)
				return
			}
			data, err := os.ReadFile(out)
			if err != nil {
				results[i].err = err.Error()
				return
			}
			if err = json.Unmarshal(data, &results[i].p); err != nil {
				results[i].err = err.Error()
			}
		}()
	}
	wg.Wait()
	m := &Merged{Counters: map[string]int64{}, Maxes: map[string]int64{}, Distinct: map[string]int{}, Notes: map[string]string{}, Exhaustive: true, Tier: tier}
	dist := map[string]map[uint64]struct{}{}
	var viols []Violation
	seenKey := map[string]bool{}
	engineErr := ""
	for i := range results {
		r := &results[i]
		if r.err != "" {
			engineErr = r.err
			continue
		}
		if r.p.EngineErr != "" {
			engineErr = r.p.EngineErr
		}
		for k, v := range r.p.Counters {
			m.Counters[k] += v
		}
		for k, v := range r.p.Maxes {
			if v > m.Maxes[k] {
				m.Maxes[k] = v
			}
		}
		for k, l := range r.p.Distinct {
			s := dist[k]
			if s == nil {
				s = map[uint64]struct{}{}
				dist[k] = s
			}
			for _, x := range l {
				s[x] = struct{}{}
			}
		}
		if len(m.Samples) < 6 {
			for _, s := range r.p.Samples {
				if len(m.Samples) < 6 {
					m.Samples = append(m.Samples, s)
				}
			}
		}
		for k, v := range r.p.Notes {
			m.Notes[k] = v
		}
		if !r.p.Exhaustive {
			m.Exhaustive = false
		}
		for _, v := range r.p.Violations {
			if !seenKey[v.Key] {
				seenKey[v.Key] = true
				viols = append(viols, v)
			}
		}
	}
	for k, s := range dist {
		m.Distinct[k] = len(s)
	}
	if engineErr != "" {
		// A worker that was killed or died with a fatal runtime error was taken
		// down by the code it was executing (a huge allocation, a stack overflow,
		// a concurrent map write): that is a crash of the code under test, not a
		// failure of the machinery.  Violations of the other workers are kept.
		crash := strings.Contains(engineErr, "signal: killed") || strings.Contains(engineErr, "fatal error:") || strings.Contains(engineErr, "signal: segmentation")
		switch {
		case len(viols) > 0:
			fmt.Printf("NOTE property=%s a worker did not finish (its part of the exploration is missing): %s\n", h.Prop, firstLine(engineErr))
			m.Exhaustive = false
		case crash:
			c, _ := json.Marshal(map[string]string{"note": "a worker process of the check died or got stuck while executing the code under test; re-run the check to reproduce", "worker": firstLine(engineErr)})
			key, what := "crash:worker-process-died", "a worker process died while executing the code under test:\n"
			if strings.Contains(engineErr, "worker stuck") {
				key, what = "stall:worker-process-stuck", "a worker process never returned from the code under test:\n"
			}
			viols = append(viols, Violation{Key: key, Desc: what + engineErr, Case: c})
			m.Exhaustive = false
		default:
			fmt.Printf("ENGINE-ERROR property=%s\n%s\n", h.Prop, engineErr)
			return 2
		}
	}
	sort.Slice(viols, func(i, j int) bool { return viols[i].Key < viols[j].Key })
	known := loadKnown(*flagKnown, h.Prop)
	nv, nk := 0, 0
	_ = os.MkdirAll(*flagReplays, 0o755)
	for i := range viols {
		v := &viols[i]
		if d, ok := known.findings[v.Key]; ok {
			nk++
			fmt.Printf("KNOWN-FINDING: property=%s key=%s %s\n", h.Prop, v.Key, d)
			continue
		}
		nv++
		path := filepath.Join(*flagReplays, fmt.Sprintf("%s-%016x.json", h.Prop, Hash(v.Key)))
		v.Replay = path
		data, _ := json.MarshalIndent(v, "", " ")
		_ = os.WriteFile(path, data, 0o644)
		fmt.Printf("VIOLATION property=%s replay=%s\n  key=%s\n  %s\n", h.Prop, path, v.Key, strings.ReplaceAll(v.Desc, "\n", "\n  "))
	}
	if nv == 0 && nk == 0 && m.Counters["unconfirmed_violations"] > 0 {
		fmt.Printf("ENGINE-ERROR property=%s\n%d oracle failure(s) did not recur when re-executed and none was confirmed: %s\n", h.Prop, m.Counters["unconfirmed_violations"], m.Notes["unconfirmed_violation"])
		return 2
	}
	if len(m.Samples) == 0 && nv > 0 {
		// The run was cut short by what it found (e.g. a worker that had to be
		// abandoned): the violating cases themselves are the samples.
		for i := range viols {
			if len(m.Samples) < 3 {
				m.Samples = append(m.Samples, map[string]any{"violating_case_key": viols[i].Key})
			}
		}
	}
	if len(m.Samples) == 0 {
		fmt.Printf("ENGINE-ERROR property=%s\nthe harness recorded no sample case (c.Sample): the evidence file would be invalid\n", h.Prop)
		return 2
	}
	cov := h.Evidence(m)
	cov["exhaustive"] = m.Exhaustive
	if len(m.Samples) > 0 {
		cov["samples"] = m.Samples
	}
	for k, v := range m.Notes {
		cov["note_"+k] = v
	}
	cov["shards"] = n
	cov["known_findings_hit"] = nk
	cov["violating_cases"] = m.Counters["violating_cases"]
	ev := map[string]any{
		"property_id": h.Prop, "tier": tier, "seed": *flagSeed, "level": h.Level, "coverage": cov,
		"assumptions": h.Assumptions, "wall_s": time.Since(start).Seconds(), "violations": nv,
	}
	path := *flagEvidence
	if path == "" {
		path = fmt.Sprintf("/verif/evidence/%s.json", h.Prop)
	}
	data, _ := json.MarshalIndent(ev, "", " ")
	_ = os.MkdirAll(filepath.Dir(path), 0o755)
	if err := os.WriteFile(path, append(data, '\n'), 0o644); err != nil {
		fmt.Println("evidence:", err)
		return 2
	}
	keys := make([]string, 0, len(m.Counters))
	for k := range m.Counters {
		keys = append(keys, k)
	}
	sort.Strings(keys)
	for _, k := range keys {
		fmt.Printf("  %s=%d", k, m.Counters[k])
	}
	for k, v := range m.Distinct {
		fmt.Printf("  distinct[%s]=%d", k, v)
	}
	fmt.Printf("\n%s %s: exhaustive=%v violations=%d known=%d wall=%.1fs\n", h.Prop, tier, m.Exhaustive, nv, nk, time.Since(start).Seconds())
	if nv > 0 {
		return 1
	}
	return 0
}

func firstLine(s string) string {
	if i := strings.IndexByte(s, '\n'); i >= 0 {
		return s[:i]
	}
	return s
}
