// C03 — access lists: disallowed clients and blocked names are never served.
// Stateless bounded-exhaustive enumeration on the real pre-request hook and
// pipeline, plus a loopback conformance set for "plain error = silence"
// (DESIGN.md §4 C03).
package main

import (
	"bytes"
	"crypto/tls"
	"encoding/json"
	"fmt"
	"net"
	"net/http"
	"net/http/httptest"
	"net/netip"
	"net/url"
	"strings"
	"time"

	"github.com/AdguardTeam/AdGuardHome/internal/dnsforward"
	"github.com/AdguardTeam/AdGuardHome/internal/filtering"
	"github.com/AdguardTeam/AdGuardHome/internal/verifx/lib"
	"github.com/AdguardTeam/AdGuardHome/internal/verifx/srv"
	vtime "github.com/AdguardTeam/AdGuardHome/verifx/vtime"
	"github.com/AdguardTeam/dnsproxy/proxy"
	"github.com/AdguardTeam/urlfilter/rules"
	"github.com/miekg/dns"
)

const serverName = "dns.example"

var protos = []proxy.Proto{proxy.ProtoUDP, proxy.ProtoTCP, proxy.ProtoTLS, proxy.ProtoHTTPS, proxy.ProtoQUIC, proxy.ProtoDNSCrypt}

type config struct {
	Allowed    []string `json:"allowed"`
	Disallowed []string `json:"disallowed"`
	Hosts      []string `json:"blocked_hosts"`
	// Via: "" = the lists are the start-up configuration; "api" = the server
	// starts with empty lists and they are set by POST /control/access/set;
	// "api+reconfigure" = the same, followed by Server.Reconfigure (what every
	// settings change that restarts the DNS server runs).
	Via string `json:"set_via,omitempty"`
}

type request struct {
	Proto string `json:"proto"`
	Addr  string `json:"addr"`
	SNI   string `json:"client_id_label"` // label in front of the server name, as typed by the client
	Name  string `json:"name"`
	Qtype string `json:"qtype"`
	// Class is the question class; "" = IN.  Probes such as "version.bind CH
	// TXT" use class CH.
	Class string `json:"qclass,omitempty"`
}

type caseC struct {
	Conf config  `json:"config"`
	Req  request `json:"request"`
	Got  string  `json:"got,omitempty"`
	Want string  `json:"want,omitempty"`
}

func jsonStr(v any) string { b, _ := json.Marshal(v); return string(b) }

var items = []string{"1.2.3.4", "1.2.3.0/24", "1.2.0.0/16", "0.0.0.0/0", "2001:db8::1", "2001:db8::/32", "::/0", "fe80::/10", "cid-a", "cid-b", "fe80::1", "CID-X"}

var addrs = []string{"1.2.3.4", "1.2.3.9", "1.2.9.9", "9.9.9.9", "2001:db8::1", "2001:db8::2", "2001:dead::1", "fe80::1%eth0", "::ffff:1.2.3.4"}

var sniLabels = []string{"", "cid-a", "CID-A", "cid-x"}

func subsets(max int) [][]string {
	out := [][]string{{}}
	for i := range items {
		out = append(out, []string{items[i]})
	}
	if max >= 2 {
		for i := range items {
			for j := i + 1; j < len(items); j++ {
				out = append(out, []string{items[i], items[j]})
			}
		}
	}
	if max >= 3 {
		for i := range items {
			for j := i + 1; j < len(items); j++ {
				for k := j + 1; k < len(items); k++ {
					out = append(out, []string{items[i], items[j], items[k]})
				}
			}
		}
	}
	return out
}

func disjoint(a, b []string) bool {
	for _, x := range a {
		for _, y := range b {
			if x == y {
				return false
			}
		}
	}
	return true
}

// ---- reference ------------------------------------------------------------------

func addrIn(list []string, ip netip.Addr) bool {
	for _, it := range list {
		if a, err := netip.ParseAddr(it); err == nil {
			// A link-local client address arrives with its zone; a list entry
			// without one means the address on any interface (the networks are
			// compared without the zone as well).
			if a == ip || (a.Zone() == "" && a == ip.WithZone("")) {
				return true
			}
		} else if p, err := netip.ParsePrefix(it); err == nil {
			if p.Contains(ip.WithZone("")) {
				return true
			}
		}
	}
	return false
}

func idIn(list []string, id string) bool {
	if id == "" {
		return false
	}
	// ClientIDs are case-insensitive (the one of a request is lower-cased).
	for _, it := range list {
		if strings.EqualFold(it, id) {
			return true
		}
	}
	return false
}

// admitted returns the reference decision; for 4-in-6 addresses both readings
// (as given / unmapped) are computed and `ambiguous` is set if they differ.
func admitted(cf *config, ip netip.Addr, id string) (ok, ambiguous bool) {
	one := func(ip netip.Addr) bool {
		if len(cf.Allowed) > 0 {
			return addrIn(cf.Allowed, ip) || idIn(cf.Allowed, id)
		}
		return !(addrIn(cf.Disallowed, ip) || idIn(cf.Disallowed, id))
	}
	a := one(ip)
	if ip.Is4In6() {
		b := one(ip.Unmap())
		return a, a != b
	}
	return a, false
}

func hostBlocked(cf *config, name string, qt uint16) bool {
	host := strings.ToLower(strings.TrimSuffix(name, "."))
	req := rules.NewRequestForHostname(host)
	req.DNSType = qt
	hosts := cf.Hosts
	if len(hosts) == 0 && cf.Via != "api" {
		// An empty list in the configuration means the default list (an empty
		// list set through the API is empty until the next reconfiguration).
		hosts = []string{"version.bind", "id.server", "hostname.bind"}
	}
	for i, h := range hosts {
		r, err := rules.NewRule(strings.ToLower(h), i)
		if err != nil || r == nil {
			continue
		}
		switch x := r.(type) {
		case *rules.NetworkRule:
			if x.IsHostLevelNetworkRule() && x.Match(req) {
				return true
			}
		case *rules.HostRule:
			if x.Match(host) {
				return true
			}
		}
	}
	return false
}

// ---- execution ------------------------------------------------------------------

type env struct{ c *lib.Ctx }

func mkCtx(rq request, id uint16, reqID uint64) *proxy.DNSContext {
	req := &dns.Msg{MsgHdr: dns.MsgHdr{Id: id, RecursionDesired: true}, Question: []dns.Question{{Name: dns.Fqdn(rq.Name), Qtype: dns.StringToType[rq.Qtype], Qclass: dns.ClassINET}}}
	if rq.Class != "" {
		req.Question[0].Qclass = dns.StringToClass[rq.Class]
	}
	ap := netip.AddrPortFrom(netip.MustParseAddr(rq.Addr), 5353)
	pctx := &proxy.DNSContext{Req: req, Addr: ap, RequestID: reqID}
	sni := serverName
	if rq.SNI != "" {
		sni = rq.SNI + "." + serverName
	}
	for _, p := range protos {
		if string(p) == rq.Proto {
			pctx.Proto = p
		}
	}
	switch pctx.Proto {
	case proxy.ProtoTLS:
		pctx.Conn = dnsforward.VerifTLSConn{ServerName: sni}
	case proxy.ProtoQUIC:
		pctx.QUICConnection = dnsforward.VerifQUICConn{ServerName: sni}
	case proxy.ProtoHTTPS:
		pctx.HTTPRequest = &http.Request{URL: &url.URL{Path: "/dns-query"}, TLS: &tls.ConnectionState{ServerName: sni}}
	}
	return pctx
}

func (e *env) runConfig(cf *config, reqs []request) {
	c := e.c
	vtime.SetVirtual(time.Date(2024, 6, 5, 12, 0, 0, 0, time.UTC))
	ql, st := &srv.RecLog{}, &srv.RecStats{}
	a, err := srv.Build(&srv.Spec{
		Mode: filtering.BlockingModeDefault, ProtectionEnabled: true, FilteringEnabled: true, BlockedTTL: 10,
		QueryLog: ql, Stats: st,
		Conf: func(sc *dnsforward.ServerConfig) {
			if cf.Via == "" {
				sc.AllowedClients, sc.DisallowedClients, sc.BlockedHosts = cf.Allowed, cf.Disallowed, cf.Hosts
			}
			sc.TLSConf = &dnsforward.TLSConfig{ServerName: serverName}
		},
	})
	if err != nil {
		c.Violation("build-failed:"+err.Error(), fmt.Sprintf("valid access lists rejected: %v (%s)", err, jsonStr(cf)), caseC{Conf: *cf})
		return
	}
	defer func() {
		// Reconfigure starts the listeners; Close alone would leak them.
		_ = a.Server.Stop()
		a.Close()
	}()
	c.Count("configs", 1)
	if cf.Via != "" {
		nn := func(l []string) []string {
			if l == nil {
				return []string{}
			}
			return l
		}
		body, _ := json.Marshal(map[string]any{"allowed_clients": nn(cf.Allowed), "disallowed_clients": nn(cf.Disallowed), "blocked_hosts": nn(cf.Hosts)})
		w := httptest.NewRecorder()
		a.Server.VerifAccessSet(w, httptest.NewRequest(http.MethodPost, "/control/access/set", bytes.NewReader(body)))
		if w.Code != http.StatusOK {
			if len(cf.Allowed)+len(cf.Disallowed)+len(cf.Hosts) == 0 {
				return // the API refuses to set nothing at all; not a case
			}
			c.Violation("access-set-refused", fmt.Sprintf("POST /control/access/set refused valid lists: HTTP %d %s (%s)", w.Code, w.Body.String(), jsonStr(cf)), caseC{Conf: *cf})
			return
		}
		if cf.Via == "api+reconfigure" {
			if err = a.Server.Reconfigure(nil); err != nil {
				c.EngineError("reconfigure: " + err.Error())
				return
			}
			a.Server.VerifSetUpstream(a.Upstream)
		}
		c.Count("configs_set_through_the_api", 1)
	}
	for i, rq := range reqs {
		c.Count("evals", 1)
		plain := rq.Proto == "udp" || rq.Proto == "tcp" || rq.Proto == "dnscrypt"
		id := ""
		if !plain {
			id = strings.ToLower(rq.SNI)
		}
		ip := netip.MustParseAddr(rq.Addr)
		adm, amb := admitted(cf, ip, id)
		hb := hostBlocked(cf, rq.Name, dns.StringToType[rq.Qtype])
		cs := caseC{Conf: *cf, Req: rq}
		pctx := mkCtx(rq, uint16(100+i), uint64(1000+i))
		a.Upstream.Reset()
		ql.Reset()
		st.Reset()
		var berr, herr error
		var pan any
		func() {
			defer func() { pan = recover() }()
			berr, herr = a.Server.VerifHandle(pctx)
		}()
		if pan != nil {
			c.Violation("panic", fmt.Sprintf("panic: %v\ncase: %s", pan, jsonStr(cs)), cs)
			continue
		}
		asked, logged, counted := a.Upstream.Reset(), ql.Reset(), st.Reset()
		cls := "served"
		if berr != nil {
			if bre, ok := berr.(*proxy.BeforeRequestError); ok {
				if bre.Response != nil && bre.Response.Rcode == dns.RcodeRefused {
					cls = "refused"
				} else if bre.Response != nil {
					cls = "reply:" + dns.RcodeToString[bre.Response.Rcode]
				} else {
					cls = "before-error-without-response"
				}
				if bre.Response != nil && (bre.Response.Id != pctx.Req.Id || len(bre.Response.Question) != 1 || bre.Response.Question[0] != pctx.Req.Question[0]) {
					c.Violation("refused-not-echoing-request", fmt.Sprintf("REFUSED reply does not echo id/question\ncase: %s", jsonStr(cs)), cs)
				}
			} else {
				cls = "dropped"
			}
		}
		cs.Got = fmt.Sprintf("%s upstream=%v logged=%d counted=%d", cls, asked, len(logged), len(counted))
		if amb {
			c.Count("ambiguous_4in6", 1)
			continue
		}
		excluded := !adm || hb
		if excluded {
			c.Distinct("nontrivial", jsonStr(caseC{Conf: *cf, Req: rq}))
			want := "refused"
			if rq.Proto == "udp" || rq.Proto == "dnscrypt" {
				want = "dropped"
			}
			cs.Want = want
			why := "client"
			if adm {
				why = "host"
			}
			if cls != want {
				key := fmt.Sprintf("excluded-%s-%s-over-%s", why, cls, rq.Proto)
				if cls == "served" {
					key = fmt.Sprintf("excluded-%s-served:%s", why, listKind(cf, ip, id))
				}
				c.Violation(key, fmt.Sprintf("request must be excluded (%s) and get %q, got %s\ncase: %s", why, want, cs.Got, jsonStr(cs)), cs)
				continue
			}
			if len(asked) != 0 || len(logged) != 0 || len(counted) != 0 || herr != nil {
				c.Violation("excluded-request-has-side-effects", fmt.Sprintf("excluded request was resolved/logged/counted: %s\ncase: %s", cs.Got, jsonStr(cs)), cs)
			}
			c.Distinct("cells", why+"|"+rq.Proto+"|"+want)
			continue
		}
		cs.Want = "served"
		if cls != "served" || herr != nil || pctx.Res == nil {
			c.Violation("admitted-not-served:"+listKind(cf, ip, id), fmt.Sprintf("request must be admitted and served, got %s (err %v)\ncase: %s", cs.Got, herr, jsonStr(cs)), cs)
			continue
		}
		if len(cf.Allowed)+len(cf.Disallowed)+len(cf.Hosts) > 0 {
			c.Distinct("nontrivial", jsonStr(caseC{Conf: *cf, Req: rq}))
		}
		c.Distinct("cells", "served|"+rq.Proto)
	}
}

// listKind names which kind of list entry decides (for compact keys).
func listKind(cf *config, ip netip.Addr, id string) string {
	mode := "blocklist"
	l := cf.Disallowed
	if len(cf.Allowed) > 0 {
		mode, l = "allowlist", cf.Allowed
	}
	kinds := ""
	for _, it := range l {
		switch {
		case strings.Contains(it, "/"):
			if !strings.Contains(kinds, "cidr") {
				kinds += "+cidr"
			}
		case strings.ContainsAny(it, ".:"):
			if !strings.Contains(kinds, "ip") {
				kinds += "+ip"
			}
		default:
			if !strings.Contains(kinds, "clientid") {
				kinds += "+clientid"
			}
		}
	}
	z := ""
	if ip.Zone() != "" {
		z = ":zoned-addr"
	}
	return mode + kinds + z
}

func clientRequests() []request {
	var out []request
	for _, p := range protos {
		plain := p == proxy.ProtoUDP || p == proxy.ProtoTCP || p == proxy.ProtoDNSCrypt
		for _, a := range addrs {
			for _, l := range sniLabels {
				if plain && l != "" {
					continue
				}
				out = append(out, request{Proto: string(p), Addr: a, SNI: l, Name: "example.org", Qtype: "A"})
			}
		}
		// A name of the default blocked-hosts list (in force when none is configured).
		out = append(out, request{Proto: string(p), Addr: "1.2.3.4", Name: "version.bind", Qtype: "TXT", Class: "CH"},
			request{Proto: string(p), Addr: "9.9.9.9", Name: "hostname.bind", Qtype: "TXT", Class: "CH"})
	}
	return out
}

func run(c *lib.Ctx) {
	srv.Quiet()
	e := &env{c}
	idx := 0
	max := 2
	if !c.Quick() {
		max = 3
	}
	subs := subsets(max)
	reqs := clientRequests()
	// Part A: client lists.
	for _, al := range subs {
		for _, dl := range subs {
			if !disjoint(al, dl) {
				continue
			}
			if !c.Quick() && len(al)+len(dl) > 4 {
				continue
			}
			idx++
			if !c.Mine(idx) {
				continue
			}
			if c.Expired() {
				return
			}
			cf := config{Allowed: al, Disallowed: dl}
			e.runConfig(&cf, reqs)
			for _, via := range []string{"api", "api+reconfigure"} {
				if len(al)+len(dl) == 0 || (c.Quick() && via == "api") {
					continue
				}
				cv := cf
				cv.Via = via
				e.runConfig(&cv, reqs)
			}
			if idx%701 == 0 {
				c.Sample(map[string]any{"config": cf, "requests": len(reqs), "first": reqs[0]})
			}
		}
	}
	c.Note("part_a", fmt.Sprintf("%d list subsets (size <= %d) in every disjoint allowed/disallowed combination x %d requests (6 protocols x %d addresses x ClientID labels)", len(subs), max, len(reqs), len(addrs)))
	// Part B: blocked hosts.
	hostSets := [][]string{{"bad.test"}, {"||bad.test^"}, {"*.bad.test"}, {"|.^"}, {"bad.test$dnstype=AAAA"}, {"||BAD.test^"}, {"||bad.test^", "other.test"}, {"@@||sub.bad.test^", "||bad.test^"}, {"Bad.Test"}, {"Sub.BAD.test", "Other.test"}}
	namesB := []string{"bad.test", "sub.bad.test", "BAD.Test", "xbad.test", "test", "other.test"}
	for _, hs := range hostSets {
		for _, cl := range []config{{}, {Disallowed: []string{"9.9.9.9"}}, {Allowed: []string{"1.2.3.0/24", "cid-a"}}} {
			idx++
			if !c.Mine(idx) {
				continue
			}
			cf := cl
			cf.Hosts = hs
			cf.Via = []string{"", "api", "api+reconfigure"}[idx%3]
			var rq []request
			for _, p := range protos {
				for _, n := range namesB {
					for _, qt := range []string{"A", "AAAA", "TXT"} {
						rq = append(rq, request{Proto: string(p), Addr: "1.2.3.4", Name: n, Qtype: qt})
					}
					rq = append(rq, request{Proto: string(p), Addr: "1.2.3.4", Name: n, Qtype: "TXT", Class: "CH"})
					if p == proxy.ProtoTLS || p == proxy.ProtoQUIC || p == proxy.ProtoHTTPS {
						// the same question on a connection that carries a ClientID
						rq = append(rq, request{Proto: string(p), Addr: "1.2.3.4", SNI: "cid-a", Name: n, Qtype: "A"})
					}
				}
			}
			e.runConfig(&cf, rq)
		}
	}
	// Part C: single addresses written with a zone (they match that zone only).
	var zr []request
	for _, p := range protos {
		for _, a := range []string{"fe80::2%eth0", "fe80::2%eth1", "fe80::2", "1.2.3.4"} {
			zr = append(zr, request{Proto: string(p), Addr: a, Name: "example.org", Qtype: "A"})
		}
	}
	for _, cl := range []config{{Allowed: []string{"fe80::2%eth0"}}, {Disallowed: []string{"fe80::2%eth0"}}, {Allowed: []string{"fe80::2%eth0", "1.2.3.4"}},
		{Disallowed: []string{"fe80::2%eth0", "cid-b"}}, {Allowed: []string{"fe80::2%eth1", "fe80::2"}}} {
		for _, via := range []string{"", "api"} {
			idx++
			if !c.Mine(idx) {
				continue
			}
			cf := cl
			cf.Via = via
			e.runConfig(&cf, zr)
		}
	}
	partDoH(c, &idx)
	if c.Mine(0) {
		loopback(c)
	}
}

// loopback validates dnsproxy's contract that a plain error from the
// pre-request hook means no packet on UDP, and REFUSED on TCP, through a real
// started server on 127.0.0.1.  Alarms only on an observed packet.
func loopback(c *lib.Ctx) {
	mk := func(dis []string) (*srv.Assembly, error) {
		a, err := srv.Build(&srv.Spec{Mode: filtering.BlockingModeDefault, ProtectionEnabled: true, FilteringEnabled: true,
			Conf: func(sc *dnsforward.ServerConfig) {
				sc.DisallowedClients = dis
				sc.UDPListenAddrs = []*net.UDPAddr{{IP: net.IPv4(127, 0, 0, 1), Port: 0}}
				sc.TCPListenAddrs = []*net.TCPAddr{{IP: net.IPv4(127, 0, 0, 1), Port: 0}}
			}})
		if err != nil {
			return nil, err
		}
		if err = a.Server.Start(); err != nil {
			a.Close()
			return nil, err
		}
		return a, nil
	}
	for _, dis := range [][]string{nil, {"127.0.0.1"}, {"127.0.0.0/8"}} {
		a, err := mk(dis)
		if err != nil {
			c.Note("loopback", "skipped: cannot start a listener on 127.0.0.1: "+err.Error())
			return
		}
		udp := a.Server.VerifProxyAddr(proxy.ProtoUDP).String()
		tcp := a.Server.VerifProxyAddr(proxy.ProtoTCP).String()
		q := (&dns.Msg{}).SetQuestion("example.org.", dns.TypeA)
		cu := &dns.Client{Net: "udp", Timeout: 400 * time.Millisecond}
		ru, _, eu := cu.Exchange(q, udp)
		ct := &dns.Client{Net: "tcp", Timeout: 2 * time.Second}
		rt, _, et := ct.Exchange(q, tcp)
		c.Count("evals", 2)
		c.Count("loopback_exchanges", 2)
		cs := caseC{Conf: config{Disallowed: dis}, Req: request{Proto: "udp+tcp loopback", Addr: "127.0.0.1", Name: "example.org", Qtype: "A"}}
		if len(dis) > 0 {
			if ru != nil {
				c.Violation("loopback-udp-reply-to-excluded-client", fmt.Sprintf("a UDP reply (%s) reached an excluded client", dns.RcodeToString[ru.Rcode]), cs)
			}
			if rt != nil && rt.Rcode != dns.RcodeRefused {
				c.Violation("loopback-tcp-not-refused", fmt.Sprintf("TCP reply to an excluded client is %s, want REFUSED", dns.RcodeToString[rt.Rcode]), cs)
			}
			if len(a.Upstream.Reset()) != 0 {
				c.Violation("loopback-excluded-resolved", "excluded client's query reached the upstream", cs)
			}
		} else if eu == nil && et == nil {
			if ru.Rcode != dns.RcodeSuccess || rt.Rcode != dns.RcodeSuccess {
				c.Violation("loopback-admitted-not-served", "admitted loopback client not served", cs)
			}
		}
		_ = a.Server.Stop()
		a.Close()
	}
	c.Note("loopback", "ran: 3 configurations x UDP+TCP on 127.0.0.1")
}

func replay(c *lib.Ctx, raw json.RawMessage) string {
	srv.Quiet()
	var dc dohCase
	if json.Unmarshal(raw, &dc) == nil && dc.Part == "doh" {
		if k, d := runDoHCase(&dc); k != "" {
			return k + ": " + d
		}
		return ""
	}
	var cs caseC
	if err := json.Unmarshal(raw, &cs); err != nil {
		return err.Error()
	}
	if strings.Contains(cs.Req.Proto, "loopback") {
		loopback(c)
	} else {
		(&env{c}).runConfig(&cs.Conf, []request{cs.Req})
	}
	if c.NumViolationKeys() > 0 {
		return "violation reproduced: " + jsonStr(cs)
	}
	return ""
}

func main() {
	lib.Main(&lib.Harness{
		Prop: "C03", Level: "exploration",
		Budget: func(tier string) time.Duration {
			if tier == "thorough" {
				return 25 * time.Minute
			}
			return 4 * time.Minute
		},
		Run: run, Replay: replay,
		Evidence: func(m *lib.Merged) map[string]any {
			return map[string]any{
				"evaluations":         m.Counters["evals"],
				"distinct_nontrivial": m.Distinct["nontrivial"],
				"configurations":      m.Counters["configs"],
				"distinct_cells":      m.Distinct["cells"],
				"ambiguous_4in6":      m.Counters["ambiguous_4in6"],
				"loopback_exchanges":  m.Counters["loopback_exchanges"],
				"rule":                "every disjoint (allowed, disallowed) pair of subsets of size <=2 (thorough <=3) of 10 list items (IPv4/IPv6 addresses, CIDRs of several lengths incl. /0, ClientIDs) x 6 protocols x 9 client addresses (in/out of each CIDR, zoned, 4-in-6) x 4 ClientID labels (TLS/QUIC/DoH); 8 blocked-host pattern sets x 3 client-list settings x 6 names x 3 qtypes x 6 protocols; each through HandleBefore + the request handler of a real server with recording upstream, query log and statistics. Oracle: set-theoretic access model; excluded => dropped (UDP/DNSCrypt) or REFUSED, and no upstream call, log entry or statistics update. Loopback conformance: real UDP/TCP exchanges on 127.0.0.1. distinct_nontrivial = distinct (config, request) with a non-empty access configuration",
			}
		},
		Assumptions: []string{"blocked-host pattern matching delegated to urlfilter", "for 4-in-6 client addresses whose mapped and unmapped readings differ the verdict is not judged (counted as ambiguous_4in6)", "list entries are lower-case ClientIDs"},
	})
}
