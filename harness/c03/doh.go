package main

// Part C of C03: who counts as the client of a DNS-over-HTTPS request.  The
// request goes through the real HTTP entry point (Server.ServeHTTP ->
// dnsproxy), so the client address is derived by the real code: the peer
// address, or the address named in the proxy headers if and only if the peer
// is a configured trusted proxy.  The access lists then decide on that address.

import (
	"bytes"
	"fmt"
	"net/http"
	"net/http/httptest"
	"net/netip"

	"github.com/AdguardTeam/AdGuardHome/internal/dnsforward"
	"github.com/AdguardTeam/AdGuardHome/internal/filtering"
	"github.com/AdguardTeam/AdGuardHome/internal/verifx/lib"
	"github.com/AdguardTeam/AdGuardHome/internal/verifx/srv"
	"github.com/AdguardTeam/golibs/netutil"
	"github.com/miekg/dns"
)

type dohCase struct {
	Part    string   `json:"part"`
	Conf    config   `json:"config"`
	Trusted []string `json:"trusted_proxies"`
	Peer    string   `json:"peer"`
	Header  string   `json:"header,omitempty"`
	HdrAddr string   `json:"header_address,omitempty"`
	Got     string   `json:"got,omitempty"`
	Want    string   `json:"want,omitempty"`
}

func runDoHCase(cs *dohCase) (vkey, vdesc string) {
	var trusted []netutil.Prefix
	for _, t := range cs.Trusted {
		trusted = append(trusted, netutil.Prefix{Prefix: netip.MustParsePrefix(t)})
	}
	ql, st := &srv.RecLog{}, &srv.RecStats{}
	a, err := srv.Build(&srv.Spec{
		Mode: filtering.BlockingModeDefault, ProtectionEnabled: true, FilteringEnabled: true, BlockedTTL: 10,
		QueryLog: ql, Stats: st,
		Conf: func(sc *dnsforward.ServerConfig) {
			sc.AllowedClients, sc.DisallowedClients = cs.Conf.Allowed, cs.Conf.Disallowed
			sc.TrustedProxies = trusted
			sc.TLSConf = &dnsforward.TLSConfig{ServerName: serverName}
		},
	})
	if err != nil {
		return "build-failed:" + err.Error(), err.Error()
	}
	defer a.Close()
	q := (&dns.Msg{}).SetQuestion("example.org.", dns.TypeA)
	q.Id = 0
	wire, _ := q.Pack()
	r := httptest.NewRequest(http.MethodPost, "https://"+serverName+"/dns-query", bytes.NewReader(wire))
	r.Header.Set("Content-Type", "application/dns-message")
	r.RemoteAddr = netip.AddrPortFrom(netip.MustParseAddr(cs.Peer), 40000).String()
	if cs.Header != "" {
		r.Header.Set(cs.Header, cs.HdrAddr)
	}
	w := httptest.NewRecorder()
	a.Upstream.Reset()
	a.Server.ServeHTTP(w, r)
	asked := a.Upstream.Reset()
	got := fmt.Sprintf("http-%d", w.Code)
	if w.Code == http.StatusOK {
		resp := &dns.Msg{}
		if uerr := resp.Unpack(w.Body.Bytes()); uerr != nil {
			got = "http-200-unparsable"
		} else {
			got = dns.RcodeToString[resp.Rcode]
		}
	}
	cs.Got = fmt.Sprintf("%s upstream=%v logged=%d counted=%d", got, asked, len(ql.Reset()), len(st.Reset()))
	// Reference: the effective client address.
	eff := netip.MustParseAddr(cs.Peer)
	if cs.Header != "" {
		for _, t := range cs.Trusted {
			if netip.MustParsePrefix(t).Contains(eff) {
				eff = netip.MustParseAddr(cs.HdrAddr)
				break
			}
		}
	}
	adm, amb := admitted(&cs.Conf, eff, "")
	if amb {
		return "", ""
	}
	if adm {
		cs.Want = "served (client " + eff.String() + ")"
		if got != "NOERROR" || len(asked) != 1 {
			return "doh:admitted-not-served", fmt.Sprintf("the client of this DoH request is %s, which the access lists admit; got %s", eff, cs.Got)
		}
		return "", ""
	}
	cs.Want = "REFUSED (client " + eff.String() + ")"
	if got != "REFUSED" || len(asked) != 0 {
		kind := "peer-is-client"
		if eff.String() != cs.Peer {
			kind = "header-names-client"
		}
		return "doh:excluded-served:" + kind, fmt.Sprintf("the client of this DoH request is %s (peer %s, %s: %s, trusted proxies %v), which the access lists exclude; got %s", eff, cs.Peer, cs.Header, cs.HdrAddr, cs.Trusted, cs.Got)
	}
	return "", ""
}

func partDoH(c *lib.Ctx, idx *int) {
	confs := []config{
		{Disallowed: []string{"127.0.0.1", "::1"}},
		{Disallowed: []string{"1.2.3.4"}},
		{Allowed: []string{"1.2.3.0/24"}},
		{Allowed: []string{"127.0.0.0/8"}},
		{Disallowed: []string{"9.9.9.9"}},
	}
	trusts := [][]string{nil, {"127.0.0.1/32"}, {"9.9.9.0/24", "::1/128"}, {"0.0.0.0/0"}}
	peers := []string{"127.0.0.1", "::1", "9.9.9.9", "1.2.3.4", "5.6.7.8"}
	hdrs := []string{"", "X-Real-IP", "X-Forwarded-For", "True-Client-IP", "CF-Connecting-IP"}
	hdrAddrs := []string{"1.2.3.4", "127.0.0.1", "5.6.7.8"}
	for _, cf := range confs {
		for _, tr := range trusts {
			for _, peer := range peers {
				for _, h := range hdrs {
					for _, ha := range hdrAddrs {
						if h == "" && ha != hdrAddrs[0] {
							continue
						}
						*idx++
						if !c.Mine(*idx) {
							continue
						}
						cs := dohCase{Part: "doh", Conf: cf, Trusted: tr, Peer: peer, Header: h, HdrAddr: ha}
						c.Count("evals", 1)
						c.Count("doh_requests", 1)
						k, d := runDoHCase(&cs)
						if h != "" {
							c.Distinct("nontrivial", jsonStr(cs.Conf)+fmt.Sprint(tr, peer, h, ha))
						}
						if k != "" {
							c.Violation(k, d+"\ncase: "+jsonStr(cs), cs)
						}
					}
				}
			}
		}
	}
}
