// C13 — configuration upgrade never panics, reaches the current schema and is
// path-independent.  Deviation-bounded exhaustive enumeration (DESIGN.md §4 C13).
package main

import (
	"bytes"
	"encoding/json"
	"fmt"
	"os"
	"path/filepath"
	"reflect"
	"regexp"
	"runtime/debug"
	"sort"
	"strconv"
	"strings"
	"time"

	"github.com/AdguardTeam/AdGuardHome/internal/configmigrate"
	"github.com/AdguardTeam/AdGuardHome/internal/home"
	"github.com/AdguardTeam/AdGuardHome/internal/verifx/lib"
	"github.com/AdguardTeam/golibs/log"
	"gopkg.in/yaml.v3"
)

const last = configmigrate.LastSchemaVersion

type baseDoc struct {
	Name    string
	Version int
	Doc     map[string]any
	Golden  bool
	// SlowHash marks documents whose upgrade hashes a password with bcrypt
	// (about 50 ms per migration): only deviation 0 and the auth_* sites are
	// explored on them; the -noauth variant carries the other deviations.
	SlowHash bool
}

// deviation replaces the value at Path by Shape.
type deviation struct {
	Path  []string `json:"path"`
	Shape string   `json:"shape"`
}

type caseC struct {
	Base  string      `json:"base"`
	Devs  []deviation `json:"deviations"`
	Split int         `json:"split,omitempty"`
	Body  string      `json:"body"`
}

var shapes = []string{"absent", "null", "int", "string", "bool", "map", "list", "list1", "listmap", "float"}

func shapeVal(s string) (v any, absent bool) {
	switch s {
	case "absent":
		return nil, true
	case "null":
		return nil, false
	case "int":
		return 7, false
	case "string":
		return "str", false
	case "bool":
		return true, false
	case "float":
		// A whole number spelled as a float ("7.0"): the loaders of all schema
		// versions accept it for integer settings.
		return &yaml.Node{Kind: yaml.ScalarNode, Tag: "!!float", Value: "7.0"}, false
	case "map":
		return map[string]any{}, false
	case "list":
		return []any{}, false
	case "list1":
		return []any{1}, false
	case "listmap":
		return []any{map[string]any{"x": 1}}, false
	}
	panic("shape")
}

func clone(v any) any {
	switch x := v.(type) {
	case map[string]any:
		m := make(map[string]any, len(x))
		for k, e := range x {
			m[k] = clone(e)
		}
		return m
	case []any:
		l := make([]any, len(x))
		for i, e := range x {
			l[i] = clone(e)
		}
		return l
	}
	return v
}

// apply sets the deviation in doc (a fresh clone); returns false if the path
// does not resolve.
func apply(doc map[string]any, d deviation) bool {
	var cur any = doc
	for i, k := range d.Path {
		lastSeg := i == len(d.Path)-1
		switch c := cur.(type) {
		case map[string]any:
			if lastSeg && strings.HasPrefix(d.Shape, "dupfirst-without:") {
				l, ok := c[k].([]any)
				if !ok || len(l) == 0 {
					return false
				}
				first, ok := l[0].(map[string]any)
				if !ok {
					return false
				}
				cp := clone(first).(map[string]any)
				delete(cp, strings.TrimPrefix(d.Shape, "dupfirst-without:"))
				c[k] = append([]any{cp}, l...)
				return true
			}
			if lastSeg {
				v, absent := shapeVal(d.Shape)
				if absent {
					delete(c, k)
				} else {
					c[k] = v
				}
				return true
			}
			nx, ok := c[k]
			if !ok {
				return false
			}
			cur = nx
		case []any:
			idx, err := strconv.Atoi(strings.TrimPrefix(k, "#"))
			if err != nil || idx >= len(c) {
				return false
			}
			if lastSeg {
				v, absent := shapeVal(d.Shape)
				if absent {
					return false
				}
				c[idx] = v
				return true
			}
			cur = c[idx]
		default:
			return false
		}
	}
	return false
}

// paths lists every key path of doc (map keys recursively; first element of
// every list).
func paths(v any, prefix []string, out *[][]string) {
	switch x := v.(type) {
	case map[string]any:
		keys := make([]string, 0, len(x))
		for k := range x {
			keys = append(keys, k)
		}
		sort.Strings(keys)
		for _, k := range keys {
			p := append(append([]string{}, prefix...), k)
			*out = append(*out, p)
			paths(x[k], p, out)
		}
	case []any:
		if len(x) > 0 {
			p := append(append([]string{}, prefix...), "#0")
			*out = append(*out, p)
			paths(x[0], p, out)
		}
	}
}

func repoRoot() string {
	if r := os.Getenv("VERIF_REPO"); r != "" {
		return r
	}
	return "/repo"
}

var litRe = regexp.MustCompile(`"([a-z][a-z0-9_]*)"`)

// literalKeys returns, per step N, the string literals of vN.go (the keys the
// step may read or write).
func literalKeys() map[int][]string {
	res := map[int][]string{}
	dir := repoRoot() + "/internal/configmigrate"
	ents, _ := os.ReadDir(dir)
	for _, e := range ents {
		n := e.Name()
		if !strings.HasPrefix(n, "v") || !strings.HasSuffix(n, ".go") {
			continue
		}
		ver, err := strconv.Atoi(strings.TrimSuffix(strings.TrimPrefix(n, "v"), ".go"))
		if err != nil {
			continue
		}
		data, _ := os.ReadFile(filepath.Join(dir, n))
		seen := map[string]bool{}
		for _, m := range litRe.FindAllStringSubmatch(string(data), -1) {
			if !seen[m[1]] {
				seen[m[1]] = true
				res[ver] = append(res[ver], m[1])
			}
		}
	}
	return res
}

func loadBases() []baseDoc {
	var out []baseDoc
	dir := repoRoot() + "/internal/configmigrate/testdata/TestMigrateConfig_Migrate"
	ents, _ := os.ReadDir(dir)
	for _, e := range ents {
		data, err := os.ReadFile(filepath.Join(dir, e.Name(), "input.yml"))
		if err != nil {
			continue
		}
		doc := map[string]any{}
		if err = yaml.Unmarshal(data, &doc); err != nil {
			continue
		}
		v, _ := doc["schema_version"].(int)
		_, slow := doc["auth_pass"]
		slow = slow && v < 5
		out = append(out, baseDoc{Name: "golden/" + e.Name(), Version: v, Doc: doc, Golden: true, SlowHash: slow})
		if slow {
			d2 := clone(doc).(map[string]any)
			delete(d2, "auth_pass")
			delete(d2, "auth_name")
			out = append(out, baseDoc{Name: "golden/" + e.Name() + "-noauth", Version: v, Doc: d2, Golden: true})
		}
	}
	for v := 0; v <= int(last); v++ {
		out = append(out, baseDoc{Name: fmt.Sprintf("minimal/%d", v), Version: v, Doc: map[string]any{"schema_version": v}})
	}
	sort.Slice(out, func(i, j int) bool { return out[i].Name < out[j].Name })
	return out
}

type env struct {
	c   *lib.Ctx
	mig *configmigrate.Migrator
	wd  string
}

type outcome struct {
	body     []byte
	upgraded bool
	err      error
	panicked string
}

func (e *env) migrate(body []byte, target uint) (o outcome) {
	defer func() {
		if r := recover(); r != nil {
			o.panicked = fmt.Sprintf("%v\n%s", r, debug.Stack())
		}
	}()
	e.c.Count("migrations", 1)
	o.body, o.upgraded, o.err = e.mig.Migrate(body, target)
	return o
}

type markerProbe struct {
	Name    string
	Body    string
	Markers []string
}

func markerProbes() (out []markerProbe) {
	markers := []string{"198.51.100.1", "198.51.100.2", "203.0.113.9", "203.0.113.10", "192.0.2.53", "10.9.0.1", "aa:bb:cc:00:00:01", "10.9.0.2", "aa:bb:cc:00:00:03", "10.9.0.4", "aa:bb:cc:00:00:04"}
	for v := 0; v <= 9; v++ {
		body := fmt.Sprintf("schema_version: %d\n", v) +
			"dns:\n  upstream_dns:\n  - 198.51.100.1\n  - 198.51.100.2\n  local_ptr_upstreams:\n  - 203.0.113.9\n  - 203.0.113.10\n  bootstrap_dns:\n  - 192.0.2.53\n"
		if v <= 5 {
			body += "clients:\n- name: c1\n  ip: 10.9.0.1\n  mac: aa:bb:cc:00:00:01\n- name: c2\n  ip: 10.9.0.2\n  mac: \"\"\n- name: c3\n  ip: \"\"\n  mac: aa:bb:cc:00:00:03\n- name: c4\n  ip: 10.9.0.4\n  mac: aa:bb:cc:00:00:04\n"
		} else {
			body += "clients:\n- name: c1\n  ids:\n  - 10.9.0.1\n  - aa:bb:cc:00:00:01\n- name: c2\n  ids:\n  - 10.9.0.2\n- name: c3\n  ids:\n  - aa:bb:cc:00:00:03\n- name: c4\n  ids:\n  - 10.9.0.4\n  - aa:bb:cc:00:00:04\n"
		}
		out = append(out, markerProbe{Name: fmt.Sprintf("markers/v%d", v), Body: body, Markers: markers})
	}
	return out
}

// countScalars counts how often each string occurs as a scalar in v.
func countScalars(v any, into map[string]int) {
	switch x := v.(type) {
	case map[string]any:
		for _, e := range x {
			countScalars(e, into)
		}
	case []any:
		for _, e := range x {
			countScalars(e, into)
		}
	case string:
		into[x]++
	}
}

func (e *env) checkMarkers(pd markerProbe) {
	c := e.c
	c.Count("evals", 1)
	c.Count("marker_probes", 1)
	c.Distinct("nontrivial", pd.Name)
	cs := caseC{Base: pd.Name, Body: pd.Body}
	o := e.migrate([]byte(pd.Body), last)
	if o.panicked != "" {
		c.Violation("panic:"+panicSite(o.panicked), fmt.Sprintf("Migrate panics on %s:\n%s", pd.Name, firstLines(o.panicked, 14)), cs)
		return
	}
	if o.err != nil {
		c.Violation("marker-probe-rejected:"+pd.Name, fmt.Sprintf("a plain document of schema version with lists and clients is rejected: %v\n%s", o.err, pd.Body), cs)
		return
	}
	in, _ := parseAny([]byte(pd.Body))
	out, err := parseAny(o.body)
	if err != nil {
		c.Violation("marker-probe-unparsable:"+pd.Name, err.Error(), cs)
		return
	}
	ci, co := map[string]int{}, map[string]int{}
	countScalars(in, ci)
	countScalars(out, co)
	// Step 6 copies a client's ip and mac into its new ids list and keeps the
	// old fields: every client entry must list exactly its own two values.
	var walk func(v any) string
	walk = func(v any) string {
		switch x := v.(type) {
		case map[string]any:
			_, hasIP := x["ip"]
			_, hasMAC := x["mac"]
			if ids, ok := x["ids"].([]any); ok && (hasIP || hasMAC) {
				var want []any
				for _, k := range []string{"ip", "mac"} {
					if sv, _ := x[k].(string); sv != "" {
						want = append(want, sv)
					}
				}
				if fmt.Sprint(ids) != fmt.Sprint(want) {
					return fmt.Sprintf("client %v: ids %v, but ip/mac of the same entry are %v", x["name"], ids, want)
				}
				delete(x, "ids") // counted through ip/mac below
			}
			for _, e := range x {
				if m := walk(e); m != "" {
					return m
				}
			}
		case []any:
			for _, e := range x {
				if m := walk(e); m != "" {
					return m
				}
			}
		}
		return ""
	}
	if m := walk(out); m != "" {
		c.Violation("setting-not-preserved:client-ids:"+pd.Name, fmt.Sprintf("%s\ninput:\n%s\nupgraded:\n%s", m, pd.Body, o.body), cs)
		return
	}
	co = map[string]int{}
	countScalars(out, co)
	for _, m := range pd.Markers {
		if ci[m] != co[m] {
			c.Violation("setting-not-preserved:"+pd.Name, fmt.Sprintf("the value %q occurs %d time(s) in the input and %d time(s) in the upgraded document (values of list settings and client identifiers must be carried over as they are)\ninput:\n%s\nupgraded:\n%s", m, ci[m], co[m], pd.Body, o.body), cs)
			return
		}
	}
}

func parseAny(b []byte) (any, error) {
	var v any
	err := yaml.Unmarshal(b, &v)
	return normHash(v), err
}

// normHash replaces bcrypt hashes (randomly salted by step 5) by a constant.
func normHash(v any) any {
	switch x := v.(type) {
	case map[string]any:
		for k, e := range x {
			x[k] = normHash(e)
		}
	case []any:
		for i, e := range x {
			x[i] = normHash(e)
		}
	case string:
		if strings.HasPrefix(x, "$2a$") && len(x) == 60 {
			return "<bcrypt>"
		}
	}
	return v
}

func panicSite(stack string) string {
	for _, l := range strings.Split(stack, "\n") {
		if i := strings.Index(l, "internal/configmigrate/v"); i >= 0 && strings.Contains(l, ".go:") {
			s := l[i+len("internal/configmigrate/"):]
			if j := strings.Index(s, " "); j > 0 {
				s = s[:j]
			}
			return s
		}
	}
	return "unknown"
}

const extraKey = "verif_extra_setting"

var extraVal = map[string]any{"k": []any{1, "two"}, "n": nil}

// checkCase runs every oracle on one document.  label is used for keys.
func (e *env) checkCase(b *baseDoc, devs []deviation, allSplits bool) {
	c := e.c
	doc := clone(b.Doc).(map[string]any)
	for _, d := range devs {
		if !apply(doc, d) {
			return
		}
	}
	doc[extraKey] = clone(extraVal)
	body, err := yaml.Marshal(doc)
	if err != nil {
		return
	}
	c.Count("evals", 1)
	cs := func(split int) caseC { return caseC{Base: b.Name, Devs: devs, Split: split, Body: string(body)} }
	devKey := func() string {
		var sb strings.Builder
		for _, d := range devs {
			fmt.Fprintf(&sb, "%s=%s;", strings.Join(d.Path, "."), d.Shape)
		}
		return sb.String()
	}
	one := e.migrate(body, last)
	if one.panicked != "" {
		site := panicSite(one.panicked)
		c.Violation("panic:"+site, fmt.Sprintf("Migrate panics (base %s, deviations %s):\n%s\ndocument:\n%s", b.Name, devKey(), firstLines(one.panicked, 12), body), cs(0))
		return
	}
	if one.err != nil {
		c.Count("rejected", 1)
		if !bytes.Equal(one.body, body) || one.upgraded {
			c.Violation("error-changes-body:"+b.Name, fmt.Sprintf("Migrate failed (%v) but returned a different body or upgraded=true", one.err), cs(0))
		}
	} else {
		c.Count("accepted", 1)
		v, perr := parseAny(one.body)
		m, _ := v.(map[string]any)
		if perr != nil || m == nil {
			c.Violation("output-unparsable:"+b.Name, fmt.Sprintf("output does not parse: %v", perr), cs(0))
			return
		}
		if sv, _ := m["schema_version"].(int); sv != int(last) {
			c.Violation("not-stamped:"+b.Name+":"+devKey(), fmt.Sprintf("successful upgrade is stamped schema_version=%v, want %d", m["schema_version"], last), cs(0))
		}
		if !reflect.DeepEqual(m[extraKey], extraVal) {
			c.Violation("extra-key-lost:"+b.Name, fmt.Sprintf("unrelated top-level key changed: %v", m[extraKey]), cs(0))
		}
		again := e.migrate(one.body, last)
		if again.panicked != "" || again.err != nil || again.upgraded || !bytes.Equal(again.body, one.body) {
			c.Violation("not-idempotent:"+b.Name, fmt.Sprintf("migrating the current-schema output again: upgraded=%v err=%v panic=%v", again.upgraded, again.err, again.panicked != ""), cs(0))
		}
		validIn := b.Golden && len(devs) == 0
		if b.Golden && len(devs) == 1 && strings.HasPrefix(devs[0].Shape, "dupfirst-") {
			// Duplicating a list element with one key left out keeps a
			// document valid under its own schema (YAML keys are optional).
			validIn = true
		}
		if validIn {
			if lerr := home.VerifLoadConfig(one.body); lerr != nil {
				c.Violation("loader-rejects:"+b.Name, fmt.Sprintf("loader rejects upgraded golden document: %v", lerr), cs(0))
			}
			c.Count("loader_checks", 1)
		}
	}
	// Split points.
	var oneVal any
	if one.err == nil {
		oneVal, _ = parseAny(one.body)
	}
	ver, isInt := doc["schema_version"].(int)
	if !isInt || ver < 0 {
		return
	}
	for k := ver + 1; k < int(last); k++ {
		if !allSplits && k != ver+1 && k != int(last)-1 && k != (ver+int(last))/2 {
			continue
		}
		c.Count("split_runs", 1)
		p1 := e.migrate(body, uint(k))
		if p1.panicked != "" {
			c.Violation("panic:"+panicSite(p1.panicked), fmt.Sprintf("Migrate to %d panics:\n%s", k, firstLines(p1.panicked, 12)), cs(k))
			return
		}
		var fin outcome
		if p1.err != nil {
			fin = p1
		} else {
			fin = e.migrate(p1.body, last)
			if fin.panicked != "" {
				c.Violation("panic:"+panicSite(fin.panicked), fmt.Sprintf("Migrate from split %d panics (base %s, deviations %s):\n%s\nintermediate document:\n%s", k, b.Name, devKey(), firstLines(fin.panicked, 12), p1.body), cs(k))
				return
			}
		}
		if (fin.err == nil) != (one.err == nil) {
			c.Violation(fmt.Sprintf("split-outcome:%s:%s", b.Name, devKey()), fmt.Sprintf("one run: err=%v; split at %d: err=%v", one.err, k, fin.err), cs(k))
			return
		}
		if fin.err == nil {
			fv, _ := parseAny(fin.body)
			if !reflect.DeepEqual(fv, oneVal) {
				c.Violation(fmt.Sprintf("split-differs:%s:%s", b.Name, devKey()), fmt.Sprintf("result depends on split point %d (- one run, + split):\n%s", k, diffLines(remarshal(oneVal), remarshal(fv))), cs(k))
				return
			}
		}
	}
}

func remarshal(v any) []byte {
	b, _ := yaml.Marshal(v)
	return b
}

func firstLines(s string, n int) string {
	ls := strings.Split(s, "\n")
	if len(ls) > n {
		ls = ls[:n]
	}
	return strings.Join(ls, "\n")
}

func diffLines(a, b []byte) string {
	la, lb := strings.Split(string(a), "\n"), strings.Split(string(b), "\n")
	sa := map[string]bool{}
	for _, l := range la {
		sa[l] = true
	}
	sb := map[string]bool{}
	for _, l := range lb {
		sb[l] = true
	}
	var out []string
	for _, l := range la {
		if !sb[l] {
			out = append(out, "- "+l)
		}
	}
	for _, l := range lb {
		if !sa[l] {
			out = append(out, "+ "+l)
		}
	}
	if len(out) > 20 {
		out = out[:20]
	}
	return strings.Join(out, "\n")
}

// sites computes the deviation sites of a base document: every existing path
// plus every literal key of later steps under the root and under every
// top-level map.
func sites(b *baseDoc, lits map[int][]string) (existing, added [][]string) {
	paths(b.Doc, nil, &existing)
	have := map[string]bool{}
	for _, p := range existing {
		have[strings.Join(p, "\x00")] = true
	}
	containers := [][]string{nil}
	for k, v := range b.Doc {
		if _, ok := v.(map[string]any); ok {
			containers = append(containers, []string{k})
		}
	}
	sort.Slice(containers, func(i, j int) bool { return strings.Join(containers[i], ".") < strings.Join(containers[j], ".") })
	keyset := map[string]bool{}
	for ver, ks := range lits {
		if ver > b.Version {
			for _, k := range ks {
				keyset[k] = true
			}
		}
	}
	keys := make([]string, 0, len(keyset))
	for k := range keyset {
		keys = append(keys, k)
	}
	sort.Strings(keys)
	for _, ct := range containers {
		for _, k := range keys {
			p := append(append([]string{}, ct...), k)
			if !have[strings.Join(p, "\x00")] {
				added = append(added, p)
			}
		}
	}
	return existing, added
}

func run(c *lib.Ctx) {
	log.SetLevel(log.ERROR)
	log.SetOutput(devNull{})
	wd := filepath.Join(c.TmpDir, "work")
	_ = os.MkdirAll(filepath.Join(wd, "data"), 0o755)
	e := &env{c: c, wd: wd, mig: configmigrate.New(&configmigrate.Config{WorkingDir: wd, DataDir: filepath.Join(wd, "data")})}
	bases := loadBases()
	lits := literalKeys()
	idx := 0
	// Deviation bound 0.
	for i := range bases {
		if c.Mine(idx) {
			e.checkCase(&bases[i], nil, true)
			c.Distinct("nontrivial", bases[i].Name)
			c.Count("dev0", 1)
		}
		idx++
	}
	// Value-preservation probes: documents whose list-valued settings and
	// per-client identifiers carry distinct marker values; every marker must
	// occur in the upgraded document exactly as often as in the input.
	for _, pd := range markerProbes() {
		if c.Mine(idx) {
			e.checkMarkers(pd)
		}
		idx++
	}
	// Raw documents that are not (non-empty) mappings.
	for _, raw := range []string{"", "\n", "# only a comment\n", "---\n", "---", "null\n", "~\n", "[]\n", "- schema_version: 1\n", "3\n", "text\n", "{}\n",
		"schema_version: null\n", "schema_version: -1\n", "schema_version: 30\n", "schema_version: 1.5\n", "schema_version: \"3\"\n", "schema_version: 99999999999999999999\n",
		"schema_version: 28\n---\nschema_version: 3\n", "schema_version: 0\nschema_version: 1\n", "? [a]\n: b\nschema_version: 1\n", "1: x\nschema_version: 2\n", "\tschema_version: 1\n", "schema_version: &a 5\ndns: *a\n",
		// a byte order mark in front of a current, an old, an unparsable and a wrongly stamped document
		fmt.Sprintf("\ufeffschema_version: %d\n", last), "\ufeffschema_version: 27\n", "\ufeffschema_version: [\n", "\ufeffschema_version: 1000\n",
		fmt.Sprintf("schema_version: %d\n", last), fmt.Sprintf("schema_version: %d\n", last+1), "schema_version: -2147483648\n", "schema_version: 4294967297\n"} {
		if c.Mine(idx) {
			c.Count("evals", 1)
			c.Count("raw_docs", 1)
			c.Distinct("nontrivial", "raw:"+raw)
			o := e.migrate([]byte(raw), last)
			cs := caseC{Base: "raw", Body: raw}
			switch {
			case o.panicked != "":
				c.Violation("panic-raw:"+panicSite(o.panicked)+":"+strconv.Quote(raw), fmt.Sprintf("Migrate panics on raw document %q:\n%s", raw, firstLines(o.panicked, 14)), cs)
			case o.err != nil && (o.upgraded || string(o.body) != raw):
				c.Violation("error-changes-body:raw:"+strconv.Quote(raw), fmt.Sprintf("Migrate failed (%v) but changed the body", o.err), cs)
			case o.err == nil && !o.upgraded && string(o.body) != raw:
				c.Violation("not-upgraded-but-changed:raw:"+strconv.Quote(raw), fmt.Sprintf("Migrate reports that nothing was upgraded but returns other bytes: %q", o.body), cs)
			case o.err == nil && !stampedCurrent(o.body):
				c.Violation("no-error-not-current:raw:"+strconv.Quote(raw), fmt.Sprintf("Migrate returns no error (upgraded=%v) but the document is not stamped with the current schema version: %q", o.upgraded, o.body), cs)
			case o.err == nil && o.upgraded:
				again := e.migrate(o.body, last)
				if again.panicked != "" || again.err != nil || again.upgraded {
					c.Violation("not-idempotent:raw:"+strconv.Quote(raw), "second migration of upgraded raw document is not a no-op", cs)
				}
			}
		}
		idx++
	}
	c.Note("bases", fmt.Sprintf("%d base documents (golden inputs + one minimal document per version)", len(bases)))
	// List variants: every list of objects gets a second element which is a
	// copy of the first without one of its keys, placed in front.
	for i := range bases {
		b := &bases[i]
		if !b.Golden || b.SlowHash {
			continue
		}
		var ps [][]string
		paths(b.Doc, nil, &ps)
		for _, p := range ps {
			if p[len(p)-1] == "#0" || strings.Contains(strings.Join(p, "/"), "#") {
				continue
			}
			var cur any = b.Doc
			for _, k := range p {
				cur = cur.(map[string]any)[k]
			}
			l, ok := cur.([]any)
			if !ok || len(l) == 0 {
				continue
			}
			first, ok := l[0].(map[string]any)
			if !ok {
				continue
			}
			keys := make([]string, 0, len(first)+1)
			for k := range first {
				keys = append(keys, k)
			}
			sort.Strings(keys)
			keys = append(keys, "(none)")
			for _, k := range keys {
				if c.Mine(idx) {
					d := deviation{Path: p, Shape: "dupfirst-without:" + k}
					e.checkCase(b, []deviation{d}, true)
					c.Count("listdup", 1)
					c.Distinct("nontrivial", b.Name+"|"+strings.Join(p, ".")+"="+d.Shape)
				}
				idx++
			}
		}
	}
	// Deviation bound 1.
	type site struct {
		b *baseDoc
		p []string
	}
	var readSites [][]site // per base: sites that change the outcome (used for pairs)
	for i := range bases {
		b := &bases[i]
		ex, ad := sites(b, lits)
		var all [][]string
		all = append(all, ex...)
		all = append(all, ad...)
		var rs []site
		for pi, p := range all {
			if len(p) == 1 && p[0] == extraKey {
				continue
			}
			if b.SlowHash && !(len(p) == 1 && strings.HasPrefix(p[0], "auth_")) {
				continue
			}
			rs = append(rs, site{b, p})
			shs := shapes
			if c.Quick() && pi >= len(ex) {
				shs = []string{"null", "string", "map", "list1"}
			}
			for _, sh := range shs {
				if c.Mine(idx) {
					if c.Expired() {
						return
					}
					d := deviation{Path: p, Shape: sh}
					before := c.NumViolationKeys()
					e.checkCase(b, []deviation{d}, !b.SlowHash)
					c.Count("dev1", 1)
					c.Distinct("nontrivial", b.Name+"|"+strings.Join(p, ".")+"="+sh)
					if idx%997 == 0 && before == c.NumViolationKeys() {
						c.Sample(map[string]any{"base": b.Name, "deviation": d})
					}
				}
				idx++
			}
		}
		readSites = append(readSites, rs)
	}
	if c.Quick() {
		c.Note("deviation_bound", "1")
		return
	}
	// Deviation bound 2 (thorough): pairs of sites whose keys are literal keys
	// of the steps (the paths the steps look at), shapes restricted to the four
	// most hostile; all split points.
	hostile := []string{"null", "string", "map", "list1"}
	for i := range bases {
		b := &bases[i]
		if b.SlowHash {
			continue
		}
		keyset := map[string]bool{}
		for ver, ks := range lits {
			if ver > b.Version {
				for _, k := range ks {
					keyset[k] = true
				}
			}
		}
		var ps [][]string
		for _, s := range readSites[i] {
			if keyset[s.p[len(s.p)-1]] && len(s.p) <= 2 {
				ps = append(ps, s.p)
			}
		}
		for x := 0; x < len(ps); x++ {
			for y := x + 1; y < len(ps); y++ {
				if isPrefix(ps[x], ps[y]) || isPrefix(ps[y], ps[x]) {
					continue
				}
				for _, s1 := range hostile {
					for _, s2 := range hostile {
						if c.Mine(idx) {
							if c.Expired() {
								c.Note("deviation_bound", "1 complete, 2 partial")
								return
							}
							e.checkCase(b, []deviation{{ps[x], s1}, {ps[y], s2}}, false)
							c.Count("dev2", 1)
						}
						idx++
					}
				}
			}
		}
	}
	c.Note("deviation_bound", "2")
}

func isPrefix(a, b []string) bool {
	if len(a) > len(b) {
		return false
	}
	for i := range a {
		if a[i] != b[i] {
			return false
		}
	}
	return true
}

type devNull struct{}

func (devNull) Write(p []byte) (int, error) { return len(p), nil }

// stampedCurrent: the document is a mapping whose schema_version is the
// current one.
func stampedCurrent(body []byte) bool {
	var m map[string]any
	if err := yaml.Unmarshal(body, &m); err != nil {
		return false
	}
	v, ok := m["schema_version"].(int)
	return ok && v == int(last)
}

func replay(c *lib.Ctx, raw json.RawMessage) string {
	log.SetLevel(log.ERROR)
	var cs caseC
	if err := json.Unmarshal(raw, &cs); err != nil {
		return err.Error()
	}
	wd := filepath.Join(c.TmpDir, "work")
	_ = os.MkdirAll(filepath.Join(wd, "data"), 0o755)
	e := &env{c: c, wd: wd, mig: configmigrate.New(&configmigrate.Config{WorkingDir: wd, DataDir: filepath.Join(wd, "data")})}
	bases := loadBases()
	if cs.Base == "raw" {
		o := e.migrate([]byte(cs.Body), last)
		if o.panicked != "" {
			return "panic: " + firstLines(o.panicked, 14)
		}
		if o.err != nil && (o.upgraded || string(o.body) != cs.Body) {
			return "error changes body"
		}
		if o.err == nil && !o.upgraded && string(o.body) != cs.Body {
			return "nothing upgraded but other bytes returned"
		}
		if o.err == nil && !stampedCurrent(o.body) {
			return "no error but the document is not stamped with the current schema version"
		}
		return ""
	}
	for i := range bases {
		if bases[i].Name == cs.Base {
			e.checkCase(&bases[i], cs.Devs, true)
		}
	}
	for _, pd := range markerProbes() {
		if pd.Name == cs.Base {
			e.checkMarkers(pd)
		}
	}
	if c.NumViolationKeys() > 0 {
		return "violation reproduced for document:\n" + cs.Body
	}
	return ""
}

func main() {
	lib.Main(&lib.Harness{
		Prop: "C13", Level: "exploration",
		Budget: func(tier string) time.Duration {
			if tier == "thorough" {
				return 25 * time.Minute
			}
			return 4 * time.Minute
		},
		Run: run, Replay: replay,
		Evidence: func(m *lib.Merged) map[string]any {
			return map[string]any{
				"evaluations":         m.Counters["evals"],
				"distinct_nontrivial": m.Distinct["nontrivial"],
				"rule": "10 value-preservation probes (schema 0..9: list settings and four clients carry distinct marker values that must occur in the upgraded document exactly as often as in the input); base documents (golden test inputs of every version + a minimal document per version) with 0, 1 (and in thorough 2) deviations: a key path (every path present in the document, plus every string literal of later migration steps placed under the root and each top-level object) replaced by one of 9 shapes; each document migrated in one run and via every split point k; distinct_nontrivial = distinct (base, path, shape) documents",
				"migrations":          m.Counters["migrations"],
				"split_runs":          m.Counters["split_runs"],
				"accepted":            m.Counters["accepted"],
				"rejected":            m.Counters["rejected"],
				"dev0":                m.Counters["dev0"],
				"dev1":                m.Counters["dev1"],
				"dev2":                m.Counters["dev2"],
				"listdup":             m.Counters["listdup"],
				"loader_checks":       m.Counters["loader_checks"],
			}
		},
		Assumptions: []string{"yaml.v3 round trip of the test documents is faithful", "validity under the document's own schema is only assumed for the repository's golden inputs"},
	})
}
