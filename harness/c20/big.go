package main

// "Whatever the file size": one file with more than two million short records
// (the depth of the binary search grows with the number of records, not with
// the number of bytes).  The first, the last and evenly spread stored
// timestamps must be found, and the read after the seek must return the
// entry's predecessor... the entry itself first (the file-level reader returns
// the found line on the next read).

import (
	"bufio"
	"fmt"
	"os"
	"path/filepath"
	"time"

	"github.com/AdguardTeam/AdGuardHome/internal/querylog"
)

const bigLines = 2_300_000

func (e *env) checkBig() {
	c := e.c
	fs := fileSpec{Filler: bigLines, FillLen: minLine, Gap: "second", Check: "big"}
	defer e.recoverAs(fs)
	path := filepath.Join(e.dir, "big.json")
	f, err := os.Create(path)
	if err != nil {
		panic(err)
	}
	defer os.Remove(path)
	w := bufio.NewWriterSize(f, 1<<20)
	ts := func(i int) time.Time { return epoch.Add(time.Duration(i) * time.Second) }
	for i := 0; i < bigLines; i++ {
		w.WriteString(mkLine(ts(i), 0))
		w.WriteByte('\n')
	}
	if err = w.Flush(); err == nil {
		err = f.Close()
	}
	if err != nil {
		c.EngineError("big file: " + err.Error())
		return
	}
	q, err := querylog.VerifNewQLogFile(path)
	if err != nil {
		panic(err)
	}
	defer q.Close()
	var targets []int
	for k := 0; k < 257; k++ {
		targets = append(targets, int(int64(k)*int64(bigLines-1)/256))
	}
	targets = append(targets, 1, 2, bigLines-2, bigLines/2+1, bigLines/3, 1<<20, 1<<21, 1<<21-1)
	maxDepth := 0
	for _, i := range targets {
		c.Count("evals", 1)
		c.Count("seeks", 1)
		c.Count("big_file_seeks", 1)
		_, depth, err := q.SeekTS(ts(i).UnixNano())
		if depth > maxDepth {
			maxDepth = depth
		}
		if err != nil {
			e.fail(fs, "big:seek-present-fails", "a file of %d records of %d bytes: seeking the stored timestamp of record %d fails after %d steps: %v", bigLines, minLine, i, depth, err)
			return
		}
		l, err := q.ReadNext()
		if err != nil || l != mkLine(ts(i), 0) {
			e.fail(fs, "big:seek-lands-elsewhere", "a file of %d records: after seeking record %d the next read returns %q (%v)", bigLines, i, short(l), err)
			return
		}
	}
	// Absent targets: between neighbours is impossible here (1 s apart, but
	// nanosecond resolution): one nanosecond after a stored one.
	for _, i := range []int{0, bigLines / 2, bigLines - 2} {
		c.Count("evals", 1)
		c.Count("seeks", 1)
		_, _, err := q.SeekTS(ts(i).UnixNano() + 1)
		if cls := querylog.VerifErrClass(err); cls != "notfound" {
			e.fail(fs, "big:seek-absent-class", "a file of %d records: seeking a timestamp between records %d and %d reports %q (%v), want not-found", bigLines, i, i+1, cls, err)
			return
		}
	}
	c.Max("big_file_max_search_depth", int64(maxDepth))
	c.Distinct("nontrivial", fmt.Sprintf("big:%d", bigLines))
}
