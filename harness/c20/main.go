// C20 — query-log files read backwards completely; timestamp seeks land on
// the entry.  Stateless bounded-exhaustive enumeration of files on two builds
// of the same source: scaled buffer constants (maxEntrySize 64, buffer 6400)
// and the real constants (DESIGN.md §4 C20).
package main

import (
	"encoding/json"
	"fmt"
	"io"
	"os"
	"path/filepath"
	"runtime/debug"
	"strings"
	"time"

	"github.com/AdguardTeam/AdGuardHome/internal/querylog"
	"github.com/AdguardTeam/AdGuardHome/internal/verifx/lib"
)

const maxEntry = querylog.VerifMaxEntrySize

var scaled = maxEntry < 1024

var epoch = time.Date(2024, 1, 1, 0, 0, 0, 0, time.UTC)

const minLine = 38 // {"T":"2024-01-01T00:00:00.000000001Z"}

func mkLine(ts time.Time, length int) string { return mkLineKey(ts, length, false) }

// mkLineKey writes the record either with the current timestamp key "T" or
// with the key "Time" of records written before the format change (a log that
// survived an upgrade has a prefix of such records).  A legacy record is three
// bytes longer, so its minimal length is minLine+3.
func mkLineKey(ts time.Time, length int, legacy bool) string {
	key, min := "T", minLine
	if legacy {
		key, min = "Time", minLine+3
	}
	s := fmt.Sprintf(`{"%s":"%s"}`, key, ts.UTC().Format("2006-01-02T15:04:05.000000000Z"))
	if len(s) != min {
		panic("line length")
	}
	if length > len(s) {
		s += strings.Repeat(" ", length-len(s))
	}
	return s
}

type fileSpec struct {
	Filler   int    `json:"filler_lines"`
	FillLen  int    `json:"filler_len"`
	Lens     []int  `json:"tail_line_lengths"`
	Gap      string `json:"gaps"`
	Split    int    `json:"split,omitempty"` // two-file mode: tail lines [0,split) in the rotated file (with the filler), rest in the current
	TwoFiles bool   `json:"two_files,omitempty"`
	Legacy   int    `json:"legacy_lines,omitempty"` // the oldest N records (filler first) carry the timestamp under the legacy key "Time"
	Check    string `json:"check,omitempty"`
	Detail   string `json:"detail,omitempty"`
}

func gapOf(kind string, i int) time.Duration {
	switch kind {
	case "1ns":
		return time.Nanosecond
	case "1s":
		return time.Second
	default: // mixed
		if i%2 == 0 {
			return time.Nanosecond
		}
		return time.Hour
	}
}

// build returns the lines (oldest first) and their timestamps.
func build(fs fileSpec) (lines []string, tss []int64) {
	t := epoch
	for i := 0; i < fs.Filler+len(fs.Lens); i++ {
		t = t.Add(gapOf(fs.Gap, i) * 2) // leave room for "between" targets
		l := fs.FillLen
		if i >= fs.Filler {
			l = fs.Lens[i-fs.Filler]
		}
		lines = append(lines, mkLineKey(t, l, i < fs.Legacy))
		tss = append(tss, t.UnixNano())
	}
	return lines, tss
}

func writeLines(path string, lines []string) {
	var sb strings.Builder
	for _, l := range lines {
		sb.WriteString(l)
		sb.WriteByte('\n')
	}
	if err := os.WriteFile(path, []byte(sb.String()), 0o644); err != nil {
		panic(err)
	}
}

type env struct {
	c   *lib.Ctx
	dir string
}

func (e *env) fail(fs fileSpec, key, format string, a ...any) {
	fs.Check = key
	fs.Detail = fmt.Sprintf(format, a...)
	build := "real"
	if scaled {
		build = "scaled"
	}
	e.c.Violation(key+":"+build, fs.Detail+"\nfile: "+jsonStr(fs), fs)
}

// recoverAs turns a panic of the code under test into a violation.
func (e *env) recoverAs(fs fileSpec) {
	if r := recover(); r != nil {
		st := string(debug.Stack())
		site := "unknown"
		for _, l := range strings.Split(st, "\n") {
			if i := strings.Index(l, "internal/querylog/qlog"); i >= 0 {
				site = strings.Fields(l[i:])[0]
				break
			}
		}
		e.fail(fs, "panic:"+site, "reader panics: %v", r)
	}
}

func jsonStr(v any) string { b, _ := json.Marshal(v); return string(b) }

type reader interface {
	ReadNext() (string, error)
}

// readN reads up to n lines (n<0: until EOF).  It guards against loops.
func readN(r reader, n, limit int) (got []string, eof bool, err error) {
	for n < 0 || len(got) < n {
		l, e := r.ReadNext()
		if e == io.EOF {
			return got, true, nil
		}
		if e != nil {
			return got, false, e
		}
		got = append(got, l)
		if len(got) > limit {
			return got, false, fmt.Errorf("more than %d lines returned: reader loops", limit)
		}
	}
	return got, false, nil
}

func reversed(l []string) []string {
	r := make([]string, len(l))
	for i := range l {
		r[len(l)-1-i] = l[i]
	}
	return r
}

func eqPrefix(got, want []string) int {
	for i := range got {
		if i >= len(want) || got[i] != want[i] {
			return i
		}
	}
	return -1
}

func short(s string) string {
	if len(s) > 60 {
		return fmt.Sprintf("%s...(%d bytes)", s[:50], len(s))
	}
	return s
}

// checkFile runs every oracle on one single-file case.
func (e *env) checkFile(fs fileSpec, readAfterSeek int) {
	c := e.c
	defer e.recoverAs(fs)
	lines, tss := build(fs)
	path := filepath.Join(e.dir, "f.json")
	writeLines(path, lines)
	c.Count("files", 1)
	f, err := querylog.VerifNewQLogFile(path)
	if err != nil {
		panic(err)
	}
	defer f.Close()
	want := reversed(lines)
	full := func(tag string) bool {
		if _, err := f.SeekStart(); err != nil {
			e.fail(fs, "seekstart-error", "%s: SeekStart: %v", tag, err)
			return false
		}
		got, eof, err := readN(f, -1, len(lines)+5)
		c.Count("evals", 1)
		if err != nil {
			e.fail(fs, "read-error", "%s: backward read failed after %d lines: %v", tag, len(got), err)
			return false
		}
		if i := eqPrefix(got, want); i >= 0 || len(got) != len(want) || !eof {
			if i < 0 {
				i = len(got)
			}
			g, w := "(EOF)", "(EOF)"
			if i < len(got) {
				g = short(got[i])
			}
			if i < len(want) {
				w = short(want[i])
			}
			e.fail(fs, "backward-read", "%s: backward read differs at line %d from the end: got %q want %q (got %d lines, file has %d)", tag, i, g, w, len(got), len(want))
			return false
		}
		return true
	}
	if !full("fresh") {
		return
	}
	if len(lines) == 0 {
		_, _, err := f.SeekTS(epoch.UnixNano())
		c.Count("evals", 1)
		if err == nil {
			e.fail(fs, "seek-empty", "seek in an empty file succeeded")
		}
		return
	}
	// Seeks: present targets (all tail lines, first filler, last filler) and
	// absent ones.  Seeks reuse the same reader object after partial reads.
	type target struct {
		ts    int64
		idx   int // index of the line if present
		class string
	}
	var targets []target
	present := map[int]bool{}
	for i := fs.Filler; i < len(lines); i++ {
		present[i] = true
	}
	for _, i := range []int{0, fs.Filler - 1, fs.Filler / 2} {
		if i >= 0 && i < len(lines) {
			present[i] = true
		}
	}
	for i := range lines {
		if present[i] {
			targets = append(targets, target{tss[i], i, ""})
		}
	}
	targets = append(targets, target{tss[0] - 1, -1, "tooearly"}, target{tss[len(tss)-1] + 1, -1, "toolate"})
	for i := range lines {
		if present[i] && i+1 < len(lines) {
			targets = append(targets, target{tss[i] + 1, -1, "notfound"})
		}
	}
	for ti, tg := range targets {
		// Vary the reader's prior state: fresh after a full read, after a
		// partial read, or directly after the previous seek.
		switch ti % 3 {
		case 1:
			if _, err := f.SeekStart(); err == nil {
				_, _, _ = readN(f, 1+ti%4, len(lines)+5)
			}
		case 2:
			if _, err := f.SeekStart(); err == nil {
				_, _, _ = readN(f, -1, len(lines)+5)
			}
		}
		_, depth, err := f.SeekTS(tg.ts)
		c.Count("evals", 1)
		c.Count("seeks", 1)
		cls := querylog.VerifErrClass(err)
		if depth >= 100 {
			e.fail(fs, "seek-depth", "seek to %d needed depth %d", tg.ts, depth)
			return
		}
		if tg.idx >= 0 {
			if err != nil {
				e.fail(fs, "seek-present-fails", "seek to the timestamp of stored line %d (of %d) failed: %v", tg.idx, len(lines), err)
				return
			}
			n := readAfterSeek
			if n < 0 || n > tg.idx+1 {
				n = tg.idx + 2
			}
			got, _, rerr := readN(f, n, len(lines)+5)
			wantS := want[len(lines)-1-tg.idx:]
			if rerr != nil {
				e.fail(fs, "read-after-seek-error", "read after seek to line %d: %v", tg.idx, rerr)
				return
			}
			if i := eqPrefix(got, wantS); i >= 0 || (n > tg.idx+1 && len(got) != tg.idx+1) {
				e.fail(fs, "seek-misposition", "after seek to line %d (prior state %d) the reads are not that line and its predecessors: read #%d = %q", tg.idx, ti%3, i, short(strings.Join(got, "|")))
				return
			}
		} else {
			if cls != tg.class {
				e.fail(fs, "seek-absent-class:"+tg.class, "seek to absent timestamp %d: want %s, got %q", tg.ts, tg.class, cls)
				return
			}
		}
	}
	// A failed or successful seek must not break a later full read.
	full("after-seeks")
}

// checkTwo runs the reader-level oracles on a rotated + current pair.
func (e *env) checkTwo(fs fileSpec) {
	c := e.c
	defer e.recoverAs(fs)
	lines, tss := build(fs)
	cut := fs.Filler + fs.Split
	p0, p1 := filepath.Join(e.dir, "r.json.1"), filepath.Join(e.dir, "r.json")
	writeLines(p0, lines[:cut])
	writeLines(p1, lines[cut:])
	c.Count("files", 2)
	r, err := querylog.VerifNewQLogReader([]string{p0, p1})
	if err != nil {
		panic(err)
	}
	defer r.Close()
	want := reversed(lines)
	if err = r.SeekStart(); err != nil {
		e.fail(fs, "reader-seekstart", "%v", err)
		return
	}
	got, eof, rerr := readN(r, -1, len(lines)+5)
	c.Count("evals", 1)
	if rerr != nil || !eof || len(got) != len(want) || eqPrefix(got, want) >= 0 {
		e.fail(fs, "reader-backward-read", "two-file backward read returned %d lines (err %v), want %d; first difference at %d", len(got), rerr, len(want), eqPrefix(got, want))
		return
	}
	isSuffix := func(g []string) bool {
		if len(g) > len(want) {
			return false
		}
		return eqPrefix(g, want[len(want)-len(g):]) < 0
	}
	for i := fs.Filler - 1; i < len(lines); i++ {
		if i < 0 {
			continue
		}
		// present
		r2, _ := querylog.VerifNewQLogReader([]string{p0, p1})
		err = r2.SeekTS(tss[i])
		c.Count("evals", 1)
		c.Count("seeks", 1)
		if err != nil {
			e.fail(fs, "reader-seek-present-fails", "reader seek to stored line %d (cut %d) failed: %v", i, cut, err)
			r2.Close()
			return
		}
		g, _, rerr := readN(r2, -1, len(lines)+5)
		if rerr != nil || len(g) != i+1 || !isSuffix(g) {
			e.fail(fs, "reader-seek-misposition", "after reader seek to line %d (cut %d) %d lines follow (err %v), want that line and its %d predecessors", i, cut, len(g), rerr, i)
			r2.Close()
			return
		}
		r2.Close()
		// absent, just after line i
		r3, _ := querylog.VerifNewQLogReader([]string{p0, p1})
		err = r3.SeekTS(tss[i] + 1)
		c.Count("evals", 1)
		c.Count("seeks", 1)
		sameFileNeighbours := i+1 < len(lines) && !(i < cut && i+1 >= cut)
		if sameFileNeighbours && err == nil {
			e.fail(fs, "reader-seek-absent-accepted", "reader seek to an absent timestamp between lines %d and %d of the same file (cut %d) reported success", i, i+1, cut)
			r3.Close()
			return
		}
		if err == nil {
			g, _, rerr = readN(r3, -1, len(lines)+5)
			if rerr != nil || !isSuffix(g) {
				e.fail(fs, "reader-seek-absent-misposition", "after a fall-through seek the reads are not a suffix of the log (%d lines, err %v)", len(g), rerr)
				r3.Close()
				return
			}
		}
		r3.Close()
	}
	if len(lines) == 0 {
		return
	}
	r4, _ := querylog.VerifNewQLogReader([]string{p0, p1})
	if err = r4.SeekTS(tss[0] - 1); err == nil {
		e.fail(fs, "reader-seek-before-first-accepted", "reader seek before the first entry reported success")
	}
	r4.Close()
	c.Count("evals", 1)
}

func lensOf(idx, n int, alphabet []int) []int {
	l := make([]int, n)
	for i := 0; i < n; i++ {
		l[i] = alphabet[idx%len(alphabet)]
		idx /= len(alphabet)
	}
	return l
}

// legacyCuts lists the numbers of legacy-format records to try for a file of
// fl filler lines and n tail lines (0 = none, which is the base case).
func legacyCuts(fl, n int) (cuts []int) {
	seen := map[int]bool{0: true}
	add := func(L int) {
		if L <= fl+n && !seen[L] {
			seen[L] = true
			cuts = append(cuts, L)
		}
	}
	add(1)
	add(fl / 2)
	for j := 0; j <= n; j++ {
		add(fl + j)
	}
	return cuts
}

func pow(a, n int) int {
	r := 1
	for i := 0; i < n; i++ {
		r *= a
	}
	return r
}

func runScaled(c *lib.Ctx, e *env, shard, nshards int) {
	maxN, histMaxN, legacyMaxN := 5, 3, 3
	if !c.Quick() {
		maxN, histMaxN, legacyMaxN = 7, 4, 5
	}
	alphabet := []int{minLine, minLine + 1, maxEntry - 3, maxEntry - 2}
	fillers := []int{0, 99, 100, 101, 200}
	gaps := []string{"1ns", "1s", "mixed"}
	idx := 0
	for n := 0; n <= maxN; n++ {
		for li := 0; li < pow(len(alphabet), n); li++ {
			for _, fl := range fillers {
				for _, g := range gaps {
					idx++
					if idx%nshards != shard {
						continue
					}
					if idx%64 == 0 && c.Expired() {
						return
					}
					fs := fileSpec{Filler: fl, FillLen: maxEntry - 2, Lens: lensOf(li, n, alphabet), Gap: g}
					e.checkFile(fs, 8)
					c.Distinct("nontrivial", jsonStr(fs))
					if idx%20011 == 0 {
						c.Sample(fs)
					}
					if (fl == 0 || fl == 100) && g == "mixed" {
						for s := 0; s <= n; s++ {
							fs2 := fs
							fs2.TwoFiles, fs2.Split = true, s
							e.checkTwo(fs2)
							if n <= histMaxN {
								e.checkHist(fs2, 3)
							}
						}
						if n <= histMaxN {
							e.checkHist(fs, 3)
						}
					}
					if n > legacyMaxN {
						continue
					}
					// Record format: the oldest L records are legacy-format
					// ones, for every boundary inside the tail, at the
					// filler/tail border, in the middle of the filler and
					// after the very first record.
					for _, L := range legacyCuts(fl, n) {
						fsL := fs
						fsL.Legacy = L
						e.checkFile(fsL, 8)
						c.Count("legacy_format_files", 1)
						c.Distinct("nontrivial", jsonStr(fsL))
						if (fl == 0 || fl == 100) && g == "mixed" {
							for s := 0; s <= n; s++ {
								fs2 := fsL
								fs2.TwoFiles, fs2.Split = true, s
								e.checkTwo(fs2)
							}
							if n <= 2 {
								e.checkHist(fsL, 3)
							}
						}
					}
				}
			}
		}
	}
}

func runReal(c *lib.Ctx, e *env, shard, nshards int) {
	steps := 256
	if !c.Quick() {
		steps = maxEntry
	}
	if shard == nshards-1 {
		e.checkBig()
	}
	idx := 0
	for _, fillLen := range []int{minLine, 8 * 1024, maxEntry - 2} {
		for _, target := range []int{querylog.VerifBufferSize, 2 * querylog.VerifBufferSize} {
			filler := target/(fillLen+1) + 2
			for step := 0; step < steps; step++ {
				idx++
				if idx%nshards != shard {
					continue
				}
				if c.Expired() {
					return
				}
				// The tail's first line grows byte by byte, shifting every
				// buffer boundary through one whole line.
				first := minLine + step
				if first > maxEntry-2 {
					first = maxEntry - 2
				}
				fs := fileSpec{Filler: filler, FillLen: fillLen, Lens: []int{first, minLine, maxEntry - 2, minLine + 1}, Gap: "mixed"}
				e.checkFile(fs, 6)
				c.Distinct("nontrivial", jsonStr(fs))
				if step == 7 {
					c.Sample(fs)
				}
				if step%64 == 0 {
					fs2 := fs
					fs2.TwoFiles, fs2.Split = true, 2
					e.checkTwo(fs2)
					e.checkHist(fs2, 3)
					e.checkHist(fs, 3)
				}
				if step%64 == 5 {
					// legacy-format prefix: half of the filler, all of it, all
					// of it and half of the tail
					for _, L := range []int{filler / 2, filler, filler + 2} {
						fsL := fs
						fsL.Legacy = L
						e.checkFile(fsL, 6)
						c.Count("legacy_format_files", 1)
						c.Distinct("nontrivial", jsonStr(fsL))
					}
				}
			}
		}
	}
}

const realShards = 5

func run(c *lib.Ctx) {
	e := &env{c: c, dir: c.TmpDir}
	if scaled {
		c.Count("scaled_build_shards", 1)
		runScaled(c, e, c.ShardI-realShards, c.ShardN-realShards)
	} else {
		if os.Getenv("VERIF_ALT_BIN") == "" {
			c.EngineError("scaled binary not provided (VERIF_ALT_BIN)")
			return
		}
		c.Count("real_build_shards", 1)
		runReal(c, e, c.ShardI, realShards)
	}
}

func replay(c *lib.Ctx, raw json.RawMessage) string {
	var fs fileSpec
	if err := json.Unmarshal(raw, &fs); err != nil {
		return err.Error()
	}
	needScaled := fs.FillLen < 1024 && (len(fs.Lens) == 0 || fs.Lens[0] < 70) && fs.FillLen != minLine
	if needScaled != scaled {
		if alt := os.Getenv("VERIF_ALT_BIN"); alt != "" && !scaled {
			return "this case belongs to the scaled build: run " + alt + " -replay <file>"
		}
	}
	e := &env{c: c, dir: c.TmpDir}
	if strings.HasPrefix(fs.Check, "big") {
		if scaled {
			return "this case belongs to the real build"
		}
		e.checkBig()
	} else if strings.HasPrefix(fs.Check, "hist:") {
		e.checkHist(fs, 3)
	} else if fs.TwoFiles {
		e.checkTwo(fs)
	} else {
		e.checkFile(fs, -1)
	}
	if c.NumViolationKeys() > 0 {
		return "violation reproduced: " + jsonStr(fs)
	}
	return ""
}

func main() {
	lib.Main(&lib.Harness{
		Prop: "C20", Level: "exploration",
		Shards:   func(string) int { return 16 },
		AltShard: func(i, n int) bool { return i >= realShards },
		Budget: func(tier string) time.Duration {
			if tier == "thorough" {
				return 25 * time.Minute
			}
			return 3 * time.Minute
		},
		Run: run, Replay: replay,
		Evidence: func(m *lib.Merged) map[string]any {
			return map[string]any{
				"evaluations":         m.Counters["evals"],
				"distinct_nontrivial": m.Distinct["nontrivial"],
				"files":               m.Counters["files"],
				"seeks":               m.Counters["seeks"],
				"legacy_format_files": m.Counters["legacy_format_files"],
				"scaled_build_shards": m.Counters["scaled_build_shards"],
				"real_build_shards":   m.Counters["real_build_shards"],
				"rule":                "scaled build (maxEntrySize 64, buffer 6400 substituted in a copy of qlogfile.go): all files of 0..5 (quick) / 0..7 (thorough) tail lines over 4 line lengths {38,39,61,62} x filler prefix of 0/99/100/101/200 maximal lines x 3 timestamp-gap patterns, each read backwards completely, every present tail timestamp and absent targets (before, after, between) sought on the same reader object after varying prior reads; rotated+current pairs at every split. real build: files just over 1.6MB and 3.2MB with the tail length swept byte by byte (256 / 16384 steps) for filler lines of 38, 8192 and 16382 bytes. distinct_nontrivial = distinct file specifications",
			}
		},
		Assumptions: []string{"a line is 'shorter than the entry limit' when line+newline < maxEntrySize", "the scaled build differs from the shipped source only in the maxEntrySize constant (bufferSize is derived from it)"},
	})
}
