package main

// Operation histories on ONE reader (one or two files): the other oracles of
// this check give every seek a fresh reader or a reader re-wound by SeekStart;
// here every sequence of up to three operations — rewind, read 1 / 3 lines,
// seek to a stored timestamp (first and last entry of each file), seek to an
// absent one (before the first, after the last, between two neighbours of
// either file) — runs on the same reader after an initial rewind and is
// compared, read by read, with a cursor into the reversed list of lines.
//
// Reference: SeekStart puts the cursor on the newest line; a successful seek
// puts it on that entry; a read returns the line under the cursor and moves to
// its predecessor (EOF below the oldest line); a seek that reports not-found /
// too-early leaves the cursor where it was ("without mis-positioning subsequent
// reads"); the reader answers a timestamp newer than everything with a rewind
// (qlogreader.go seekTS), which the reference follows.

import (
	"fmt"
	"path/filepath"
	"strings"

	"github.com/AdguardTeam/AdGuardHome/internal/querylog"
)

type hop struct {
	Kind string // S, R, P, A
	N    int    // R: lines; P: index of the stored line
	TS   int64  // A: target
	Cls  string // A: expected class
}

func (o hop) String() string {
	switch o.Kind {
	case "S":
		return "rewind"
	case "R":
		return fmt.Sprintf("read%d", o.N)
	case "P":
		return fmt.Sprintf("seek(line %d)", o.N)
	}
	return fmt.Sprintf("seek(absent,%s)", o.Cls)
}

func histOps(tss []int64, cut int, two bool) (ops []hop) {
	n := len(tss)
	ops = append(ops, hop{Kind: "S"}, hop{Kind: "R", N: 1}, hop{Kind: "R", N: 3})
	seen := map[int]bool{}
	for _, i := range []int{n - 1, cut, cut - 1, 0} {
		if i >= 0 && i < n && !seen[i] && (two || i == n-1 || i == 0) {
			seen[i] = true
			ops = append(ops, hop{Kind: "P", N: i})
		}
	}
	ops = append(ops, hop{Kind: "A", TS: tss[0] - 1, Cls: "tooearly"}, hop{Kind: "A", TS: tss[n-1] + 1, Cls: "toolate"})
	// between two neighbours of the same file
	lo, hi := 0, n
	if two {
		lo, hi = cut, n
		if cut >= 2 {
			ops = append(ops, hop{Kind: "A", TS: tss[cut-2] + 1, Cls: "notfound"})
		}
	}
	if hi-lo >= 2 && tss[hi-1]-tss[hi-2] > 1 {
		ops = append(ops, hop{Kind: "A", TS: tss[hi-2] + 1, Cls: "notfound"})
	}
	return ops
}

// checkHist runs every history of length <= depth on the files of fs.
func (e *env) checkHist(fs fileSpec, depth int) {
	c := e.c
	defer e.recoverAs(fs)
	lines, tss := build(fs)
	n := len(lines)
	if n < 2 {
		return
	}
	var paths []string
	cut := 0
	if fs.TwoFiles {
		cut = fs.Filler + fs.Split
		if cut == 0 || cut == n {
			return // one of the files would be empty: covered by checkTwo
		}
		p0, p1 := filepath.Join(e.dir, "h.json.1"), filepath.Join(e.dir, "h.json")
		writeLines(p0, lines[:cut])
		writeLines(p1, lines[cut:])
		paths = []string{p0, p1}
	} else {
		p := filepath.Join(e.dir, "h1.json")
		writeLines(p, lines)
		paths = []string{p}
	}
	ops := histOps(tss, cut, fs.TwoFiles)
	r, err := querylog.VerifNewQLogReader(paths)
	if err != nil {
		panic(err)
	}
	defer r.Close()
	hist := make([]hop, 0, depth)
	var rec func()
	run := func() bool {
		// replay hist on the shared reader after a rewind
		if err := r.SeekStart(); err != nil {
			e.fail(fs, "hist:rewind-error", "SeekStart: %v", err)
			return false
		}
		cur := n - 1 // index of the line the next read must return; -1 = EOF
		c.Count("evals", 1)
		c.Count("reader_histories", 1)
		for k, o := range hist {
			where := func() string {
				l := make([]string, k+1)
				for i := range l {
					l[i] = hist[i].String()
				}
				return "[rewind; " + strings.Join(l, "; ") + "]"
			}
			switch o.Kind {
			case "S":
				if err := r.SeekStart(); err != nil {
					e.fail(fs, "hist:rewind-error", "%s: %v", where(), err)
					return false
				}
				cur = n - 1
			case "R":
				for j := 0; j < o.N; j++ {
					l, err := r.ReadNext()
					switch {
					case cur < 0 && err == nil:
						e.fail(fs, "hist:read-past-the-oldest-line", "%s: read %d returned %q, the log is exhausted", where(), j+1, short(l))
						return false
					case cur < 0:
						// EOF (or an error at the end) stays EOF
					case err != nil:
						e.fail(fs, "hist:read-fails", "%s: read %d fails with %v, want line %d of %d (cut %d)", where(), j+1, err, cur, n, cut)
						return false
					case l != lines[cur]:
						got := -1
						for x := range lines {
							if lines[x] == l {
								got = x
							}
						}
						e.fail(fs, "hist:mispositioned-read:after-"+hist[maxInt(k-1, 0)].Kind, "%s: read %d returned line %d, want line %d (of %d, cut %d)", where(), j+1, got, cur, n, cut)
						return false
					default:
						cur--
					}
				}
			case "P":
				if err := r.SeekTS(tss[o.N]); err != nil {
					e.fail(fs, "hist:seek-present-fails", "%s: %v", where(), err)
					return false
				}
				c.Count("seeks", 1)
				cur = o.N
				if !r.SeekExact() {
					e.fail(fs, "hist:seek-present-not-reported-exact", "%s: the seek to a stored timestamp succeeded but is not reported as an exact hit", where())
					return false
				}
			case "A":
				err := r.SeekTS(o.TS)
				c.Count("seeks", 1)
				switch {
				case err == nil && o.Cls == "toolate":
					// By design the reader answers a timestamp newer than everything
					// with a rewind to the newest line, reported as "no error, not exact".
					cur = n - 1
					if r.SeekExact() {
						e.fail(fs, "hist:seek-absent-reported-exact", "%s: a seek to a timestamp newer than everything is reported as an exact hit (the consumer then skips the newest record)", where())
						return false
					}
				case err == nil:
					e.fail(fs, "hist:seek-absent-accepted", "%s: seek to an absent timestamp reported success", where())
					return false
				}
			}
		}
		return true
	}
	ok := true
	rec = func() {
		if !ok {
			return
		}
		if len(hist) > 0 {
			// Only histories ending in a read observe anything new.
			if hist[len(hist)-1].Kind == "R" {
				if !run() {
					ok = false
					return
				}
			}
		}
		if len(hist) == depth {
			return
		}
		for _, o := range ops {
			hist = append(hist, o)
			rec()
			hist = hist[:len(hist)-1]
		}
	}
	rec()
}

func maxInt(a, b int) int {
	if a > b {
		return a
	}
	return b
}
