package main

// Reference model for C19: which names of a host are looked up, what a
// well-formed full hash is, what the verdict of a fresh lookup is.  Plain Go,
// no code of the package under test.

import (
	"crypto/sha256"
	"encoding/hex"
	"strconv"
	"strings"

	"golang.org/x/net/publicsuffix"
)

func hashHex(name string) string {
	s := sha256.Sum256([]byte(name))
	return hex.EncodeToString(s[:])
}

func prefixHex(name string) string { return hashHex(name)[:4] }

// isICANNSuffix reports whether s itself is a public suffix of the ICANN
// section of the list.
func isICANNSuffix(s string) bool {
	ps, icann := publicsuffix.PublicSuffix(s)
	return icann && ps == s
}

// refNames returns, for a lower-case host:
//
//	must: the names whose hash decides the verdict for certain: the suffixes
//	      of host made of its last four labels at most, ICANN public suffixes
//	      (and anything shorter) excluded;
//	may:  must plus the "grey" names: for a host whose longest public suffix is
//	      not an ICANN one (private section or unmanaged TLD) the project
//	      deliberately looks up the whole last-four-labels space, which can
//	      include an ICANN suffix such as "com" of "x.blogspot.com" (unit test
//	      TestHostnameToHashes/private_domain_v2).  Such a name may be looked up
//	      and may decide the verdict, but does not have to.
func refNames(host string) (must, may []string) {
	labels := strings.Split(host, ".")
	if host == "" {
		return nil, nil
	}
	start := 0
	if len(labels) > 4 {
		start = len(labels) - 4
	}
	ps, icann := publicsuffix.PublicSuffix(host)
	psLabels := strings.Count(ps, ".") + 1
	for i := start; i < len(labels); i++ {
		s := strings.Join(labels[i:], ".")
		n := len(labels) - i
		if icann {
			if n <= psLabels {
				break
			}
			must = append(must, s)
			may = append(may, s)
			continue
		}
		may = append(may, s)
		if !isICANNSuffix(s) {
			must = append(must, s)
		}
	}
	return must, may
}

// validHash reports whether a TXT string is a full hash: exactly 64
// hexadecimal digits.
func validHash(s string) bool {
	if len(s) != 64 {
		return false
	}
	for i := 0; i < len(s); i++ {
		c := s[i]
		if !(c >= '0' && c <= '9' || c >= 'a' && c <= 'f' || c >= 'A' && c <= 'F') {
			return false
		}
	}
	return true
}

// dbHashes is the set of full hashes a database holds (lower-case hex).
func dbHashes(db *dbSpec) map[string]bool {
	m := map[string]bool{}
	for _, e := range db.Entries {
		if validHash(e.Str) {
			m[strings.ToLower(e.Str)] = true
		}
	}
	return m
}

// refVerdict returns what a fresh lookup of host against db must answer:
// must = blocked for certain, may = blocked is acceptable.
func refVerdict(host string, db *dbSpec) (must, may bool) {
	hs := dbHashes(db)
	mu, ma := refNames(host)
	for _, n := range mu {
		if hs[hashHex(n)] {
			must = true
		}
	}
	for _, n := range ma {
		if hs[hashHex(n)] {
			may = true
		}
	}
	return must, may
}

func prefixSet(names []string) map[string]bool {
	m := map[string]bool{}
	for _, n := range names {
		m[prefixHex(n)] = true
	}
	return m
}

func isHex4(g string) bool {
	if len(g) != 4 {
		return false
	}
	for i := 0; i < 4; i++ {
		c := g[i]
		if !(c >= '0' && c <= '9' || c >= 'a' && c <= 'f') {
			return false
		}
	}
	return true
}

// checkQuestion is the privacy oracle on one recorded exchange.  host is the
// lower-case queried name.  fresh = the checker had an empty cache, so every
// decisive prefix has to be present.  It returns a violation class and text,
// or "".
func checkQuestion(host string, x exch, suffix string, fresh bool) (class, desc string) {
	if x.NQuestions != 1 || x.OtherSections != 0 {
		return "message-shape", "lookup message has " + itoa(x.NQuestions) + " questions and " + itoa(x.OtherSections) + " records in other sections"
	}
	if x.Qtype != 16 || x.Qclass != 1 {
		return "message-shape", "lookup question is not TXT/IN: type " + itoa(int(x.Qtype)) + " class " + itoa(int(x.Qclass))
	}
	if !strings.HasSuffix(x.Name, suffix) {
		return "suffix", "question " + x.Name + " does not end with the service suffix " + suffix
	}
	rest := strings.TrimSuffix(x.Name, suffix)
	var groups []string
	if rest != "" {
		if !strings.HasSuffix(rest, ".") {
			return "shape", "question " + x.Name + ": prefix part not dot-terminated"
		}
		groups = strings.Split(strings.TrimSuffix(rest, "."), ".")
	}
	must, may := refNames(host)
	allowed := prefixSet(may)
	seen := map[string]bool{}
	for _, g := range groups {
		if !isHex4(g) {
			return "shape", "question " + x.Name + ": group " + g + " is not 4 lower-case hex digits (2 bytes)"
		}
		if !allowed[g] {
			return "foreign-prefix", "question " + x.Name + ": group " + g + " is not the 2-byte SHA-256 prefix of any allowed name of " + host + " (allowed names " + strings.Join(may, ",") + ")"
		}
		seen[g] = true
	}
	if fresh {
		for _, n := range must {
			if !seen[prefixHex(n)] {
				return "missing-prefix", "question " + x.Name + " of a fresh lookup lacks the prefix " + prefixHex(n) + " of " + n
			}
		}
	}
	low := strings.ToLower(rest)
	if len(host) > 4 && strings.Contains(low, host) {
		return "name-leak", "question " + x.Name + " contains the queried name " + host
	}
	for _, l := range strings.Split(host, ".") {
		if len(l) > 4 && strings.Contains(low, l) {
			return "name-leak", "question " + x.Name + " contains the label " + l
		}
	}
	return "", ""
}

func itoa(i int) string { return strconv.Itoa(i) }
