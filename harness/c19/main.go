// C19 — safe-browsing / parental hash-prefix lookups disclose only 2-byte
// SHA-256 prefixes of the allowed suffix-names of the queried name, block
// exactly when the service returns one of their full hashes, and the prefix
// cache never changes the verdict (DESIGN.md §4 C19).
//
// Three parts, all on the real hashprefix.Checker (and filtering.DNSFilter for
// mixed-case names) with a scripted, recording lookup service:
//
//  1. stateless: every host of a small grammar x every single-hash / malformed
//     database derived from it, fresh checker: privacy of the question and the
//     verdict against the reference;
//  2. BFS, fixed database: histories of check(name)/advance-clock sharing one
//     cache; every verdict must equal the reference and what a fresh Checker
//     answers for the same database at the same instant;
//  3. BFS, database switches: the verdict may only rest on database versions
//     that were live within the last CacheTime (entries do expire).
package main

import (
	"encoding/json"
	"fmt"
	"io"
	"os"
	"path/filepath"
	"sort"
	"strings"
	"time"

	"github.com/AdguardTeam/AdGuardHome/internal/filtering"
	"github.com/AdguardTeam/AdGuardHome/internal/filtering/hashprefix"
	"github.com/AdguardTeam/AdGuardHome/internal/verifx/lib"
	vtime "github.com/AdguardTeam/AdGuardHome/verifx/vtime"
	"github.com/AdguardTeam/golibs/log"
	"github.com/miekg/dns"
	"golang.org/x/net/publicsuffix"
)

const (
	sbSuffix   = "sb.dns.adguard.com."
	pcSuffix   = "pc.dns.adguard.com."
	defaultTTL = 10 * time.Minute
	// smallCache holds one two-hash entry (74 bytes) plus a few negative ones
	// (10 bytes each), or two one-hash entries (42 bytes each).
	smallCache = 100
	// tinyCache holds a one-hash entry and two negative ones, but not a
	// two-hash entry and not two one-hash entries.
	tinyCache = 64
	// microCache holds three negative entries and no entry with a hash (42
	// bytes).
	microCache = 30
)

// cacheTTL is the cache time of the scenario being executed (set by exec).
var cacheTTL = defaultTTL

var cacheSizes = []uint{0, smallCache, tinyCache, microCache}

// base is the virtual start instant; the fraction exercises the truncation of
// the stored expiry to whole seconds.
var base = time.Unix(1_750_000_000, 700_000_000)

// ---- name pool --------------------------------------------------------------

type namePool struct {
	Host, Collider, Parent, Child, ParentCollider, Private6, Lan5, Other string
	// OwnParentCollider is a name under Parent whose hash shares its first two
	// bytes with the hash of Parent itself.
	OwnParentCollider string
	// ZeroTail is a name under Parent whose hash ends in a zero byte: a decoder
	// that stops at the first bad digit of a malformed string and keeps what it
	// has decoded so far (the rest of the array staying zero) produces exactly
	// this hash from a string that is not a hash.
	ZeroTail string
}

var (
	pool    namePool
	roleOf  = map[string]string{}
	allDBs  []*dbSpec
	dbByKey = map[string]*dbSpec{}
)

// findPool searches, deterministically, the first pair h<i>/h<j>.example.com
// whose SHA-256 hashes share the first two bytes, and the first
// p<k>.example.net sharing them with example.com.
func findPool() namePool {
	p := namePool{Parent: "example.com", Private6: "a.b.c.d.blogspot.com", Lan5: "a.b.c.d.lan", Other: "other.org"}
	seen := map[string]int{}
	avoid := prefixHex(p.Parent)
	for j := 0; ; j++ {
		n := fmt.Sprintf("h%d.example.com", j)
		pf := prefixHex(n)
		if pf == avoid {
			continue
		}
		if i, ok := seen[pf]; ok {
			p.Host, p.Collider = fmt.Sprintf("h%d.example.com", i), n
			break
		}
		seen[pf] = j
	}
	p.Child = "www." + p.Host
	for k := 0; ; k++ {
		n := fmt.Sprintf("s%d.example.com", k)
		if prefixHex(n) == avoid {
			p.OwnParentCollider = n
			break
		}
	}
	for k := 0; ; k++ {
		n := fmt.Sprintf("z%d.example.com", k)
		if pf := prefixHex(n); strings.HasSuffix(hashHex(n), "00") && pf != avoid && pf != prefixHex(p.Host) {
			p.ZeroTail = n
			break
		}
	}
	for k := 0; ; k++ {
		n := fmt.Sprintf("p%d.example.net", k)
		if prefixHex(n) == avoid && prefixHex("example.net") != avoid {
			p.ParentCollider = n
			break
		}
	}
	return p
}

// ---- databases --------------------------------------------------------------

func eHash(n string) dbEntry { return dbEntry{What: "hash(" + n + ")", Str: hashHex(n)} }
func eLong66(n string) dbEntry {
	return dbEntry{What: "hash(" + n + ")+\"ab\" (66 chars)", Str: hashHex(n) + "ab"}
}
func eLong128(n, m string) dbEntry {
	return dbEntry{What: "hash(" + n + ")+hash(" + m + ") in one string (128 chars)", Str: hashHex(n) + hashHex(m)}
}
func eShort63(n string) dbEntry {
	return dbEntry{What: "hash(" + n + ") without its last digit (63 chars)", Str: hashHex(n)[:63]}
}
func eLong65(n string) dbEntry {
	return dbEntry{What: "hash(" + n + ")+\"0\" (65 chars)", Str: hashHex(n) + "0"}
}
func eNonHex(n string) dbEntry {
	h := []byte(hashHex(n))
	h[40] = 'g'
	return dbEntry{What: "hash(" + n + ") with digit 40 replaced by 'g' (64 chars, not hex)", Str: string(h)}
}
func eNonHexTail(n string) dbEntry {
	h := []byte(hashHex(n))
	h[63] = 'z'
	return dbEntry{What: "hash(" + n + ") with the last digit replaced by 'z'", Str: string(h)}
}

// eNonHexFrom is the hash of n whose digits from position cut on are replaced
// by 'z': 64 characters, a well-formed beginning and a tail that is not
// hexadecimal.
func eNonHexFrom(n string, cut int) dbEntry {
	return dbEntry{What: fmt.Sprintf("hash(%s) with the digits from %d on replaced by 'z' (64 chars, not hex)", n, cut),
		Str: hashHex(n)[:cut] + strings.Repeat("z", 64-cut)}
}

// nonHexCuts are the positions from which the tail of a malformed string is
// garbage: the last byte, the last two, the last quarter, the second half,
// everything after the 2-byte prefix.
var nonHexCuts = []int{62, 60, 48, 32, 4}

func eNonHexTails(names ...string) (es []dbEntry) {
	for _, n := range names {
		for _, cut := range nonHexCuts {
			es = append(es, eNonHexFrom(n, cut))
		}
	}
	return es
}

var eGarbage = dbEntry{What: "garbage returned for every question", Str: "v=spf1 -all", Always: true}

func buildDBs(p namePool) []*dbSpec {
	db := func(name string, es ...dbEntry) *dbSpec { return &dbSpec{Name: name, Entries: es} }
	return []*dbSpec{
		db("empty"),
		db("host", eHash(p.Host)),
		db("collider", eHash(p.Collider)),
		db("host+collider", eHash(p.Host), eHash(p.Collider)),
		db("collider+host", eHash(p.Collider), eHash(p.Host)),
		db("parent", eHash(p.Parent)),
		db("parentcollider", eHash(p.ParentCollider)),
		db("parentcollider+parent", eHash(p.ParentCollider), eHash(p.Parent)),
		db("child", eHash(p.Child)),
		db("host+parent", eHash(p.Host), eHash(p.Parent)),
		db("long66", eLong66(p.Host)),
		db("long128", eLong128(p.Host, p.Collider)),
		db("short63", eShort63(p.Host)),
		db("long65", eLong65(p.Host)),
		db("nonhex", eNonHex(p.Host), eNonHexTail(p.Host)),
		db("malformed+collider", eShort63(p.Host), eLong65(p.Host), eLong66(p.Host), eNonHex(p.Host), eHash(p.Collider)),
		db("malformed+host", eGarbage, eShort63(p.Host), eLong66(p.Collider), eNonHex(p.Collider), eLong128(p.Collider, p.Host), eHash(p.Host)),
		db("collider+malformed-host", eHash(p.Collider), eLong66(p.Host), eLong128(p.Host, p.Host)),
		db("private-registrable", eHash("blogspot.com")),
		db("private-mid", eHash("d.blogspot.com")),
		db("private-fifth-label", eHash("b.c.d.blogspot.com"), eHash(p.Private6)),
		db("lan-tld", eHash("lan")),
		db("lan-fifth-label", eHash(p.Lan5)),
		db("lan-mid+long66", eLong66("d.lan"), eHash("c.d.lan")),
		db("icann-suffix-com", eHash("com")),
		db("zerotail-nonhex-tails", eNonHexTails(p.ZeroTail, p.Parent)...),
		db("zerotail-nonhex-tails+collider", append(eNonHexTails(p.ZeroTail, p.Host), eHash(p.Collider))...),
	}
}

// ---- scenarios and operations ----------------------------------------------

type op struct {
	Sc   string `json:"scenario"`
	Kind string `json:"op"` // chk | adv | db | err (the next exchange with the service fails)
	Name string `json:"name,omitempty"`
	Secs int    `json:"seconds,omitempty"`
	DB   string `json:"db,omitempty"`
}

type scenario struct {
	Label  string
	Switch bool
	DB     *dbSpec
	Pack   string
	Size   uint
	// Pre is a fixed history that precedes every explored one (the search
	// then starts from a non-initial state).
	Pre []op
	// NoCache: the configured cache time is zero, every entry is expired as
	// soon as it is written.
	NoCache bool
	// Delisted: the scenario starts with a listed name that has been checked
	// (Pre); the explored operations switch between the databases that list
	// or do not list it and another hash under the same 2-byte prefix.
	Delisted bool
}

func (sc *scenario) ttl() time.Duration {
	if sc.NoCache {
		return 0
	}
	return defaultTTL
}

func (sc *scenario) ops(quick bool) (ops []op) {
	names := []string{pool.Host, pool.Collider, pool.Child, pool.Parent, pool.Private6, pool.Lan5}
	if sc.Delisted {
		names = []string{pool.Host, pool.Collider, pool.Child}
	} else if len(sc.Pre) > 0 {
		names = []string{pool.Child, pool.Parent, pool.Host}
	} else if sc.Switch {
		names = []string{pool.Host, pool.Collider, pool.Child}
	} else if !quick {
		names = append(names, pool.ParentCollider, pool.Other)
	} else if strings.HasPrefix(sc.DB.Name, "parentcollider") {
		names = []string{pool.Host, pool.Child, pool.Parent, pool.ParentCollider, pool.Private6, pool.Lan5}
	} else if strings.HasPrefix(sc.DB.Name, "zerotail") {
		names = []string{pool.Host, pool.Collider, pool.Child, pool.Parent, pool.ZeroTail, "www." + pool.ZeroTail}
	}
	if !quick && len(sc.Pre) == 0 && !sc.Switch && !strings.HasPrefix(sc.DB.Name, "zerotail") {
		names = append(names, pool.ZeroTail)
	}
	if len(sc.Pre) == 0 && !sc.Switch && (sc.DB.Name == "parent" || sc.DB.Name == "empty" || !quick) {
		names = append(names, pool.OwnParentCollider)
	}
	for _, n := range names {
		ops = append(ops, op{Sc: sc.Label, Kind: "chk", Name: n})
	}
	secs := int(sc.ttl() / time.Second)
	advs := []int{1, secs - 1, secs + 1}
	if secs == 0 {
		advs = []int{1, 2}
	}
	for _, s := range advs {
		ops = append(ops, op{Sc: sc.Label, Kind: "adv", Secs: s})
	}
	if len(sc.Pre) == 0 && !sc.Switch && sc.Size == 0 {
		ops = append(ops, op{Sc: sc.Label, Kind: "err"})
	}
	if sc.Delisted {
		for _, d := range []string{"empty", "host", "collider", "host+collider"} {
			ops = append(ops, op{Sc: sc.Label, Kind: "db", DB: d})
		}
	} else if len(sc.Pre) > 0 {
		for _, d := range []string{"empty", "parent"} {
			ops = append(ops, op{Sc: sc.Label, Kind: "db", DB: d})
		}
	} else if sc.Switch {
		for _, d := range switchDBs {
			ops = append(ops, op{Sc: sc.Label, Kind: "db", DB: d})
		}
	}
	return ops
}

var switchDBs = []string{"empty", "host", "collider", "parent"}

func buildScenarios() (out []*scenario) {
	for _, d := range allDBs {
		for _, pk := range []string{packSingle, packEach} {
			for _, sz := range cacheSizes {
				if sz != 0 && d.Name == "host+parent" {
					// One answer carries hashes of two different prefixes;
					// storeInCache walks them in Go map order, so with a
					// size limit the LRU order (and the eviction victim)
					// would differ from run to run.  Explored with the
					// unlimited cache only, where the order cannot matter.
					continue
				}
				out = append(out, &scenario{Label: fmt.Sprintf("fixed:db=%s:pack=%s:cache=%d", d.Name, pk, sz), DB: d, Pack: pk, Size: sz})
			}
		}
	}
	for _, sz := range cacheSizes {
		for _, pk := range []string{packSingle, packEach} {
			out = append(out, &scenario{Label: fmt.Sprintf("switch:pack=%s:cache=%d", pk, sz), Switch: true, DB: dbByKey["empty"], Pack: pk, Size: sz})
		}
	}
	// A cache time of zero: nothing may be answered from an entry written at an
	// earlier instant.
	for _, pk := range []string{packSingle, packEach} {
		out = append(out, &scenario{Label: fmt.Sprintf("switch-cache-time-0:pack=%s:cache=0", pk), Switch: true, NoCache: true, DB: dbByKey["empty"], Pack: pk, Size: 0})
	}
	// The parent domain was checked while unlisted and has been listed since:
	// entries of one name's prefixes now expire at different instants.
	for _, pk := range []string{packSingle, packEach} {
		l := fmt.Sprintf("switch-after-parent-check:pack=%s:cache=0", pk)
		out = append(out, &scenario{Label: l, Switch: true, DB: dbByKey["empty"], Pack: pk, Size: 0,
			Pre: []op{{Sc: l, Kind: "chk", Name: pool.Parent}, {Sc: l, Kind: "db", DB: "parent"}}})
	}
	// A listed name has been checked (its hash is in the cache); the service
	// may then drop it, list another hash under the same 2-byte prefix, or
	// both: what is renewed after the expiry must be what the service says
	// then, nothing of the expired entry.
	for _, sz := range cacheSizes {
		for _, pk := range []string{packSingle, packEach} {
			l := fmt.Sprintf("switch-after-listed-check:pack=%s:cache=%d", pk, sz)
			out = append(out, &scenario{Label: l, Switch: true, Delisted: true, DB: dbByKey["host"], Pack: pk, Size: sz,
				Pre: []op{{Sc: l, Kind: "chk", Name: pool.Host}}})
		}
	}
	return out
}

var scenByLabel = map[string]*scenario{}

func setup() {
	log.SetLevel(log.ERROR)
	log.SetOutput(io.Discard)
	pool = findPool()
	roleOf = map[string]string{
		pool.Host: "host", pool.Collider: "collider", pool.Parent: "parent", pool.Child: "child",
		pool.ParentCollider: "parentcollider", pool.OwnParentCollider: "ownparentcollider", pool.Private6: "private6", pool.Lan5: "lan5", pool.Other: "other",
		pool.ZeroTail: "zerotail", "www." + pool.ZeroTail: "zerotail-child",
	}
	allDBs = buildDBs(pool)
	for _, d := range allDBs {
		dbByKey[d.Name] = d
	}
	for _, sc := range buildScenarios() {
		scenByLabel[sc.Label] = sc
	}
}

// ---- running the real code --------------------------------------------------

func newChecker(svc *service, size uint) *hashprefix.Checker {
	return hashprefix.New(&hashprefix.Config{
		Upstream: svc, ServiceName: "verif", TXTSuffix: svc.suffix, CacheTime: cacheTTL, CacheSize: size,
	})
}

func safeCheck(f func() (bool, error)) (blocked bool, err error, pan string) {
	defer func() {
		if r := recover(); r != nil {
			pan = fmt.Sprint(r)
		}
	}()
	blocked, err = f()
	return blocked, err, ""
}

// dump renders the cache of chk canonically: expiry relative to the virtual
// now, expired entries keep only their existence and size (their content is
// never read again: findInCache skips them, storeInCache only tests presence).
// With a size limit the LRU order is part of the state; without one it cannot
// influence anything and entries are sorted.
func dump(chk *hashprefix.Checker, sized bool) string {
	es, lru := chk.VerifCacheDump()
	if !lru {
		dumpFailed = true
	}
	now := vtime.Now()
	parts := make([]string, 0, len(es))
	for _, e := range es {
		if now.After(time.Unix(e.Expiry, 0)) {
			if sized {
				parts = append(parts, fmt.Sprintf("%s:expired:%dB", e.Prefix, e.Size))
			} else {
				parts = append(parts, e.Prefix+":expired")
			}
			continue
		}
		hs := make([]string, len(e.Hashes))
		for i, h := range e.Hashes {
			hs[i] = h[:12]
		}
		parts = append(parts, fmt.Sprintf("%s:+%ds:[%s]", e.Prefix, e.Expiry-now.Unix(), strings.Join(hs, ",")))
	}
	if !sized || !lru {
		sort.Strings(parts)
	}
	if sized && !lru {
		parts = append(parts, "lru-order-unreadable")
	}
	return strings.Join(parts, " ")
}

// dumpFailed is set when the hook could not walk the cache by reflection.
var dumpFailed bool

type version struct {
	db    *dbSpec
	start time.Time
	end   time.Time // zero = live
}

func groupsOf(x exch, suffix string) int {
	rest := strings.TrimSuffix(strings.TrimSuffix(x.Name, suffix), ".")
	if rest == "" {
		return 0
	}
	return strings.Count(rest, ".") + 1
}

func (sc *scenario) exec(hist []op) (st lib.Step) {
	cacheTTL = sc.ttl()
	vtime.SetVirtual(base)
	svc := &service{suffix: sbSuffix, db: sc.DB, pack: sc.Pack}
	chk := newChecker(svc, sc.Size)
	vers := []version{{db: sc.DB, start: base}}
	fail := func(key, format string, a ...any) lib.Step {
		st.VKey = key
		st.VDesc = fmt.Sprintf(format, a...) + fmt.Sprintf("\nscenario %s (CacheTime %s, CacheSize %d, start %s)\nnames %s\nhistory %s",
			sc.Label, cacheTTL, sc.Size, base.UTC().Format(time.RFC3339Nano), jsonStr(pool), jsonStr(hist))
		return st
	}
	if len(sc.Pre) > 0 {
		hist = append(append([]op{}, sc.Pre...), hist...)
	}
	for i, o := range hist {
		last := i == len(hist)-1 && i >= len(sc.Pre)
		switch o.Kind {
		case "adv":
			vtime.AdvanceVirtual(time.Duration(o.Secs) * time.Second)
			if last {
				st.Outcome = fmt.Sprintf("adv:%d", o.Secs)
			}
		case "err":
			svc.failNext = true
			if last {
				st.Outcome = "err"
			}
		case "db":
			d := dbByKey[o.DB]
			if d != svc.db {
				now := vtime.Now()
				vers[len(vers)-1].end = now
				vers = append(vers, version{db: d, start: now})
				svc.db = d
			}
			if last {
				st.Outcome = "db:" + o.DB
			}
		case "chk":
			before := ""
			var beforeEntries []hashprefix.VerifCacheEntry
			if last {
				before = dump(chk, true)
				beforeEntries, _ = chk.VerifCacheDump()
			}
			svc.log, svc.failed = nil, false
			blocked, err, pan := safeCheck(func() (bool, error) { return chk.Check(o.Name) })
			if !last {
				continue
			}
			if svc.failed && pan == "" {
				// The service was unreachable: the check may fail (and must not
				// block); what it leaves in the cache is judged by the checks
				// that follow.
				st.Outcome = fmt.Sprintf("chk:%s:service-unreachable:err=%v", roleOf[o.Name], err != nil)
				if blocked {
					return fail("blocked-without-answer:"+roleOf[o.Name], "Check(%q) = blocked although the exchange with the service failed (%v)", o.Name, err)
				}
				continue
			}
			role := roleOf[o.Name]
			ctx := fmt.Sprintf("\ndatabase now %s\ncache before the check: %s\nquestions sent by the check: %s", jsonStr(svc.db), before, jsonStr(svc.log))
			if pan != "" {
				return fail("panic:"+role, "Check(%q) panics: %s%s", o.Name, pan, ctx)
			}
			if err != nil {
				return fail("error:"+role, "Check(%q) fails although the service answered: %v%s", o.Name, err, ctx)
			}
			for _, x := range svc.log {
				if class, d := checkQuestion(o.Name, x, sbSuffix, false); class != "" {
					return fail("privacy:"+class+":"+role, "Check(%q): %s%s", o.Name, d, ctx)
				}
			}
			// What a fresh Checker answers for the same database now.
			fsvc := &service{suffix: sbSuffix, db: svc.db, pack: sc.Pack}
			fchk := newChecker(fsvc, sc.Size)
			fb, ferr, fpan := safeCheck(func() (bool, error) { return fchk.Check(o.Name) })
			if fpan != "" || ferr != nil {
				return fail("fresh-lookup-fails:"+role, "fresh Check(%q): panic %q error %v%s", o.Name, fpan, ferr, ctx)
			}
			src := "full"
			switch {
			case len(svc.log) == 0 && len(fsvc.log) > 0:
				src = "cache"
			case len(svc.log) > 0 && len(fsvc.log) > 0 && groupsOf(svc.log[0], sbSuffix) < groupsOf(fsvc.log[0], sbSuffix):
				src = "partial"
			}
			st.Outcome = fmt.Sprintf("chk:%s:%v:%s", role, blocked, src)
			st.NonTrivial = src != "full"
			if !sc.Switch {
				must, may := refVerdict(o.Name, svc.db)
				if fb && !may || !fb && must {
					return fail(fmt.Sprintf("verdict:%s:db=%s:%s", fpfn(fb), svc.db.Name, role),
						"fresh Check(%q) = %v, but the database %s one of the allowed names' full hashes (must block %v, may block %v); fresh question %s%s",
						o.Name, fb, holds(may), must, may, jsonStr(fsvc.log), ctx)
				}
				if blocked != fb {
					return fail(fmt.Sprintf("cache:%s:%s:cache=%dB", fpfn(blocked), diagnose(o.Name, blocked, svc.db, beforeEntries), sc.Size),
						"Check(%q) = %v with the shared cache (%s), but a fresh Checker on the same database answers %v; reference: must block %v%s",
						o.Name, blocked, src, fb, must, ctx)
				}
			} else if d := windowOracle(o.Name, blocked, vers); d != "" {
				return fail(fmt.Sprintf("expiry:%s:%s:%s", fpfn(blocked), role, src), "Check(%q) = %v (%s): %s%s", o.Name, blocked, src, d, ctx)
			}
		}
	}
	key := sc.Label + "|" + dump(chk, sc.Size != 0)
	if svc.failNext {
		key += "|next-exchange-fails"
	}
	if sc.Switch {
		now := vtime.Now()
		lo := now.Add(-cacheTTL)
		for _, v := range vers {
			if v.end.IsZero() {
				key += "|live:" + v.db.Name
			} else if !v.end.Before(lo) {
				key += fmt.Sprintf("|%s:-%ds", v.db.Name, int(now.Sub(v.end)/time.Second))
			}
		}
	}
	st.Key = key
	return st
}

// diagnose names the kind of cache entry behind a verdict that differs from a
// fresh lookup (for the violation key only).
func diagnose(name string, blocked bool, db *dbSpec, before []hashprefix.VerifCacheEntry) string {
	if blocked {
		return "entry-holds-hash-not-in-database-or-not-of-this-name"
	}
	hs := dbHashes(db)
	_, may := refNames(name)
	now := vtime.Now()
	for _, n := range may {
		h := hashHex(n)
		if !hs[h] {
			continue
		}
		for _, e := range before {
			if e.Prefix != h[:4] {
				continue
			}
			switch {
			case now.After(time.Unix(e.Expiry, 0)):
				return "expired-entry-not-refreshed"
			case len(e.Hashes) == 0:
				return "negative-entry-for-a-prefix-with-a-listed-hash"
			default:
				return "entry-lacks-a-listed-hash"
			}
		}
		return "no-entry-and-not-asked"
	}
	return "unknown"
}

// windowOracle: with database switches a verdict may rest only on versions
// that were live at some instant of [now-CacheTime, now].
func windowOracle(name string, blocked bool, vers []version) string {
	now := vtime.Now()
	lo := now.Add(-cacheTTL)
	var win []*dbSpec
	var names []string
	for _, v := range vers {
		if v.end.IsZero() || !v.end.Before(lo) {
			win = append(win, v.db)
			names = append(names, v.db.Name)
		}
	}
	must, _ := refNames(name)
	if blocked {
		for _, d := range win {
			if _, may := refVerdict(name, d); may {
				return ""
			}
		}
		return fmt.Sprintf("blocked, but no database version live within the last %s (%v) holds a full hash of an allowed name: the verdict rests on an entry older than CacheTime", cacheTTL, names)
	}
	for _, n := range must {
		everywhere := true
		for _, d := range win {
			if !dbHashes(d)[hashHex(n)] {
				everywhere = false
			}
		}
		if everywhere {
			return fmt.Sprintf("not blocked, but every database version live within the last %s (%v) holds hash(%s): the verdict rests on an entry older than CacheTime", cacheTTL, names, n)
		}
	}
	return ""
}

func fpfn(blocked bool) string {
	if blocked {
		return "false-block"
	}
	return "missed-block"
}

func holds(b bool) string {
	if b {
		return "holds"
	}
	return "does not hold"
}

func jsonStr(v any) string {
	b, _ := json.Marshal(v)
	return string(b)
}

// ---- stateless part ---------------------------------------------------------

type slCase struct {
	Mode string `json:"mode"` // "stateless"
	Host string `json:"host"` // as handed to the code
	Via  string `json:"via"`  // check | checkhost-sb | checkhost-pc
	DB   dbSpec `json:"db"`
	Pack string `json:"pack"`
}

type swapChecker struct{ cur *hashprefix.Checker }

func (s *swapChecker) Check(host string) (bool, error) { return s.cur.Check(host) }

var (
	flt        *filtering.DNSFilter
	sbSwap     = &swapChecker{}
	pcSwap     = &swapChecker{}
	emptyDB    = &dbSpec{Name: "empty"}
	fltSetting = &filtering.Settings{ProtectionEnabled: true, SafeBrowsingEnabled: true, ParentalEnabled: true}
)

func getFilter(c *lib.Ctx) *filtering.DNSFilter {
	if flt != nil {
		return flt
	}
	dir := filepath.Join(c.TmpDir, "c19-filter")
	_ = os.MkdirAll(dir, 0o755)
	f, err := filtering.New(&filtering.Config{
		SafeBrowsingChecker: sbSwap, ParentalControlChecker: pcSwap,
		SafeBrowsingEnabled: true, ParentalEnabled: true, ProtectionEnabled: true,
		ConfigModified: func() {}, DataDir: dir,
	}, nil)
	if err != nil {
		panic(err)
	}
	flt = f
	return f
}

// evalStateless runs one fresh lookup and returns a violation key and text.
func evalStateless(c *lib.Ctx, cs *slCase) (vkey, desc string, blocked bool, ngroups int) {
	vtime.SetVirtual(base)
	lower := strings.ToLower(cs.Host)
	sb := &service{suffix: sbSuffix, db: emptyDB, pack: cs.Pack}
	pc := &service{suffix: pcSuffix, db: emptyDB, pack: cs.Pack}
	var err error
	var pan string
	switch cs.Via {
	case "check":
		sb.db = &cs.DB
		chk := newChecker(sb, 0)
		blocked, err, pan = safeCheck(func() (bool, error) { return chk.Check(cs.Host) })
	default:
		want := filtering.FilteredSafeBrowsing
		if cs.Via == "checkhost-pc" {
			pc.db = &cs.DB
			want = filtering.FilteredParental
		} else {
			sb.db = &cs.DB
		}
		sbSwap.cur, pcSwap.cur = newChecker(sb, 0), newChecker(pc, 0)
		f := getFilter(c)
		var other bool
		blocked, err, pan = safeCheck(func() (bool, error) {
			// The verdict does not depend on the question type; the types
			// rotate with the length of the name.
			qt := []uint16{dns.TypeA, dns.TypeAAAA, dns.TypeHTTPS, dns.TypeTXT, dns.TypeMX}[len(cs.Host)%5]
			res, e := f.CheckHost(cs.Host, qt, fltSetting)
			other = res.Reason != want && res.Reason != filtering.NotFilteredNotFound
			return res.Reason == want && res.IsFiltered, e
		})
		if other {
			return "verdict:wrong-service:" + cs.Via, fmt.Sprintf("CheckHost(%q) via %s reports a match of the service whose database is empty; case %s", cs.Host, cs.Via, jsonStr(cs)), blocked, 0
		}
	}
	class := hostClass(lower)
	ctx := fmt.Sprintf("\nquestions: safe browsing %s parental %s\ncase %s", jsonStr(sb.log), jsonStr(pc.log), jsonStr(cs))
	if pan != "" {
		return "panic:" + cs.Via + ":" + class, fmt.Sprintf("%s(%q) panics: %s%s", cs.Via, cs.Host, pan, ctx), blocked, 0
	}
	if err != nil {
		return "error:" + cs.Via + ":" + class, fmt.Sprintf("%s(%q) fails although the service answered: %v%s", cs.Via, cs.Host, err, ctx), blocked, 0
	}
	for _, pair := range []struct {
		s   *service
		suf string
	}{{sb, sbSuffix}, {pc, pcSuffix}} {
		for _, x := range pair.s.log {
			if g := groupsOf(x, pair.suf); g > ngroups {
				ngroups = g
			}
			if cl, d := checkQuestion(lower, x, pair.suf, true); cl != "" {
				return "privacy:" + cl + ":" + class, fmt.Sprintf("%s(%q): %s%s", cs.Via, cs.Host, d, ctx), blocked, ngroups
			}
		}
	}
	must, may := refVerdict(lower, &cs.DB)
	if blocked && !may || !blocked && must {
		return fmt.Sprintf("verdict:%s:%s:%s", fpfn(blocked), dbClass(lower, &cs.DB), class),
			fmt.Sprintf("%s(%q) = %v, reference: must block %v, may block %v (allowed names %v)%s", cs.Via, cs.Host, blocked, must, may, names2(lower), ctx), blocked, ngroups
	}
	return "", "", blocked, ngroups
}

func names2(host string) string {
	must, may := refNames(host)
	return fmt.Sprintf("decisive %v, may also be looked up %v", must, may)
}

// hostClass is a compact class of a host for violation keys: kind of public
// suffix, number of labels beyond it (capped), total labels over four or not.
func hostClass(host string) string {
	ps, icann := publicsuffix.PublicSuffix(host)
	kind := "icann"
	if !icann {
		kind = "private"
		if !strings.Contains(ps, ".") {
			kind = "unmanaged"
		}
	}
	n := strings.Count(host, ".") + 1
	extra := n - (strings.Count(ps, ".") + 1)
	long := "le4"
	if n > 4 {
		long = "gt4"
	}
	if extra > 4 {
		extra = 4
	}
	return fmt.Sprintf("%s-suffix:%d-beyond:%s", kind, extra, long)
}

// dbClass says what the (single-purpose) database holds relative to host.
func dbClass(host string, db *dbSpec) string {
	return "db=" + db.Name
}

func labelSeqs(labels []string, k int) [][]string {
	if k == 0 {
		return [][]string{nil}
	}
	var out [][]string
	for _, rest := range labelSeqs(labels, k-1) {
		for _, l := range labels {
			out = append(out, append([]string{l}, rest...))
		}
	}
	return out
}

var suffixes = []struct {
	s    string
	kind string // expected classification, checked at start-up
}{
	{"com", "icann"}, {"co.uk", "icann"}, {"pvt.k12.ma.us", "icann"}, {"www.ck", "icann-exception"}, {"foo.ck", "icann"},
	{"blogspot.com", "private"}, {"github.io", "private"}, {"dyndns.org", "private"}, {"no-ip.co.uk", "private"},
	{"lan", "unmanaged"}, {"localhost", "unmanaged"},
}

func checkSuffixAssumptions() string {
	for _, sf := range suffixes {
		ps, icann := publicsuffix.PublicSuffix("zz." + sf.s)
		ok := false
		switch sf.kind {
		case "icann":
			ok = icann && ps == sf.s
		case "icann-exception":
			ok = icann && ps == sf.s[strings.Index(sf.s, ".")+1:]
		case "private":
			ok = !icann && ps == sf.s
		case "unmanaged":
			ok = !icann && ps == sf.s
		}
		if !ok {
			return fmt.Sprintf("public suffix list classifies zz.%s as (%q, icann=%v), harness expects %s", sf.s, ps, icann, sf.kind)
		}
	}
	return ""
}

func hostGrammar(quick bool) (out []string) {
	labels := []string{"a", "www", "secretlabel"}
	if !quick {
		labels = append(labels, "b9", "mail-x")
	}
	for _, sf := range suffixes {
		n := strings.Count(sf.s, ".") + 1
		for k := 0; k+n <= 8; k++ {
			for _, seq := range labelSeqs(labels, k) {
				out = append(out, strings.Join(append(seq, sf.s), "."))
			}
		}
	}
	out = append(out, "uk", "ck", "1.2.3.4", "4.3.2.1.in-addr.arpa", "_dmarc.mail.example.com",
		"xn--e1afmkfd.xn--p1ai", strings.Repeat("x", 63)+".example.com", "a.b.c.d.e.f.g.h", pool.Host, pool.Collider, pool.ParentCollider,
		pool.ZeroTail, "www."+pool.ZeroTail, "a.b.c."+pool.ZeroTail)
	return out
}

func mixCase(s string) string {
	b := []byte(s)
	for i := range b {
		if i%2 == 0 && b[i] >= 'a' && b[i] <= 'z' {
			b[i] -= 32
		}
	}
	return string(b)
}

func allSuffixNames(h string) (out []string) {
	ls := strings.Split(h, ".")
	for i := range ls {
		out = append(out, strings.Join(ls[i:], "."))
	}
	return out
}

func runStateless(c *lib.Ctx) {
	hosts := hostGrammar(c.Quick())
	c.Note("stateless_hosts", fmt.Sprintf("%d hosts: 0..7 labels of {a,www,secretlabel%s} before each of %d suffixes (ICANN, ICANN exception rule, 4-label ICANN, private, unmanaged TLD), 1..8 labels in total, plus 14 special names (among them a name whose hash ends in a zero byte, alone and as a parent); each lower-case via Checker.Check and DNSFilter.CheckHost(safe browsing), upper-case via CheckHost(safe browsing), mixed-case via CheckHost(parental); CheckHost with question types A/AAAA/HTTPS/TXT/MX in rotation",
		len(hosts), map[bool]string{true: "", false: ",b9,mail-x"}[c.Quick()], len(suffixes)))
	for i, h := range hosts {
		if !c.Mine(i) {
			continue
		}
		if i%64 == 0 && c.Expired() {
			return
		}
		variants := []struct{ host, via string }{
			{h, "check"}, {h, "checkhost-sb"}, {strings.ToUpper(h), "checkhost-sb"}, {mixCase(h), "checkhost-pc"},
		}
		for vi, v := range variants {
			dbs := []dbSpec{{Name: "empty"}}
			for _, n := range allSuffixNames(h) {
				dbs = append(dbs, dbSpec{Name: "hash-of-suffix-name", Entries: []dbEntry{eHash(n)}})
			}
			if v.host != h {
				dbs = append(dbs, dbSpec{Name: "hash-of-name-as-spelled", Entries: []dbEntry{eHash(v.host)}})
			}
			must, _ := refNames(h)
			if len(must) > 0 {
				t := must[len(must)-1]
				dbs = append(dbs,
					dbSpec{Name: "malformed-only", Entries: []dbEntry{eLong66(t), eShort63(t), eLong65(t), eNonHex(t), eLong128(t, t)}},
					dbSpec{Name: "malformed-then-hash", Entries: []dbEntry{eGarbage, eLong66(must[0]), eHash(t)}},
					dbSpec{Name: "nonhex-tails-of-every-decisive-name", Entries: eNonHexTails(must...)})
			}
			for di := range dbs {
				cs := &slCase{Mode: "stateless", Host: v.host, Via: v.via, DB: dbs[di], Pack: []string{packSingle, packEach}[(i+vi+di)%2]}
				vkey, desc, blocked, ng := evalStateless(c, cs)
				c.Count("stateless_evaluations", 1)
				if vkey != "" {
					c.Violation(vkey, desc, cs)
					continue
				}
				if blocked {
					c.Count("stateless_blocked", 1)
				}
				if blocked || ng >= 2 {
					if c.Distinct("stateless_nontrivial", fmt.Sprintf("%s|%s|%s|%v|%d", hostClass(h), v.via, cs.DB.Name, blocked, ng)) {
						c.Sample(map[string]any{"host": v.host, "via": v.via, "db": cs.DB.Name, "blocked": blocked, "prefixes_sent": ng})
					}
				}
			}
		}
	}
}

// ---- run / replay / main ----------------------------------------------------

func run(c *lib.Ctx) {
	setup()
	if msg := checkSuffixAssumptions(); msg != "" {
		c.EngineError(msg)
		return
	}
	c.Note("name_pool", jsonStr(pool)+fmt.Sprintf(" prefixes host=%s collider=%s parent=%s parentcollider=%s", prefixHex(pool.Host), prefixHex(pool.Collider), prefixHex(pool.Parent), prefixHex(pool.ParentCollider)))
	var dbn []string
	for _, d := range allDBs {
		dbn = append(dbn, d.Name)
	}
	c.Note("databases", strings.Join(dbn, ", "))
	runStateless(c)
	phaseSchedules(c)

	labels := make([]string, 0, len(scenByLabel))
	for l := range scenByLabel {
		labels = append(labels, l)
	}
	sort.Strings(labels)
	depthFixed, depthSwitch := 5, 5
	if !c.Quick() {
		depthFixed, depthSwitch = 6, 6
	}
	c.Note("bfs_bounds", fmt.Sprintf("%d scenarios (27 databases x 2 answer packings x cache size {unlimited,%dB,%dB,30B} with a fixed database (the one database whose answers span two prefixes: unlimited cache only), 6 with database switches, 2 with database switches and a cache time of zero, 2 more that start after [check(parent); parent gets listed], 8 that start after [check(host) while listed] and switch between {empty, host, collider, host+collider}); operations check(name) over the pool, advance clock by {1s, CacheTime-1s, CacheTime+1s}, the next exchange with the service fails (fixed database, unlimited cache), switch database (switch scenarios only); depth %d (fixed) / %d (switch)", len(labels), smallCache, tinyCache, depthFixed, depthSwitch))
	// Scenarios are dealt to shard processes; inside one scenario the BFS is
	// single-threaded because the virtual clock is process-global.
	shardI, shardN := c.ShardI, c.ShardN
	for i, l := range labels {
		if shardN > 1 && i%shardN != shardI {
			continue
		}
		if c.Expired() {
			break
		}
		sc := scenByLabel[l]
		depth := depthFixed
		if sc.Switch {
			depth = depthSwitch
		}
		c.ShardN = 1 // lib.BFS must not deal level-1 operations again
		b := &lib.BFS[op]{C: c, Ops: sc.ops(c.Quick()), Exec: sc.exec, MaxDepth: depth, Workers: 1, Confirm: true}
		b.Run()
		c.ShardN = shardN
		c.Count("scenarios_run", 1)
	}
	vtime.SetVirtual(time.Time{})
	if dumpFailed {
		c.EngineError("hashprefix.VerifCacheDump could not read the golibs cache by reflection (layout changed?): state keys are unreliable")
	}
}

func replay(c *lib.Ctx, raw json.RawMessage) string {
	setup()
	defer vtime.SetVirtual(time.Time{})
	if msg, ok := replaySchedules(raw); ok {
		return msg
	}
	s := strings.TrimSpace(string(raw))
	if strings.HasPrefix(s, "[") {
		var hist []op
		if err := json.Unmarshal(raw, &hist); err != nil || len(hist) == 0 {
			return fmt.Sprintf("bad history: %v", err)
		}
		sc := scenByLabel[hist[0].Sc]
		if sc == nil {
			return "unknown scenario " + hist[0].Sc
		}
		st := sc.exec(hist)
		if st.VKey != "" {
			return st.VKey + ": " + st.VDesc
		}
		return ""
	}
	var cs slCase
	if err := json.Unmarshal(raw, &cs); err != nil {
		return err.Error()
	}
	vkey, desc, _, _ := evalStateless(c, &cs)
	if vkey != "" {
		return vkey + ": " + desc
	}
	return ""
}

func main() {
	lib.Main(&lib.Harness{
		Prop: "C19", Level: "model_checking",
		Shards: func(string) int { return 16 },
		Budget: func(tier string) time.Duration {
			if tier == "thorough" {
				return 18 * time.Minute
			}
			return 4 * time.Minute
		},
		Run: run, Replay: replay,
		Evidence: func(m *lib.Merged) map[string]any {
			return map[string]any{
				"states":                        m.Distinct["states"],
				"transitions":                   m.Counters["transitions"],
				"traces_validated_against_impl": m.Counters["transitions"],
				"evaluations":                   m.Counters["transitions"] + m.Counters["stateless_evaluations"],
				"stateless_evaluations":         m.Counters["stateless_evaluations"],
				"stateless_blocked":             m.Counters["stateless_blocked"],
				"distinct_nontrivial":           m.Distinct["nontrivial"],
				"stateless_distinct_nontrivial": m.Distinct["stateless_nontrivial"],
				"distinct_outcomes":             m.Distinct["outcomes"],
				"scenarios_run":                 m.Counters["scenarios_run"],
				"max_depth":                     m.Maxes["max_depth"],
				"rule":                          "BFS over check(name)/advance-clock(/switch-database) histories on one real hashprefix.Checker per history, scripted recording upstream; state = (scenario, reflection dump of the prefix cache with expiry relative to the virtual clock, LRU order when the cache is size-limited, live database versions in switch scenarios). Every check: question = 4-hex groups + suffix, each group the 2-byte prefix of an allowed suffix-name; verdict = reference (64-hex strings of the database intersected with the allowed names) = verdict of a fresh Checker on the same database at the same instant; in switch scenarios the verdict may rest only on database versions live within CacheTime. non-trivial = check answered wholly or partly from the cache (fewer prefixes asked than a fresh Checker asks). Stateless part: non-trivial = blocked verdict or >= 2 prefixes sent",
			}
		},
		Assumptions: []string{
			"the lookup service answers a question with every database string whose first four characters equal one of the asked prefixes, in database order (garbage strings may be added to every answer); it never volunteers hashes of prefixes that were not asked",
			"Checker.Check is handed lower-case names (DNSFilter.CheckHost lower-cases); mixed-case names are driven through CheckHost only",
			"for hosts whose longest public suffix is private or an unmanaged TLD the project looks up the whole last-four-labels space, which may include an ICANN suffix such as 'com' of x.blogspot.com (own unit test private_domain_v2); such a name may be looked up and may decide the verdict but need not",
			"a full hash is a TXT string of exactly 64 hexadecimal digits; upstream errors are not injected",
			"cache transparency is checked for a fixed database; with switches only the CacheTime window is demanded",
			"the one database whose answers carry hashes of two different prefixes is explored with the unlimited cache only: storeInCache walks a Go map, so with a size limit the LRU order and the eviction victim would differ from run to run",
		},
	})
}
