package main

// The scripted lookup service: a recording upstream.Upstream that answers TXT
// questions from a "service database" the way the real service does: every
// string whose first four characters equal one of the requested 2-byte
// prefixes is returned, in database order.

import (
	"errors"
	vsync "github.com/AdguardTeam/AdGuardHome/verifx/vsync"
	"net"
	"strings"

	"github.com/miekg/dns"
)

// dbEntry is one TXT string of a database.
type dbEntry struct {
	// What describes how Str was made, e.g. "hash(example.com)" or
	// "hash(x)+ab (66 chars)".
	What string `json:"what"`
	Str  string `json:"txt"`
	// Always: returned whatever is asked (only used for garbage strings).
	Always bool `json:"always,omitempty"`
}

type dbSpec struct {
	Name    string    `json:"name"`
	Entries []dbEntry `json:"entries"`
}

// exch is one recorded exchange.
type exch struct {
	Name          string `json:"qname"`
	Qtype         uint16 `json:"qtype"`
	Qclass        uint16 `json:"qclass"`
	NQuestions    int    `json:"n_questions"`
	OtherSections int    `json:"other_section_records"`
	Returned      int    `json:"strings_returned"`
}

const (
	packSingle = "single-rr"  // every string in one TXT record
	packEach   = "rr-per-txt" // one TXT record per string, after an unrelated A record
)

type service struct {
	suffix string
	db     *dbSpec
	pack   string
	log    []exch
	// failNext makes the next exchange fail (one shot); failed records that
	// an exchange of the current check has failed.
	failNext, failed bool
	// yield makes every exchange a scheduling point of the cooperative
	// scheduler before the question is read (schedule phase).
	yield bool
}

var errServiceDown = errors.New("verif: lookup service unreachable")

func (s *service) Address() string { return "verif-service" }
func (s *service) Close() error    { return nil }

func (s *service) Exchange(req *dns.Msg) (*dns.Msg, error) {
	if s.yield {
		vsync.SchedPoint("exchange with the lookup service")
	}
	x := exch{NQuestions: len(req.Question), OtherSections: len(req.Answer) + len(req.Ns) + len(req.Extra)}
	if len(req.Question) > 0 {
		q := req.Question[0]
		x.Name, x.Qtype, x.Qclass = q.Name, q.Qtype, q.Qclass
	}
	resp := (&dns.Msg{}).SetReply(req)
	var out []string
	if low := strings.ToLower(x.Name); strings.HasSuffix(low, s.suffix) && x.Qtype == dns.TypeTXT {
		want := map[string]bool{}
		for _, g := range strings.Split(strings.TrimSuffix(low, s.suffix), ".") {
			if g != "" {
				want[g] = true
			}
		}
		for _, e := range s.db.Entries {
			if e.Always || len(e.Str) >= 4 && want[strings.ToLower(e.Str[:4])] {
				out = append(out, e.Str)
			}
		}
	}
	x.Returned = len(out)
	s.log = append(s.log, x)
	if s.failNext {
		s.failNext, s.failed = false, true
		return nil, errServiceDown
	}
	hdr := func(t uint16) dns.RR_Header {
		return dns.RR_Header{Name: x.Name, Rrtype: t, Class: dns.ClassINET, Ttl: 300}
	}
	switch {
	case len(out) == 0:
		// Nothing known under these prefixes.
	case s.pack == packSingle:
		resp.Answer = append(resp.Answer, &dns.TXT{Hdr: hdr(dns.TypeTXT), Txt: out})
	default:
		resp.Answer = append(resp.Answer, &dns.A{Hdr: hdr(dns.TypeA), A: net.IPv4(192, 0, 2, 1)})
		for _, t := range out {
			resp.Answer = append(resp.Answer, &dns.TXT{Hdr: hdr(dns.TypeTXT), Txt: []string{t}})
		}
	}
	return resp, nil
}
