package main

// Concurrent checks on one Checker (one goroutine per DNS request in the
// server): every interleaving of two or three Check calls for different names
// up to a preemption bound, under the cooperative scheduler.  The exchange
// with the lookup service is a scheduling point (it is network I/O), and the
// service reads the question when it is scheduled, as a network upstream
// serialises the message when it sends it.  Every verdict must be the
// reference verdict of its own name, and what the calls leave in the cache must
// not change the verdicts of the checks that follow.

import (
	"encoding/json"
	"fmt"
	"strings"
	"time"

	"github.com/AdguardTeam/AdGuardHome/internal/verifx/lib"
	vsync "github.com/AdguardTeam/AdGuardHome/verifx/vsync"
	vtime "github.com/AdguardTeam/AdGuardHome/verifx/vtime"
)

type schedCaseC struct {
	Phase    string   `json:"phase"`
	DB       string   `json:"db"`
	Names    []string `json:"names"`
	Bound    int      `json:"preemption_bound"`
	Schedule []int    `json:"schedule"`
}

func mkSchedBody(db *dbSpec, names []string) func() vsync.Body {
	return func() vsync.Body {
		cacheTTL = defaultTTL
		vtime.SetVirtual(base)
		svc := &service{suffix: sbSuffix, db: db, pack: packSingle, yield: true}
		chk := newChecker(svc, 0)
		type res struct {
			blocked bool
			err     error
		}
		out := make([]res, len(names))
		var fs []func()
		for i, n := range names {
			i, n := i, n
			fs = append(fs, func() { out[i].blocked, out[i].err = chk.Check(n) })
		}
		return vsync.Body{
			Names: names, Threads: fs,
			Final: func() string {
				svc.yield = false
				for i, n := range names {
					must, may := refVerdict(n, db)
					if out[i].err != nil {
						return fmt.Sprintf("concurrent-check-fails: Check(%q) fails although the service answered: %v", n, out[i].err)
					}
					if out[i].blocked && !may || !out[i].blocked && must {
						return fmt.Sprintf("concurrent-verdict:%s: Check(%q) = %v while running concurrently with %v; the database %s one of its names' hashes", fpfn(out[i].blocked), n, out[i].blocked, names, holds(may))
					}
				}
				// What the concurrent calls left in the cache.
				for _, n := range names {
					b, err := chk.Check(n)
					must, may := refVerdict(n, db)
					if err != nil || b && !may || !b && must {
						return fmt.Sprintf("cache-after-concurrent-checks:%s: after the concurrent checks of %v, Check(%q) = %v (err %v); the database %s one of its names' hashes", fpfn(b), names, n, b, err, holds(may))
					}
				}
				return ""
			},
			Cleanup: func() { vtime.SetVirtual(time.Time{}) },
		}
	}
}

func phaseSchedules(c *lib.Ctx) {
	sets := [][]string{{pool.Host, pool.Other}, {pool.Host, pool.Child}, {pool.Host, pool.Collider}, {pool.Child, pool.Other, pool.Host}}
	bounds := []int{0, 1, 2}
	if !c.Quick() {
		bounds = []int{0, 1, 2, 3}
	}
	idx := 0
	for _, dn := range []string{"host", "parent", "host+parent", "empty"} {
		db := dbByKey[dn]
		if db == nil {
			continue
		}
		for _, names := range sets {
			idx++
			if !c.Mine(idx) {
				continue
			}
			for _, bound := range bounds {
				st := vsync.Explore(mkSchedBody(db, names), vsync.Options{Bound: bound, MaxExecutions: 20000, Deadline: c.Deadline, Trace: true, ReleasePoints: true, StuckTimeout: 120 * time.Second}, nil)
				name := dn + "/" + strings.Join(names, "|")
				c.Count("sched_executions", int64(st.Executions))
				c.Count("evals", int64(st.Executions))
				if !st.Exhaustive {
					c.NotExhaustive("schedules " + name + " stopped early")
				} else {
					c.Distinct(fmt.Sprintf("sched_scenarios_bound_%d", bound), name)
				}
				for _, e := range st.EngineErrs {
					c.EngineError("schedules " + name + ": " + e)
				}
				c.Distinct("nontrivial", "sched|"+name+fmt.Sprint(bound))
				for _, v := range st.Violations {
					key := "sched:" + v.Kind
					if v.Kind == "final" {
						key = "sched:" + strings.SplitN(v.Detail, ":", 2)[0]
					}
					c.Violation(key, fmt.Sprintf("%s with concurrent checks %s, preemption bound %d, schedule %v: %s", v.Kind, name, bound, v.Schedule, v.Detail),
						schedCaseC{Phase: "schedules", DB: dn, Names: names, Bound: bound, Schedule: v.Schedule})
				}
				if len(st.Violations) > 0 {
					break
				}
			}
		}
	}
}

func replaySchedules(raw json.RawMessage) (string, bool) {
	var sc schedCaseC
	if json.Unmarshal(raw, &sc) != nil || sc.Phase != "schedules" {
		return "", false
	}
	db := dbByKey[sc.DB]
	if db == nil {
		return "unknown database " + sc.DB, true
	}
	r1, f1 := vsync.RunOne(mkSchedBody(db, sc.Names), sc.Schedule, vsync.Options{Trace: true, ReleasePoints: true})
	r2, f2 := vsync.RunOne(mkSchedBody(db, sc.Names), sc.Schedule, vsync.Options{Trace: true, ReleasePoints: true})
	if len(r1.Points) != len(r2.Points) || f1 != f2 {
		return "REPLAY DIVERGED between two runs of the same schedule (engine error)", true
	}
	if len(r1.Panics) > 0 {
		return "panic: " + r1.Panics[0], true
	}
	return f1, true
}
