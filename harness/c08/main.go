// C08 — ignored names/clients and un-anonymised addresses never reach the
// query log or the statistics.  Stateless bounded-exhaustive enumeration of
// configurations x requests on the real pipeline with the real query log and
// statistics on tmpfs, wired like package home (DESIGN.md §4 C08).
package main

import (
	"bytes"
	"context"
	"crypto/tls"
	"encoding/json"
	"fmt"
	"net"
	"net/http"
	"net/http/httptest"
	"net/netip"
	"os"
	"path/filepath"
	"strings"
	"time"

	"github.com/AdguardTeam/AdGuardHome/internal/aghnet"
	"github.com/AdguardTeam/AdGuardHome/internal/dhcpsvc"
	"github.com/AdguardTeam/AdGuardHome/internal/dnsforward"
	"github.com/AdguardTeam/AdGuardHome/internal/filtering"
	"github.com/AdguardTeam/AdGuardHome/internal/home"
	"github.com/AdguardTeam/AdGuardHome/internal/querylog"
	"github.com/AdguardTeam/AdGuardHome/internal/stats"
	"github.com/AdguardTeam/AdGuardHome/internal/verifx/lib"
	"github.com/AdguardTeam/AdGuardHome/internal/verifx/srv"
	vtime "github.com/AdguardTeam/AdGuardHome/verifx/vtime"
	"github.com/AdguardTeam/dnsproxy/proxy"
	"github.com/miekg/dns"
)

const serverName = "dns.example"

var ignoreLists = [][]string{nil, {"ignored.test", "zz.ignored.test"}, {"||ignored.test^"}, {"*.ignored.test"}, {"|.^"}, {"Ignored.TEST"}}

type config struct {
	QLogIgnore  []string `json:"querylog_ignore"`
	StatsIgnore []string `json:"stats_ignore"`
	Anon        string   `json:"anonymize"`   // off, on, on-by-api
	Client      string   `json:"client_kind"` // none, ip, cidr, mac, clientid
	IgnQ        bool     `json:"client_ignore_querylog"`
	IgnS        bool     `json:"client_ignore_statistics"`
	RefuseAny   bool     `json:"refuse_any"`
	// Reloaded: the persistent clients went through a configuration write and a
	// restart (clients section encoded, decoded, container initialised from it)
	// before the request.
	Reloaded bool `json:"clients_saved_and_reloaded,omitempty"`
}

type request struct {
	Name  string `json:"name"`
	Qtype string `json:"qtype"`
	Addr  string `json:"addr"`
	CID   bool   `json:"with_clientid"` // DoT with SNI cid-a.dns.example
}

type caseC struct {
	Conf config  `json:"config"`
	Req  request `json:"request"`
	Obs  string  `json:"observed,omitempty"`
}

func jsonStr(v any) string { b, _ := json.Marshal(v); return string(b) }

const macStr = "aa:bb:cc:dd:ee:01"

type env struct {
	c   *lib.Ctx
	dir string
}

type handlers map[string]http.HandlerFunc

func (h handlers) reg(method, url string, f http.HandlerFunc) { h[method+" "+url] = f }

func (h handlers) call(method, url string, body string) (int, []byte) {
	f := h[method+" "+strings.SplitN(url, "?", 2)[0]]
	if f == nil {
		return 0, nil
	}
	var rd *bytes.Reader
	if body != "" {
		rd = bytes.NewReader([]byte(body))
	} else {
		rd = bytes.NewReader(nil)
	}
	r := httptest.NewRequest(method, url, rd)
	if body != "" {
		r.Header.Set("Content-Type", "application/json")
	}
	w := httptest.NewRecorder()
	f(w, r)
	return w.Code, w.Body.Bytes()
}

// anonOK reports whether s, if it is an address, has its tail zeroed.
func anonOK(s string) bool {
	a, err := netip.ParseAddr(s)
	if err != nil {
		return true // not an address (e.g. a ClientID)
	}
	if a.Is4() || a.Is4In6() {
		b := a.Unmap().As4()
		return b[2] == 0 && b[3] == 0
	}
	b := a.As16()
	for _, x := range b[6:] {
		if x != 0 {
			return false
		}
	}
	return true
}

func ignoredName(list []string, name string) bool {
	if len(list) == 0 {
		return false
	}
	var low []string
	for _, l := range list {
		low = append(low, strings.ToLower(l))
	}
	host := aghnet.NormalizeDomain(dns.Fqdn(name))
	v, _, _ := srv.RuleVerdict(nil, srv.ParseRules(low, 1), host, 0, "", "")
	return v != ""
}

// clientMatches: does the request come from the configured persistent client?
func clientMatches(cf *config, rq request) bool {
	ip := netip.MustParseAddr(rq.Addr).Unmap()
	switch cf.Client {
	case "ip", "mac":
		return ip == netip.MustParseAddr("10.0.0.1")
	case "cidr":
		return netip.MustParsePrefix("10.0.0.0/24").Contains(ip)
	case "clientid":
		return rq.CID
	case "clientid-behind-ip":
		// The ClientID takes precedence over the address, which belongs to
		// another persistent client without ignore flags.
		return rq.CID
	case "ip6zone":
		// The client is identified by a link-local address with a zone, the form
		// the listener reports for such a peer.
		return ip.WithZone("") == netip.MustParseAddr(zonedAddr).WithZone("")
	}
	return false
}

const zonedAddr = "fe80::1ff:fe23:4567:890a%eth0"

func (e *env) runConfig(cf *config, reqs []request) {
	c := e.c
	vtime.SetVirtual(time.Time{}) // real clock: statistics units use real hours
	dir, err := os.MkdirTemp(e.dir, "c08-")
	if err != nil {
		panic(err)
	}
	defer os.RemoveAll(dir)
	anonStart := cf.Anon == "on"
	var anonF aghnet.IPMutFunc
	if anonStart {
		anonF = querylog.AnonymizeIP
	}
	anonymizer := aghnet.NewIPMut(anonF)
	var findClient func(ids []string) (*querylog.Client, error)
	var shouldCount func(ids []string) bool
	qh, sh := handlers{}, handlers{}
	qIgn, _ := aghnet.NewIgnoreEngine(cf.QLogIgnore)
	sIgn, _ := aghnet.NewIgnoreEngine(cf.StatsIgnore)
	ql, err := querylog.New(querylog.Config{
		Logger: srv.Discard, Ignored: qIgn, Anonymizer: anonymizer, ConfigModified: func() {}, HTTPRegister: qh.reg,
		FindClient: func(ids []string) (*querylog.Client, error) { return findClient(ids) },
		BaseDir:    dir, RotationIvl: 24 * time.Hour, MemSize: 100, Enabled: true, FileEnabled: true, AnonymizeClientIP: anonStart,
	})
	if err != nil {
		panic(err)
	}
	st, err := stats.New(stats.Config{
		Logger: srv.Discard, ConfigModified: func() {}, HTTPRegister: sh.reg, Ignored: sIgn,
		ShouldCountClient: func(ids []string) bool { return shouldCount(ids) },
		Filename:          filepath.Join(dir, "stats.db"), Limit: 24 * time.Hour, Enabled: true,
	})
	if err != nil {
		panic(err)
	}
	defer st.Close()
	querylog.VerifC08InitWeb(ql)
	stats.VerifC08InitWeb(st)
	sp := &srv.Spec{
		Mode: filtering.BlockingModeDefault, ProtectionEnabled: true, FilteringEnabled: true, BlockedTTL: 10,
		QueryLog: ql, Stats: st, Anonymizer: anonymizer, ClientDHCP: macDHCP{},
		Conf: func(sc *dnsforward.ServerConfig) {
			sc.TLSConf = &dnsforward.TLSConfig{ServerName: serverName}
			sc.RefuseAny = cf.RefuseAny
		},
	}
	if cf.Client != "none" {
		cs := srv.ClientSpec{Name: "kid", IgnoreQueryLog: cf.IgnQ, IgnoreStatistics: cf.IgnS}
		switch cf.Client {
		case "ip":
			cs.IDs = []string{"10.0.0.1"}
		case "cidr":
			cs.IDs = []string{"10.0.0.0/24"}
		case "mac":
			cs.IDs = []string{macStr}
		case "clientid":
			cs.IDs = []string{"cid-a"}
		case "ip6zone":
			cs.IDs = []string{zonedAddr}
		case "clientid-behind-ip":
			cs.IDs = []string{"cid-a"}
		}
		sp.Clients = []srv.ClientSpec{cs}
		if cf.Client == "clientid-behind-ip" {
			for i, a := range []string{"10.0.0.1", "10.0.0.77", "192.168.5.5"} {
				sp.Clients = append(sp.Clients, srv.ClientSpec{Name: fmt.Sprintf("host%d", i), IDs: []string{a}})
			}
		}
		if cf.Client == "cidr" {
			// A wider network belongs to another client without ignore flags: the
			// most specific containing CIDR identifies the client.
			sp.Clients = append(sp.Clients, srv.ClientSpec{Name: "lan", IDs: []string{"10.0.0.0/8"}})
		}
	}
	a, err := srv.Build(sp)
	if err != nil {
		c.Violation("build-failed", err.Error(), caseC{Conf: *cf})
		return
	}
	defer a.Close()
	findClient, shouldCount = home.VerifClientsContainer(a.Clients, a.Server)
	if cf.Reloaded {
		// The configuration is the clients section as the running instance
		// writes it; the restarted instance must ignore exactly the same clients.
		fc, scnt, doc, rerr := home.VerifClientsReloaded(a.Clients, a.Server, sp.ClientDHCP)
		if rerr != nil {
			c.Violation("clients-section-not-reloadable", fmt.Sprintf("%v\nwritten section:\n%s", rerr, doc), caseC{Conf: *cf})
			return
		}
		findClient, shouldCount = fc, scnt
	}
	if cf.Anon == "on-by-api" {
		code, body := qh.call(http.MethodPut, "/control/querylog/config/update", `{"enabled":true,"anonymize_client_ip":true,"interval":86400000,"ignored":`+jsonStr(append([]string{}, cf.QLogIgnore...))+`}`)
		if code != http.StatusOK {
			c.Violation("config-api-failed", fmt.Sprintf("PUT querylog config: %d %s", code, body), caseC{Conf: *cf})
			return
		}
	}
	anon := cf.Anon != "off"
	c.Count("configs", 1)
	for i, rq := range reqs {
		c.Count("evals", 1)
		cs := caseC{Conf: *cf, Req: rq}
		req := &dns.Msg{MsgHdr: dns.MsgHdr{Id: uint16(i + 1), RecursionDesired: true}, Question: []dns.Question{{Name: dns.Fqdn(rq.Name), Qtype: dns.StringToType[rq.Qtype], Qclass: dns.ClassINET}}}
		pctx := &proxy.DNSContext{Req: req, Proto: proxy.ProtoUDP, Addr: netip.AddrPortFrom(netip.MustParseAddr(rq.Addr), 4000)}
		if rq.CID {
			pctx.Proto = proxy.ProtoTLS
			pctx.Conn = dnsforward.VerifTLSConn{ServerName: "cid-a." + serverName}
		}
		var pan any
		var berr, herr error
		func() {
			defer func() { pan = recover() }()
			berr, herr = a.QueryCtx(pctx)
		}()
		if pan != nil || berr != nil || herr != nil {
			c.Violation("request-failed", fmt.Sprintf("panic=%v before=%v err=%v\ncase: %s", pan, berr, herr, jsonStr(cs)), cs)
			continue
		}
		// Observe: API (memory), file after flush, API again (file), statistics.
		_, apiMem := qh.call(http.MethodGet, "/control/querylog", "")
		_ = querylog.VerifC08Flush(ql)
		fileBytes, _ := os.ReadFile(filepath.Join(dir, "querylog.json"))
		_, apiFile := qh.call(http.MethodGet, "/control/querylog", "")
		_, statsBody := sh.call(http.MethodGet, "/control/stats", "")
		var memResp, fileResp struct {
			Data []map[string]any `json:"data"`
		}
		_ = json.Unmarshal(apiMem, &memResp)
		_ = json.Unmarshal(apiFile, &fileResp)
		var sresp struct {
			NumDNSQueries uint64              `json:"num_dns_queries"`
			TopClients    []map[string]uint64 `json:"top_clients"`
			TopDomains    []map[string]uint64 `json:"top_queried_domains"`
		}
		_ = json.Unmarshal(statsBody, &sresp)
		var fileLines []string
		for _, l := range strings.Split(string(fileBytes), "\n") {
			if strings.TrimSpace(l) != "" {
				fileLines = append(fileLines, l)
			}
		}
		cs.Obs = fmt.Sprintf("api(mem)=%d api(file)=%d file_lines=%d stats_queries=%d top_clients=%v", len(memResp.Data), len(fileResp.Data), len(fileLines), sresp.NumDNSQueries, sresp.TopClients)
		// Reset for the next request.
		querylog.VerifC08Clear(ql)
		_ = stats.VerifC08Clear(st)

		isClient := cf.Client != "none" && clientMatches(cf, rq)
		nameIgnQ := ignoredName(cf.QLogIgnore, rq.Name)
		nameIgnS := ignoredName(cf.StatsIgnore, rq.Name)
		mustNotLog := nameIgnQ || (isClient && cf.IgnQ)
		mustNotCount := nameIgnS || (isClient && cf.IgnS)
		anyRefused := cf.RefuseAny && rq.Qtype == "ANY"
		nontriv := mustNotLog || mustNotCount || anon
		if nontriv {
			c.Distinct("nontrivial", jsonStr(caseC{Conf: *cf, Req: rq}))
		}
		tag := func() string {
			t := "client:" + cf.Client
			if cf.Reloaded {
				t = "client-after-save-and-restart:" + cf.Client
			}
			if nameIgnQ || nameIgnS {
				t = "name"
			}
			if anon {
				t += ":anonymized"
			}
			if netip.MustParseAddr(rq.Addr).Is4In6() {
				t += ":4in6"
			}
			return t
		}
		if mustNotLog && (len(memResp.Data) != 0 || len(fileResp.Data) != 0 || len(fileLines) != 0) {
			c.Violation("ignored-query-logged:"+tag(), fmt.Sprintf("query must not reach the query log (ignored name: %v, ignored client: %v) but: %s\ncase: %s", nameIgnQ, isClient && cf.IgnQ, cs.Obs, jsonStr(cs)), cs)
			continue
		}
		if mustNotCount && (sresp.NumDNSQueries != 0 || len(sresp.TopClients) != 0 || len(sresp.TopDomains) != 0) {
			c.Violation("ignored-query-counted:"+tag(), fmt.Sprintf("query must not reach the statistics (ignored name: %v, ignored client: %v) but: %s\ncase: %s", nameIgnS, isClient && cf.IgnS, cs.Obs, jsonStr(cs)), cs)
			continue
		}
		if !mustNotLog && !anyRefused && len(memResp.Data) == 1 && len(fileLines) == 1 {
			c.Count("positives_logged", 1)
		}
		if !mustNotCount && sresp.NumDNSQueries == 1 {
			c.Count("positives_counted", 1)
		}
		if anon {
			var addrs []string
			for _, d := range append(memResp.Data, fileResp.Data...) {
				if s, ok := d["client"].(string); ok {
					addrs = append(addrs, s)
				}
			}
			for _, l := range fileLines {
				var m map[string]any
				if json.Unmarshal([]byte(l), &m) == nil {
					if s, ok := m["IP"].(string); ok {
						addrs = append(addrs, s)
					}
				}
			}
			for _, tc := range sresp.TopClients {
				for k := range tc {
					addrs = append(addrs, k)
				}
			}
			for _, s := range addrs {
				if !anonOK(s) {
					where := "v4"
					if netip.MustParseAddr(rq.Addr).Is6() && !netip.MustParseAddr(rq.Addr).Is4In6() {
						where = "v6"
					}
					c.Violation("address-not-anonymized:"+cf.Anon+":"+where, fmt.Sprintf("anonymisation is on but the address %s was stored/reported: %s\ncase: %s", s, cs.Obs, jsonStr(cs)), cs)
					break
				}
			}
		}
		c.Distinct("cells", fmt.Sprintf("%v|%v|%v|%s|%s|%v", mustNotLog, mustNotCount, anon, cf.Client, rq.Qtype, rq.CID))
	}
}

// macDHCP reports the MAC of 10.0.0.1.
type macDHCP struct{}

func (macDHCP) Leases() []*dhcpsvc.Lease { return nil }
func (macDHCP) HostByIP(netip.Addr) string {
	return ""
}
func (macDHCP) MACByIP(ip netip.Addr) net.HardwareAddr {
	if ip.Unmap() == netip.MustParseAddr("10.0.0.1") {
		m, _ := net.ParseMAC(macStr)
		return m
	}
	return nil
}

func allRequests() []request {
	var out []request
	// "Zz.ignored.test": the only capital letter is the last of the alphabet.
	for _, n := range []string{"ignored.test", "IGNORED.Test", "sub.ignored.test", "other.test", "Zz.ignored.test"} {
		for _, a := range []string{"10.0.0.1", "10.0.0.77", "192.168.5.5", "2001:db8:aa:bb:1234:5678:9abc:def0", "::ffff:10.0.0.1", zonedAddr} {
			for _, cid := range []bool{false, true} {
				out = append(out, request{Name: n, Qtype: "A", Addr: a, CID: cid})
			}
		}
	}
	out = append(out, request{Name: "ignored.test", Qtype: "ANY", Addr: "10.0.0.1"}, request{Name: "other.test", Qtype: "ANY", Addr: "192.168.5.5"}, request{Name: ".", Qtype: "NS", Addr: "10.0.0.1"})
	return out
}

func run(c *lib.Ctx) {
	srv.Quiet()
	e := &env{c: c, dir: c.TmpDir}
	reqs := allRequests()
	idx := 0
	type ig struct{ q, s []string }
	var igs []ig
	for i, l := range ignoreLists {
		igs = append(igs, ig{l, nil})
		if i > 0 {
			igs = append(igs, ig{nil, l}, ig{l, l})
		}
	}
	for gi, g := range igs {
		for _, anon := range []string{"off", "on", "on-by-api"} {
			for _, cl := range []string{"none", "ip", "cidr", "mac", "clientid", "ip6zone", "clientid-behind-ip"} {
				for _, flags := range [][2]bool{{false, false}, {true, false}, {false, true}, {true, true}} {
					if cl == "none" && (flags[0] || flags[1]) {
						continue
					}
					for _, ra := range []bool{false, true} {
						if ra && (cl != "none" && cl != "ip") {
							continue
						}
						for _, reloaded := range []bool{false, true} {
							// Without persistent clients, and for the ANY variants, the
							// reloaded clients section adds nothing; the name lists do not
							// pass through it, so three list pairs (none, query log only,
							// statistics only) suffice for it.
							if reloaded && (cl == "none" || ra || gi > 2) {
								continue
							}
							idx++
							if !c.Mine(idx) {
								continue
							}
							if c.Expired() {
								return
							}
							cf := config{QLogIgnore: g.q, StatsIgnore: g.s, Anon: anon, Client: cl, IgnQ: flags[0], IgnS: flags[1], RefuseAny: ra, Reloaded: reloaded}
							e.runConfig(&cf, reqs)
							if idx%97 == 0 {
								c.Sample(map[string]any{"config": cf, "requests": len(reqs), "first": reqs[0]})
							}
						}
					}
				}
			}
		}
	}
	if c.Mine(0) {
		e.restartPass()
	}
	if c.Mine(1) {
		e.memoryPass()
	}
	if c.Mine(2) {
		e.savedPass()
	}
	if c.Mine(3) {
		e.flagsPass()
	}
	if c.Mine(4) {
		e.rejectedPass()
	}
}

// restartPass writes the file under a configuration that ignores nothing,
// restarts under one that does, and checks the API hides exactly the entries
// whose name or client is ignored by the current configuration.
func (e *env) restartPass() {
	c := e.c
	type q struct {
		name string
		sni  string // ClientID label; "" = plain UDP
		addr string
	}
	type scen struct {
		kind    string
		clients func(ignore bool) []srv.ClientSpec
		ignore  []string
		reqs    []q
		visible int // entries that must stay visible in phase 2
		// anon2 switches anonymisation on in phase 2; disallowed2 is the access
		// blocklist of phase 2; forbidden strings must not occur in the phase-2
		// API answer.
		anon2       bool
		disallowed2 []string
		forbidden   []string
	}
	scens := []scen{
		{kind: "name", ignore: []string{"||ignored.test^"}, clients: func(bool) []srv.ClientSpec { return nil },
			reqs: []q{{"ignored.test", "", "10.0.0.1"}, {"other.test", "", "10.0.0.1"}, {"sub.ignored.test", "", "10.0.0.2"}}, visible: 1},
		{kind: "client-ip", clients: func(ign bool) []srv.ClientSpec {
			return []srv.ClientSpec{{Name: "kid", IDs: []string{"10.0.0.1"}, IgnoreQueryLog: ign}}
		}, reqs: []q{{"a.test", "", "10.0.0.1"}, {"b.test", "", "10.0.0.2"}, {"c.test", "", "10.0.0.1"}}, visible: 1},
		{kind: "client-clientid", clients: func(ign bool) []srv.ClientSpec {
			return []srv.ClientSpec{{Name: "kid", IDs: []string{"cid-a"}, IgnoreQueryLog: ign}}
		}, reqs: []q{{"a.test", "cid-a", "10.0.0.1"}, {"b.test", "", "10.0.0.1"}}, visible: 1},
		// Several ClientID clients behind one address: the ignored one's older
		// records must stay hidden although a newer record of a non-ignored
		// client from the same address is processed first.
		{kind: "client-clientid-shared-address", clients: func(ign bool) []srv.ClientSpec {
			return []srv.ClientSpec{{Name: "kid", IDs: []string{"cid-a"}, IgnoreQueryLog: ign}, {Name: "mum", IDs: []string{"cid-b"}}}
		}, reqs: []q{{"a1.test", "cid-a", "10.0.0.1"}, {"b1.test", "cid-b", "10.0.0.1"}, {"a2.test", "cid-a", "10.0.0.1"}, {"b2.test", "cid-b", "10.0.0.1"}}, visible: 2},
		{kind: "client-clientid-shared-address-ignored-newest", clients: func(ign bool) []srv.ClientSpec {
			return []srv.ClientSpec{{Name: "kid", IDs: []string{"cid-a"}}, {Name: "mum", IDs: []string{"cid-b"}, IgnoreQueryLog: ign}}
		}, reqs: []q{{"a1.test", "cid-a", "10.0.0.1"}, {"b1.test", "cid-b", "10.0.0.1"}}, visible: 1},
	}
	// Records written with anonymisation off, then served with anonymisation on:
	// nothing in the API answer may carry the full address (not only the
	// "client" field: client_info, disallowed_rule, ...).
	scens = append(scens, scen{kind: "anonymised-later", anon2: true, disallowed2: []string{"10.0.0.1", "2001:db8:aa:bb:1234:5678:9abc:def0"},
		clients: func(bool) []srv.ClientSpec { return nil },
		reqs:    []q{{"a.test", "", "10.0.0.1"}, {"b.test", "", "2001:db8:aa:bb:1234:5678:9abc:def0"}, {"c.test", "", "192.168.7.7"}}, visible: 3,
		forbidden: []string{"10.0.0.1", "2001:db8:aa:bb:1234:5678:9abc:def0", "192.168.7.7"}})
	for _, sc := range scens {
		dir, _ := os.MkdirTemp(e.dir, "c08r-")
		leak := ""
		phase := func(second bool) (names []string) {
			var findClient func(ids []string) (*querylog.Client, error)
			qh := handlers{}
			var ign []string
			if second {
				ign = sc.ignore
			}
			eng, _ := aghnet.NewIgnoreEngine(ign)
			anonOn := second && sc.anon2
			var af aghnet.IPMutFunc
			if anonOn {
				af = querylog.AnonymizeIP
			}
			mut := aghnet.NewIPMut(af)
			ql, _ := querylog.New(querylog.Config{Logger: srv.Discard, Ignored: eng, Anonymizer: mut, ConfigModified: func() {}, HTTPRegister: qh.reg,
				FindClient: func(ids []string) (*querylog.Client, error) { return findClient(ids) }, BaseDir: dir, RotationIvl: 24 * time.Hour, MemSize: 100, Enabled: true, FileEnabled: true, AnonymizeClientIP: anonOn})
			querylog.VerifC08InitWeb(ql)
			var dis []string
			if second {
				dis = sc.disallowed2
			}
			sp := &srv.Spec{Mode: filtering.BlockingModeDefault, ProtectionEnabled: true, FilteringEnabled: true, QueryLog: ql, Clients: sc.clients(second), Anonymizer: mut,
				Conf: func(c *dnsforward.ServerConfig) {
					c.TLSConf = &dnsforward.TLSConfig{ServerName: serverName}
					c.DisallowedClients = dis
				}}
			a, err := srv.Build(sp)
			if err != nil {
				panic(err)
			}
			defer a.Close()
			fc, _ := home.VerifClientsContainer(a.Clients, a.Server)
			findClient = fc
			if !second {
				for i, r := range sc.reqs {
					vtime.SetVirtual(time.Date(2024, 6, 5, 12, 0, i, 0, time.UTC))
					req := &dns.Msg{MsgHdr: dns.MsgHdr{Id: uint16(i + 1)}, Question: []dns.Question{{Name: dns.Fqdn(r.name), Qtype: dns.TypeA, Qclass: dns.ClassINET}}}
					pctx := &proxy.DNSContext{Req: req, Proto: proxy.ProtoUDP, Addr: netip.AddrPortFrom(netip.MustParseAddr(r.addr), 99)}
					if r.sni != "" {
						pctx.Proto, pctx.Conn = proxy.ProtoTLS, dnsforward.VerifTLSConn{ServerName: r.sni + "." + serverName}
					}
					_, _ = a.QueryCtx(pctx)
				}
				vtime.SetVirtual(time.Time{})
				_ = ql.Shutdown(context.Background())
			}
			_, body := qh.call(http.MethodGet, "/control/querylog", "")
			var resp struct {
				Data []struct {
					Question struct {
						Name string `json:"name"`
					} `json:"question"`
				} `json:"data"`
			}
			_ = json.Unmarshal(body, &resp)
			for _, d := range resp.Data {
				names = append(names, d.Question.Name)
			}
			if second {
				for _, f := range sc.forbidden {
					if strings.Contains(string(body), `"`+f+`"`) {
						leak = f
					}
				}
			}
			return names
		}
		n1 := phase(false)
		n2 := phase(true)
		c.Count("evals", 2)
		c.Distinct("nontrivial", "restart:"+sc.kind)
		cs := caseC{Conf: config{Client: "restart:" + sc.kind}, Obs: fmt.Sprintf("recorded=%v visible-after-restart=%v", n1, n2)}
		if len(n1) != len(sc.reqs) {
			c.EngineError(fmt.Sprintf("restart pass %s: %d of %d entries recorded under the permissive configuration", sc.kind, len(n1), len(sc.reqs)))
		} else if leak != "" {
			c.Violation("address-not-anonymized:api-answer-after-switching-on", fmt.Sprintf("anonymisation is on but the API answer for records written earlier contains the full address %q (%s)", leak, cs.Obs), cs)
		} else if len(n2) != sc.visible {
			c.Violation("api-returns-currently-ignored:"+sc.kind, fmt.Sprintf("after a restart under a configuration that ignores the %s, the API must return %d of the %d entries recorded earlier, got %d (%s)", sc.kind, sc.visible, len(sc.reqs), len(n2), cs.Obs), cs)
		}
		os.RemoveAll(dir)
	}
}

// memoryPass: entries that are still in the memory buffer when their name is
// put on the ignore list (through the configuration API), or when their client
// gets the ignore flag, must not be returned any more either ("currently
// ignored" does not depend on where an entry is stored).
func (e *env) memoryPass() {
	c := e.c
	for _, kind := range []string{"name", "client-ip", "client-clientid"} {
		dir, _ := os.MkdirTemp(e.dir, "c08m-")
		var findClient func(ids []string) (*querylog.Client, error)
		qh := handlers{}
		eng, _ := aghnet.NewIgnoreEngine(nil)
		mut := aghnet.NewIPMut(nil)
		ql, _ := querylog.New(querylog.Config{Logger: srv.Discard, Ignored: eng, Anonymizer: mut, ConfigModified: func() {}, HTTPRegister: qh.reg,
			FindClient: func(ids []string) (*querylog.Client, error) { return findClient(ids) }, BaseDir: dir, RotationIvl: 24 * time.Hour, MemSize: 100, Enabled: true, FileEnabled: true})
		querylog.VerifC08InitWeb(ql)
		id := "10.0.0.1"
		if kind == "client-clientid" {
			id = "cid-a"
		}
		sp := &srv.Spec{Mode: filtering.BlockingModeDefault, ProtectionEnabled: true, FilteringEnabled: true, QueryLog: ql, Anonymizer: mut,
			Clients: []srv.ClientSpec{{Name: "kid", IDs: []string{id}}},
			Conf:    func(c *dnsforward.ServerConfig) { c.TLSConf = &dnsforward.TLSConfig{ServerName: serverName} }}
		a, err := srv.Build(sp)
		if err != nil {
			panic(err)
		}
		fc, _ := home.VerifClientsContainer(a.Clients, a.Server)
		findClient = fc
		type q struct{ name, sni, addr string }
		reqs := []q{{"ignored.test", "", "10.0.0.1"}, {"other.test", "", "10.0.0.2"}, {"sub.ignored.test", "cid-a", "10.0.0.3"}}
		for i, r := range reqs {
			vtime.SetVirtual(time.Date(2024, 6, 5, 12, 0, i, 0, time.UTC))
			req := &dns.Msg{MsgHdr: dns.MsgHdr{Id: uint16(i + 1)}, Question: []dns.Question{{Name: dns.Fqdn(r.name), Qtype: dns.TypeA, Qclass: dns.ClassINET}}}
			pctx := &proxy.DNSContext{Req: req, Proto: proxy.ProtoUDP, Addr: netip.AddrPortFrom(netip.MustParseAddr(r.addr), 99)}
			if r.sni != "" {
				pctx.Proto, pctx.Conn = proxy.ProtoTLS, dnsforward.VerifTLSConn{ServerName: r.sni + "." + serverName}
			}
			_, _ = a.QueryCtx(pctx)
		}
		vtime.SetVirtual(time.Time{})
		names := func() (l []string) {
			_, body := qh.call(http.MethodGet, "/control/querylog", "")
			var resp struct {
				Data []struct {
					Question struct {
						Name string `json:"name"`
					} `json:"question"`
				} `json:"data"`
			}
			_ = json.Unmarshal(body, &resp)
			for _, d := range resp.Data {
				l = append(l, d.Question.Name)
			}
			return l
		}
		n1 := names()
		want := 0
		switch kind {
		case "name":
			code, body := qh.call(http.MethodPut, "/control/querylog/config/update", `{"enabled":true,"interval":86400000,"anonymize_client_ip":false,"ignored":["||ignored.test^"]}`)
			if code != http.StatusOK {
				c.EngineError(fmt.Sprintf("memory pass: config update answered %d %s", code, body))
			}
			want = 1 // other.test
		default:
			kid, ok := a.Clients.FindByName("kid")
			if !ok {
				c.EngineError("memory pass: client kid not found")
			}
			kid.IgnoreQueryLog = true
			if uerr := a.Clients.Update(context.Background(), "kid", kid); uerr != nil {
				c.EngineError("memory pass: client update: " + uerr.Error())
			}
			want = 2 // the two entries of the other clients
		}
		n2 := names()
		c.Count("evals", 2)
		c.Distinct("nontrivial", "memory:"+kind)
		cs := caseC{Conf: config{Client: "memory:" + kind}, Obs: fmt.Sprintf("recorded=%v visible-after-the-change=%v", n1, n2)}
		if len(n1) != len(reqs) {
			c.EngineError(fmt.Sprintf("memory pass %s: %d of %d entries recorded", kind, len(n1), len(reqs)))
		} else if len(n2) != want {
			c.Violation("api-returns-currently-ignored:in-memory:"+kind, fmt.Sprintf("entries still in the memory buffer: after the %s became ignored the API must return %d of the %d entries, got %d (%s)", kind, want, len(reqs), len(n2), cs.Obs), cs)
		}
		a.Close()
		_ = ql.Shutdown(context.Background())
		os.RemoveAll(dir)
	}
}

// flagsPass: the ignore flags of a persistent client set through the clients
// API, each alone, both, and switched off again: what the query log and the statistics are then told about the
// client must be the flags as set.
func (e *env) flagsPass() {
	c := e.c
	a, err := srv.Build(&srv.Spec{Mode: filtering.BlockingModeDefault, ProtectionEnabled: true, FilteringEnabled: true,
		Clients: []srv.ClientSpec{{Name: "kid", IDs: []string{"10.0.0.1"}}}})
	if err != nil {
		panic(err)
	}
	defer a.Close()
	vc := home.VerifNewClients(a.Clients, a.Server)
	h := handlers{"POST /control/clients/update": vc.Handler("update")}
	wantQ, wantS := false, false
	for _, step := range []struct{ q, s string }{{"", "true"}, {"true", ""}, {"false", "false"}, {"true", "true"}, {"", "false"}, {"false", ""}, {"", ""}} {
		// An absent key means "not ignored": the handlers build the client from
		// the request alone.
		flags := ""
		wantQ, wantS = step.q == "true", step.s == "true"
		if step.q != "" {
			flags += `,"ignore_querylog":` + step.q
		}
		if step.s != "" {
			flags += `,"ignore_statistics":` + step.s
		}
		body := `{"name":"kid","data":{"name":"kid","ids":["10.0.0.1"],"use_global_settings":true,"use_global_blocked_services":true` + flags + `}}`
		code, resp := h.call(http.MethodPost, "/control/clients/update", body)
		c.Count("evals", 2)
		cs := caseC{Conf: config{Client: "flags:api"}, Obs: body}
		if code != http.StatusOK {
			c.EngineError(fmt.Sprintf("flags pass: clients/update answered %d %s", code, resp))
			return
		}
		qc, ferr := vc.FindMultiple([]string{"10.0.0.1"})
		if ferr != nil || qc == nil {
			c.EngineError(fmt.Sprintf("flags pass: client lookup failed: %v", ferr))
			return
		}
		if qc.IgnoreQueryLog != wantQ {
			c.Violation("client-flag-lost:ignore_querylog", fmt.Sprintf("after POST /control/clients/update %s the query log is told ignore=%v for the client, want %v", body, qc.IgnoreQueryLog, wantQ), cs)
			return
		}
		if count := vc.ShouldCount([]string{"10.0.0.1"}); count == wantS {
			c.Violation("client-flag-lost:ignore_statistics", fmt.Sprintf("after POST /control/clients/update %s the statistics are told count=%v for the client, want %v", body, count, !wantS), cs)
			return
		}
	}
	c.Distinct("nontrivial", "flags")
}

// rejectedPass: a configuration update that is refused changes nothing.  With
// anonymisation on, updates that ask for it to be switched off but are refused
// for another reason (interval out of range, "enabled" missing, a malformed
// ignore entry) must leave every later address anonymised.
func (e *env) rejectedPass() {
	c := e.c
	for _, bad := range []string{
		`{"enabled":true,"anonymize_client_ip":false,"interval":1,"ignored":[]}`,
		`{"anonymize_client_ip":false,"interval":86400000,"ignored":[]}`,
		`{"enabled":true,"anonymize_client_ip":false,"interval":86400000,"ignored":["||bad rule with spaces^$$"]}`,
		`{"enabled":true,"anonymize_client_ip":false,"interval":86400000}`,
	} {
		dir, _ := os.MkdirTemp(e.dir, "c08r-")
		qh := handlers{}
		eng, _ := aghnet.NewIgnoreEngine(nil)
		mut := aghnet.NewIPMut(querylog.AnonymizeIP)
		ql, _ := querylog.New(querylog.Config{Logger: srv.Discard, Ignored: eng, Anonymizer: mut, ConfigModified: func() {}, HTTPRegister: qh.reg,
			FindClient: func([]string) (*querylog.Client, error) { return nil, nil }, BaseDir: dir, RotationIvl: 24 * time.Hour, MemSize: 100, Enabled: true, FileEnabled: true, AnonymizeClientIP: true})
		querylog.VerifC08InitWeb(ql)
		a, err := srv.Build(&srv.Spec{Mode: filtering.BlockingModeDefault, ProtectionEnabled: true, FilteringEnabled: true, QueryLog: ql, Anonymizer: mut})
		if err != nil {
			panic(err)
		}
		code, _ := qh.call(http.MethodPut, "/control/querylog/config/update", bad)
		c.Count("evals", 1)
		cs := caseC{Conf: config{Client: "rejected:querylog", Anon: "on"}, Obs: bad}
		if code == http.StatusOK {
			// Accepted after all: then anonymisation is off by request; not a case.
			c.Count("rejected_pass_update_accepted", 1)
		} else {
			req := &dns.Msg{MsgHdr: dns.MsgHdr{Id: 7}, Question: []dns.Question{{Name: "example.org.", Qtype: dns.TypeA, Qclass: dns.ClassINET}}}
			_, _ = a.QueryCtx(&proxy.DNSContext{Req: req, Proto: proxy.ProtoUDP, Addr: netip.MustParseAddrPort("198.51.100.77:4000")})
			_, body := qh.call(http.MethodGet, "/control/querylog", "")
			_ = querylog.VerifC08Flush(ql)
			file, _ := os.ReadFile(filepath.Join(dir, "querylog.json"))
			if strings.Contains(string(body), "198.51.100.77") || strings.Contains(string(file), "198.51.100.77") {
				c.Violation("address-not-anonymized:after-refused-update", fmt.Sprintf("anonymisation is on; the update %s was refused with HTTP %d; the next query is stored or reported with its full address 198.51.100.77", bad, code), cs)
			}
		}
		a.Close()
		_ = ql.Shutdown(context.Background())
		os.RemoveAll(dir)
	}
	c.Distinct("nontrivial", "rejected")
}

// savedPass: an ignore list changed through the configuration API must also
// be what the configuration writer is handed: package home writes the file
// from inside the ConfigModified callback by asking each module for its
// current settings, and that is what a restart loads.
func (e *env) savedPass() {
	c := e.c
	dir, err := os.MkdirTemp(e.dir, "c08s-")
	if err != nil {
		panic(err)
	}
	defer os.RemoveAll(dir)
	qh, sh := handlers{}, handlers{}
	var ql querylog.QueryLog
	var st stats.Interface
	var qSaved, sSaved []string
	qCalls, sCalls := 0, 0
	empty1, _ := aghnet.NewIgnoreEngine(nil)
	empty2, _ := aghnet.NewIgnoreEngine(nil)
	ql, err = querylog.New(querylog.Config{
		Logger: srv.Discard, Ignored: empty1, Anonymizer: aghnet.NewIPMut(nil), HTTPRegister: qh.reg,
		ConfigModified: func() {
			qCalls++
			var qc querylog.Config
			ql.WriteDiskConfig(&qc)
			qSaved = nil
			if qc.Ignored != nil {
				qSaved = qc.Ignored.Values()
			}
		},
		FindClient: func([]string) (*querylog.Client, error) { return nil, nil },
		BaseDir:    dir, RotationIvl: 24 * time.Hour, MemSize: 100, Enabled: true, FileEnabled: true,
	})
	if err != nil {
		panic(err)
	}
	st, err = stats.New(stats.Config{
		Logger: srv.Discard, HTTPRegister: sh.reg, Ignored: empty2,
		ConfigModified: func() {
			sCalls++
			var sc stats.Config
			st.WriteDiskConfig(&sc)
			sSaved = nil
			if sc.Ignored != nil {
				sSaved = sc.Ignored.Values()
			}
		},
		ShouldCountClient: func([]string) bool { return true },
		Filename:          filepath.Join(dir, "stats.db"), Limit: 24 * time.Hour, Enabled: true,
	})
	if err != nil {
		panic(err)
	}
	defer st.Close()
	querylog.VerifC08InitWeb(ql)
	stats.VerifC08InitWeb(st)
	for i, list := range [][]string{{"saved-one.test"}, {"saved-two.test", "||x.test^"}, {}} {
		lj := jsonStr(append([]string{}, list...))
		code, body := sh.call(http.MethodPut, "/control/stats/config/update", `{"enabled":true,"interval":86400000,"ignored":`+lj+`}`)
		c.Count("evals", 1)
		cs := caseC{Conf: config{Client: "saved:statistics", StatsIgnore: list}}
		if code != http.StatusOK {
			c.EngineError(fmt.Sprintf("saved pass: stats config update answered %d %s", code, body))
		} else if sCalls != i+1 || jsonStr(append([]string{}, sSaved...)) != lj {
			c.Violation("saved-configuration-differs:statistics", fmt.Sprintf("PUT /control/stats/config/update set the ignore list %s; the settings handed to the configuration writer (%d save requests) hold %v: a restart brings the previous list back", lj, sCalls, sSaved), cs)
		}
		code, body = qh.call(http.MethodPut, "/control/querylog/config/update", `{"enabled":true,"interval":86400000,"anonymize_client_ip":false,"ignored":`+lj+`}`)
		c.Count("evals", 1)
		cs = caseC{Conf: config{Client: "saved:querylog", QLogIgnore: list}}
		if code != http.StatusOK {
			c.EngineError(fmt.Sprintf("saved pass: querylog config update answered %d %s", code, body))
		} else if qCalls != i+1 || jsonStr(append([]string{}, qSaved...)) != lj {
			c.Violation("saved-configuration-differs:querylog", fmt.Sprintf("PUT /control/querylog/config/update set the ignore list %s; the settings handed to the configuration writer (%d save requests) hold %v: a restart brings the previous list back", lj, qCalls, qSaved), cs)
		}
	}
	c.Distinct("nontrivial", "saved")
	_ = ql.Shutdown(context.Background())
}

func replay(c *lib.Ctx, raw json.RawMessage) string {
	srv.Quiet()
	var cs caseC
	if err := json.Unmarshal(raw, &cs); err != nil {
		return err.Error()
	}
	e := &env{c: c, dir: c.TmpDir}
	if strings.HasPrefix(cs.Conf.Client, "restart:") {
		e.restartPass()
	} else if strings.HasPrefix(cs.Conf.Client, "memory:") {
		e.memoryPass()
	} else if strings.HasPrefix(cs.Conf.Client, "saved:") {
		e.savedPass()
	} else if strings.HasPrefix(cs.Conf.Client, "flags:") {
		e.flagsPass()
	} else if strings.HasPrefix(cs.Conf.Client, "rejected:") {
		e.rejectedPass()
	} else {
		e.runConfig(&cs.Conf, []request{cs.Req})
	}
	if c.NumViolationKeys() > 0 {
		return "violation reproduced: " + jsonStr(cs)
	}
	return ""
}

var _ = tls.ConnectionState{}

func main() {
	lib.Main(&lib.Harness{
		Prop: "C08", Level: "exploration",
		Budget: func(tier string) time.Duration {
			if tier == "thorough" {
				return 20 * time.Minute
			}
			return 4 * time.Minute
		},
		Run: run, Replay: replay,
		Evidence: func(m *lib.Merged) map[string]any {
			return map[string]any{
				"evaluations":         m.Counters["evals"],
				"distinct_nontrivial": m.Distinct["nontrivial"],
				"configurations":      m.Counters["configs"],
				"distinct_cells":      m.Distinct["cells"],
				"positives_logged":    m.Counters["positives_logged"],
				"positives_counted":   m.Counters["positives_counted"],
				"rule":                "13 (query-log ignore list, statistics ignore list) pairs over {none, plain name, ||rule^, wildcard, root |.^} x anonymisation {off, on at start, switched on through the config API} x persistent client kind {none, IP, CIDR, MAC via DHCP, ClientID} x ignore flags x {clients as configured, clients section written by the running instance (forConfig, YAML) and loaded by a restarted clients container} x ANY-refusal; each x 43 requests (4 name spellings x 5 client addresses incl. IPv6 and 4-in-6 x with/without ClientID, ANY queries, root query); after every single request the memory buffer (API), the flushed querylog.json, the API again and /control/stats are read and then cleared. Oracle: ignored name/client => nothing in its subsystem; anonymisation on => every address has its last 16/80 bits zero; restart pass: entries recorded earlier are hidden when the current configuration ignores their name/client. distinct_nontrivial = distinct (configuration, request) where something must be suppressed or anonymised",
			}
		},
		Assumptions: []string{"ignore-rule matching delegated to urlfilter", "a 4-in-6 source address is the same client as its IPv4 form", "entries recorded anonymised cannot be attributed to a client afterwards: the restart pass for client flags runs with anonymisation off"},
	})
}
