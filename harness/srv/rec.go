package srv

import (
	"context"
	"net/netip"
	"sync"

	"github.com/AdguardTeam/AdGuardHome/internal/querylog"
	"github.com/AdguardTeam/AdGuardHome/internal/stats"
)

// RecLog is a recording query log that logs everything.
type RecLog struct {
	mu      sync.Mutex
	Entries []*querylog.AddParams
}

func (l *RecLog) Start(context.Context) error    { return nil }
func (l *RecLog) Shutdown(context.Context) error { return nil }
func (l *RecLog) Add(p *querylog.AddParams) {
	l.mu.Lock()
	l.Entries = append(l.Entries, p)
	l.mu.Unlock()
}
func (l *RecLog) WriteDiskConfig(*querylog.Config)                  {}
func (l *RecLog) ShouldLog(string, uint16, uint16, []string) bool { return true }

// Reset returns and clears the entries.
func (l *RecLog) Reset() []*querylog.AddParams {
	l.mu.Lock()
	defer l.mu.Unlock()
	e := l.Entries
	l.Entries = nil
	return e
}

// RecStats is a recording statistics sink that counts everything.
type RecStats struct {
	mu      sync.Mutex
	Entries []*stats.Entry
}

func (s *RecStats) Start()       {}
func (s *RecStats) Close() error { return nil }
func (s *RecStats) Update(e *stats.Entry) {
	s.mu.Lock()
	s.Entries = append(s.Entries, e)
	s.mu.Unlock()
}
func (s *RecStats) TopClientsIP(uint) []netip.Addr                    { return nil }
func (s *RecStats) WriteDiskConfig(*stats.Config)                     {}
func (s *RecStats) ShouldCount(string, uint16, uint16, []string) bool { return true }

// Reset returns and clears the entries.
func (s *RecStats) Reset() []*stats.Entry {
	s.mu.Lock()
	defer s.mu.Unlock()
	e := s.Entries
	s.Entries = nil
	return e
}
