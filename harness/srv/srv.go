// Package srv assembles a real dnsforward.Server with a real filtering.DNSFilter
// and client.Storage for the harnesses that drive the request pipeline
// (C01, C02, C03, C08): rule lists in memory, a recording mock upstream, no
// sockets.
package srv

import (
	"context"
	"fmt"
	"io"
	"log/slog"
	"net/netip"
	"strings"
	"sync"
	"time"

	"github.com/AdguardTeam/AdGuardHome/internal/aghnet"
	"github.com/AdguardTeam/AdGuardHome/internal/client"
	"github.com/AdguardTeam/AdGuardHome/internal/dnsforward"
	"github.com/AdguardTeam/AdGuardHome/internal/filtering"
	"github.com/AdguardTeam/AdGuardHome/internal/querylog"
	"github.com/AdguardTeam/AdGuardHome/internal/schedule"
	"github.com/AdguardTeam/AdGuardHome/internal/stats"
	"github.com/AdguardTeam/dnsproxy/proxy"
	"github.com/AdguardTeam/golibs/log"
	"github.com/AdguardTeam/golibs/timeutil"
	"github.com/miekg/dns"
)

var initOnce sync.Once

// Quiet silences the project's loggers and initialises filtering globals.
func Quiet() {
	initOnce.Do(func() {
		log.SetLevel(log.ERROR)
		log.SetOutput(io.Discard)
		filtering.InitModule()
	})
}

// Discard is a slog logger that drops everything.
var Discard = slog.New(slog.DiscardHandler)

// Upstream is a recording mock upstream.
type Upstream struct {
	mu sync.Mutex
	// Answer builds the reply for a request; nil = default records.
	Answer func(req *dns.Msg) *dns.Msg
	// Asked is the log of question names and types.
	Asked []string
}

func (u *Upstream) Exchange(req *dns.Msg) (*dns.Msg, error) {
	u.mu.Lock()
	q := req.Question[0]
	u.Asked = append(u.Asked, fmt.Sprintf("%s/%s", q.Name, dns.TypeToString[q.Qtype]))
	u.mu.Unlock()
	if u.Answer != nil {
		return u.Answer(req), nil
	}
	return DefaultAnswer(req), nil
}

func (u *Upstream) Address() string { return "verif-mock:53" }
func (u *Upstream) Close() error    { return nil }

// Reset clears the call log and returns the previous one.
func (u *Upstream) Reset() []string {
	u.mu.Lock()
	defer u.mu.Unlock()
	a := u.Asked
	u.Asked = nil
	return a
}

// UpstreamA etc. are the recognisable upstream records.
const (
	UpstreamA    = "93.184.216.34"
	UpstreamAAAA = "2606:2800:220:1::34"
	UpstreamTXT  = "from-upstream"
)

// DefaultAnswer answers every question with one recognisable record.
func DefaultAnswer(req *dns.Msg) *dns.Msg {
	resp := (&dns.Msg{}).SetReply(req)
	resp.RecursionAvailable = true
	q := req.Question[0]
	hdr := dns.RR_Header{Name: q.Name, Rrtype: q.Qtype, Class: dns.ClassINET, Ttl: 300}
	switch q.Qtype {
	case dns.TypeA:
		resp.Answer = []dns.RR{&dns.A{Hdr: hdr, A: netip.MustParseAddr(UpstreamA).AsSlice()}}
	case dns.TypeAAAA:
		resp.Answer = []dns.RR{&dns.AAAA{Hdr: hdr, AAAA: netip.MustParseAddr(UpstreamAAAA).AsSlice()}}
	case dns.TypeTXT:
		resp.Answer = []dns.RR{&dns.TXT{Hdr: hdr, Txt: []string{UpstreamTXT}}}
	case dns.TypeHTTPS:
		resp.Answer = []dns.RR{&dns.HTTPS{SVCB: dns.SVCB{Hdr: hdr, Priority: 1, Target: ".", Value: []dns.SVCBKeyValue{&dns.SVCBAlpn{Alpn: []string{"h2"}}}}}}
	case dns.TypeCNAME:
		resp.Answer = []dns.RR{&dns.CNAME{Hdr: hdr, Target: "canonical.upstream.example."}}
	case dns.TypeMX:
		resp.Answer = []dns.RR{&dns.MX{Hdr: hdr, Preference: 10, Mx: "mail.upstream.example."}}
	default:
		resp.Answer = []dns.RR{&dns.TXT{Hdr: dns.RR_Header{Name: q.Name, Rrtype: dns.TypeTXT, Class: dns.ClassINET, Ttl: 300}, Txt: []string{UpstreamTXT}}}
	}
	return resp
}

// ClientSpec is an optional persistent client.
type ClientSpec struct {
	Name                  string
	IDs                   []string
	UseOwnSettings        bool
	FilteringEnabled      bool
	UseOwnBlockedServices bool
	BlockedServices       []string
	ServicesPaused        bool // pause schedule covers every instant
	IgnoreQueryLog        bool
	IgnoreStatistics      bool
}

// Spec describes one server configuration.
type Spec struct {
	BlockRules  []string // one block list
	AllowRules  []string // one allow list
	CustomRules []string

	Mode         filtering.BlockingMode
	BlockingIPv4 string
	BlockingIPv6 string
	BlockedTTL   uint32

	ProtectionEnabled bool
	// DisabledUntil, if non-zero, is the protection pause deadline.
	DisabledUntil    time.Time
	FilteringEnabled bool

	GlobalServices       []string
	GlobalServicesPaused bool

	Rewrites []*filtering.LegacyRewrite

	Clients []ClientSpec

	// Conf is merged into the server configuration (access lists, AAAA
	// disabled, TLS, anonymisation ...).
	Conf func(c *dnsforward.ServerConfig)

	QueryLog   querylog.QueryLog
	Stats      stats.Interface
	Anonymizer *aghnet.IPMut
	DHCP       dnsforward.DHCP
	ClientDHCP client.DHCP
	DataDir    string
}

// Assembly is a built server.
type Assembly struct {
	Server   *dnsforward.Server
	Filter   *filtering.DNSFilter
	Clients  *client.Storage
	Upstream *Upstream
}

func sched(paused bool) *schedule.Weekly {
	if paused {
		return schedule.FullWeekly()
	}
	return schedule.EmptyWeekly()
}

// Build assembles the server.
func Build(sp *Spec) (*Assembly, error) {
	Quiet()
	ctx := context.Background()
	dhcp := sp.ClientDHCP
	if dhcp == nil {
		dhcp = client.EmptyDHCP{}
	}
	var initial []*client.Persistent
	for i, cs := range sp.Clients {
		p := &client.Persistent{
			Name: cs.Name, UseOwnSettings: cs.UseOwnSettings, FilteringEnabled: cs.FilteringEnabled,
			UseOwnBlockedServices: cs.UseOwnBlockedServices, IgnoreQueryLog: cs.IgnoreQueryLog, IgnoreStatistics: cs.IgnoreStatistics,
			BlockedServices: &filtering.BlockedServices{Schedule: sched(cs.ServicesPaused), IDs: cs.BlockedServices},
		}
		p.UID[0], p.UID[15] = byte(i+1), 7
		if err := p.SetIDs(cs.IDs); err != nil {
			return nil, err
		}
		initial = append(initial, p)
	}
	st, err := client.NewStorage(ctx, &client.StorageConfig{Logger: Discard, Clock: timeutil.SystemClock{}, DHCP: dhcp, InitialClients: initial})
	if err != nil {
		return nil, err
	}
	fc := &filtering.Config{
		BlockingMode:         sp.Mode,
		BlockedResponseTTL:   sp.BlockedTTL,
		ProtectionEnabled:    sp.ProtectionEnabled,
		FilteringEnabled:     sp.FilteringEnabled,
		BlockedServices:      &filtering.BlockedServices{Schedule: sched(sp.GlobalServicesPaused), IDs: sp.GlobalServices},
		ApplyClientFiltering: st.ApplyClientFiltering,
		ConfigModified:       func() {},
		Rewrites:             sp.Rewrites,
		DataDir:              sp.DataDir,
	}
	if sp.BlockingIPv4 != "" {
		fc.BlockingIPv4 = netip.MustParseAddr(sp.BlockingIPv4)
		fc.BlockingIPv6 = netip.MustParseAddr(sp.BlockingIPv6)
	}
	if !sp.DisabledUntil.IsZero() {
		t := sp.DisabledUntil
		fc.ProtectionDisabledUntil = &t
	}
	f, err := filtering.New(fc, nil)
	if err != nil {
		return nil, err
	}
	block := []filtering.Filter{{ID: 0, Data: []byte(strings.Join(sp.CustomRules, "\n"))}}
	if len(sp.BlockRules) > 0 {
		block = append(block, filtering.Filter{ID: 11, Data: []byte(strings.Join(sp.BlockRules, "\n"))})
	}
	var allow []filtering.Filter
	if len(sp.AllowRules) > 0 {
		allow = append(allow, filtering.Filter{ID: 21, Data: []byte(strings.Join(sp.AllowRules, "\n"))})
	}
	if err = f.VerifInitFiltering(allow, block); err != nil {
		return nil, err
	}
	f.SetEnabled(sp.FilteringEnabled)
	up := &Upstream{}
	conf := dnsforward.ServerConfig{
		ConfigModified: func() {},
		Config: dnsforward.Config{
			ClientsContainer: st,
			UpstreamMode:     dnsforward.UpstreamModeLoadBalance,
			EDNSClientSubnet: &dnsforward.EDNSClientSubnet{},
			Ratelimit:        0,
		},
		ServePlainDNS: true,
	}
	if sp.Conf != nil {
		sp.Conf(&conf)
	}
	s, err := dnsforward.VerifNewServer(&dnsforward.VerifServerParams{
		Filter: f, Stats: sp.Stats, QueryLog: sp.QueryLog, Anonymizer: sp.Anonymizer, DHCP: sp.DHCP, Conf: conf, Upstream: up,
	})
	if err != nil {
		return nil, err
	}
	return &Assembly{Server: s, Filter: f, Clients: st, Upstream: up}, nil
}

// Close releases the assembly.
func (a *Assembly) Close() {
	a.Server.Close()
	a.Filter.Close()
	_ = a.Clients.Shutdown(context.Background())
}

var reqID uint64

// QueryCtx runs a prepared context (any protocol) through the hook and handler.
func (a *Assembly) QueryCtx(pctx *proxy.DNSContext) (beforeErr, err error) {
	reqID++
	pctx.RequestID = reqID
	return a.Server.VerifHandle(pctx)
}

// Query runs one request through the pre-request hook and the handler.
func (a *Assembly) Query(name string, qtype uint16, from string, proto proxy.Proto) (pctx *proxy.DNSContext, beforeErr, err error) {
	reqID++
	req := &dns.Msg{MsgHdr: dns.MsgHdr{Id: uint16(reqID), RecursionDesired: true}, Question: []dns.Question{{Name: dns.Fqdn(name), Qtype: qtype, Qclass: dns.ClassINET}}}
	pctx = &proxy.DNSContext{Req: req, Proto: proto, Addr: netip.MustParseAddrPort(from), RequestID: reqID}
	beforeErr, err = a.Server.VerifHandle(pctx)
	return pctx, beforeErr, err
}
