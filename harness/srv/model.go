package srv

import (
	"fmt"
	"net/netip"
	"sort"
	"strings"

	"github.com/AdguardTeam/urlfilter/rules"
	"github.com/miekg/dns"
)

// Parsed is one rule of the reference model.  Whether a single rule matches a
// request is delegated to urlfilter (trusted base); composition is modelled.
type Parsed struct {
	Net  *rules.NetworkRule
	Host *rules.HostRule
	Text string
}

// ParseRule parses one rule line the way the engine's rule storage does.
func ParseRule(text string, id int) (Parsed, bool) {
	r, err := rules.NewRule(text, id)
	if err != nil || r == nil {
		return Parsed{}, false
	}
	switch x := r.(type) {
	case *rules.NetworkRule:
		if !x.IsHostLevelNetworkRule() {
			return Parsed{}, false
		}
		return Parsed{Net: x, Text: text}, true
	case *rules.HostRule:
		return Parsed{Host: x, Text: text}, true
	}
	return Parsed{}, false
}

// ParseRules parses a list.
func ParseRules(texts []string, base int) (out []Parsed) {
	for i, t := range texts {
		if p, ok := ParseRule(t, base+i); ok {
			out = append(out, p)
		}
	}
	return out
}

func matchSet(ps []Parsed, host string, qtype uint16, clientIP, clientName string) (nets []*rules.NetworkRule, hosts []*rules.HostRule) {
	req := rules.NewRequestForHostname(host)
	if clientIP != "" {
		req.ClientIP = netip.MustParseAddr(clientIP)
	}
	req.ClientName = clientName
	req.DNSType = qtype
	for _, p := range ps {
		if p.Net != nil && p.Net.Match(req) {
			nets = append(nets, p.Net)
		}
		if p.Host != nil && p.Host.Match(host) {
			hosts = append(hosts, p.Host)
		}
	}
	return nets, hosts
}

func pick(nets []*rules.NetworkRule) *rules.NetworkRule {
	rank := func(r *rules.NetworkRule) int {
		imp := r.IsOptionEnabled(rules.OptionImportant)
		switch {
		case imp && r.Whitelist:
			return 4
		case imp:
			return 3
		case r.Whitelist:
			return 2
		}
		return 1
	}
	var best *rules.NetworkRule
	for _, r := range nets {
		if best == nil || rank(r) > rank(best) {
			best = r
		}
	}
	return best
}

// RuleVerdict is the composition model of the two rule engines for one host:
// allow-list engine first (any match allows), then in the block engine
// important exception > important block > exception > block, then hosts-style
// lines.  It returns "allowed", "blocked" or "" and, for hosts-style blocks,
// the rule addresses of the asked family.
func RuleVerdict(allow, block []Parsed, host string, qtype uint16, clientIP, clientName string) (verdict string, hostsBlock bool, ips []string) {
	host = strings.ToLower(host)
	an, ah := matchSet(allow, host, qtype, clientIP, clientName)
	if len(an) > 0 || len(ah) > 0 {
		return "allowed", false, nil
	}
	bn, bh := matchSet(block, host, qtype, clientIP, clientName)
	if b := pick(bn); b != nil {
		if b.Whitelist {
			return "allowed", false, nil
		}
		return "blocked", false, nil
	}
	if len(bh) > 0 {
		for _, h := range bh {
			s := h.IP.String()
			if ((qtype == dns.TypeA && h.IP.Is4()) || (qtype == dns.TypeAAAA && h.IP.Is6())) && !contains(ips, s) {
				ips = append(ips, s)
			}
		}
		return "blocked", true, ips
	}
	return "", false, nil
}

func contains(l []string, s string) bool {
	for _, x := range l {
		if x == s {
			return true
		}
	}
	return false
}

// RRStrings renders records canonically.
func RRStrings(rrs []dns.RR) []string {
	var out []string
	for _, rr := range rrs {
		out = append(out, strings.Join(strings.Fields(rr.String()), " "))
	}
	return out
}

// Describe renders a message compactly.
func Describe(m *dns.Msg) string {
	if m == nil {
		return "<nil response>"
	}
	return fmt.Sprintf("rcode=%s q=%s/%s answer=%v ns=%d", dns.RcodeToString[m.Rcode], m.Question[0].Name, dns.TypeToString[m.Question[0].Qtype], RRStrings(m.Answer), len(m.Ns))
}

// Blocking-mode constants used by the harnesses for custom_ip mode.
const (
	CustomV4 = "10.10.10.10"
	CustomV6 = "fd00::10"
)

// CheckBlocked validates that m is the synthetic response of the blocking
// mode for a blocked query (qname, qtype).  hostsBlock/ips describe a
// hosts-style block (default mode answers with the rule's addresses).
// forbidden lists substrings that must not occur in the answer (upstream data).
func CheckBlocked(mode string, ttl uint32, qname string, qtype uint16, hostsBlock bool, ips []string, m *dns.Msg, forbidden []string) string {
	for _, rr := range m.Answer {
		s := rr.String()
		for _, f := range forbidden {
			if strings.Contains(s, f) {
				return "blocked response carries upstream data: " + s
			}
		}
	}
	if len(m.Question) != 1 || !strings.EqualFold(m.Question[0].Name, dns.Fqdn(qname)) || m.Question[0].Qtype != qtype {
		return "blocked response does not echo the question"
	}
	addrQ := qtype == dns.TypeA || qtype == dns.TypeAAAA
	if !addrQ {
		if len(m.Answer) != 0 {
			return "blocked non-address query has answer records"
		}
		if qtype == dns.TypeHTTPS && (mode == "nxdomain" || mode == "refused") {
			// HTTPS questions are answered by the configured mode like address
			// questions (they carry address hints): NXDOMAIN / REFUSED.
			want := dns.RcodeNameError
			if mode == "refused" {
				want = dns.RcodeRefused
			}
			if m.Rcode != want {
				return fmt.Sprintf("%s mode: a blocked HTTPS question wants %s, got %s", mode, dns.RcodeToString[want], dns.RcodeToString[m.Rcode])
			}
			return ""
		}
		switch m.Rcode {
		case dns.RcodeSuccess:
		case dns.RcodeNameError:
			if mode != "nxdomain" {
				return "NXDOMAIN outside nxdomain mode"
			}
		case dns.RcodeRefused:
			if mode != "refused" {
				return "REFUSED outside refused mode"
			}
		default:
			return "unexpected rcode for a blocked query"
		}
		return ""
	}
	wantAns := func(want ...string) string {
		var got []string
		for _, rr := range m.Answer {
			switch a := rr.(type) {
			case *dns.A:
				ip, _ := netip.AddrFromSlice(a.A)
				got = append(got, ip.Unmap().String())
			case *dns.AAAA:
				ip, _ := netip.AddrFromSlice(a.AAAA)
				got = append(got, ip.String())
			default:
				return "unexpected record type in blocked answer"
			}
			if rr.Header().Ttl != ttl {
				return fmt.Sprintf("blocked answer TTL %d, configured %d", rr.Header().Ttl, ttl)
			}
			if !strings.EqualFold(rr.Header().Name, dns.Fqdn(qname)) {
				return "blocked answer owner name differs from the question"
			}
		}
		sort.Strings(got)
		w := append([]string{}, want...)
		sort.Strings(w)
		if strings.Join(got, ",") != strings.Join(w, ",") || m.Rcode != dns.RcodeSuccess {
			return fmt.Sprintf("want NOERROR with %v, got rcode %s with %v", w, dns.RcodeToString[m.Rcode], got)
		}
		return ""
	}
	null := "0.0.0.0"
	if qtype == dns.TypeAAAA {
		null = "::"
	}
	switch mode {
	case "nxdomain":
		if m.Rcode != dns.RcodeNameError || len(m.Answer) != 0 {
			return "nxdomain mode: want NXDOMAIN without answers"
		}
	case "refused":
		if m.Rcode != dns.RcodeRefused || len(m.Answer) != 0 {
			return "refused mode: want REFUSED without answers"
		}
	case "null_ip":
		return wantAns(null)
	case "custom_ip":
		if qtype == dns.TypeA {
			return wantAns(CustomV4)
		}
		return wantAns(CustomV6)
	case "default":
		if hostsBlock {
			if len(ips) > 0 {
				return wantAns(ips...)
			}
			if m.Rcode != dns.RcodeSuccess {
				return "default mode: hosts-style block of the other family must be NOERROR"
			}
			return ""
		}
		return wantAns(null)
	}
	return ""
}
