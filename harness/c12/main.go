// C12 — login throttling and session lifetime.  BFS over timed histories of
// failed/successful logins from two addresses, authenticated requests, logouts,
// clock steps and restarts on the real handleLogin / handleLogout /
// optionalAuth / InitAuth / authRateLimiter under the virtual clock, against
// the automaton of DESIGN.md §4 C12.
package main

import (
	"encoding/json"
	"fmt"
	"io"
	"os"
	"path/filepath"
	"runtime/debug"
	"runtime/pprof"
	"sort"
	"strconv"
	"strings"
	"syscall"
	"time"

	"github.com/AdguardTeam/AdGuardHome/internal/home"
	"github.com/AdguardTeam/AdGuardHome/internal/verifx/lib"
	vtime "github.com/AdguardTeam/AdGuardHome/verifx/vtime"
	"github.com/AdguardTeam/golibs/log"
)

const day = 24 * 60 * 60

// ---- configuration and alphabet ---------------------------------------------

// cfg is one parameter choice; durations in seconds.  ThrottleOnly marks the
// throttle pass, in which no cookie is ever presented and session state is
// neither part of the state key nor a source of clock boundaries.
type cfg struct {
	Max          int
	Block        int64
	TTL          int64
	ThrottleOnly bool
}

func (c cfg) String() string {
	s := fmt.Sprintf("%d/%d/%d", c.Max, c.Block, c.TTL)
	if c.ThrottleOnly {
		s += "/T"
	}
	return s
}

func parseCfg(s string) (c cfg, err error) {
	if strings.HasSuffix(s, "/T") {
		c.ThrottleOnly = true
		s = strings.TrimSuffix(s, "/T")
	}
	_, err = fmt.Sscanf(s, "%d/%d/%d", &c.Max, &c.Block, &c.TTL)
	if err == nil && (c.Max < 1 || c.Block < 1 || c.TTL < 1) {
		err = fmt.Errorf("bad configuration %q", s)
	}
	return c, err
}

const (
	b2, b15  = 2 * 60, 15 * 60
	t1h, t3d = 60 * 60, 3 * day
)

// crossConfigs returns the parameter choices of the cross pass.  thorough =
// the full product maxAttempts{1,2,3} x blockDur{2 min,15 min} x TTL{1 h,3 d};
// quick = six of the twelve: every (maxAttempts, blockDur) pair once and every
// pair of values of any two parameters at least once.
func crossConfigs(quick bool) (l []cfg) {
	if quick {
		return []cfg{{Max: 1, Block: b2, TTL: t1h}, {Max: 1, Block: b15, TTL: t3d}, {Max: 2, Block: b2, TTL: t3d}, {Max: 2, Block: b15, TTL: t1h}, {Max: 3, Block: b2, TTL: t1h}, {Max: 3, Block: b15, TTL: t3d}}
	}
	for _, m := range []int{1, 2, 3} {
		for _, b := range []int64{b2, b15} {
			for _, t := range []int64{t1h, t3d} {
				l = append(l, cfg{Max: m, Block: b, TTL: t})
			}
		}
	}
	return l
}

// op is one operation of a history.  C repeats the configuration in every
// operation so that a recorded history is self-contained.
type op struct {
	K string `json:"k"`           // bad, good, req, requ, out, adv, restart
	A int    `json:"a,omitempty"` // bad/good: address index; req/out: cookie index (order of issue)
	D int64  `json:"d,omitempty"` // adv: seconds
	C string `json:"c"`           // maxAttempts/blockSeconds/ttlSeconds
}

func (o op) String() string {
	switch o.K {
	case "bad", "good":
		return fmt.Sprintf("%s-login(addr%d)", o.K, o.A)
	case "req":
		return fmt.Sprintf("request(cookie%d)", o.A)
	case "requ":
		return fmt.Sprintf("request(cookie%d spelled in upper case)", o.A)
	case "out":
		return fmt.Sprintf("logout(cookie%d)", o.A)
	case "out2":
		return fmt.Sprintf("logout(cookie%d followed by a second, unknown session cookie)", o.A)
	case "adv":
		return fmt.Sprintf("advance(%ds)", o.D)
	}
	return o.K
}

func histString(h []op) string {
	var l []string
	for _, o := range h {
		l = append(l, o.String())
	}
	return strings.Join(l, ", ")
}

const nCookies = 2

func advances(cf cfg) []int64 {
	return []int64{1, 59, 61, cf.Block - 1, cf.Block + 1, cf.TTL - 1, cf.TTL + 1, day}
}

// alphabet returns the operations of a pass for cf, simplest first.
//
//	X (cross):    everything, 17 operations.
//	T (throttle): logins from both addresses, the clock steps around the
//	              1-minute window and the block period, restart; 10 operations.
//	S (sessions): one login, request/logout with both cookies, a request with
//	              the first cookie spelled in upper case, a logout carrying the
//	              first cookie followed by a second unknown one, the clock steps
//	              around the day boundary, the TTL and a day, restart; 12 operations.
func alphabet(pass string, cf cfg) (ops []op) {
	c := cf.String()
	adv := func(ds ...int64) {
		for _, d := range ds {
			ops = append(ops, op{K: "adv", D: d, C: c})
		}
	}
	two := func(k string) {
		for a := 0; a < 2; a++ {
			ops = append(ops, op{K: k, A: a, C: c})
		}
	}
	switch pass {
	case "T":
		two("bad")
		two("good")
		adv(1, 59, 61, cf.Block-1, cf.Block+1)
		ops = append(ops, op{K: "restart", C: c})
	case "S":
		ops = append(ops, op{K: "good", A: 0, C: c})
		two("req")
		two("out")
		ops = append(ops, op{K: "requ", A: 0, C: c}, op{K: "out2", A: 0, C: c})
		adv(59, 61, cf.TTL-1, cf.TTL+1, day)
		ops = append(ops, op{K: "restart", C: c})
	default:
		two("bad")
		two("good")
		two("req")
		two("out")
		adv(advances(cf)...)
		ops = append(ops, op{K: "restart", C: c})
	}
	return ops
}

// unit is one BFS: a pass on one configuration; with K > 1 only the states
// reached by histories of length L whose key hash is J modulo K are extended
// (every part executes all shorter histories itself).
type unit struct {
	Pass  string
	Cf    cfg
	Depth int
	J, K  int
	L     int
}

// weight estimates the CPU seconds of a unit from measurements (seconds of one
// configuration at a reference depth, growth per level), for dealing units to
// processes.
func (u unit) weight() float64 {
	ref, base, growth, ops := 4, 15.6, 9.0, 17.0
	switch u.Pass {
	case "T":
		ref, base, growth, ops = 8, 15, 2.2, 10
	case "S":
		ref, base, growth, ops = 6, 44, 3.7, 11
	}
	w := base
	for d := ref; d < u.Depth; d++ {
		w *= growth
	}
	for d := u.Depth; d < ref; d++ {
		w /= growth
	}
	// Every part repeats the levels up to L.
	pre := w
	for d := u.L; d < u.Depth; d++ {
		pre /= growth
	}
	if u.K <= 1 {
		pre = 0
	}
	_ = ops
	return w/float64(u.K) + pre
}

// deal assigns units to n processes, heaviest first to the least loaded.
func deal(us []unit, n int) (mine [][]unit) {
	mine = make([][]unit, n)
	load := make([]float64, n)
	idx := make([]int, len(us))
	for i := range idx {
		idx[i] = i
	}
	sort.SliceStable(idx, func(a, b int) bool { return us[idx[a]].weight() > us[idx[b]].weight() })
	for _, i := range idx {
		best := 0
		for p := 1; p < n; p++ {
			if load[p] < load[best] {
				best = p
			}
		}
		mine[best] = append(mine[best], us[i])
		load[best] += us[i].weight()
	}
	return mine
}

// plan lists the work units of a tier.  depth maps pass -> depth bound, split
// maps pass -> number of parts one BFS is cut into, level maps pass -> history
// length at which it is cut.
func plan(quick bool, depth, split, level map[string]int) (us []unit) {
	add := func(pass string, cf cfg) {
		k := split[pass]
		if k < 1 || depth[pass] <= level[pass] {
			k = 1
		}
		for j := 0; j < k; j++ {
			us = append(us, unit{Pass: pass, Cf: cf, Depth: depth[pass], J: j, K: k, L: level[pass]})
		}
	}
	// Throttling does not read the session TTL: every (maxAttempts, blockDur).
	for _, m := range []int{1, 2, 3} {
		for _, b := range []int64{b2, b15} {
			add("T", cfg{Max: m, Block: b, TTL: t1h, ThrottleOnly: true})
		}
	}
	// Sessions do not read the throttling parameters: every TTL.
	for _, t := range []int64{t1h, t3d} {
		add("S", cfg{Max: 2, Block: b2, TTL: t})
	}
	for _, cf := range crossConfigs(quick) {
		add("X", cf)
	}
	return us
}

func tierParams(quick bool) (depth, split, level map[string]int) {
	if quick {
		return map[string]int{"T": 8, "S": 6, "X": 4}, map[string]int{"T": 3, "S": 6, "X": 3}, map[string]int{"T": 2, "S": 3, "X": 2}
	}
	return map[string]int{"T": 11, "S": 9, "X": 5}, map[string]int{"T": 8, "S": 32, "X": 8}, map[string]int{"T": 5, "S": 5, "X": 2}
}

// ---- reference model -----------------------------------------------------------

type mrec struct {
	count int
	end   int64 // the record is live while now < end
}

type msess struct {
	created   int64
	lastUse   int64 // last time the token authenticated a request (or creation)
	loggedOut bool
	dead      bool // has been seen rejected at or after created+TTL
	restarted bool // a restart happened since creation (for violation keys only)
}

type model struct {
	cf   cfg
	now  int64
	tab  [2]*mrec
	sess []*msess
	// observable is the number of sessions (in order of issue) whose cookie
	// some operation of the pass can present: nCookies, or 0 in the throttle
	// pass.  Only those are in the state key and have boundaries.
	observable int
}

// live returns the live failed-attempt record of an address.
func (m *model) live(a int) *mrec {
	if r := m.tab[a]; r != nil && m.now > r.end {
		m.tab[a] = nil
	}
	return m.tab[a]
}

type verdict int

const (
	must verdict = iota
	mustNot
	either
)

// judge says whether cookie i must, must not or may authenticate now.
func (m *model) judge(i int) (v verdict, phase string) {
	if i >= len(m.sess) {
		return mustNot, "never-issued"
	}
	s := m.sess[i]
	switch {
	case s.loggedOut:
		return mustNot, "after-logout"
	case s.dead:
		return mustNot, "seen-expired"
	case m.now < s.created+m.cf.TTL:
		return must, "before-expiry"
	case m.now >= s.lastUse+m.cf.TTL:
		return mustNot, "after-expiry"
	}
	return either, "refresh-zone"
}

// observe records the authentication outcome of cookie i.
func (m *model) observe(i int, authenticated bool, phase string) {
	if i >= len(m.sess) {
		return
	}
	s := m.sess[i]
	if authenticated {
		s.lastUse = m.now
	} else if phase == "after-expiry" || phase == "refresh-zone" {
		s.dead = true
	}
}

// boundary reports whether t is an instant at which the model changes its
// demand; clock steps never land on one.
func (m *model) boundary(t int64) bool {
	for a := range m.tab {
		if r := m.live(a); r != nil && r.end == t {
			return true
		}
	}
	for i, s := range m.sess {
		if i >= m.observable {
			break
		}
		if s.loggedOut || s.dead {
			continue
		}
		if s.created+m.cf.TTL == t || s.lastUse+m.cf.TTL == t {
			return true
		}
	}
	return false
}

// ---- driver ------------------------------------------------------------------------

var addrs = [2]string{"192.0.2.1", "192.0.2.2"}

var (
	tmpRoot string
	execSeq int
	ctx     *lib.Ctx
)

func startTime(cf cfg) int64 {
	base := time.Date(2024, time.January, 10, 0, 0, 0, 0, time.UTC).Unix()
	// start+TTL is 30 s before a UTC midnight, so that the 59 s / 61 s steps
	// cross the day boundary of the expiry refresh.
	return base + ((day-30-cf.TTL%day)%day+day)%day
}

func fakeToken(i int) string { return strings.Repeat(fmt.Sprintf("f%x", i&15), 16) }

type runState struct {
	m      *model
	issued []string
	tokIdx map[string]int
}

type stepResult struct {
	outcome    string
	nontrivial bool
	vkey       string
	vdesc      string
	skip       bool // operation not applicable here (boundary landing)
}

func (rs *runState) token(i int) string {
	if i < len(rs.issued) {
		return rs.issued[i]
	}
	return fakeToken(i)
}

func restartSuffix(m *model, i int) string {
	if i < len(m.sess) && m.sess[i].restarted {
		return "+restart"
	}
	return ""
}

// apply executes one operation on the real code and on the model.
func (rs *runState) apply(o op, idx int) (res stepResult) {
	m := rs.m
	defer func() {
		if r := recover(); r != nil {
			res.vkey = "panic:" + o.K
			res.vdesc = fmt.Sprintf("panic in %s: %v\n%s", o, r, debug.Stack())
		}
	}()
	switch o.K {
	case "bad", "good":
		rec := m.live(o.A)
		blocked := rec != nil && rec.count >= m.cf.Max
		name, pass := home.VerifC12User, home.VerifC12Password
		var hdr map[string]string
		if o.K == "bad" {
			if o.A == 0 {
				pass = "wrong"
			} else {
				name = "nobody"
			}
		}
		if o.A == 0 {
			// Address 0 claims to be address 1 in the proxy headers; the
			// throttle must follow the peer address.
			hdr = map[string]string{"X-Real-IP": addrs[1], "X-Forwarded-For": addrs[1]}
		}
		remote := fmt.Sprintf("%s:%d", addrs[o.A], 1024+idx)
		status, ra, hasRA, cookie := home.VerifC12Login(remote, name, pass, hdr)
		want := 200
		switch {
		case blocked:
			want = 429
		case o.K == "bad":
			want = 403
		}
		if status != want {
			res.vkey = fmt.Sprintf("login:%s:want%d:got%d", o.K, want, status)
			st := "no live record"
			if rec != nil {
				st = fmt.Sprintf("%d failed attempt(s), record lives for another %d s", rec.count, rec.end-m.now)
			}
			res.vdesc = fmt.Sprintf("%s answered %d, expected %d (maxAttempts=%d, blockDur=%ds; model: %s)", o, status, want, m.cf.Max, m.cf.Block, st)
			return res
		}
		switch {
		case blocked:
			if cookie != "" {
				res.vkey = "login:blocked:cookie-issued"
				res.vdesc = fmt.Sprintf("%s answered 429 but set a session cookie", o)
				return res
			}
			n, err := strconv.Atoi(ra)
			if !hasRA || err != nil || n < 1 || int64(n) > m.cf.Block {
				res.vkey = "login:blocked:retry-after"
				res.vdesc = fmt.Sprintf("%s answered 429 with Retry-After %q (present=%v); expected 1..%d", o, ra, hasRA, m.cf.Block)
				return res
			}
			res.outcome = "login:" + o.K + ":429"
			res.nontrivial = true
		case o.K == "bad":
			if cookie != "" {
				res.vkey = "login:bad:cookie-issued"
				res.vdesc = fmt.Sprintf("%s answered 403 but set a session cookie", o)
				return res
			}
			if rec == nil {
				rec = &mrec{count: 1, end: m.now + 60}
				m.tab[o.A] = rec
			} else {
				rec.count++
			}
			res.outcome = fmt.Sprintf("login:bad:403:n%d", rec.count)
			if rec.count >= m.cf.Max {
				rec.end = m.now + m.cf.Block
				res.outcome += ":block"
			}
			res.nontrivial = rec.count >= 2 || rec.count >= m.cf.Max
		default:
			if _, dup := rs.tokIdx[cookie]; len(cookie) != 32 || dup {
				res.vkey = "login:good:no-fresh-cookie"
				res.vdesc = fmt.Sprintf("%s answered 200 with session cookie %q (already issued: %v)", o, cookie, dup)
				return res
			}
			res.outcome = "login:good:200"
			if rec != nil {
				res.outcome += fmt.Sprintf(":cleared%d", rec.count)
				res.nontrivial = true
			}
			m.tab[o.A] = nil
			rs.tokIdx[cookie] = len(rs.issued)
			rs.issued = append(rs.issued, cookie)
			m.sess = append(m.sess, &msess{created: m.now, lastUse: m.now})
		}
	case "requ":
		// Another spelling of the token's hex digits is not the token.
		tok := strings.ToUpper(rs.token(o.A))
		if tok == rs.token(o.A) {
			res.skip = true
			return res
		}
		status, ran := home.VerifC12Request(tok)
		if ran {
			res.vkey = "session:other-spelling-authenticates"
			res.vdesc = fmt.Sprintf("%s was authenticated (status %d): only the token as issued is a session token", o, status)
			return res
		}
		res.outcome = "requ:rejected"
	case "req", "out", "out2":
		v, phase := m.judge(o.A)
		var ran bool
		var status int
		switch o.K {
		case "req":
			status, ran = home.VerifC12Request(rs.token(o.A))
		case "out":
			status, ran = home.VerifC12Logout(rs.token(o.A))
		default:
			// The first cookie is the one that authenticates the request; it is
			// that session the logout ends.
			status, ran = home.VerifC12Logout(rs.token(o.A), fakeToken(7))
		}
		if (v == must && !ran) || (v == mustNot && ran) {
			got := "rejected"
			if ran {
				got = "authenticated"
			}
			res.vkey = fmt.Sprintf("session:%s:%s%s", got, phase, restartSuffix(m, o.A))
			extra := ""
			if o.A < len(m.sess) {
				s := m.sess[o.A]
				extra = fmt.Sprintf("; session created %d s ago, last authenticated %d s ago, TTL %d s, loggedOut=%v seenExpired=%v restartedSince=%v", m.now-s.created, m.now-s.lastUse, m.cf.TTL, s.loggedOut, s.dead, s.restarted)
			}
			res.vdesc = fmt.Sprintf("%s was %s (status %d) in phase %q%s", o, got, status, phase, extra)
			return res
		}
		m.observe(o.A, ran, phase)
		if o.K != "req" && ran && o.A < len(m.sess) {
			m.sess[o.A].loggedOut = true
		}
		okS := "rejected"
		if ran {
			okS = "ok"
		}
		res.outcome = fmt.Sprintf("%s:%s:%s%s", o.K, okS, phase, restartSuffix(m, o.A))
		res.nontrivial = phase != "never-issued"
	case "adv":
		t := m.now + o.D
		if m.boundary(t) {
			res.skip = true
			return res
		}
		vtime.AdvanceVirtual(time.Duration(o.D) * time.Second)
		m.now = t
		res.outcome = "adv"
	case "restart":
		if err := home.VerifC12Restart(); err != nil {
			res.vkey = "restart:failed"
			res.vdesc = "restart: " + err.Error()
			return res
		}
		m.tab = [2]*mrec{}
		for _, s := range m.sess {
			s.restarted = true
		}
		res.outcome = "restart"
		res.nontrivial = len(m.sess) > 0
	default:
		panic("unknown operation " + o.K)
	}
	return res
}

// key dumps the implementation and the model, relative to the clock, and
// checks that the session tables hold only delivered tokens.  Dropped from the
// key, with the reason:
//   - token bytes: replaced by the order of issue;
//   - the exact `until`/`expire` of entries that are already expired: every
//     test on them is a comparison with a clock that only grows;
//   - whole days of the clock: the code compares day numbers of two absolute
//     times and differences, so a shift by whole days changes nothing;
//   - sessions other than the first nCookies issued: no operation of the
//     alphabet presents their cookie, so nothing later observes them;
//   - the time of day, once both cookie slots are used and neither session can
//     authenticate again: it only matters to the expiry refresh;
//   - in the throttle pass (throttleOnly): all session state and the time of
//     day, because that pass has no operation that presents a cookie and the
//     login path does not read the session tables (the cross pass keeps them).
func (rs *runState) key(lastBlocked, throttleOnly bool) (k string, vkey, vdesc string) {
	m := rs.m
	failed, mem, db, err := home.VerifC12Dump()
	if err != nil {
		return "", "dump:failed", err.Error()
	}
	var sb strings.Builder
	sb.WriteString(m.cf.String())
	sb.WriteString("|F")
	nowT := time.Unix(m.now, 0)
	for _, f := range failed {
		if f.Until.Before(nowT) {
			fmt.Fprintf(&sb, " %s:%d:expired", f.Addr, f.Num)
		} else {
			fmt.Fprintf(&sb, " %s:%d:%d", f.Addr, f.Num, int64(f.Until.Sub(nowT)/time.Second))
		}
	}
	dumpS := func(tag string, l []home.VerifC12Session) (string, string) {
		sb.WriteString("|" + tag)
		var ents [nCookies][]home.VerifC12Session
		for _, s := range l {
			i, ok := rs.tokIdx[s.Token]
			if !ok {
				vk := "session-table:unknown-token"
				if lastBlocked {
					vk = "login:blocked:session-created"
				}
				return vk, fmt.Sprintf("the session table (%s) holds token %s for user %q which no login response delivered", tag, s.Token, s.User)
			}
			if i < nCookies {
				ents[i] = append(ents[i], s)
			}
		}
		if throttleOnly {
			return "", ""
		}
		for i := range ents {
			for _, e := range ents[i] {
				if int64(e.Expire) <= m.now {
					fmt.Fprintf(&sb, " %d:%s:expired", i, e.User)
				} else {
					fmt.Fprintf(&sb, " %d:%s:%d", i, e.User, int64(e.Expire)-m.now)
				}
			}
		}
		return "", ""
	}
	if vk, vd := dumpS("M", mem); vk != "" {
		return "", vk, vd
	}
	if vk, vd := dumpS("D", db); vk != "" {
		return "", vk, vd
	}
	if !throttleOnly {
		// "This remains true after a restart": the running process judges a
		// token by the table in memory, the restarted one by the file.  An
		// unexpired session must be in both, with one expiry.
		exp := func(l []home.VerifC12Session) map[string]uint32 {
			x := map[string]uint32{}
			for _, s := range l {
				if int64(s.Expire) > m.now {
					x[s.Token] = s.Expire
				}
			}
			return x
		}
		me, de := exp(mem), exp(db)
		for t, e := range me {
			if d, ok := de[t]; !ok || d != e {
				return "", "session:file-differs-from-memory", fmt.Sprintf("cookie%d: the running process holds the session until %d (now %d), sessions.db until %d (0 = not stored): a restart between the two instants changes whether the token authenticates", rs.tokIdx[t], e, m.now, d)
			}
		}
		for t, d := range de {
			if _, ok := me[t]; !ok {
				return "", "session:file-differs-from-memory", fmt.Sprintf("cookie%d: sessions.db holds the session until %d (now %d), the running process does not hold it: a restart revives the token", rs.tokIdx[t], d, m.now)
			}
		}
	}
	sb.WriteString("|T")
	for a := range m.tab {
		if r := m.live(a); r != nil {
			fmt.Fprintf(&sb, " %d:%d:%d", a, r.count, r.end-m.now)
		}
	}
	if throttleOnly {
		return sb.String(), "", ""
	}
	sb.WriteString("|S")
	todMatters := len(m.sess) < nCookies
	for i, s := range m.sess {
		if i >= nCookies {
			break
		}
		switch {
		case s.loggedOut:
			fmt.Fprintf(&sb, " %d:out", i)
		case s.dead:
			fmt.Fprintf(&sb, " %d:dead", i)
		case m.now >= s.lastUse+m.cf.TTL:
			fmt.Fprintf(&sb, " %d:over", i)
		default:
			todMatters = true
			fmt.Fprintf(&sb, " %d:%d:%d", i, s.created+m.cf.TTL-m.now, s.lastUse+m.cf.TTL-m.now)
		}
	}
	if todMatters {
		fmt.Fprintf(&sb, "|tod=%d", m.now%day)
	}
	return sb.String(), "", ""
}

// exec replays hist on a fresh instance; the oracle is checked at every step.
func exec(cf cfg, hist []op) (st lib.Step) {
	throttleOnly := cf.ThrottleOnly
	defer func() {
		if r := recover(); r != nil {
			st = lib.Step{VKey: "panic:outside-operation", VDesc: fmt.Sprintf("panic while setting up, dumping or closing: %v\n%s\ncase: %s", r, debug.Stack(), jsonStr(hist))}
		}
	}()
	execSeq++
	dir := filepath.Join(tmpRoot, fmt.Sprintf("c12-%d", execSeq))
	if err := os.MkdirAll(dir, 0o755); err != nil {
		panic(err)
	}
	defer os.RemoveAll(dir)

	start := startTime(cf)
	vtime.SetVirtual(time.Unix(start, 0))
	defer vtime.SetVirtual(time.Time{})

	fail := func(k, d string, upto int) lib.Step {
		st.Key = ""
		st.VKey = k
		st.VDesc = fmt.Sprintf("%s\nconfiguration: maxAttempts=%d blockDur=%ds sessionTTL=%ds, clock starts at %s (UTC)\nhistory (failing step %d of %d): %s\ncase: %s",
			d, cf.Max, cf.Block, cf.TTL, time.Unix(start, 0).UTC().Format(time.RFC3339), upto+1, len(hist), histString(hist[:upto+1]), jsonStr(hist))
		return st
	}

	var initErr error
	func() {
		defer func() {
			if r := recover(); r != nil {
				initErr = fmt.Errorf("panic: %v", r)
			}
		}()
		initErr = home.VerifC12Init(dir, uint(cf.Max), time.Duration(cf.Block)*time.Second, uint32(cf.TTL))
	}()
	if initErr != nil {
		return fail("init:failed", initErr.Error(), -1)
	}
	defer home.VerifC12Close()

	rs := &runState{m: &model{cf: cf, now: start, observable: nCookies}, tokIdx: map[string]int{}}
	if throttleOnly {
		rs.m.observable = 0
	}
	lastBlocked := false
	for i, o := range hist {
		res := rs.apply(o, i)
		if res.vkey != "" {
			return fail(res.vkey, res.vdesc, i)
		}
		if res.skip {
			if ctx != nil && i == len(hist)-1 {
				ctx.Count("skipped_boundary_landings", 1)
			}
			return lib.Step{}
		}
		lastBlocked = strings.HasSuffix(res.outcome, ":429")
		// The table check runs after every step so that a replayed history
		// fails at the step that breaks it.
		if _, vk, vd := rs.key(lastBlocked, throttleOnly); vk != "" {
			return fail(vk, vd, i)
		}
		if i == len(hist)-1 {
			st.Outcome = res.outcome
			st.NonTrivial = res.nontrivial
		}
	}
	k, vk, vd := rs.key(lastBlocked, throttleOnly)
	if vk != "" {
		return fail(vk, vd, len(hist)-1)
	}
	st.Key = k
	return st
}

func jsonStr(v any) string {
	b, _ := json.Marshal(v)
	return string(b)
}

func silence() {
	log.SetOutput(io.Discard)
	log.SetLevel(log.ERROR)
}

func run(c *lib.Ctx) {
	silence()
	ctx = c
	tmpRoot = c.TmpDir
	phaseSchedules(c)
	phaseSubSecond(c)
	if pf := os.Getenv("VERIF_C12_PROF"); pf != "" {
		f, _ := os.Create(fmt.Sprintf("%s.%d", pf, c.ShardI))
		_ = pprof.StartCPUProfile(f)
		defer pprof.StopCPUProfile()
	}
	depth, split, level := tierParams(c.Quick())
	// Development switch: VERIF_C12_PLAN="T=5/1,S=6/2,X=0/1" (depth/split; depth 0 = skip the pass).
	if s := os.Getenv("VERIF_C12_PLAN"); s != "" {
		for _, f := range strings.Split(s, ",") {
			var p string
			var d, k int
			if _, err := fmt.Sscanf(strings.Replace(strings.Replace(f, "=", " ", 1), "/", " ", 1), "%s %d %d", &p, &d, &k); err == nil {
				depth[p], split[p] = d, k
			}
		}
	}
	var units []unit
	for _, u := range plan(c.Quick(), depth, split, level) {
		if u.Depth > 0 {
			units = append(units, u)
		}
	}
	shardI, shardN, global := c.ShardI, c.ShardN, c.Deadline
	defer func() { c.ShardI, c.ShardN, c.Deadline = shardI, shardN, global }()
	if shardN < 1 {
		shardI, shardN = 0, 1
	}
	mine := deal(units, shardN)[shardI]
	// Cheapest first: what a unit leaves of its share goes to the later ones.
	sort.SliceStable(mine, func(a, b int) bool { return mine[a].weight() < mine[b].weight() })
	// lib.BFS must not apply its own level-1 split inside a unit.
	c.ShardI, c.ShardN = 0, 1
	var cut []string
	for i, u := range mine {
		if !global.IsZero() {
			// Three times the share of what is left that the estimated cost
			// of this unit has among the remaining ones: the estimates are
			// rough, and a unit must not be cut while time is left overall.
			left := time.Until(global)
			if left < 0 {
				left = 0
			}
			rest := 0.0
			for _, v := range mine[i:] {
				rest += v.weight()
			}
			slice := time.Duration(3 * float64(left) * u.weight() / rest)
			if slice > left {
				slice = left
			}
			c.Deadline = time.Now().Add(slice)
		}
		u := u
		cpu0 := cpuSeconds()
		b := &lib.BFS[op]{C: c, Ops: alphabet(u.Pass, u.Cf), MaxDepth: u.Depth, Workers: 1, Confirm: true,
			Exec: func(h []op) lib.Step {
				st := exec(u.Cf, h)
				if u.K > 1 && len(h) == u.L && st.VKey == "" && st.Key != "" && lib.Hash(st.Key)%uint64(u.K) != uint64(u.J) {
					// Another part extends this state.
					return lib.Step{Outcome: st.Outcome}
				}
				return st
			}}
		b.Run()
		c.Count("bfs_runs", 1)
		if !c.Deadline.IsZero() && time.Now().After(c.Deadline) {
			c.Count("bfs_runs_cut_by_budget", 1)
			cut = append(cut, fmt.Sprintf("%s %s part %d/%d", u.Pass, u.Cf, u.J, u.K))
		}
		if tf := os.Getenv("VERIF_C12_TIMES"); tf != "" {
			if f, err := os.OpenFile(tf, os.O_APPEND|os.O_CREATE|os.O_WRONLY, 0o644); err == nil {
				fmt.Fprintf(f, "shard %2d unit %s %-14s %d/%d depth %d: cpu %.1fs\n", shardI, u.Pass, u.Cf, u.J, u.K, u.Depth, cpuSeconds()-cpu0)
				_ = f.Close()
			}
		}
	}
	c.ShardI, c.ShardN = shardI, shardN
	if len(cut) > 0 {
		c.Note(fmt.Sprintf("cut_in_process_%d", shardI), strings.Join(cut, "; "))
	}
	ms := int64(cpuSeconds() * 1000)
	c.Count("cpu_ms", ms)
	c.Max("cpu_ms_max_shard", ms)
	var names []string
	for _, cf := range crossConfigs(c.Quick()) {
		names = append(names, cf.String())
	}
	c.Note("plan", fmt.Sprintf("pass T (throttle, %d operations, depth %d) on maxAttempts{1,2,3} x blockDur{120,900 s} with TTL 3600 s; pass S (sessions, %d operations, depth %d) on TTL{3600,259200 s} with maxAttempts 2, blockDur 120 s; pass X (cross, %d operations, depth %d) on maxAttempts/blockSeconds/ttlSeconds %s; %d BFS runs over %d processes; parts per BFS T %d, S %d, X %d, cut at history length T %d, S %d, X %d",
		len(alphabet("T", cfg{Max: 1, Block: b2, TTL: t1h})), depth["T"], len(alphabet("S", cfg{Max: 1, Block: b2, TTL: t1h})), depth["S"], len(alphabet("X", cfg{Max: 1, Block: b2, TTL: t1h})), depth["X"], strings.Join(names, " "), len(units), shardN, split["T"], split["S"], split["X"], level["T"], level["S"], level["X"]))
	c.Note("alphabet", "bad-login(addr0: wrong password + proxy headers naming addr1 | addr1: unknown user), good-login(addr0|addr1), request(cookie0|1), logout(cookie0|1), advance{1,59,61,block-1,block+1,ttl-1,ttl+1,86400 s}, restart; cookie i = i-th session cookie issued in the history")
}

// cpuSeconds is the CPU time this process has used.
func cpuSeconds() float64 {
	var ru syscall.Rusage
	if syscall.Getrusage(syscall.RUSAGE_SELF, &ru) != nil {
		return 0
	}
	return float64(ru.Utime.Sec+ru.Stime.Sec) + float64(ru.Utime.Usec+ru.Stime.Usec)/1e6
}

func replay(c *lib.Ctx, raw json.RawMessage) string {
	silence()
	tmpRoot = c.TmpDir
	if len(raw) > 0 && raw[0] == '{' {
		return replaySchedules(c, raw)
	}
	var hist []op
	if err := json.Unmarshal(raw, &hist); err != nil {
		return err.Error()
	}
	if len(hist) == 0 {
		return ""
	}
	cf, err := parseCfg(hist[0].C)
	if err != nil {
		return err.Error()
	}
	st := exec(cf, hist)
	if st.VKey != "" {
		return st.VKey + ": " + st.VDesc
	}
	return ""
}

func main() {
	lib.Main(&lib.Harness{
		Prop: "C12", Level: "model_checking",
		Shards: func(string) int { return 16 },
		Budget: func(tier string) time.Duration {
			if tier == "thorough" {
				return 18 * time.Minute
			}
			return 4 * time.Minute
		},
		Run: run, Replay: replay,
		Evidence: func(m *lib.Merged) map[string]any {
			return map[string]any{
				"states":                        m.Distinct["states"],
				"transitions":                   m.Counters["transitions"],
				"traces_validated_against_impl": m.Counters["transitions"],
				"evaluations":                   m.Counters["transitions"],
				"distinct_nontrivial":           m.Distinct["nontrivial"],
				"distinct_outcomes":             m.Distinct["outcomes"],
				"max_depth":                     m.Maxes["max_depth"],
				"cpu_seconds_total":             float64(m.Counters["cpu_ms"]) / 1000,
				"cpu_seconds_max_process":       float64(m.Maxes["cpu_ms_max_shard"]) / 1000,
				"schedules_explored":            m.Counters["sched_executions"],
				"subsecond_attempts":            m.Counters["subsecond_attempts"],
				"scheduling_points":             m.Counters["sched_points"],
				"sched_scenarios_bound_1":       m.Distinct["sched_scenarios_bound_1"],
				"sched_scenarios_bound_2":       m.Distinct["sched_scenarios_bound_2"],
				"bfs_runs":                      m.Counters["bfs_runs"],
				"bfs_runs_cut_by_budget":        m.Counters["bfs_runs_cut_by_budget"],
				"skipped_boundary_landings":     m.Counters["skipped_boundary_landings"],
				"rule":                          "BFS over timed histories executed on the real handleLogin (behind the method/content-type wrapper), handleLogout (behind optionalAuth), an optionalAuth-wrapped probe handler, InitAuth and authRateLimiter under the virtual clock; restart = Close + InitAuth with a fresh rate limiter on the same sessions.db. Three passes (note_plan): T throttle-only alphabet on every (maxAttempts, blockDur); S session-only alphabet on every TTL; X the full alphabet on the listed configurations. Every BFS is cut into parts by the hash of the states reached at a fixed history length (note_plan); parts are dealt to 16 processes. A state is (failed-attempt table, in-memory session table, sessions.db content, time of day, model), see the key function for what is dropped and why. Oracle after every step: status 429+Retry-After / 403 / 200+fresh cookie against the per-address (count, windowEnd) automaton; authentication of each cookie against two-sided session bounds (must before created+TTL, must not after logout / at or after lastUse+TTL / once seen expired, also across restart); no token in the session tables that no response delivered (a blocked login must not create a session). A clock step that would land exactly on a model boundary is not taken (skipped_boundary_landings). non-trivial = blocked login, 2nd+ or blocking failure, success that clears a record, request/logout with an issued cookie, restart with sessions",
			}
		},
		Assumptions: []string{
			"a restart empties the failed-attempt table (it is memory-only; the statement says nothing about throttling across restarts, the model follows the code)",
			"'within a minute' is the window opened by the first failure, not a sliding window",
			"the instant of expiry itself (now == windowEnd, now == created+TTL, now == lastUse+TTL) is never visited",
			"between created+TTL and lastUse+TTL (the daily expiry refresh) either answer is accepted, but a token once seen expired must stay rejected",
			"POST /control/login is driven through ensure(POST) + handleLogin; postInstall (first-run and HTTPS redirect) and gzip wrappers are not in the path",
		},
	})
}
