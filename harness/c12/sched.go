package main

// Schedules phase of C12: a request carrying a session cookie running
// concurrently with the logout of that session, explored exhaustively under the
// cooperative scheduler (preemption-bounded), followed by a restart.  After
// the logout has returned the token must never authenticate again, "and this
// remains true after a restart".

import (
	"encoding/json"
	"fmt"
	"os"
	"path/filepath"
	"strings"
	"time"

	"github.com/AdguardTeam/AdGuardHome/internal/home"
	"github.com/AdguardTeam/AdGuardHome/internal/verifx/lib"
	vsync "github.com/AdguardTeam/AdGuardHome/verifx/vsync"
	vtime "github.com/AdguardTeam/AdGuardHome/verifx/vtime"
)

type schedCase struct {
	Phase    string   `json:"phase"`
	Threads  []string `json:"threads"`
	TTL      uint32   `json:"session_ttl_s"`
	AgeS     int      `json:"session_age_s"`
	Bound    int      `json:"preemption_bound"`
	Schedule []int    `json:"schedule"`
	Detail   string   `json:"detail,omitempty"`
}

var schedSeq int

// mkSchedBody: log in, let the session age (so that the once-a-day expiry
// refresh is due or not), then run the threads: "req" = authenticated request,
// "out" = logout, "req2" = another request, "bad" = a failed login from
// another address (limit 3).
func mkSchedBody(tmp string, threads []string, ttl uint32, age int) func() vsync.Body {
	return func() vsync.Body {
		schedSeq++
		dir := filepath.Join(tmp, fmt.Sprintf("c12s-%d", schedSeq))
		_ = os.MkdirAll(dir, 0o755)
		start := time.Date(2024, 6, 5, 23, 59, 30, 0, time.UTC)
		vtime.SetVirtual(start)
		if err := home.VerifC12Init(dir, 3, 15*time.Minute, ttl); err != nil {
			panic(err)
		}
		st, _, _, cookie := home.VerifC12Login("192.0.2.1:1000", home.VerifC12User, home.VerifC12Password, nil)
		if st != 200 || cookie == "" {
			panic(fmt.Sprintf("setup login failed: %d", st))
		}
		vtime.AdvanceVirtual(time.Duration(age) * time.Second)
		loggedOut := false
		nBad := 0
		var fs []func()
		for _, t := range threads {
			switch t {
			case "bad":
				// A failed login from one and the same other address.
				nBad++
				fs = append(fs, func() { home.VerifC12Login("192.0.2.9:2000", home.VerifC12User, "wrong-password", nil) })
			case "req", "req2":
				fs = append(fs, func() { home.VerifC12Request(cookie) })
			case "tick":
				// The clock crosses the UTC midnight while the others run, so the
				// once-a-day expiry refresh becomes due in the middle.
				fs = append(fs, func() {
					vsync.SchedPoint("clock")
					vtime.AdvanceVirtual(61 * time.Second)
				})
			case "out":
				fs = append(fs, func() {
					home.VerifC12Logout(cookie)
					loggedOut = true
				})
			}
		}
		return vsync.Body{
			Names: threads, Threads: fs,
			Final: func() string {
				if nBad >= 3 {
					// The configured number of failures (3) has been reached, whatever
					// their interleaving: the next attempt, correct password included,
					// is refused.
					st, _, _, _ := home.VerifC12Login("192.0.2.9:2001", home.VerifC12User, home.VerifC12Password, nil)
					if st != 429 {
						return fmt.Sprintf("not-blocked-after-concurrent-failures: %d failed logins from one address have completed (limit 3); the next login with the correct password answers HTTP %d, want 429", nBad, st)
					}
				}
				if !loggedOut {
					return ""
				}
				if _, ran := home.VerifC12Request(cookie); ran {
					return "authenticated-after-logout: the token authenticates after the logout has returned"
				}
				if err := home.VerifC12Restart(); err != nil {
					return "restart-failed: " + err.Error()
				}
				if _, ran := home.VerifC12Request(cookie); ran {
					return "authenticated-after-logout+restart: the logged-out token authenticates again after a restart (the session file still holds it)"
				}
				return ""
			},
			Cleanup: func() {
				home.VerifC12Close()
				vtime.SetVirtual(time.Time{})
				_ = os.RemoveAll(dir)
			},
		}
	}
}

func phaseSchedules(c *lib.Ctx) {
	idx := 0
	for _, threads := range [][]string{{"req", "out"}, {"out", "req", "tick"}, {"req", "req2", "out"}, {"bad", "bad", "bad"}} {
		maxBound := 2
		if len(threads) > 2 {
			maxBound = 1
		}
		if !c.Quick() {
			maxBound++
		}
		for _, ttl := range []uint32{3600, 3 * 86400} {
			for _, age := range []int{1, 61, 86400} {
				if uint32(age) >= ttl {
					continue
				}
				idx++
				if !c.Mine(idx) {
					continue
				}
				for bound := 0; bound <= maxBound; bound++ {
					if c.Expired() {
						return
					}
					st := vsync.Explore(mkSchedBody(c.TmpDir, threads, ttl, age), vsync.Options{Bound: bound, MaxExecutions: 30000, Deadline: c.Deadline, Trace: true, ReleasePoints: true, StuckTimeout: 120 * time.Second}, nil)
					name := fmt.Sprintf("%s/ttl=%d/age=%d", strings.Join(threads, "|"), ttl, age)
					c.Count("sched_executions", int64(st.Executions))
					c.Count("sched_points", st.Points)
					if !st.Exhaustive {
						c.NotExhaustive("schedules " + name + " stopped early")
					} else {
						c.Distinct(fmt.Sprintf("sched_scenarios_bound_%d", bound), name)
					}
					for _, e := range st.EngineErrs {
						c.EngineError("schedules " + name + ": " + e)
					}
					c.Distinct("nontrivial", "sched|"+name+fmt.Sprint(bound))
					for _, v := range st.Violations {
						key := "sched:" + v.Kind
						if v.Kind == "final" {
							key = "sched:" + strings.SplitN(v.Detail, ":", 2)[0]
						}
						c.Violation(key, fmt.Sprintf("%s with threads %s, preemption bound %d, schedule %v: %s", v.Kind, name, bound, v.Schedule, v.Detail),
							schedCase{Phase: "schedules", Threads: threads, TTL: ttl, AgeS: age, Bound: bound, Schedule: v.Schedule, Detail: v.Detail})
					}
					if len(st.Violations) > 0 {
						break
					}
				}
			}
		}
	}
}

func replaySchedules(c *lib.Ctx, raw json.RawMessage) string {
	var sub subCase
	if json.Unmarshal(raw, &sub) == nil && (sub.Phase == "subsecond" || sub.Phase == "many-addresses") {
		if k, d := runSubCase(c.TmpDir, 0, sub); k != "" {
			return k + ": " + d
		}
		return ""
	}
	var sc schedCase
	if err := json.Unmarshal(raw, &sc); err != nil {
		return err.Error()
	}
	r, f := vsync.RunOne(mkSchedBody(c.TmpDir, sc.Threads, sc.TTL, sc.AgeS), sc.Schedule, vsync.Options{Trace: true, ReleasePoints: true})
	if os.Getenv("VERIF_C12_SCHEDDBG") != "" {
		for i, p := range r.Points {
			fmt.Printf("%3d %v %s\n", i, p.Enabled, p.Desc)
		}
	}
	switch {
	case r.EngineErr != "":
		return "engine error: " + r.EngineErr
	case len(r.Panics) > 0:
		return "panic: " + r.Panics[0]
	case r.Deadlock:
		return "deadlock: " + fmt.Sprint(r.Blocked)
	}
	return f
}

// phaseSubSecond places login attempts inside the last second of a block
// period (and just after it): the BFS moves the clock in whole seconds, so the
// instants with less than one second of the block left are covered here, for
// every throttling configuration.  Stateless enumeration.
type subCase struct {
	Phase   string  `json:"phase"`
	Max     uint    `json:"max_attempts"`
	BlockS  int     `json:"block_s"`
	OffsetS float64 `json:"attempt_offset_from_block_end_s,omitempty"`
	Right   bool    `json:"right_password"`
	// many-addresses: number of other addresses that fail once each while the
	// first address is blocked.
	Others int `json:"other_addresses,omitempty"`
}

// runSubCase executes one stateless throttling case on a fresh instance.
func runSubCase(tmp string, seq int, cs subCase) (vkey, vdesc string) {
	dir := filepath.Join(tmp, fmt.Sprintf("c12b-%d", seq))
	_ = os.MkdirAll(dir, 0o755)
	defer os.RemoveAll(dir)
	start := time.Date(2024, 6, 5, 10, 0, 0, 0, time.UTC)
	vtime.SetVirtual(start)
	defer vtime.SetVirtual(time.Time{})
	block := time.Duration(cs.BlockS) * time.Second
	if err := home.VerifC12Init(dir, cs.Max, block, 3600); err != nil {
		panic(err)
	}
	defer home.VerifC12Close()
	for i := uint(0); i < cs.Max; i++ {
		home.VerifC12Login("192.0.2.1:1000", home.VerifC12User, "wrong", nil)
	}
	pass := "wrong"
	if cs.Right {
		pass = home.VerifC12Password
	}
	if cs.Phase == "many-addresses" {
		// The block period has just begun; within the same minute many other
		// addresses fail once each.
		for i := 0; i < cs.Others; i++ {
			vtime.AdvanceVirtual(time.Millisecond)
			st, _, _, _ := home.VerifC12Login(fmt.Sprintf("198.51.%d.%d:2000", 1+i/250, 1+i%250), home.VerifC12User, "wrong", nil)
			if st != 403 && !(cs.Max == 1 && st == 403) {
				return "many:first-failure-of-an-address-not-403", fmt.Sprintf("first failed login of address #%d answered %d", i, st)
			}
		}
		st, _, hasRA, cookie := home.VerifC12Login("192.0.2.1:1001", home.VerifC12User, pass, nil)
		if st != 429 || !hasRA || cookie != "" {
			return "many:block-lifted-by-other-addresses", fmt.Sprintf("%d failed logins from one address, then one failed login from each of %d other addresses within %d ms, then a login (right password: %v) from the first address, %s into its %s block period: HTTP %d, Retry-After present=%v, session created=%v; must be 429 with Retry-After and no session",
				cs.Max, cs.Others, cs.Others, cs.Right, vtime.Now().Sub(start), block, st, hasRA, cookie != "")
		}
		return "", ""
	}
	off := time.Duration(cs.OffsetS * float64(time.Second))
	// The block period starts with the last failure.
	vtime.SetVirtual(start.Add(block + off))
	st, _, hasRA, cookie := home.VerifC12Login("192.0.2.1:1001", home.VerifC12User, pass, nil)
	switch {
	case off < 0 && (st != 429 || !hasRA || cookie != ""):
		return "subsecond:not-blocked-inside-block-period", fmt.Sprintf("%d failed logins, then a login (right password: %v) %.3f s before the end of the %s block period: HTTP %d, Retry-After present=%v, session created=%v; must be 429 with Retry-After and no session", cs.Max, cs.Right, -off.Seconds(), block, st, hasRA, cookie != "")
	case off > 0 && st == 429:
		return "subsecond:blocked-after-block-period", fmt.Sprintf("login %.3f s after the end of the %s block period is still answered 429", off.Seconds(), block)
	case off > 0 && cs.Right && (st != 200 || cookie == ""):
		return "subsecond:right-password-refused-after-block-period", fmt.Sprintf("right password %.3f s after the block period: HTTP %d", off.Seconds(), st)
	}
	return "", ""
}

func phaseSubSecond(c *lib.Ctx) {
	seq := 0
	for _, max := range []uint{1, 2, 3} {
		for _, block := range []time.Duration{2 * time.Minute, 15 * time.Minute} {
			for _, off := range []time.Duration{-1500 * time.Millisecond, -999 * time.Millisecond, -500 * time.Millisecond, -time.Millisecond, time.Millisecond, 1500 * time.Millisecond} {
				for _, right := range []bool{true, false} {
					seq++
					if !c.Mine(seq) {
						continue
					}
					cs := subCase{Phase: "subsecond", Max: max, BlockS: int(block / time.Second), OffsetS: off.Seconds(), Right: right}
					c.Count("subsecond_attempts", 1)
					c.Distinct("nontrivial", fmt.Sprint("subsecond|", max, block, off, right))
					if k, d := runSubCase(c.TmpDir, seq, cs); k != "" {
						c.Violation(k, d, cs)
					}
				}
			}
		}
	}
	// Many addresses failing while one address is blocked: the record of the
	// blocked address must survive whatever the others do to the table.
	for _, max := range []uint{1, 3} {
		for _, n := range []int{20, 1100, 2500} {
			for _, right := range []bool{true, false} {
				seq++
				if !c.Mine(seq) {
					continue
				}
				cs := subCase{Phase: "many-addresses", Max: max, BlockS: 900, Right: right, Others: n}
				c.Count("many_address_cases", 1)
				c.Count("evals", int64(n))
				c.Distinct("nontrivial", fmt.Sprint("many|", max, n, right))
				if k, d := runSubCase(c.TmpDir, seq, cs); k != "" {
					c.Violation(k, d, cs)
				}
			}
		}
	}
}
