package main

import "os"

func main() {
	if len(os.Args) > 1 && os.Args[1] == "-child" {
		os.Exit(childMain(os.Args[2:]))
	}
}
