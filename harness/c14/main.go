// C14 — configuration file, lease database and filter-list files are replaced
// atomically.  Engine E3 (DESIGN.md §2.5, §4 C14): a child process performs
// real saves through the real code; the parent records its system calls with
// strace, kills it for real on entry to every file-system call of the save,
// and explores a power-loss model over the recorded log.
package main

import (
	"bytes"
	"context"
	"encoding/json"
	"errors"
	"fmt"
	"github.com/AdguardTeam/AdGuardHome/internal/dhcpd"
	"os"
	"os/exec"
	"path/filepath"
	"strconv"
	"strings"
	"time"

	"github.com/AdguardTeam/AdGuardHome/internal/verifx/lib"
)

// recordSet is what run 1 traces; killSet is the smaller set the injected runs
// trace.  The occurrence counter of strace's inject is per thread and per
// system call, so a kill point is (call name, occurrence), and the extra calls
// of recordSet do not shift it.
const (
	recordSet = "trace=%file,%desc,fsync,fdatasync,sync,syncfs,rename,renameat,renameat2,write,pwrite64,ftruncate,unlink,unlinkat,close"
	killSet   = "trace=open,openat,creat,close,write,pwrite64,writev,pwritev,ftruncate,truncate,fsync,fdatasync,sync,syncfs,sync_file_range," +
		"rename,renameat,renameat2,unlink,unlinkat,rmdir,link,linkat,symlink,symlinkat,mkdir,mkdirat,stat,lstat,fstat,newfstatat,statx," +
		"access,faccessat,faccessat2,readlink,readlinkat,chmod,fchmod,fchmodat,utimensat,fallocate,copy_file_range,sendfile,lseek,getdents64"
)

var killCalls = func() map[string]bool {
	m := map[string]bool{}
	for _, n := range strings.Split(strings.TrimPrefix(killSet, "trace="), ",") {
		m[n] = true
	}
	return m
}()

// scenario is one child run.
type scenario struct {
	Kind string `json:"kind"`
	Size int    `json:"size"`
	// Old: the destination exists (generation 0) before the observed saves.
	Old bool `json:"old_present"`
	// Tmp: "same" = temporary files are created next to the destination
	// (TMPDIR unusable), "other" = in another directory of the same file
	// system (TMPDIR usable), the two placements renameio chooses between.
	Tmp string `json:"tmpdir"`
	// Fault: "" = none; "fsize-half" / "fsize-last" = during save 1 the
	// process may not grow any file beyond half / all but one byte of the
	// wanted size (RLIMIT_FSIZE, the portable stand-in for a full disk: the
	// write that crosses the limit is cut short and the next one fails).  The
	// save must then fail and leave the previous version in place at every
	// instant; save 2 runs without the limit.
	Fault string `json:"fault,omitempty"`
}

func (s scenario) id() string {
	if s.Fault != "" {
		return fmt.Sprintf("%s/size=%d/old=%v/tmp=%s/fault=%s", s.Kind, s.Size, s.Old, s.Tmp, s.Fault)
	}
	return fmt.Sprintf("%s/size=%d/old=%v/tmp=%s", s.Kind, s.Size, s.Old, s.Tmp)
}

// failing reports whether save 1 of the scenario is a save that must fail and
// leave the previous version in place.
func (s scenario) failing() bool {
	return s.Fault != "" || s.Kind == "filterfail" || s.Kind == "seturlfail" || s.Kind == "filterlong"
}

type caseC struct {
	Scenario scenario    `json:"scenario"`
	Mode     string      `json:"mode"` // kill | powerloss
	K        int         `json:"event_index,omitempty"`
	Call     string      `json:"call,omitempty"`
	Crash    *crashState `json:"crash_state,omitempty"`
	Observed string      `json:"observed_class"`
	Allowed  string      `json:"allowed"`
	Window   []string    `json:"window_calls,omitempty"`
}

func sizes(tier string) []int {
	s := []int{0, 1, 4095, 4096, 4097, 1 << 20}
	if tier == "thorough" {
		s = append(s, 32<<20)
	}
	return s
}

func scenarios(tier string) (out []scenario) {
	for _, kind := range []string{"config", "upgrade", "leases", "leasesreset", "filter", "filterfail", "filterlong", "seturl", "seturlfail"} {
		for _, sz := range sizes(tier) {
			for _, old := range []bool{true, false} {
				for _, tmp := range []string{"same", "other"} {
					if kind == "upgrade" && (!old || sz > 1<<20 || (sz != 0 && sz != 4096 && sz != 1<<20)) {
						// The upgrade needs an existing file of the previous schema;
						// three sizes are enough for the one extra write path.
						continue
					}
					if kind == "leasesreset" && sz != 0 && sz != 4096 {
						// The reset's new version does not depend on the size of
						// the old one: the writer's minimum and one page.
						continue
					}
					if (kind == "filterfail" || kind == "filterlong" || kind == "seturl" || kind == "seturlfail") && (!old || (sz != 4096 && sz != 1<<20)) {
						// A failing refresh of an existing list, and changing the
						// address of an existing list (download succeeds / breaks): two sizes.
						continue
					}
					if kind != "filter" && kind != "filterfail" && kind != "filterlong" && kind != "seturl" && kind != "seturlfail" && sz == 1 {
						// Same file as size 0: the writer's minimum.
						continue
					}
					if kind == "filter" && sz > 8<<20 && !(old && tmp == "same") {
						// Bound: a 32 MiB refresh has ~1150 kill points of
						// several seconds each; one variant is enumerated.
						continue
					}
					if kind == "filter" && sz == 0 && !old {
						// Nothing is stored when an absent list is refreshed
						// with an empty one.
						continue
					}
					sc := scenario{Kind: kind, Size: sz, Old: old, Tmp: tmp}
					cand := []scenario{sc}
					if old && (kind == "config" || kind == "leases" || kind == "filter") && (sz == 4096 || sz == 1<<20) {
						for _, f := range []string{"fsize-half", "fsize-last"} {
							fs := sc
							fs.Fault = f
							cand = append(cand, fs)
						}
					}
					for _, sc := range cand {
						if only := os.Getenv("VERIF_C14_ONLY"); only != "" && !strings.Contains(sc.id(), only) {
							continue // development aid
						}
						out = append(out, sc)
					}
				}
			}
		}
	}
	return out
}

// runner executes child runs of one scenario.
type runner struct {
	c     *lib.Ctx
	sc    scenario
	calib string
	seq   int
	self  string
}

func (r *runner) timeout() time.Duration {
	if r.sc.Size > 8<<20 {
		return 10 * time.Minute
	}
	return 2 * time.Minute
}

func (r *runner) newDir() (dir string, err error) {
	r.seq++
	dir = filepath.Join(r.c.TmpDir, fmt.Sprintf("s%d", r.seq))
	if err = os.MkdirAll(filepath.Join(dir, "tmp"), 0o755); err != nil {
		return "", err
	}
	return dir, nil
}

func (r *runner) env(dir string) []string {
	tmp := filepath.Join(dir, "tmp")
	if r.sc.Tmp == "same" {
		tmp = filepath.Join(dir, "no-such-tmp")
	}
	return []string{"GOMAXPROCS=1", "GODEBUG=asyncpreemptoff=1", "TMPDIR=" + tmp, "PATH=/usr/bin:/bin", "HOME=/nonexistent"}
}

func (r *runner) childArgs(dir string) []string {
	old := "0"
	if r.sc.Old {
		old = "1"
	}
	return []string{"-child", "-kind", r.sc.Kind, "-dir", dir, "-size", strconv.Itoa(r.sc.Size), "-old", old, "-calib", r.calib, "-fault", r.sc.Fault}
}

// calibrate asks an untraced child for the padding that gives the wanted size.
func (r *runner) calibrate() (actual int, err error) {
	if r.sc.Kind == "filter" || r.sc.Kind == "filterfail" || r.sc.Kind == "filterlong" || r.sc.Kind == "seturl" || r.sc.Kind == "seturlfail" {
		// Analytic: see filterBody.
		r.calib = "-"
		return max(r.sc.Size, 2), nil
	}
	dir, err := r.newDir()
	if err != nil {
		return 0, err
	}
	defer os.RemoveAll(dir)
	ctx, cancel := context.WithTimeout(context.Background(), r.timeout())
	defer cancel()
	cmd := exec.CommandContext(ctx, r.self, "-child", "-kind", r.sc.Kind, "-dir", dir, "-size", strconv.Itoa(r.sc.Size), "-calibrate")
	cmd.Env = r.env(dir)
	out, err := cmd.CombinedOutput()
	if err != nil {
		return 0, fmt.Errorf("calibrate %s: %v: %s", r.sc.id(), err, out)
	}
	if _, err = fmt.Sscanf(strings.TrimSpace(string(out)), "calib=%s actual=%d", &r.calib, &actual); err != nil {
		return 0, fmt.Errorf("calibrate %s: bad output %q", r.sc.id(), out)
	}
	return actual, nil
}

// traced is the result of one strace run.
type traced struct {
	dir    string
	dest   string
	evs    []*event
	rel    []*event
	killed bool
	stderr string
}

func (r *runner) destOf(dir string) string {
	switch r.sc.Kind {
	case "config", "upgrade":
		return filepath.Join(dir, "AdGuardHome.yaml")
	case "leases", "leasesreset":
		return filepath.Join(dir, "data", "leases.json")
	}
	return filepath.Join(dir, "data", "filters", "1.txt")
}

// run executes the child under strace.  inject is "" for the recording run or
// the -e inject= expression.
func (r *runner) run(traceSet, inject string) (t *traced, err error) {
	dir, err := r.newDir()
	if err != nil {
		return nil, err
	}
	logPath := dir + ".strace"
	defer os.Remove(logPath)
	args := []string{"-f", "-y", "-s", "16", "-e", traceSet}
	if inject != "" {
		args = append(args, "-e", inject)
	}
	args = append(args, "-o", logPath, r.self)
	args = append(args, r.childArgs(dir)...)
	ctx, cancel := context.WithTimeout(context.Background(), r.timeout())
	defer cancel()
	cmd := exec.CommandContext(ctx, "strace", args...)
	cmd.Env = r.env(dir)
	var stderr bytes.Buffer
	cmd.Stderr = &stderr
	runErr := cmd.Run()
	t = &traced{dir: dir, dest: r.destOf(dir), stderr: stderr.String()}
	if ctx.Err() != nil {
		return t, fmt.Errorf("strace run timed out (%s)", r.sc.id())
	}
	var ee *exec.ExitError
	switch {
	case runErr == nil:
	case errors.As(runErr, &ee):
		// strace re-raises the signal that killed the tracee.
		t.killed = ee.ExitCode() == -1 || ee.ExitCode() == 137
		if !t.killed {
			return t, fmt.Errorf("child failed (%s): %v: %s", r.sc.id(), runErr, stderr.String())
		}
	default:
		return t, fmt.Errorf("strace: %v: %s", runErr, stderr.String())
	}
	if t.evs, err = parseLog(logPath, dir); err != nil {
		return t, err
	}
	t.rel = relevant(t.evs)
	return t, nil
}

func (t *traced) cleanup() { _ = os.RemoveAll(t.dir) }

func readDest(p string) (b []byte, present bool, err error) {
	b, err = os.ReadFile(p)
	if errors.Is(err, os.ErrNotExist) {
		return nil, false, nil
	}
	return b, err == nil, err
}

// recording is what a shard knows about a scenario after run 1.
type recording struct {
	rel      []*event
	sigs     []string
	markers  [3]int
	versions [3][]byte
	hasV0    bool
	m        *model
	dir      string
	// refKill caches the outcome of the reference kills at markers 1 and 2.
	refKill map[int]killOutcome
}

type killOutcome struct {
	b       []byte
	present bool
}

// killAt re-runs the child and kills it on entry to relevant event k of the
// recording.  It retries when the injected run's call sequence diverges from
// the recording.  ok is false if every attempt diverged.
func (r *runner) killAt(rec *recording, k int) (b []byte, present, ok bool, why string, err error) {
	if o, hit := rec.refKill[k]; hit {
		return o.b, o.present, true, "", nil
	}
	target := rec.rel[k]
	if !killCalls[target.Name] {
		return nil, false, false, "", fmt.Errorf("event %d (%s) is not in the kill set", k, target.Name)
	}
	inject := fmt.Sprintf("inject=%s:signal=SIGKILL:when=%d", target.Name, target.Occ)
	// Expected: the relevant events of the kill set up to k, the last killed.
	var want []string
	for i := 0; i <= k; i++ {
		if killCalls[rec.rel[i].Name] {
			want = append(want, rec.sigs[i])
		}
	}
	for attempt := 0; attempt < 4; attempt++ {
		t, rerr := r.run(killSet, inject)
		if rerr != nil {
			if t != nil {
				t.cleanup()
			}
			return nil, false, false, "", rerr
		}
		why = ""
		var got []string
		for _, e := range t.rel {
			got = append(got, e.sig(t.dir))
		}
		switch {
		case !t.killed:
			why = "child was not killed"
		case len(got) != len(want):
			why = fmt.Sprintf("%d relevant calls, recording predicts %d", len(got), len(want))
		case !t.rel[len(t.rel)-1].killed():
			why = "last relevant call returned"
		default:
			for i := range got {
				if got[i] != want[i] {
					why = fmt.Sprintf("call %d is %q, recording has %q", i, got[i], want[i])
					break
				}
			}
		}
		if why == "" {
			b, present, err = readDest(t.dest)
			t.cleanup()
			return b, present, true, "", err
		}
		if os.Getenv("VERIF_C14_DEBUG") != "" {
			fmt.Fprintf(os.Stderr, "diverged (%s): %s\n", inject, why)
		}
		t.cleanup()
		r.c.Count("kill_runs_diverged_retried", 1)
	}
	return nil, false, false, why, nil
}

// errAbsentAfterSave: the destination does not exist once the first observed
// save has returned (killed at marker 2) — neither version is there.
var errAbsentAfterSave = errors.New("destination absent at marker 2 (the first save has returned)")

// record performs run 1 and the two reference kills (at markers 1 and 2) that
// give the complete versions, and builds the model.
func (r *runner) record() (rec *recording, err error) {
	t, err := r.run(recordSet, "")
	if err != nil {
		if t != nil {
			t.cleanup()
		}
		return nil, err
	}
	defer t.cleanup()
	if t.killed {
		return nil, fmt.Errorf("recording run of %s was killed", r.sc.id())
	}
	rec = &recording{rel: t.rel, dir: t.dir}
	for _, e := range t.rel {
		rec.sigs = append(rec.sigs, e.sig(t.dir))
	}
	if rec.markers, err = findMarkers(t.rel, t.dir); err != nil {
		return nil, fmt.Errorf("%s: %v", r.sc.id(), err)
	}
	v2, present, err := readDest(t.dest)
	if err != nil || !present {
		return nil, fmt.Errorf("%s: destination missing after the recording run: %v", r.sc.id(), err)
	}
	rec.versions[2] = v2
	for j := 0; j < 2; j++ {
		b, present, ok, why, kerr := r.killAt(rec, rec.markers[j])
		if kerr != nil {
			return nil, kerr
		}
		if !ok {
			return nil, fmt.Errorf("%s: reference kill at marker %d keeps diverging: %s", r.sc.id(), j+1, why)
		}
		if j == 0 {
			rec.hasV0 = present
			if present != r.sc.Old {
				return nil, fmt.Errorf("%s: destination present=%v at marker 1", r.sc.id(), present)
			}
		} else if !present {
			return nil, errAbsentAfterSave
		}
		rec.versions[j] = b
		if rec.refKill == nil {
			rec.refKill = map[int]killOutcome{}
		}
		rec.refKill[rec.markers[j]] = killOutcome{b: b, present: present}
	}
	if bytes.Equal(rec.versions[1], rec.versions[2]) || (rec.hasV0 && !r.sc.failing() && bytes.Equal(rec.versions[0], rec.versions[1])) {
		return nil, fmt.Errorf("%s: successive versions are equal, the scenario is vacuous", r.sc.id())
	}
	// The versions the recording took from the code must be complete versions
	// in the statement's sense, whatever sequence of calls produced them.
	if r.sc.Kind == "leases" || r.sc.Kind == "leasesreset" {
		for j := 0; j < 3; j++ {
			if j == 0 && !rec.hasV0 {
				continue
			}
			if class, why := r.completeLeaseDB(rec.versions[j], r.leasesHeld(j, rec)); class != "" {
				return nil, &incompleteErr{j: j, class: class, why: why, n: len(rec.versions[j])}
			}
		}
	}
	// Paths in the model are those of the recording run.
	rec.m, err = buildModel(t.rel, t.dir, t.dest, rec.versions, rec.hasV0)
	if err != nil {
		return nil, fmt.Errorf("%s: %v", r.sc.id(), err)
	}
	if len(rec.m.unmodelled) > 0 {
		return nil, fmt.Errorf("%s: calls on the working directory the model cannot interpret: %s", r.sc.id(), strings.Join(rec.m.unmodelled, "; "))
	}
	return rec, nil
}

// incompleteErr: what the path holds once save j has returned is not a
// complete lease database (absolute oracle, independent of the calls made).
type incompleteErr struct {
	j     int
	class string
	why   string
	n     int
}

func (e *incompleteErr) Error() string {
	return fmt.Sprintf("once save %d has returned the destination holds %d bytes that are not the complete new version of the lease database: %s", e.j, e.n, e.why)
}

// leasesHeld is the number of leases the server holds when save j is made:
// the calibrated number for an ordinary lease change, none after a reset.  A
// failed save 1 leaves version 0, which holds the same number.
func (r *runner) leasesHeld(j int, rec *recording) int {
	if r.sc.Kind == "leasesreset" && j == 1 {
		return 0
	}
	n := 0
	_, _ = fmt.Sscanf(r.calib, "%d:", &n)
	return n
}

// completeLeaseDB judges one stored version of the lease database against the
// statement: a complete version is one whole JSON document of the database
// format that lists exactly the leases the server held (so never an empty
// file), and a restart on it succeeds (the real Create: migrateDB + dbLoad).
func (r *runner) completeLeaseDB(b []byte, want int) (class, why string) {
	if len(b) == 0 {
		return "empty", "an empty file"
	}
	var doc struct {
		Version *int              `json:"version"`
		Leases  []json.RawMessage `json:"leases"`
	}
	if err := json.Unmarshal(b, &doc); err != nil {
		return "not-a-document", "not one whole JSON document: " + err.Error()
	}
	if doc.Version == nil {
		return "not-a-document", "a JSON document without the version of the database format"
	}
	if len(doc.Leases) != want {
		return "wrong-leases", fmt.Sprintf("the document lists %d leases, the server held %d", len(doc.Leases), want)
	}
	dir, err := r.newDir()
	if err != nil {
		return "", ""
	}
	defer os.RemoveAll(dir)
	if err = os.WriteFile(filepath.Join(dir, "leases.json"), b, 0o644); err != nil {
		return "", ""
	}
	r.c.Count("restarts_on_stored_version", 1)
	if _, err = dhcpd.VerifC14New(dir); err != nil {
		return "restart-fails", "the DHCP server cannot be started on it: " + err.Error()
	}
	return "", ""
}

// windowCalls renders the calls of the window for a violation report.
func (rec *recording) windowCalls(around int) (out []string) {
	lo, hi := rec.markers[0], rec.markers[2]
	for i := lo; i <= hi; i++ {
		if hi-lo > 60 && (i < around-25 || i > around+10) {
			continue
		}
		mark := "  "
		if i == around {
			mark = "=>"
		}
		out = append(out, fmt.Sprintf("%s%d %s", mark, i, rec.sigs[i]))
	}
	return out
}

// allowedKill is the set of classes the statement allows for a kill on entry
// to event k.
func (rec *recording) allowedKill(k int) (set map[string]bool, text string) {
	if k <= rec.markers[1] {
		if rec.hasV0 {
			return map[string]bool{"v0": true, "v1": true}, "complete v0 or complete v1"
		}
		return map[string]bool{"absent": true, "v1": true}, "absent (as before) or complete v1"
	}
	return map[string]bool{"v1": true, "v2": true}, "complete v1 or complete v2"
}

func describe(sc scenario, rec *recording, what string) string {
	return fmt.Sprintf("%s\nscenario: %s (sizes v0=%d v1=%d v2=%d bytes, v0 present=%v)", what, sc.id(),
		len(rec.versions[0]), len(rec.versions[1]), len(rec.versions[2]), rec.hasV0)
}

// checkKill performs the real kill at event k and judges it.  It returns the
// violation (nil if none).
func (r *runner) checkKill(rec *recording, k int, confirm bool) (cs *caseC, desc string, err error) {
	c := r.c
	b, present, ok, why, err := r.killAt(rec, k)
	if err != nil {
		return nil, "", err
	}
	if !ok {
		c.Count("kill_points_unreached", 1)
		c.NotExhaustive(fmt.Sprintf("kill point %d of %s could not be reproduced: %s", k, r.sc.id(), why))
		return nil, "", nil
	}
	c.Count("real_kills", 1)
	class := classifyBytes(b, present, rec.versions, rec.hasV0)
	c.Distinct("outcomes", r.sc.Kind+":"+class)
	isMarker := k == rec.markers[0] || k == rec.markers[1] || k == rec.markers[2]
	if !isMarker {
		c.Distinct("nontrivial", r.sc.id()+"#"+strconv.Itoa(k))
	}

	// Model prediction for this prefix: nothing is lost by a SIGKILL.
	pc, ppresent := rec.m.eval(k, 0, -1, 0)
	pb, pok := rec.m.materialize(pc)
	if ppresent == present && (!present || (pok && bytes.Equal(pb, b))) {
		c.Count("kills_matching_model", 1)
	} else {
		c.Count("kills_not_matching_model", 1)
		c.EngineError(fmt.Sprintf("%s: kill at event %d (%s): observed %s (%d bytes), the log model predicts %s", r.sc.id(), k,
			rec.sigs[k], class, len(b), rec.m.classifyContent(pc, ppresent)))
	}

	allowed, text := rec.allowedKill(k)
	if allowed[class] {
		return nil, "", nil
	}
	if confirm {
		// Re-run before reporting.
		b2, present2, ok2, _, err2 := r.killAt(rec, k)
		if err2 != nil || !ok2 || classifyBytes(b2, present2, rec.versions, rec.hasV0) != class {
			c.EngineError(fmt.Sprintf("%s: kill at event %d gave %s once and something else on re-run", r.sc.id(), k, class))
			return nil, "", nil
		}
	}
	cs = &caseC{Scenario: r.sc, Mode: "kill", K: k, Call: rec.sigs[k], Observed: class, Allowed: text, Window: rec.windowCalls(k)}
	desc = describe(r.sc, rec, fmt.Sprintf(
		"after SIGKILL on entry to call %d (%s) the destination is %s (%d bytes); the statement allows %s",
		k, rec.sigs[k], class, len(b), text))
	return cs, desc, nil
}

func run(c *lib.Ctx) {
	self, err := os.Executable()
	if err != nil {
		c.EngineError(err.Error())
		return
	}
	if _, err = exec.LookPath("strace"); err != nil {
		c.EngineError("strace is not installed: real kills impossible")
		return
	}
	// Small scenarios are dealt whole to one shard (which records them once);
	// the kill points of large ones (many calls, slow child) are dealt over
	// all shards, each of which makes its own recording.
	if c.Mine(7) && os.Getenv("VERIF_C14_ONLY") == "" {
		concurrentSaves(c)
	}
	if c.Mine(8) && os.Getenv("VERIF_C14_ONLY") == "" {
		loadKeepsDatabase(c)
	}
	idx := 0
	for si, sc := range scenarios(c.Tier) {
		if c.Expired() {
			return
		}
		shared := sc.Size >= 1<<20
		owner := c.Mine(si)
		if !shared && !owner {
			continue
		}
		r := &runner{c: c, sc: sc, self: self, seq: si * 1000000}
		actual, err := r.calibrate()
		if err != nil {
			c.EngineError(err.Error())
			return
		}
		rec, err := r.record()
		if errors.Is(err, errAbsentAfterSave) {
			if owner {
				cs := caseC{Scenario: sc, Mode: "final", Observed: "absent", Allowed: "complete v0 or complete v1"}
				c.Violation("absent-after-save:"+sc.Kind, fmt.Sprintf("after the first save has returned (process killed at the marker that follows it) the destination does not exist at all\nscenario: %s", sc.id()), cs)
			}
			continue
		}
		var ie *incompleteErr
		if errors.As(err, &ie) {
			if owner {
				cs := caseC{Scenario: sc, Mode: "final", Observed: ie.class, Allowed: "the complete new version"}
				c.Violation("incomplete-version:"+sc.Kind+":"+ie.class, ie.Error()+"\nscenario: "+sc.id(), cs)
			}
			continue
		}
		if err != nil {
			c.EngineError(err.Error())
			return
		}
		if owner {
			c.Count("scenarios", 1)
			c.Count("recorded_window_calls", int64(rec.markers[2]-rec.markers[0]+1))
			c.Max("max_file_bytes", int64(len(rec.versions[1])))
			c.Distinct("file_sizes", sc.Kind+":"+strconv.Itoa(len(rec.versions[1])))
			if sc.failing() {
				// Save 1 failed: the stored file must be unchanged.
				c.Count("failing_save_scenarios", 1)
				limit := -1
				switch sc.Fault {
				case "fsize-half":
					limit = sc.Size / 2
				case "fsize-last":
					limit = sc.Size - 1
				}
				if limit >= 0 && len(rec.versions[1]) > limit && !bytes.Equal(rec.versions[1], rec.versions[0]) {
					c.EngineError(fmt.Sprintf("%s: the file has %d bytes after save 1 although no file could grow beyond %d: the fault did not take effect", sc.id(), len(rec.versions[1]), limit))
				} else if !bytes.Equal(rec.versions[1], rec.versions[0]) {
					cs := caseC{Scenario: sc, Mode: "final", Observed: "changed-by-failed-save", Allowed: "v0"}
					what := "a refresh whose download broke half-way"
					if sc.Fault != "" {
						what = "a save that failed because the file could not grow (" + sc.Fault + ")"
					}
					c.Violation("failed-save-changed-file:"+sc.Kind, describe(sc, rec, fmt.Sprintf("%s changed the stored file: %d bytes before, %d bytes after", what, len(rec.versions[0]), len(rec.versions[1]))), cs)
				}
			} else if sc.Kind == "leasesreset" {
				// The new version of save 1 holds no leases whatever the size.
			} else if sc.Kind == "upgrade" {
				// The upgraded file gains the keys the migration adds, and the
				// later ordinary write keeps them: sizes are not calibrated.
			} else if sc.Size >= 2 && actual != len(rec.versions[1]) {
				c.EngineError(fmt.Sprintf("%s: calibrated size %d, stored %d", sc.id(), actual, len(rec.versions[1])))
			}
			c.Sample(map[string]any{"scenario": sc.id(), "window_calls": rec.markers[2] - rec.markers[0] + 1,
				"bytes": []int{len(rec.versions[0]), len(rec.versions[1]), len(rec.versions[2])}})
			// (b) power-loss model, once per scenario.
			r.explore(rec)
		}
		// (a) real kills.
		for k := rec.markers[0]; k <= rec.markers[2]; k++ {
			if !killCalls[rec.rel[k].Name] {
				continue
			}
			if shared {
				mine := c.Mine(idx)
				idx++
				if !mine {
					continue
				}
			}
			if c.Expired() {
				return
			}
			cs, desc, err := r.checkKill(rec, k, true)
			if err != nil {
				c.EngineError(err.Error())
				return
			}
			if cs != nil {
				c.Violation("realkill:"+sc.Kind+":"+cs.Observed, desc, cs)
			}
		}
	}
}

// explore runs the power-loss exploration of one recording.
func (r *runner) explore(rec *recording) {
	c, sc := r.c, r.sc
	rec.m.explore(func(st crashState, ok bool) {
		c.Count("powerloss_states", 1)
		c.Distinct("powerloss_classes", sc.Kind+":"+st.Class)
		if st.R > 0 || st.D < st.OfN {
			c.Distinct("nontrivial", sc.id()+fmt.Sprintf("#pl%d/%d/%d/%d", st.P, st.R, st.D, st.Torn))
		}
		if ok {
			return
		}
		stc := st
		text := "any complete version written so far, or absence if the file did not exist"
		cs := caseC{Scenario: sc, Mode: "powerloss", Crash: &stc, Observed: st.Class,
			Allowed: text, Window: rec.windowCalls(st.P - 1)}
		if st.P > rec.markers[0] {
			cs.Call = rec.sigs[st.P-1]
		}
		c.Violation("powerloss:"+sc.Kind+":"+st.Class, describe(sc, rec, fmt.Sprintf(
			"power loss after the first %d calls of the recorded log (last executed: %s), with the last %d namespace operations lost "+
				"and only the first %d of the %d data operations issued on the destination's file on disk (plus %d torn bytes of the next write): "+
				"the destination holds %s = %s; the statement allows only a complete version (%s)",
			st.P, cs.Call, st.R, st.D, st.OfN, st.Torn, st.Sym, st.Class, text)), cs)
	})
}

// concurrentSaves: two configuration saves at the same time (the API handlers
// and the periodic workers all end in configuration.write).  Free-running under
// the race detector (engine E4): no data race in the writer, and the stored
// file is one complete document.
// loadKeepsDatabase: starting the DHCP server on an existing lease database
// (IPv4 and IPv6 reservations) is not a save: at no instant of the start may
// the path hold anything but that database, so after the start it is byte for
// byte what it was.
func loadKeepsDatabase(c *lib.Ctx) {
	dir, err := os.MkdirTemp(c.TmpDir, "c14load-")
	if err != nil {
		c.EngineError(err.Error())
		return
	}
	defer os.RemoveAll(dir)
	doc := `{"version":1,"leases":[{"expires":"","ip":"10.0.0.5","hostname":"four","mac":"02:00:00:00:00:05","static":true},` +
		`{"expires":"","ip":"2001:db8::5","hostname":"six","mac":"02:00:00:00:00:06","static":true},` +
		`{"expires":"2031-02-03T04:05:06Z","ip":"10.0.0.9","hostname":"nine","mac":"02:00:00:00:00:09","static":false}]}`
	srv0, err := dhcpd.VerifC14New(dir)
	if err != nil {
		c.EngineError("load pass: " + err.Error())
		return
	}
	path := srv0.DBPath()
	if err = os.MkdirAll(filepath.Dir(path), 0o755); err == nil {
		err = os.WriteFile(path, []byte(doc), 0o644)
	}
	if err != nil {
		c.EngineError("load pass: " + err.Error())
		return
	}
	c.Count("evals", 1)
	if _, err = dhcpd.VerifC14New(dir); err != nil {
		c.EngineError("load pass: start on the prepared database: " + err.Error())
		return
	}
	got, _ := os.ReadFile(path)
	if string(got) != doc {
		c.Violation("start-rewrites-lease-database", fmt.Sprintf("the server was started on a lease database with IPv4 and IPv6 reservations and no lease changed; the file now holds %q, it held %q", got, doc),
			caseC{Mode: "load"})
	}
	c.Distinct("nontrivial", "load")
}

func concurrentSaves(c *lib.Ctx) {
	bin := os.Getenv("VERIF_RACE_BIN")
	if bin == "" {
		c.EngineError("race binary not provided (VERIF_RACE_BIN)")
		return
	}
	reps := 3
	if c.Tier == "thorough" {
		reps = 12
	}
	for i := 0; i < reps; i++ {
		dir, err := os.MkdirTemp(c.TmpDir, "c14r-")
		if err != nil {
			c.EngineError(err.Error())
			return
		}
		ctx, cancel := context.WithTimeout(context.Background(), 2*time.Minute)
		cmd := exec.CommandContext(ctx, bin, "-race-child", "-dir", dir, "-rounds", "40")
		cmd.Env = []string{"GORACE=halt_on_error=0", "PATH=/usr/bin:/bin", "HOME=/nonexistent", "TMPDIR=" + dir}
		out, rerr := cmd.CombinedOutput()
		cancel()
		_ = os.RemoveAll(dir)
		c.Count("evals", 1)
		c.Count("concurrent_save_runs", 1)
		text := string(out)
		cs := caseC{Scenario: scenario{Kind: "config-concurrent"}, Mode: "race"}
		switch {
		case strings.Contains(text, "WARNING: DATA RACE"):
			site := "unknown"
			for _, l := range strings.Split(text, "\n") {
				if j := strings.Index(l, "/internal/"); j >= 0 && strings.Contains(l, ".go:") && !strings.Contains(l, "/verifx/") {
					site = strings.Fields(l[j+1:])[0]
					break
				}
			}
			if len(text) > 3000 {
				text = text[:3000]
			}
			c.Violation("concurrent-saves:data-race:"+site, "two concurrent configuration saves race on shared memory (what is renamed into place may be torn):\n"+text, cs)
			return
		case strings.Contains(text, "TORN "):
			c.Violation("concurrent-saves:torn-file", "after two goroutines saved the configuration concurrently the file is not one complete document: "+text, cs)
			return
		case rerr != nil || !strings.Contains(text, "RACE-CHILD-DONE"):
			c.EngineError(fmt.Sprintf("concurrent-saves child failed: %v: %s", rerr, text))
			return
		}
	}
	c.Distinct("nontrivial", "concurrent-saves")
}

func replay(c *lib.Ctx, raw json.RawMessage) string {
	var cs caseC
	if err := json.Unmarshal(raw, &cs); err != nil {
		return err.Error()
	}
	if cs.Mode == "load" {
		before := c.NumViolationKeys()
		loadKeepsDatabase(c)
		if c.NumViolationKeys() > before {
			return "violation reproduced (start rewrites the lease database)"
		}
		return ""
	}
	if cs.Mode == "race" {
		before := c.NumViolationKeys()
		concurrentSaves(c)
		if c.NumViolationKeys() > before {
			return "violation reproduced (concurrent saves)"
		}
		return ""
	}
	self, _ := os.Executable()
	r := &runner{c: c, sc: cs.Scenario, self: self}
	if _, err := r.calibrate(); err != nil {
		return "engine: " + err.Error()
	}
	rec, err := r.record()
	if errors.Is(err, errAbsentAfterSave) {
		return err.Error() + "\nscenario: " + cs.Scenario.id()
	}
	var ie *incompleteErr
	if errors.As(err, &ie) {
		return ie.Error() + "\nscenario: " + cs.Scenario.id()
	}
	if err != nil {
		return "engine: " + err.Error()
	}
	if cs.Mode == "final" {
		if cs.Scenario.failing() && !bytes.Equal(rec.versions[1], rec.versions[0]) {
			return fmt.Sprintf("a failing save changed the stored file: %d bytes before, %d bytes after\nscenario: %s", len(rec.versions[0]), len(rec.versions[1]), cs.Scenario.id())
		}
		return ""
	}
	if cs.Mode == "kill" {
		if cs.K < rec.markers[0] || cs.K > rec.markers[2] || !killCalls[rec.rel[cs.K].Name] {
			return "" // the recorded call sequence has changed: no such kill point
		}
		v, desc, err := r.checkKill(rec, cs.K, false)
		if err != nil {
			return "engine: " + err.Error()
		}
		if v != nil {
			return desc + "\n" + strings.Join(v.Window, "\n")
		}
		return ""
	}
	out := ""
	rec.m.explore(func(st crashState, ok bool) {
		if !ok && out == "" && cs.Crash != nil && st.P == cs.Crash.P && st.R == cs.Crash.R && st.D == cs.Crash.D && st.Torn == cs.Crash.Torn {
			out = fmt.Sprintf("power-loss state %+v is still reachable in a fresh recording\n%s", st, strings.Join(rec.windowCalls(st.P-1), "\n"))
		}
	})
	return out
}

func main() {
	if len(os.Args) > 1 && os.Args[1] == "-child" {
		os.Exit(childMain(os.Args[2:]))
	}
	if len(os.Args) > 1 && os.Args[1] == "-race-child" {
		os.Exit(raceChildMain(os.Args[2:]))
	}
	lib.Main(&lib.Harness{
		Prop: "C14", Level: "fault_enumeration",
		Shards: func(string) int { return 16 },
		Budget: func(tier string) time.Duration {
			if tier == "thorough" {
				return 18 * time.Minute
			}
			return 4 * time.Minute
		},
		Run: run, Replay: replay,
		Evidence: func(m *lib.Merged) map[string]any {
			return map[string]any{
				"evaluations":                    m.Counters["real_kills"] + m.Counters["powerloss_states"],
				"real_kills":                     m.Counters["real_kills"],
				"powerloss_states":               m.Counters["powerloss_states"],
				"traces_validated_against_impl":  m.Counters["kills_matching_model"],
				"kills_not_matching_model":       m.Counters["kills_not_matching_model"],
				"kill_points_unreached":          m.Counters["kill_points_unreached"],
				"kill_runs_diverged_and_retried": m.Counters["kill_runs_diverged_retried"],
				"scenarios":                      m.Counters["scenarios"],
				"failing_save_scenarios":         m.Counters["failing_save_scenarios"],
				"concurrent_save_runs":           m.Counters["concurrent_save_runs"],
				"restarts_on_stored_version":     m.Counters["restarts_on_stored_version"],
				"recorded_window_calls":          m.Counters["recorded_window_calls"],
				"distinct_nontrivial":            m.Distinct["nontrivial"],
				"distinct_kill_outcomes":         m.Distinct["outcomes"],
				"distinct_powerloss_classes":     m.Distinct["powerloss_classes"],
				"distinct_file_sizes":            m.Distinct["file_sizes"],
				"max_file_bytes":                 m.Maxes["max_file_bytes"],
				"rule": "free-running race-detector runs of two goroutines saving the configuration concurrently (no data race in the writer, the stored file is one complete document); reset_leases (dhcpd resetLeases) as save 1 between two lease changes, every stored version of the lease database judged on its own (one whole JSON document listing exactly the leases held, never empty, and the real Create restarts on it); 3 writers (home.configuration.write, dhcpd onNotify->dbStore->writeDB, filtering tryRefreshFilters->updateIntl->finalizeUpdate) plus the loader's schema-upgrade rewrite, " +
					"a refresh / a set_url whose download breaks half-way, a refresh whose new version holds a line longer than the parser accepts, set_url that succeeds, and for each of the 3 writers at 4096 B and 1 MiB a save 1 during which no file may grow beyond half / all but one byte of its size (RLIMIT_FSIZE; the save fails and must leave the previous version), x wanted sizes " +
					"{0,1,4095,4096,4097,1 MiB}(+32 MiB thorough; the writer's minimum where smaller sizes cannot exist: configuration 3519 B, lease database 141 B = one lease, filter list 0 B only as the middle version and 2 B instead of 1 B) x destination {present, absent} before x temporary-file placement " +
					"{next to destination, other directory}; per scenario two successive saves; (a) one real SIGKILL on entry to every file-system call touching the working directory between " +
					"the markers (every call of the kill set), destination then read back; (b) every power-loss state of the recorded log: prefix x namespace operations lost (any suffix not " +
					"followed by a directory sync) x data operations of the destination's file on disk (any prefix since its last fsync) x next write torn at {1,4095,4096,4097,n/2,n-1} bytes. " +
					"non-trivial = kill points strictly inside a save, and power-loss states in which something was lost",
			}
		},
		Assumptions: []string{
			"a kill lands on system-call entry; a torn single write(2) is represented only in the power-loss model (cut points 1, 4095, 4096, 4097, n/2, n-1), not by a real kill",
			"power-loss model: rename/unlink/link/create are atomic and reach the disk in issue order (ordered metadata); data operations of one file reach the disk in order; fsync/fdatasync makes that file's data durable; nothing else is assumed durable; choices for files the destination path does not name are factored out (the observation reads only the destination)",
			"the statement asks for atomicity, not durability: after a power loss any complete version written so far (or absence, if the file did not exist) is accepted; after a SIGKILL only the previous or the new version of the save in progress",
			"filter lists use lines of up to 60000 bytes so that a 1 MiB / 32 MiB refresh has an enumerable number of write calls (the parser issues one write per rule line)",
			"files written through a shared writable mapping or io_uring would be invisible; the recording run traces %file,%desc and the check fails as an engine error if any call it cannot interpret touches the working directory",
			"migration helpers (configmigrate/v1.go, dhcpd/migrate.go) and the post-upgrade write in parseConfig go through the same maybe.WriteFile and are not enumerated separately",
			"real kills run on tmpfs (/dev/shm): what a killed process leaves behind does not depend on the file system; what a power loss leaves behind is covered by the model only",
			"bounds: two successive saves per scenario (plus the creating save when the file was absent); sizes as listed; at 32 MiB the filter refresh is enumerated for one variant only (file present, temporary file next to it)",
		},
	})
}
