package main

// CHILD mode: one process that performs real saves through the real code path
// of one of the three writers (DESIGN.md §2.5, §4 C14).
//
//	c14 -child -kind config|leases|filter -dir D -size N -old 0|1 [-calib S] [-calibrate]
//
// Sequence: set-up; if -old 1, save generation 0 and sync it (file and
// directory); marker 1; save generation 1; marker 2; save generation 2;
// marker 3.  A marker is a stat() of D/.verif-c14-marker-<i>, visible in the
// system-call log and usable as a kill point.  All file work of the saves
// happens on the locked main thread.

import (
	"bytes"
	"flag"
	"fmt"
	"io"
	"log/slog"
	"net/http"
	"os"
	"os/signal"
	"path/filepath"
	"runtime"
	"strconv"
	"strings"
	"sync"
	"syscall"

	"github.com/AdguardTeam/AdGuardHome/internal/configmigrate"
	"github.com/AdguardTeam/AdGuardHome/internal/dhcpd"
	"github.com/AdguardTeam/AdGuardHome/internal/filtering"
	"github.com/AdguardTeam/AdGuardHome/internal/home"
	"github.com/AdguardTeam/golibs/log"
	"gopkg.in/yaml.v3"
)

const markerPrefix = ".verif-c14-marker-"

// saver is one of the three writers.
type saver interface {
	// prepare builds the real objects; dir exists and is empty (apart from
	// the temporary directory in the "other" mode).
	prepare(dir string) error
	// dest is the destination path.
	dest() string
	// calibrate returns the calibration string for the wanted size and the
	// size that will really be produced.
	calibrate(size int) (calib string, actual int, err error)
	// save stores generation gen.
	save(gen int, size int, calib string) error
}

// raceChildMain: two goroutines save the configuration concurrently, each with
// its own generation of content (free-running, under the race detector); at
// the end the file must be one complete encoding.  Exit code 0; data races are
// printed by the race detector, a torn final file as "TORN ...".
func raceChildMain(args []string) int {
	fs := flag.NewFlagSet("race", flag.ContinueOnError)
	dir := fs.String("dir", "", "working directory")
	rounds := fs.Int("rounds", 40, "saves per goroutine")
	if err := fs.Parse(args); err != nil {
		return 3
	}
	log.SetOutput(io.Discard)
	log.SetLevel(log.ERROR)
	slog.SetDefault(slog.New(slog.NewTextHandler(io.Discard, nil)))
	s := &configSaver{}
	if err := s.prepare(*dir); err != nil {
		fmt.Fprintln(os.Stderr, "child: prepare:", err)
		return 3
	}
	var wg sync.WaitGroup
	for g := 1; g <= 2; g++ {
		wg.Add(1)
		go func(g int) {
			defer wg.Done()
			for i := 0; i < *rounds; i++ {
				// Different sizes, so that a torn mix cannot be a valid document.
				home.VerifC14SetUserRules(configRules(g, 2000*g+i, 100))
				if err := home.VerifC14WriteConfig(); err != nil {
					fmt.Printf("SAVE-ERROR %v\n", err)
				}
			}
		}(g)
	}
	wg.Wait()
	data, err := os.ReadFile(s.dest())
	if err != nil {
		fmt.Printf("TORN cannot read the file: %v\n", err)
		return 0
	}
	var doc map[string]any
	if yerr := yaml.Unmarshal(data, &doc); yerr != nil {
		fmt.Printf("TORN the stored configuration does not parse: %v\n", yerr)
		return 0
	}
	rules, _ := doc["user_rules"].([]any)
	gen := ""
	for _, r := range rules {
		rs, _ := r.(string)
		g := ""
		switch {
		case strings.HasPrefix(rs, "||gen1.") || strings.Trim(rs, "b") == "":
			g = "1"
		case strings.HasPrefix(rs, "||gen2.") || strings.Trim(rs, "c") == "":
			g = "2"
		default:
			g = "?"
		}
		if gen == "" {
			gen = g
		} else if gen != g {
			fmt.Printf("TORN the stored user rules mix two saves (%s and %s)\n", gen, g)
			return 0
		}
	}
	fmt.Println("RACE-CHILD-DONE")
	return 0
}

func childMain(args []string) int {
	runtime.LockOSThread()

	fs := flag.NewFlagSet("child", flag.ContinueOnError)
	kind := fs.String("kind", "", "config|upgrade|leases|filter")
	dir := fs.String("dir", "", "working directory")
	size := fs.Int("size", 0, "wanted size of the file in bytes")
	old := fs.Int("old", 1, "1: establish generation 0 before the first marker")
	calib := fs.String("calib", "", "calibration string (from -calibrate)")
	doCalib := fs.Bool("calibrate", false, "print the calibration for -size and exit")
	fault := fs.String("fault", "", "fsize-half|fsize-last: file-size limit during save 1")
	if err := fs.Parse(args); err != nil {
		return 3
	}

	log.SetOutput(io.Discard)
	log.SetLevel(log.ERROR)
	slog.SetDefault(slog.New(slog.NewTextHandler(io.Discard, nil)))

	var s saver
	switch *kind {
	case "config":
		s = &configSaver{}
	case "upgrade":
		s = &upgradeSaver{}
	case "leases":
		s = &leaseSaver{}
	case "leasesreset":
		s = &leaseSaver{reset: true}
	case "filter":
		s = &filterSaver{}
	case "filterfail":
		s = &filterFailSaver{}
	case "filterlong":
		s = &filterLongSaver{}
	case "seturl":
		s = &setURLSaver{}
	case "seturlfail":
		s = &setURLSaver{failFirst: true}
	default:
		fmt.Fprintln(os.Stderr, "child: bad -kind")
		return 3
	}

	fail := func(what string, err error) int {
		fmt.Fprintf(os.Stderr, "child: %s: %v\n", what, err)
		return 3
	}

	if err := s.prepare(*dir); err != nil {
		return fail("prepare", err)
	}

	if *doCalib {
		cs, actual, err := s.calibrate(*size)
		if err != nil {
			return fail("calibrate", err)
		}
		fmt.Printf("calib=%s actual=%d\n", cs, actual)
		return 0
	}

	if *old == 1 {
		if err := s.save(0, *size, *calib); err != nil {
			return fail("save 0", err)
		}
		if err := syncPath(s.dest()); err != nil {
			return fail("sync", err)
		}
		if err := syncPath(filepath.Dir(s.dest())); err != nil {
			return fail("sync dir", err)
		}
	}

	for gen := 1; gen <= 2; gen++ {
		marker(*dir, gen)
		if ls, ok := s.(*leaseSaver); ok {
			ls.direct = gen == 1 && *fault != ""
		}
		if gen == 1 && *fault != "" {
			// The "disk" fills up: no file may grow beyond the limit.  SIGXFSZ
			// is ignored so that write(2) reports EFBIG like it reports ENOSPC.
			limit := uint64(*size / 2)
			if *fault == "fsize-last" {
				limit = uint64(*size - 1)
			}
			signal.Ignore(syscall.SIGXFSZ)
			var lim, prev syscall.Rlimit
			if err := syscall.Getrlimit(syscall.RLIMIT_FSIZE, &prev); err != nil {
				return fail("getrlimit", err)
			}
			lim = prev
			lim.Cur = limit
			if err := syscall.Setrlimit(syscall.RLIMIT_FSIZE, &lim); err != nil {
				return fail("setrlimit", err)
			}
			err := s.save(gen, *size, *calib)
			if rerr := syscall.Setrlimit(syscall.RLIMIT_FSIZE, &prev); rerr != nil {
				return fail("setrlimit back", rerr)
			}
			if ls, ok := s.(*leaseSaver); ok && err == nil {
				// onNotify only logs the error; ask the writer it calls.
				err = ls.lastErr
			}
			// A save that reports success here has either ignored the write error
			// or the limit was not in force; the parent tells the two apart by
			// the size of the file.
			_ = err
			continue
		}
		if err := s.save(gen, *size, *calib); err != nil {
			return fail("save "+strconv.Itoa(gen), err)
		}
	}
	marker(*dir, 3)

	return 0
}

func marker(dir string, i int) {
	_, _ = os.Stat(filepath.Join(dir, markerPrefix+strconv.Itoa(i)))
}

func syncPath(p string) error {
	f, err := os.Open(p)
	if err != nil {
		return err
	}
	defer f.Close()

	return f.Sync()
}

// ---- configuration file ----------------------------------------------------

type configSaver struct{ path string }

func (s *configSaver) prepare(dir string) error {
	s.path = filepath.Join(dir, "AdGuardHome.yaml")
	return home.VerifC14Init(s.path)
}

func (s *configSaver) dest() string { return s.path }

// configRules builds the user rules: a generation tag and pad filler
// characters in rules of chunk characters (the last one holds the rest + 1).
func configRules(gen, pad, chunk int) []string {
	rules := []string{fmt.Sprintf("||gen%d.c14.example^", gen)}
	if pad < 0 {
		return rules
	}
	// The filler differs between generations so that a mix of two versions
	// is not byte-equal to either.
	fill := string(rune('a' + gen))
	full := strings.Repeat(fill, chunk)
	for i := 0; i < pad/chunk; i++ {
		rules = append(rules, full)
	}
	return append(rules, strings.Repeat(fill, pad%chunk+1))
}

func (s *configSaver) calibrate(size int) (string, int, error) {
	home.VerifC14SetUserRules(configRules(0, -1, 1000))
	base, err := home.VerifC14EncodedSize()
	if err != nil {
		return "", 0, err
	}
	if size <= base {
		return "-1:1000", base, nil
	}
	for _, chunk := range []int{1000, 997, 991, 983} {
		pad := size - base
		for it := 0; it < 12 && pad >= 0; it++ {
			home.VerifC14SetUserRules(configRules(0, pad, chunk))
			n, err := home.VerifC14EncodedSize()
			if err != nil {
				return "", 0, err
			}
			if n == size {
				return fmt.Sprintf("%d:%d", pad, chunk), n, nil
			}
			pad -= n - size
		}
	}
	return "", 0, fmt.Errorf("cannot reach size %d (base %d)", size, base)
}

func (s *configSaver) save(gen, _ int, calib string) error {
	var pad, chunk int
	if _, err := fmt.Sscanf(calib, "%d:%d", &pad, &chunk); err != nil {
		return fmt.Errorf("bad calib %q", calib)
	}
	home.VerifC14SetUserRules(configRules(gen, pad, chunk))
	return home.VerifC14WriteConfig()
}

// ---- configuration file rewritten by the schema upgrade ----------------------

// upgradeSaver: generation 0 is a configuration file of the previous schema
// version; save 1 is the real loader (parseConfig), which upgrades the file and
// writes it back; save 2 is an ordinary configuration write.
type upgradeSaver struct {
	configSaver
	dir string
}

func (s *upgradeSaver) prepare(dir string) error {
	s.dir = dir
	return s.configSaver.prepare(dir)
}

func (s *upgradeSaver) save(gen, size int, calib string) error {
	switch gen {
	case 0:
		if err := s.configSaver.save(0, size, calib); err != nil {
			return err
		}
		data, err := os.ReadFile(s.path)
		if err != nil {
			return err
		}
		cur := fmt.Sprintf("schema_version: %d", configmigrate.LastSchemaVersion)
		if !strings.Contains(string(data), cur) {
			return fmt.Errorf("no %q in the written configuration", cur)
		}
		old := strings.Replace(string(data), cur, fmt.Sprintf("schema_version: %d", configmigrate.LastSchemaVersion-1), 1)
		return os.WriteFile(s.path, []byte(old), 0o644)
	case 1:
		// A constant work directory: the upgrade stores paths derived from it in the
		// file, and the file content must not depend on the run's directory.
		return home.VerifC14ParseConfig("/nonexistent-verif-c14-workdir")
	default:
		return s.configSaver.save(gen, size, calib)
	}
}

// ---- lease database --------------------------------------------------------

type leaseSaver struct {
	vs *dhcpd.VerifC14Server
	// direct: call dbStore itself (to learn its error) instead of onNotify.
	direct  bool
	lastErr error
	// reset: save 1 is the other operation that stores the database, "reset
	// leases" (what POST /control/dhcp/reset_leases runs): every lease is
	// dropped and the database stored; its complete new version is the
	// document without leases.  Saves 0 and 2 are ordinary lease changes.
	reset bool
}

func (s *leaseSaver) prepare(dir string) (err error) {
	data := filepath.Join(dir, "data")
	if err = os.MkdirAll(data, 0o755); err != nil {
		return err
	}
	s.vs, err = dhcpd.VerifC14New(data)
	return err
}

func (s *leaseSaver) dest() string { return s.vs.DBPath() }

func (s *leaseSaver) calibrate(size int) (string, int, error) {
	sizeOf := func(n int) int {
		s.vs.SetLeases("g0", n, 0)
		return s.vs.EncodedSize()
	}
	one := sizeOf(1)
	if size <= one {
		return "1:0", one, nil
	}
	// The largest n whose document fits; the rest is host-name padding.
	lo, hi := 1, size/64+2
	for lo < hi {
		mid := (lo + hi + 1) / 2
		if sizeOf(mid) <= size {
			lo = mid
		} else {
			hi = mid - 1
		}
	}
	return fmt.Sprintf("%d:%d", lo, size-sizeOf(lo)), size, nil
}

func (s *leaseSaver) save(gen, _ int, calib string) error {
	var n, pad int
	if _, err := fmt.Sscanf(calib, "%d:%d", &n, &pad); err != nil {
		return fmt.Errorf("bad calib %q", calib)
	}
	if s.reset && gen == 1 {
		return s.vs.Reset()
	}
	s.vs.SetLeases("g"+strconv.Itoa(gen), n, pad)
	if s.direct {
		s.lastErr = s.vs.StoreErr()
		return nil
	}
	s.vs.Store()
	return nil
}

// ---- filter list -----------------------------------------------------------

const filterURL = "http://lists.c14.example/list.txt"

// maxLine is the length of the filler lines: the parser writes every rule line
// with its own write(2), so long lines keep the number of system calls of a
// 32 MiB refresh enumerable (the scanner accepts lines up to 64 KiB).
const maxLine = 60000

type fakeTransport struct {
	body []byte
	// cut, if positive, makes the body fail with io.ErrUnexpectedEOF after cut
	// bytes (the connection breaks in the middle of the download).
	cut int
}

// cutReader delivers data and then fails.
type cutReader struct {
	data []byte
	err  error
}

func (r *cutReader) Read(p []byte) (n int, err error) {
	if len(r.data) == 0 {
		return 0, r.err
	}
	n = copy(p, r.data)
	r.data = r.data[n:]
	return n, nil
}

func (t *fakeTransport) RoundTrip(req *http.Request) (*http.Response, error) {
	if !strings.HasPrefix(req.URL.String(), filterURL) {
		return nil, fmt.Errorf("verif: unexpected request to %s", req.URL)
	}
	return &http.Response{
		Status: "200 OK", StatusCode: http.StatusOK,
		Proto: "HTTP/1.1", ProtoMajor: 1, ProtoMinor: 1,
		Header:        http.Header{"Content-Type": []string{"text/plain"}},
		Body:          t.bodyReader(),
		ContentLength: int64(len(t.body)), Request: req,
	}, nil
}

func (t *fakeTransport) bodyReader() io.ReadCloser {
	if t.cut > 0 && t.cut < len(t.body) {
		return io.NopCloser(&cutReader{data: t.body[:t.cut], err: io.ErrUnexpectedEOF})
	}
	return io.NopCloser(bytes.NewReader(t.body))
}

type filterSaver struct {
	d    *filtering.DNSFilter
	tr   *fakeTransport
	path string
}

func (s *filterSaver) prepare(dir string) (err error) {
	data := filepath.Join(dir, "data")
	s.tr = &fakeTransport{}
	conf := &filtering.Config{
		DataDir:    data,
		HTTPClient: &http.Client{Transport: s.tr},
		Filters: []filtering.FilterYAML{{
			Enabled: true, URL: filterURL, Name: "c14 list", Filter: filtering.Filter{ID: 1},
		}},
		FilteringEnabled:           true,
		ProtectionEnabled:          true,
		FiltersUpdateIntervalHours: 24,
		ConfigModified:             func() {},
	}
	s.d, err = filtering.New(conf, nil)
	if err != nil {
		return err
	}
	s.d.EnableFilters(false)
	s.path = conf.Filters[0].Path(data)
	return nil
}

func (s *filterSaver) dest() string { return s.path }

// filterBody is what the server returns for generation gen; the stored form
// (comments dropped, one rule per line) has exactly size bytes, except that
// size 0 means "generation 1 has no rules" and size 1 cannot exist.
func filterBody(gen, size int) []byte {
	tag := fmt.Sprintf("||g%d.c14.example^", gen)
	fill := string(rune('a' + gen)) // differs between generations
	var b bytes.Buffer
	b.WriteString("! C14 list, generation " + strconv.Itoa(gen) + "\n")
	switch {
	case size == 0:
		if gen != 1 {
			b.WriteString(tag + "\n")
		}
		return b.Bytes()
	case size <= len(tag):
		if size < 2 {
			size = 2
		}
		b.WriteString(strconv.Itoa(gen) + strings.Repeat(fill, size-2) + "\n")
		return b.Bytes()
	}
	rem := size - len(tag) - 1
	if rem == 1 {
		tag += fill
		rem = 0
	}
	b.WriteString(tag + "\n")
	for rem > 0 {
		n := rem
		if n > maxLine+1 {
			n = maxLine + 1
		}
		if rem-n == 1 {
			n--
		}
		b.WriteString(strings.Repeat(fill, n-1) + "\n")
		rem -= n
	}
	return b.Bytes()
}

func (s *filterSaver) calibrate(size int) (string, int, error) {
	if size == 1 {
		size = 2
	}
	return "-", size, nil
}

// filterFailSaver: save 1 is a refresh whose download breaks half-way (the
// stored list must stay the previous version at every instant and afterwards);
// save 2 is a successful refresh.
type filterFailSaver struct{ filterSaver }

func (s *filterFailSaver) save(gen, size int, calib string) error {
	if gen != 1 {
		return s.filterSaver.save(gen, size, calib)
	}
	s.tr.body = filterBody(gen, size)
	s.tr.cut = len(s.tr.body) / 2
	defer func() { s.tr.cut = 0 }()
	updated, _, ok := s.d.VerifC14Refresh()
	if !ok || updated != 0 {
		// Reported by the parent: the destination differs from the old version.
		return nil
	}
	return nil
}

// filterLongSaver: save 1 is a refresh whose new version holds, after some
// rules, a line longer than the parser accepts (64 KiB): the refresh fails and
// the stored list must stay the previous version; save 2 succeeds.
type filterLongSaver struct{ filterSaver }

func (s *filterLongSaver) save(gen, size int, calib string) error {
	if gen != 1 {
		return s.filterSaver.save(gen, size, calib)
	}
	body := filterBody(gen, size)
	body = append(body, []byte("||before-the-long-line.c14.example^\n"+strings.Repeat("z", 70000)+"\n||after-the-long-line.c14.example^\n")...)
	s.tr.body = body
	_, _, _ = s.d.VerifC14Refresh()
	return nil
}

func (s *filterSaver) save(gen, size int, _ string) error {
	s.tr.body = filterBody(gen, size)
	updated, netErr, ok := s.d.VerifC14Refresh()
	if !ok || netErr || updated != 1 {
		return fmt.Errorf("refresh: updated=%d netErr=%v ok=%v", updated, netErr, ok)
	}
	return nil
}

// ---- filter list whose address is changed ------------------------------------

// setURLSaver: every save changes the address of the list through
// filterSetProperties (what POST /control/filtering/set_url runs), which
// downloads the list from the new address into the same file.  With failFirst
// the download of save 1 breaks half-way: the change is refused and the stored
// list must stay the previous version.
type setURLSaver struct {
	filterSaver
	failFirst bool
	cur       string
}

func (s *setURLSaver) save(gen, size int, calib string) error {
	if gen == 0 {
		s.cur = filterURL
		return s.filterSaver.save(gen, size, calib)
	}
	next := filterURL + "?generation=" + strconv.Itoa(gen)
	s.tr.body = filterBody(gen, size)
	if s.failFirst && gen == 1 {
		s.tr.cut = len(s.tr.body) / 2
		defer func() { s.tr.cut = 0 }()
		if _, err := s.d.VerifC14SetURL(s.cur, next); err == nil {
			// Judged by the parent: the stored list must still be the previous
			// version.  The list now has the new address.
			s.cur = next
		}
		return nil
	}
	if _, err := s.d.VerifC14SetURL(s.cur, next); err != nil {
		return fmt.Errorf("set_url: %w", err)
	}
	s.cur = next
	return nil
}
