package main

// Parsing of `strace -f -y` logs into events.

import (
	"bufio"
	"fmt"
	"os"
	"regexp"
	"strconv"
	"strings"
)

// event is one system-call invocation, in order of entry.
type event struct {
	Line int    // first line in the log (1-based)
	Tid  int    // thread
	Name string // system-call name
	Args []string
	Ret  string // text after " = ", "?" when the call never returned
	// Occ is the number of invocations of Name by Tid up to and including
	// this one, counting every invocation in the trace: this is the counter
	// strace's `inject=NAME:when=Occ` uses.
	Occ int
	// Paths are the absolute paths named by the arguments (quoted strings and
	// descriptor annotations).
	Paths []string
	// Rel reports whether one of Paths or the path of the returned descriptor
	// lies in the working directory.
	Rel bool
	// Done is false if the call was never seen returning.
	Done bool
}

func (e *event) killed() bool { return !e.Done || e.Ret == "?" }

func (e *event) retInt() (n int64, ok bool) {
	f := e.Ret
	if i := strings.IndexAny(f, " <"); i >= 0 {
		f = f[:i]
	}
	n, err := strconv.ParseInt(f, 0, 64)
	return n, err == nil
}

var (
	reEntry   = regexp.MustCompile(`^(\d+)\s+([a-z_0-9]+)\((.*)$`)
	reResumed = regexp.MustCompile(`^(\d+)\s+<\.\.\. ([a-z_0-9]+) resumed>(.*)$`)
)

// splitArgs splits a strace argument list at top-level commas.
func splitArgs(s string) (args []string) {
	depth, inStr, esc, start := 0, false, false, 0
	for i := 0; i < len(s); i++ {
		ch := s[i]
		switch {
		case inStr:
			if esc {
				esc = false
			} else if ch == '\\' {
				esc = true
			} else if ch == '"' {
				inStr = false
			}
		case ch == '"':
			inStr = true
		case ch == '{' || ch == '[' || ch == '<' || ch == '(':
			depth++
		case ch == '}' || ch == ']' || ch == '>' || ch == ')':
			if depth > 0 {
				depth--
			}
		case ch == ',' && depth == 0:
			args = append(args, strings.TrimSpace(s[start:i]))
			start = i + 1
		}
	}
	if t := strings.TrimSpace(s[start:]); t != "" {
		args = append(args, t)
	}
	return args
}

var reRet = regexp.MustCompile(`^(.*)\)\s+= (.*)$`)

// splitRet cuts "args) = ret" into args and ret.  The separator is the last
// ")<blanks>= " of the line (strace pads short lines).
func splitRet(s string) (args, ret string, ok bool) {
	m := reRet.FindStringSubmatch(s)
	if m == nil {
		return s, "", false
	}
	return m[1], strings.TrimSpace(m[2]), true
}

// dataCalls are the calls whose quoted arguments are data, not paths.
var dataCalls = map[string]bool{
	"write": true, "pwrite64": true, "read": true, "pread64": true, "writev": true, "readv": true,
	"pwritev": true, "preadv": true, "pwritev2": true, "preadv2": true, "sendto": true, "recvfrom": true,
	"sendmsg": true, "recvmsg": true, "getrandom": true,
}

var reAnnot = regexp.MustCompile(`^(-?\d+|AT_FDCWD)<(.*)>$`)

// argPaths extracts the absolute paths an argument names.
func argPaths(a string) (ps []string) {
	if m := reAnnot.FindStringSubmatch(a); m != nil {
		p := strings.TrimSuffix(m[2], " (deleted)")
		if strings.HasPrefix(p, "/") && m[1] != "AT_FDCWD" {
			ps = append(ps, p)
		}
		return ps
	}
	if strings.HasPrefix(a, `"/`) {
		if q, err := strconv.Unquote(strings.TrimSuffix(a, "...")); err == nil {
			ps = append(ps, q)
		}
	}
	return ps
}

// fdOf returns the descriptor number of an annotated argument.
func fdOf(a string) (fd int, ok bool) {
	if i := strings.IndexByte(a, '<'); i >= 0 {
		a = a[:i]
	}
	fd, err := strconv.Atoi(a)
	return fd, err == nil
}

func unq(a string) string {
	q, err := strconv.Unquote(a)
	if err != nil {
		return a
	}
	return q
}

func inDir(p, dir string) bool { return p == dir || strings.HasPrefix(p, dir+"/") }

// parseLog reads a strace log; dir is the working directory of the run.
func parseLog(path, dir string) (evs []*event, err error) {
	f, err := os.Open(path)
	if err != nil {
		return nil, err
	}
	defer f.Close()

	pending := map[int]*event{}
	pendingArgs := map[int]string{}
	occ := map[string]int{}
	finish := func(e *event, argText, ret string, done bool) {
		e.Args = splitArgs(argText)
		e.Ret, e.Done = ret, done
		e.Paths = nil
		for _, a := range e.Args {
			if dataCalls[e.Name] && strings.HasPrefix(a, `"`) {
				continue // a data buffer, not a path
			}
			e.Paths = append(e.Paths, argPaths(a)...)
		}
		e.Rel = false
		all := e.Paths
		if done {
			all = append(append([]string{}, all...), argPaths(strings.Fields(ret + " x")[0])...)
		}
		for _, p := range all {
			if inDir(p, dir) {
				e.Rel = true
			}
		}
	}

	sc := bufio.NewScanner(f)
	sc.Buffer(make([]byte, 1<<20), 1<<24)
	ln := 0
	for sc.Scan() {
		ln++
		line := sc.Text()
		if m := reResumed.FindStringSubmatch(line); m != nil {
			tid, _ := strconv.Atoi(m[1])
			e := pending[tid]
			if e == nil || e.Name != m[2] {
				return nil, fmt.Errorf("%s:%d: resumed without entry", path, ln)
			}
			rest, ret, ok := splitRet(m[3])
			finish(e, pendingArgs[tid]+rest, ret, ok)
			delete(pending, tid)
			delete(pendingArgs, tid)
			continue
		}
		m := reEntry.FindStringSubmatch(line)
		if m == nil {
			continue // signals, exits
		}
		tid, _ := strconv.Atoi(m[1])
		e := &event{Line: ln, Tid: tid, Name: m[2]}
		key := m[1] + ":" + m[2]
		occ[key]++
		e.Occ = occ[key]
		evs = append(evs, e)
		rest := m[3]
		if strings.HasSuffix(rest, " <unfinished ...>") {
			pending[tid] = e
			pendingArgs[tid] = strings.TrimSuffix(rest, " <unfinished ...>")
			// Paths known so far, in case it never resumes.
			finish(e, pendingArgs[tid], "?", false)
			continue
		}
		argText, ret, ok := splitRet(rest)
		if !ok {
			// e.g. exit_group(0) = ?  is matched above; anything else is a
			// line cut by the kill.
			finish(e, rest, "?", false)
			continue
		}
		finish(e, argText, ret, true)
	}
	return evs, sc.Err()
}

var reTmpName = regexp.MustCompile(`(/\.[^/]*?)\d{3,}$`)

// normPath makes a path comparable between runs: the working directory and
// the random suffix of temporary files are replaced.
func normPath(p, dir string) string {
	if inDir(p, dir) {
		p = "$D" + p[len(dir):]
	}
	return reTmpName.ReplaceAllString(p, "$1#")
}

// sig is the run-independent signature of a relevant event.
func (e *event) sig(dir string) string {
	var b strings.Builder
	b.WriteString(e.Name)
	for _, p := range e.Paths {
		if inDir(p, dir) {
			b.WriteByte(' ')
			b.WriteString(normPath(p, dir))
		}
	}
	switch e.Name {
	case "write", "pwrite64", "ftruncate", "truncate":
		b.WriteString(" n=" + e.Args[len(e.Args)-1])
	case "openat", "open":
		for _, a := range e.Args {
			if strings.HasPrefix(a, "O_") {
				b.WriteString(" " + a)
			}
		}
	}
	return b.String()
}

// relevant returns the events touching dir.
func relevant(evs []*event) (out []*event) {
	for _, e := range evs {
		if e.Rel {
			out = append(out, e)
		}
	}
	return out
}
