package main

// Power-loss model over a recorded system-call log (DESIGN.md §2.5 (b)).
//
// What the model assumes about the file system (stated in the evidence):
//
//   - rename, unlink, link, create are atomic, and namespace operations reach
//     the disk in the order they were issued (ordered metadata journal): after
//     a power loss the last r namespace operations that were not followed by a
//     directory fsync / sync are lost, for any r.
//   - data operations of one file (write, pwrite, truncate, O_TRUNC) reach the
//     disk in order, independently of other files and of the namespace: after
//     a power loss any prefix of the operations issued since that file's last
//     fsync/fdatasync survives, the next write possibly cut in the middle.
//   - fsync/fdatasync(fd) returning makes all earlier data operations of that
//     file durable; it is NOT assumed to make namespace operations durable.
//   - everything done before marker 1 is durable (the child syncs it).
//
// A SIGKILL of the process loses nothing: all completed calls are in force.

import (
	"bytes"
	"fmt"
	"path/filepath"
	"sort"
	"strconv"
	"strings"
)

const (
	srcZero = -1 // a hole
	// sources <= srcOpaque are unknown data, each write its own.
	srcOpaque = -2
)

// seg is N bytes taken from offset Off of version Src.
type seg struct {
	Src    int
	Off, N int64
}

type content []seg

func (c content) size() (n int64) {
	for _, s := range c {
		n += s.N
	}
	return n
}

func (c content) norm() (out content) {
	for _, s := range c {
		if s.N == 0 {
			continue
		}
		if l := len(out); l > 0 {
			p := &out[l-1]
			if p.Src == s.Src && (s.Src == srcZero || (s.Src >= 0 && p.Off+p.N == s.Off)) {
				p.N += s.N
				continue
			}
		}
		out = append(out, s)
	}
	return out
}

// slice returns bytes [from, to) of c.
func (c content) slice(from, to int64) (out content) {
	pos := int64(0)
	for _, s := range c {
		a, b := pos, pos+s.N
		pos = b
		if b <= from || a >= to {
			continue
		}
		lo, hi := max(a, from), min(b, to)
		off := s.Off
		if s.Src >= 0 {
			off += lo - a
		}
		out = append(out, seg{Src: s.Src, Off: off, N: hi - lo})
	}
	return out
}

func (c content) truncate(n int64) content {
	sz := c.size()
	if n <= sz {
		return c.slice(0, n).norm()
	}
	return append(append(content{}, c...), seg{Src: srcZero, N: n - sz}).norm()
}

func (c content) writeAt(off int64, s seg) content {
	sz := c.size()
	var out content
	if off > sz {
		out = append(out, c...)
		out = append(out, seg{Src: srcZero, N: off - sz})
	} else {
		out = append(out, c.slice(0, off)...)
	}
	out = append(out, s)
	if end := off + s.N; end < sz {
		out = append(out, c.slice(end, sz)...)
	}
	return out.norm()
}

func (c content) String() string {
	if len(c) == 0 {
		return "<empty>"
	}
	var parts []string
	for _, s := range c {
		switch {
		case s.Src == srcZero:
			parts = append(parts, fmt.Sprintf("zeros[%d]", s.N))
		case s.Src <= srcOpaque:
			parts = append(parts, fmt.Sprintf("unknown[%d]", s.N))
		default:
			parts = append(parts, fmt.Sprintf("v%d[%d:%d]", s.Src, s.Off, s.Off+s.N))
		}
	}
	return strings.Join(parts, "+")
}

// dataOp is one data operation on an inode.
type dataOp struct {
	Ev    int // index in the relevant-event list
	Trunc bool
	Off   int64
	N     int64 // write: bytes written; truncate: new size
	Src   int
}

type syncPoint struct{ Ev, Count int }

type inodeM struct {
	ID    int
	Dir   bool
	Base  content // durable content at marker 1
	Cur   content // content with everything applied (build time)
	Ops   []dataOp
	Syncs []syncPoint
	// states[d] is the content with the first d operations applied.
	states []content
}

func (in *inodeM) opsBefore(p int) int {
	return sort.Search(len(in.Ops), func(i int) bool { return in.Ops[i].Ev >= p })
}

func (in *inodeM) syncedBefore(p int) (n int) {
	for _, s := range in.Syncs {
		if s.Ev < p && s.Count > n {
			n = s.Count
		}
	}
	return n
}

func (in *inodeM) state(d int) content {
	if in.states == nil {
		in.states = make([]content, len(in.Ops)+1)
		cur := in.Base
		in.states[0] = cur
		for i, op := range in.Ops {
			cur = applyOp(cur, op, op.N)
			in.states[i+1] = cur
		}
	}
	return in.states[d]
}

func applyOp(c content, op dataOp, n int64) content {
	if op.Trunc {
		return c.truncate(op.N)
	}
	return c.writeAt(op.Off, seg{Src: op.Src, Off: op.Off, N: n})
}

type nsOp struct {
	Ev   int
	Kind string // create, rename, unlink, link
	A, B string
	Ino  int
}

type fdEnt struct {
	ino    *inodeM
	off    int64
	append bool
	write  bool
	path   string
}

// model is built from one recorded run.
type model struct {
	dir, dest string
	rel       []*event
	markers   [3]int // indexes of markers 1..3 in rel
	versions  [3][]byte
	hasV0     bool

	inodes  []*inodeM
	initNS  map[string]int // namespace at marker 1
	nsOps   []nsOp
	dirSync []syncPoint
	// unmodelled lists calls in the window that touch the directory and that
	// the model cannot interpret.
	unmodelled []string
	classMemo  map[string]string
}

// harmless are calls without effect on content, names or durability.
var harmless = map[string]bool{
	"newfstatat": true, "fstat": true, "stat": true, "lstat": true, "statx": true, "access": true,
	"faccessat": true, "faccessat2": true, "readlink": true, "readlinkat": true, "read": true, "pread64": true,
	"readv": true, "preadv": true, "getdents64": true, "fcntl": true, "epoll_ctl": true, "ioctl": true,
	"fchmod": true, "fchmodat": true, "chmod": true, "fchown": true, "fchownat": true, "chown": true,
	"utimensat": true, "utimes": true, "futimesat": true, "fadvise64": true, "flock": true, "statfs": true,
	"fstatfs": true, "chdir": true, "fchdir": true, "getxattr": true, "lgetxattr": true, "fgetxattr": true,
	"execve": true, "inotify_add_watch": true,
}

// findMarkers locates the three marker calls among the relevant events.
func findMarkers(rel []*event, dir string) (ms [3]int, err error) {
	for j := 0; j < 3; j++ {
		ms[j] = -1
		want := filepath.Join(dir, markerPrefix+strconv.Itoa(j+1))
		for i, e := range rel {
			if e.Name == "newfstatat" && len(e.Paths) > 0 && e.Paths[len(e.Paths)-1] == want {
				ms[j] = i
				break
			}
		}
		if ms[j] < 0 {
			return ms, fmt.Errorf("marker %d not in the log", j+1)
		}
	}
	return ms, nil
}

// pathArgs returns the quoted path arguments of e, in order.
func pathArgs(e *event) (ps []string) {
	for _, a := range e.Args {
		if strings.HasPrefix(a, `"`) {
			ps = append(ps, unq(a))
		}
	}
	return ps
}

// buildModel interprets the recorded run.  versions[j] is the content of the
// destination at marker j+1 (versions[0] nil and hasV0 false if absent).
func buildModel(rel []*event, dir, dest string, versions [3][]byte, hasV0 bool) (m *model, err error) {
	m = &model{dir: dir, dest: dest, rel: rel, versions: versions, hasV0: hasV0}
	if m.markers, err = findMarkers(rel, dir); err != nil {
		return nil, err
	}

	// Pass 1 finds the inode the destination names at each marker; pass 2
	// attributes the written data: a write to inode X is data of version j if
	// X is the destination at the next marker j (then the bytes written at
	// offset o are versions[j][o:o+n], checked at the end).
	var destIno [3]int
	for pass := 1; pass <= 2; pass++ {
		m.inodes, m.nsOps, m.dirSync, m.unmodelled = nil, nil, nil, nil
		ns := map[string]int{}
		fds := map[int]*fdEnt{}
		opaque := srcOpaque
		newInode := func(dir bool) *inodeM {
			in := &inodeM{ID: len(m.inodes), Dir: dir}
			m.inodes = append(m.inodes, in)
			return in
		}
		lookup := func(p string, isDir bool) *inodeM {
			if id, ok := ns[p]; ok {
				return m.inodes[id]
			}
			// Existed before the trace knew it (working directory itself,
			// the temporary directory): durable, unknown content.
			in := newInode(isDir)
			if !isDir {
				opaque--
			}
			ns[p] = in.ID
			return in
		}
		inWindow := false
		nextMarker := 0
		for i, e := range rel {
			for nextMarker < 3 && m.markers[nextMarker] < i {
				nextMarker++
			}
			if i == m.markers[0] {
				inWindow = true
				m.initNS = map[string]int{}
				for k, v := range ns {
					m.initNS[k] = v
				}
				for _, in := range m.inodes {
					in.Base, in.Ops, in.Syncs = in.Cur, nil, nil
				}
				m.nsOps, m.dirSync = nil, nil
			}
			for j := 0; j < 3; j++ {
				if i == m.markers[j] {
					destIno[j] = -1
					if id, ok := ns[dest]; ok {
						destIno[j] = id
					}
				}
			}
			if !e.Done {
				continue
			}
			ret, _ := e.retInt()
			srcFor := func(in *inodeM) int {
				if pass == 2 && nextMarker < 3 && destIno[nextMarker] == in.ID {
					return nextMarker
				}
				opaque--
				return opaque
			}
			addOp := func(in *inodeM, op dataOp) {
				op.Ev = i
				in.Ops = append(in.Ops, op)
				in.Cur = applyOp(in.Cur, op, op.N)
			}
			addNS := func(op nsOp) {
				op.Ev = i
				m.nsOps = append(m.nsOps, op)
			}
			note := func(what string) {
				if inWindow {
					m.unmodelled = append(m.unmodelled, fmt.Sprintf("line %d: %s (%s)", e.Line, e.Name, what))
				}
			}
			switch e.Name {
			case "openat", "open", "creat":
				if ret < 0 {
					continue
				}
				ps := pathArgs(e)
				if len(ps) != 1 || !filepath.IsAbs(ps[0]) {
					note("path")
					continue
				}
				p := filepath.Clean(ps[0])
				flags := strings.Join(e.Args, ",")
				if e.Name == "creat" {
					flags = "O_WRONLY|O_CREAT|O_TRUNC"
				}
				has := func(f string) bool { return strings.Contains(flags, f) }
				_, known := ns[p]
				var in *inodeM
				switch {
				case known:
					in = m.inodes[ns[p]]
				case has("O_CREAT") && inDir(p, dir):
					in = newInode(false)
					ns[p] = in.ID
					addNS(nsOp{Kind: "create", A: p, Ino: in.ID})
				default:
					in = lookup(p, has("O_DIRECTORY"))
				}
				if has("O_TRUNC") && (has("O_WRONLY") || has("O_RDWR")) && in.Cur.size() > 0 {
					addOp(in, dataOp{Trunc: true, N: 0})
				}
				fds[int(ret)] = &fdEnt{ino: in, append: has("O_APPEND"), write: has("O_WRONLY") || has("O_RDWR"), path: p}
			case "close":
				if fd, ok := fdOf(e.Args[0]); ok {
					delete(fds, fd)
				}
			case "write", "pwrite64":
				fd, _ := fdOf(e.Args[0])
				fe := fds[fd]
				if fe == nil {
					note("unknown descriptor")
					continue
				}
				if ret <= 0 {
					continue
				}
				off := fe.off
				if fe.append {
					off = fe.ino.Cur.size()
				}
				if e.Name == "pwrite64" {
					if off, err = strconv.ParseInt(e.Args[len(e.Args)-1], 0, 64); err != nil {
						note("offset")
						continue
					}
				} else {
					fe.off = off + ret
				}
				addOp(fe.ino, dataOp{Off: off, N: ret, Src: srcFor(fe.ino)})
			case "ftruncate", "truncate":
				if ret != 0 {
					continue
				}
				n, perr := strconv.ParseInt(e.Args[len(e.Args)-1], 0, 64)
				if perr != nil {
					note("length")
					continue
				}
				var in *inodeM
				if e.Name == "ftruncate" {
					fd, _ := fdOf(e.Args[0])
					if fe := fds[fd]; fe != nil {
						in = fe.ino
					}
				} else if ps := pathArgs(e); len(ps) == 1 {
					in = lookup(filepath.Clean(ps[0]), false)
				}
				if in == nil {
					note("unknown file")
					continue
				}
				addOp(in, dataOp{Trunc: true, N: n})
			case "fsync", "fdatasync":
				if ret != 0 {
					continue
				}
				fd, _ := fdOf(e.Args[0])
				fe := fds[fd]
				if fe == nil {
					note("unknown descriptor")
					continue
				}
				if fe.ino.Dir || m.isDir(fe.path, ns) {
					m.dirSync = append(m.dirSync, syncPoint{Ev: i, Count: len(m.nsOps)})
				} else {
					fe.ino.Syncs = append(fe.ino.Syncs, syncPoint{Ev: i, Count: len(fe.ino.Ops)})
				}
			case "sync", "syncfs":
				m.dirSync = append(m.dirSync, syncPoint{Ev: i, Count: len(m.nsOps)})
				for _, in := range m.inodes {
					in.Syncs = append(in.Syncs, syncPoint{Ev: i, Count: len(in.Ops)})
				}
			case "rename", "renameat", "renameat2":
				if ret != 0 {
					continue
				}
				ps := pathArgs(e)
				if len(ps) != 2 || strings.Contains(strings.Join(e.Args, ","), "RENAME_EXCHANGE") {
					note("form")
					continue
				}
				a, b := filepath.Clean(ps[0]), filepath.Clean(ps[1])
				in := lookup(a, false)
				delete(ns, a)
				ns[b] = in.ID
				addNS(nsOp{Kind: "rename", A: a, B: b})
			case "unlink", "unlinkat", "rmdir":
				if ret != 0 {
					continue
				}
				if ps := pathArgs(e); len(ps) == 1 {
					a := filepath.Clean(ps[0])
					lookup(a, false)
					delete(ns, a)
					addNS(nsOp{Kind: "unlink", A: a})
				} else {
					note("form")
				}
			case "link", "linkat":
				if ret != 0 {
					continue
				}
				if ps := pathArgs(e); len(ps) == 2 {
					a, b := filepath.Clean(ps[0]), filepath.Clean(ps[1])
					in := lookup(a, false)
					ns[b] = in.ID
					addNS(nsOp{Kind: "link", A: a, B: b})
				} else {
					note("form")
				}
			case "mkdir", "mkdirat":
				if ret != 0 {
					continue
				}
				if ps := pathArgs(e); len(ps) == 1 {
					in := newInode(true)
					ns[filepath.Clean(ps[0])] = in.ID
				}
			case "mmap":
				if strings.Contains(strings.Join(e.Args, ","), "MAP_SHARED") && strings.Contains(strings.Join(e.Args, ","), "PROT_WRITE") {
					note("shared writable mapping")
				}
			case "lseek":
				fd, _ := fdOf(e.Args[0])
				if fe := fds[fd]; fe != nil && fe.write {
					note("seek on a descriptor open for writing")
				}
			default:
				if !harmless[e.Name] {
					note("not modelled")
				}
			}
		}
	}

	// The model must reproduce what was observed at the markers.
	for j := 0; j < 3; j++ {
		got, present := m.eval(m.markers[j], 0, -1, 0)
		if j == 0 && !hasV0 {
			if present {
				return m, fmt.Errorf("model: destination present at marker 1, observed absent")
			}
			continue
		}
		if !present || !m.equalsVersion(got, j) {
			return m, fmt.Errorf("model: destination at marker %d is %v (present=%v), observed version %d of %d bytes",
				j+1, got, present, j, len(versions[j]))
		}
	}
	return m, nil
}

func (m *model) isDir(p string, ns map[string]int) bool {
	if p == m.dir {
		return true
	}
	for q := range ns {
		if strings.HasPrefix(q, p+"/") {
			return true
		}
	}
	return false
}

func (m *model) nsBefore(p int) int {
	return sort.Search(len(m.nsOps), func(i int) bool { return m.nsOps[i].Ev >= p })
}

func (m *model) nsSyncedBefore(p int) (n int) {
	for _, s := range m.dirSync {
		if s.Ev < p && s.Count > n {
			n = s.Count
		}
	}
	return n
}

// destInode replays the first n namespace operations.
func (m *model) destInode(n int) (ino int, present bool) {
	ns := map[string]int{}
	for k, v := range m.initNS {
		ns[k] = v
	}
	for _, op := range m.nsOps[:n] {
		switch op.Kind {
		case "create":
			ns[op.A] = op.Ino
		case "rename":
			if id, ok := ns[op.A]; ok {
				delete(ns, op.A)
				ns[op.B] = id
			}
		case "unlink":
			delete(ns, op.A)
		case "link":
			if id, ok := ns[op.A]; ok {
				ns[op.B] = id
			}
		}
	}
	ino, present = ns[m.dest]
	return ino, present
}

// eval returns the destination's content after a crash with the first p
// events executed, the last r namespace operations lost, and only the first d
// data operations of the destination's inode on disk (d < 0: all of them),
// followed by torn bytes of the next write.
func (m *model) eval(p, r, d int, torn int64) (c content, present bool) {
	ino, present := m.destInode(m.nsBefore(p) - r)
	if !present {
		return nil, false
	}
	in := m.inodes[ino]
	if d < 0 {
		d = in.opsBefore(p)
	}
	c = in.state(d)
	if torn > 0 {
		c = applyOp(c, in.Ops[d], torn)
	}
	return c, true
}

func (m *model) equalsVersion(c content, j int) bool {
	if j == 0 && !m.hasV0 {
		return false
	}
	v := m.versions[j]
	if c.size() != int64(len(v)) {
		return false
	}
	if len(c) == 0 {
		return true
	}
	if len(c) == 1 && c[0].Src == j && c[0].Off == 0 {
		return true
	}
	b, ok := m.materialize(c)
	return ok && bytes.Equal(b, v)
}

// materialize turns symbolic content into bytes; ok is false if it contains
// unknown data.
func (m *model) materialize(c content) (b []byte, ok bool) {
	b = make([]byte, 0, c.size())
	for _, s := range c {
		switch {
		case s.Src == srcZero:
			b = append(b, make([]byte, s.N)...)
		case s.Src >= 0:
			v := m.versions[s.Src]
			if s.Off+s.N > int64(len(v)) {
				return nil, false
			}
			b = append(b, v[s.Off:s.Off+s.N]...)
		default:
			return nil, false
		}
	}
	return b, true
}

// classify names the state of the destination given by bytes (or symbolic
// content): "v0".."v2", "absent", "empty", "truncated", "mixed".
func (m *model) classifyContent(c content, present bool) (class string) {
	if !present {
		return "absent"
	}
	key := c.String()
	if m.classMemo == nil {
		m.classMemo = map[string]string{}
	}
	if cl, ok := m.classMemo[key]; ok {
		return cl
	}
	defer func() { m.classMemo[key] = class }()
	for j := 2; j >= 0; j-- {
		if m.equalsVersion(c, j) {
			return "v" + strconv.Itoa(j)
		}
	}
	if c.size() == 0 {
		return "empty"
	}
	if b, ok := m.materialize(c); ok {
		return classifyBytes(b, true, m.versions, m.hasV0)
	}
	return "mixed"
}

func classifyBytes(b []byte, present bool, versions [3][]byte, hasV0 bool) string {
	if !present {
		return "absent"
	}
	for j := 2; j >= 0; j-- {
		if (j > 0 || hasV0) && bytes.Equal(b, versions[j]) {
			return "v" + strconv.Itoa(j)
		}
	}
	if len(b) == 0 {
		return "empty"
	}
	for j := 2; j >= 0; j-- {
		if (j > 0 || hasV0) && len(b) < len(versions[j]) && bytes.HasPrefix(versions[j], b) {
			return "truncated"
		}
	}
	return "mixed"
}

// tornCuts are the byte counts at which an n-byte write is cut in the model:
// first byte, around the first page boundary, the middle, all but one byte.
func tornCuts(n int64) (cuts []int64) {
	seen := map[int64]bool{}
	for _, c := range []int64{1, 4095, 4096, 4097, n / 2, n - 1} {
		if c > 0 && c < n && !seen[c] {
			seen[c] = true
			cuts = append(cuts, c)
		}
	}
	return cuts
}

// crashState is one explored power-loss state.
type crashState struct {
	P     int    `json:"prefix_events"`
	R     int    `json:"namespace_ops_lost"`
	D     int    `json:"data_ops_on_disk"`
	OfN   int    `json:"data_ops_issued"`
	Torn  int64  `json:"torn_bytes_of_next_write"`
	Class string `json:"class"`
	Sym   string `json:"content"`
}

// allowedPowerLoss reports whether class is acceptable after a power loss with
// p events executed: any complete version up to the one being written, or
// absent if the file did not exist at marker 1 (atomicity, not durability).
func (m *model) allowedPowerLoss(p int, class string) bool {
	newest := 1
	if p > m.markers[1] {
		newest = 2
	}
	switch class {
	case "absent":
		return !m.hasV0
	case "v0":
		return m.hasV0
	case "v1":
		return true
	case "v2":
		return newest == 2
	}
	return false
}

// explore enumerates all crash states of the window and calls visit for each.
func (m *model) explore(visit func(st crashState, ok bool)) {
	for p := m.markers[0]; p <= m.markers[2]; p++ {
		nsN := m.nsBefore(p)
		for r := 0; r <= nsN-m.nsSyncedBefore(p); r++ {
			ino, present := m.destInode(nsN - r)
			if !present {
				st := crashState{P: p, R: r, Class: "absent", Sym: "<absent>"}
				visit(st, m.allowedPowerLoss(p, st.Class))
				continue
			}
			in := m.inodes[ino]
			n := in.opsBefore(p)
			for d := n; d >= in.syncedBefore(p); d-- {
				c := in.state(d)
				st := crashState{P: p, R: r, D: d, OfN: n, Class: m.classifyContent(c, true), Sym: c.String()}
				visit(st, m.allowedPowerLoss(p, st.Class))
				if d < n && !in.Ops[d].Trunc {
					for _, t := range tornCuts(in.Ops[d].N) {
						ct := applyOp(c, in.Ops[d], t)
						st = crashState{P: p, R: r, D: d, OfN: n, Torn: t, Class: m.classifyContent(ct, true), Sym: ct.String()}
						visit(st, m.allowedPowerLoss(p, st.Class))
					}
				}
			}
		}
	}
}
