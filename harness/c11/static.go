package main

// Static inventory of route registrations (DESIGN.md §4 C11, static part): a
// go/ast pass over the non-test sources of the repository that are built for
// linux/amd64 with default tags (internal/next and the client are not part of
// the shipped admin API).

import (
	"bytes"
	"fmt"
	"go/ast"
	"go/build"
	"go/parser"
	"go/printer"
	"go/token"
	"os"
	"path/filepath"
	"sort"
	"strconv"
	"strings"
)

// staticReg is one registration call found in the source.
type staticReg struct {
	Pkg  string `json:"pkg"`
	File string `json:"file"`
	Line int    `json:"line"`
	Func string `json:"func"`
	// Kind is "mux" for x.Handle / x.HandleFunc, "callback" for a call of a
	// registration function value (method, pattern, handler).
	Kind       string `json:"kind"`
	Pattern    string `json:"pattern"`
	PatternLit bool   `json:"pattern_literal"`
	// Method is the declared method: the first argument of a callback
	// registration, or the method of the ensure* wrapper in the handler
	// expression of a mux registration.
	Method      string `json:"method"`
	MethodKnown bool   `json:"method_known"`
	OptAuth     bool   `json:"optional_auth"`
	PreInstall  bool   `json:"pre_install"`
	Expr        string `json:"expr,omitempty"`
}

func (r staticReg) site() string { return fmt.Sprintf("%s:%d", r.File, r.Line) }

// staticFinding is a defect visible in the source alone.
type staticFinding struct {
	Key  string
	Desc string
}

type staticResult struct {
	Regs     []staticReg
	Findings []staticFinding
	Files    int
	Pkgs     map[string]bool
}

var httpMethods = map[string]string{
	"MethodGet": "GET", "MethodHead": "HEAD", "MethodPost": "POST", "MethodPut": "PUT", "MethodPatch": "PATCH",
	"MethodDelete": "DELETE", "MethodConnect": "CONNECT", "MethodOptions": "OPTIONS", "MethodTrace": "TRACE",
}

// methodOf interprets an expression as an HTTP method: http.MethodX or a
// string literal.
func methodOf(e ast.Expr) (m string, ok bool) {
	switch v := e.(type) {
	case *ast.SelectorExpr:
		if x, isID := v.X.(*ast.Ident); isID && x.Name == "http" {
			m, ok = httpMethods[v.Sel.Name]
			return m, ok
		}
	case *ast.BasicLit:
		if v.Kind == token.STRING {
			s, err := strconv.Unquote(v.Value)
			if err != nil {
				return "", false
			}
			if s == "" {
				return "", true
			}
			for _, m := range httpMethods {
				if s == m {
					return s, true
				}
			}
		}
	}
	return "", false
}

func strLit(e ast.Expr) (s string, ok bool) {
	if v, isLit := e.(*ast.BasicLit); isLit && v.Kind == token.STRING {
		s, err := strconv.Unquote(v.Value)
		return s, err == nil
	}
	return "", false
}

func exprText(fset *token.FileSet, e ast.Node) string {
	var b bytes.Buffer
	_ = printer.Fprint(&b, fset, e)
	return strings.Join(strings.Fields(b.String()), " ")
}

// handlerInfo extracts the wrapper facts from a handler expression.
func handlerInfo(e ast.Expr) (method string, known, optAuth, preInstall bool) {
	ast.Inspect(e, func(n ast.Node) bool {
		switch v := n.(type) {
		case *ast.Ident:
			switch {
			case strings.HasPrefix(v.Name, "optionalAuth"):
				optAuth = true
			case strings.HasPrefix(v.Name, "preInstall"):
				preInstall = true
			}
		case *ast.CallExpr:
			id, isID := v.Fun.(*ast.Ident)
			if !isID {
				return true
			}
			switch id.Name {
			case "ensure", "ensureHandler":
				if len(v.Args) >= 1 {
					if m, ok := methodOf(v.Args[0]); ok && !known {
						method, known = m, true
					}
				}
			case "ensureGET":
				if !known {
					method, known = "GET", true
				}
			case "ensurePOST":
				if !known {
					method, known = "POST", true
				}
			}
		}
		return true
	})
	return method, known, optAuth, preInstall
}

// registerValueOK reports whether an expression stored into an HTTPRegister
// field or passed as a RegisterFunc argument is the real registration helper
// or a pass-through of one.
func registerValueOK(e ast.Expr) bool {
	switch v := e.(type) {
	case *ast.Ident:
		return v.Name == "httpRegister" || v.Name == "httpReg" || v.Name == "nil"
	case *ast.SelectorExpr:
		return v.Sel.Name == "HTTPRegister" || v.Sel.Name == "httpRegister"
	}
	return false
}

func isRegisterFuncType(e ast.Expr) bool {
	switch v := e.(type) {
	case *ast.SelectorExpr:
		return v.Sel.Name == "RegisterFunc"
	case *ast.Ident:
		return v.Name == "RegisterFunc"
	}
	return false
}

func runStatic(repo string) (res *staticResult, err error) {
	res = &staticResult{Pkgs: map[string]bool{}}
	ctxt := build.Default
	ctxt.GOOS, ctxt.GOARCH, ctxt.CgoEnabled = "linux", "amd64", true
	ctxt.BuildTags = nil
	fset := token.NewFileSet()
	type pfile struct {
		pkg, rel string
		f        *ast.File
	}
	var files []pfile
	skipDir := map[string]bool{".git": true, "node_modules": true, "client": true, "build": true, "dist": true, "verifx": true, "testdata": true}
	err = filepath.WalkDir(repo, func(p string, d os.DirEntry, werr error) error {
		if werr != nil {
			return werr
		}
		rel, _ := filepath.Rel(repo, p)
		if d.IsDir() {
			if skipDir[d.Name()] || rel == filepath.Join("internal", "next") {
				return filepath.SkipDir
			}
			return nil
		}
		if !strings.HasSuffix(p, ".go") || strings.HasSuffix(p, "_test.go") {
			return nil
		}
		ok, merr := ctxt.MatchFile(filepath.Dir(p), d.Name())
		if merr != nil || !ok {
			return nil
		}
		f, perr := parser.ParseFile(fset, p, nil, parser.SkipObjectResolution)
		if perr != nil {
			return fmt.Errorf("parsing %s: %w", rel, perr)
		}
		files = append(files, pfile{pkg: filepath.Dir(rel), rel: rel, f: f})
		return nil
	})
	if err != nil {
		return nil, err
	}
	res.Files = len(files)
	find := func(key, format string, args ...any) {
		res.Findings = append(res.Findings, staticFinding{Key: key, Desc: fmt.Sprintf(format, args...)})
	}
	// Functions that take a RegisterFunc parameter: name -> parameter index,
	// per package directory.
	regParam := map[string]map[string]int{}
	for _, pf := range files {
		for _, d := range pf.f.Decls {
			fd, ok := d.(*ast.FuncDecl)
			if !ok || fd.Type.Params == nil {
				continue
			}
			idx := 0
			for _, fld := range fd.Type.Params.List {
				n := len(fld.Names)
				if n == 0 {
					n = 1
				}
				if isRegisterFuncType(fld.Type) {
					if regParam[pf.pkg] == nil {
						regParam[pf.pkg] = map[string]int{}
					}
					regParam[pf.pkg][fd.Name.Name] = idx
				}
				idx += n
			}
		}
	}
	for _, pf := range files {
		res.Pkgs[pf.pkg] = true
		for _, d := range pf.f.Decls {
			fd, ok := d.(*ast.FuncDecl)
			fname := ""
			var node ast.Node = d
			if ok {
				fname = fd.Name.Name
				if fd.Body == nil {
					continue
				}
			}
			ast.Inspect(node, func(n ast.Node) bool {
				switch v := n.(type) {
				case *ast.KeyValueExpr:
					if k, isID := v.Key.(*ast.Ident); isID && k.Name == "HTTPRegister" && !registerValueOK(v.Value) {
						pos := fset.Position(v.Pos())
						find("static:callback-not-httpRegister:"+pf.rel+":"+fname,
							"%s:%d: the registration callback handed to a package is %q, not the wrapping helper httpRegister", pf.rel, pos.Line, exprText(fset, v.Value))
					}
				case *ast.AssignStmt:
					for i, l := range v.Lhs {
						sel, isSel := l.(*ast.SelectorExpr)
						if !isSel || sel.Sel.Name != "HTTPRegister" || i >= len(v.Rhs) {
							continue
						}
						if !registerValueOK(v.Rhs[i]) {
							pos := fset.Position(v.Pos())
							find("static:callback-not-httpRegister:"+pf.rel+":"+fname,
								"%s:%d: the registration callback handed to a package is %q, not the wrapping helper httpRegister", pf.rel, pos.Line, exprText(fset, v.Rhs[i]))
						}
					}
				case *ast.CallExpr:
					pos := fset.Position(v.Pos())
					// Argument in a RegisterFunc parameter position.
					if id, isID := v.Fun.(*ast.Ident); isID {
						if idx, has := regParam[pf.pkg][id.Name]; has && idx < len(v.Args) && !registerValueOK(v.Args[idx]) {
							find("static:callback-not-httpRegister:"+pf.rel+":"+fname,
								"%s:%d: %s is called with the registration callback %q, not the wrapping helper httpRegister", pf.rel, pos.Line, id.Name, exprText(fset, v.Args[idx]))
						}
					}
					// Direct registration on a mux.
					if sel, isSel := v.Fun.(*ast.SelectorExpr); isSel && (sel.Sel.Name == "Handle" || sel.Sel.Name == "HandleFunc") && len(v.Args) == 2 {
						r := staticReg{Pkg: pf.pkg, File: pf.rel, Line: pos.Line, Func: fname, Kind: "mux", Expr: exprText(fset, v.Args[1])}
						if s, isLit := strLit(v.Args[0]); isLit {
							r.Pattern, r.PatternLit = s, true
						} else {
							r.Pattern = "<" + exprText(fset, v.Args[0]) + ">"
						}
						r.Method, r.MethodKnown, r.OptAuth, r.PreInstall = handlerInfo(v.Args[1])
						res.Regs = append(res.Regs, r)
						return true
					}
					// Registration through a function value: (method, "/pattern", handler).
					if len(v.Args) == 3 {
						if sel, isSel := v.Fun.(*ast.SelectorExpr); isSel {
							if x, isID := sel.X.(*ast.Ident); isID && (x.Name == "http" || x.Name == "httptest") {
								return true
							}
						}
						m, mok := methodOf(v.Args[0])
						p, pok := strLit(v.Args[1])
						if mok && pok && strings.HasPrefix(p, "/") {
							res.Regs = append(res.Regs, staticReg{Pkg: pf.pkg, File: pf.rel, Line: pos.Line, Func: fname, Kind: "callback",
								Pattern: p, PatternLit: true, Method: m, MethodKnown: true, Expr: exprText(fset, v.Fun)})
						}
					}
				}
				return true
			})
		}
	}
	sort.Slice(res.Regs, func(i, j int) bool {
		a, b := res.Regs[i], res.Regs[j]
		if a.File != b.File {
			return a.File < b.File
		}
		return a.Line < b.Line
	})
	return res, nil
}
