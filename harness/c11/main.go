// C11 — every admin HTTP endpoint requires a valid session or credentials once
// a user exists.  Stateless bounded-exhaustive enumeration of request shapes
// against the REAL mux filled by the REAL registration code and wrapper chain
// (hook: hooks/home/zz_verif_c11.go), plus a go/ast inventory of every
// registration in the source (static.go).  DESIGN.md §4 C11.
package main

import (
	"bytes"
	"crypto/sha256"
	"encoding/binary"
	"encoding/hex"
	"encoding/json"
	"errors"
	"fmt"
	"io"
	"io/fs"
	"log/slog"
	"net/http"
	"net/http/httptest"
	"os"
	"path"
	"path/filepath"
	"runtime/pprof"
	"sort"
	"strings"
	"syscall"
	"time"

	"github.com/AdguardTeam/AdGuardHome/internal/home"
	"github.com/AdguardTeam/AdGuardHome/internal/verifx/lib"
	vtime "github.com/AdguardTeam/AdGuardHome/verifx/vtime"
	"github.com/AdguardTeam/golibs/log"
)

// ---- alphabet -----------------------------------------------------------------

var (
	methodsQuick    = []string{"GET", "POST", "PUT", "DELETE", "HEAD", "OPTIONS", "PATCH", "post", "Put"}
	methodsThorough = []string{"GET", "POST", "PUT", "DELETE", "HEAD", "OPTIONS", "PATCH", "TRACE", "get", "Post"}

	ctsQuick    = []string{"none", "json", "form", "text-json-param"}
	ctsThorough = []string{"none", "json", "form", "json-charset", "text", "text-json-param", "multipart-json-boundary"}

	bodies = []string{"none", "json", "chunked"}

	credsQuick    = []string{"none", "unknown-cookie", "expired-cookie", "valid-cookie", "wrong-basic", "right-basic", "gl-token-cookie", "empty-basic"}
	credsThorough = []string{"none", "unknown-cookie", "expired-cookie", "valid-cookie", "wrong-basic", "right-basic",
		"gl-token-cookie", "empty-basic", "upper-valid-cookie", "wrong-user-basic", "other-name-cookie", "empty-cookie", "valid-cookie+wrong-basic", "unknown-cookie+right-basic"}

	spellsQuick    = []string{"exact", "slash", "dslash", "dot", "dotdot", "upper"}
	spellsThorough = []string{"exact", "slash", "dslash", "dot", "dotdot", "upper", "pct", "inner-dslash", "enc-dotdot", "query"}
)

var ctValue = map[string]string{
	"none": "", "json": "application/json", "form": "application/x-www-form-urlencoded",
	"json-charset": "application/json; charset=utf-8", "text": "text/plain",
	// other media types that merely mention the JSON type in a parameter
	"text-json-param": "text/plain; application/json", "multipart-json-boundary": "multipart/form-data; boundary=application/json",
}

// glToken is the value of the GL-inet token cookie; its file is private to this
// process (every shard writes and removes its own), so that neither a shard
// that finishes early nor another run of this check takes it away.
var glToken = fmt.Sprintf("verifc11p%d", os.Getpid())

// writeGLToken creates /tmp/gl_token_<glToken> holding the current time in the
// format the GL-Inet integration reads (4 bytes, native byte order).
func writeGLToken() {
	var b [4]byte
	binary.NativeEndian.PutUint32(b[:], uint32(time.Now().Unix()))
	_ = os.WriteFile("/tmp/gl_token_"+glToken, b[:], 0o600)
}

const (
	tokValid   = "00112233445566778899aabbccddeeff"
	tokExpired = "ffeeddccbbaa99887766554433221100"
	tokUnknown = "0123456789abcdef0123456789abcdef"
)

// credClass: "no" = carries neither a valid session nor correct basic
// credentials; "yes" = carries exactly that; "mixed" = carries one valid and
// one invalid credential (the statement allows the handler to run, the code
// may still refuse).
func credClass(c string) string {
	switch c {
	case "valid-cookie", "right-basic":
		return "yes"
	case "valid-cookie+wrong-basic", "unknown-cookie+right-basic":
		return "mixed"
	}
	return "no"
}

// fixedPublic is the public set of the statement: login call, mobileconfig
// generators, DNS-over-HTTPS resolver.  The login page and the static assets
// live under the pattern "/" and are decided per path by publicPath.
var fixedPublic = map[string]bool{
	"/control/login": true, "/apple/doh.mobileconfig": true, "/apple/dot.mobileconfig": true,
	"/dns-query": true, "/dns-query/": true,
}

// publicPath: the login page (login.html and the files named login.* next to
// it) and the static assets.
func publicPath(p string) bool {
	if strings.HasPrefix(p, "/assets/") {
		return true
	}
	return strings.HasPrefix(p, "/login.") && !strings.Contains(p[1:], "/")
}

func modifies(m string) bool { return m == "POST" || m == "PUT" || m == "DELETE" || m == "PATCH" }

// cleanPath is the reference for the mux's own path normalisation.
func cleanPath(p string) string {
	if p == "" {
		return "/"
	}
	if p[0] != '/' {
		p = "/" + p
	}
	np := path.Clean(p)
	if p[len(p)-1] == '/' && np != "/" {
		np += "/"
	}
	return np
}

// ---- cases --------------------------------------------------------------------

type reqCase struct {
	Mode    string `json:"mode"`
	Pattern string `json:"pattern"`
	Base    string `json:"base_path"`
	Spell   string `json:"spelling"`
	Method  string `json:"method"`
	CT      string `json:"content_type"`
	Body    string `json:"body"`
	Cred    string `json:"cred"`
	Static  string `json:"static_key,omitempty"`

	Target   string   `json:"target,omitempty"`
	Matched  string   `json:"matched_pattern,omitempty"`
	Status   int      `json:"status,omitempty"`
	Location string   `json:"location,omitempty"`
	Ran      []string `json:"probes_ran,omitempty"`
	Expected string   `json:"expected,omitempty"`
}

func jsonStr(v any) string { b, _ := json.Marshal(v); return string(b) }

func spell(base, kind string) string {
	switch kind {
	case "exact":
		return base
	case "slash":
		return base + "/"
	case "dslash":
		return "/" + base
	case "dot":
		return "/." + base
	case "dotdot":
		return "/x/.." + base
	case "upper":
		return strings.ToUpper(base)
	case "pct":
		if len(base) < 2 {
			return base
		}
		return fmt.Sprintf("/%%%02x%s", base[1], base[2:])
	case "inner-dslash":
		if i := strings.Index(base[1:], "/"); i >= 0 {
			return base[:i+1] + "/" + base[i+1:]
		}
		return base
	case "enc-dotdot":
		return "/x/%2e%2e" + base
	case "query":
		return base + "?x=/assets/a&y=login.html"
	}
	return base
}

// basesOf returns the concrete paths exercised for a pattern.
func basesOf(pattern string) []string {
	p := pattern
	if i := strings.Index(p, " "); i >= 0 { // "METHOD /path"
		p = strings.TrimSpace(p[i+1:])
	}
	if i := strings.Index(p, "/"); i > 0 { // host
		p = p[i:]
	}
	p = strings.ReplaceAll(p, "{$}", "")
	for strings.Contains(p, "{") {
		i, j := strings.Index(p, "{"), strings.Index(p, "}")
		if j < i {
			break
		}
		p = p[:i] + "w" + p[j+1:]
	}
	if p == "/" {
		return []string{"/", "/index.html", "/login.html", "/login.abc.js", "/assets/app.js", "/install.html", "/secret.txt", "/control/nonexistent", "/assets/sub/x.js"}
	}
	if strings.HasSuffix(p, "/") {
		return []string{p, p + "cid"}
	}
	return []string{p}
}

// route is what is known about one pattern of the mux.
type route struct {
	Pattern string
	// Src: "callback" (registered by another package through the callback:
	// the handler is a probe), "home" (registered inside package home: real
	// handler), "unknown" (in the mux, in neither inventory).
	Src        string
	Pkg        string
	Decl       string // declared method
	DeclKnown  bool
	AnyMethod  bool // registered with method ""
	PreInstall bool
	Sites      []string
}

// harmlessValid lists the in-home routes whose real handler is executed with
// valid credentials and the right method (read-only handlers), for
// non-vacuity.
var harmlessValid = map[string]bool{"/control/profile": true, "/control/status": true, "/control/version.json": true}

// ---- environment ----------------------------------------------------------------

type env struct {
	c      *lib.Ctx
	mode   string
	info   *home.VerifC11Info
	routes map[string]*route
	static *staticResult
	dir    string
	now    uint32
	cnt    map[string]int
	// last is the snapshot taken after the previous request; it is reused as
	// the "before" snapshot while nothing ran in between.
	last      snap
	lastValid bool
}

var t0 = time.Date(2025, 3, 10, 1, 0, 0, 0, time.UTC)

func quiet() {
	log.SetLevel(log.ERROR)
	log.SetOutput(io.Discard)
	slog.SetDefault(slog.New(slog.DiscardHandler))
}

func repoDir() string {
	if r := os.Getenv("VERIF_REPO"); r != "" {
		return r
	}
	return "/repo"
}

// newEnv assembles the instance and the route table.
func newEnv(c *lib.Ctx, mode string) (e *env, err error) {
	quiet()
	dir, err := os.MkdirTemp(c.TmpDir, "c11-")
	if err != nil {
		return nil, err
	}
	vtime.SetVirtual(t0)
	info, err := home.VerifC11Setup(dir, mode)
	if err != nil {
		return nil, err
	}
	// One session that stays valid and one that expires one minute after it
	// was created; then one hour passes.
	if err = home.VerifC11AddSession(tokValid, home.VerifC11User, uint32(t0.Unix())+30*24*3600); err != nil {
		return nil, err
	}
	if err = home.VerifC11AddSession(tokExpired, home.VerifC11User, uint32(t0.Unix())+60); err != nil {
		return nil, err
	}
	vtime.AdvanceVirtual(time.Hour)
	e = &env{c: c, mode: mode, info: info, routes: map[string]*route{}, dir: dir, now: uint32(t0.Add(time.Hour).Unix()), cnt: map[string]int{}}
	e.static, err = runStatic(repoDir())
	if err != nil {
		return nil, fmt.Errorf("static pass: %w", err)
	}
	e.buildRoutes()
	return e, nil
}

func (e *env) route(p string) *route {
	r := e.routes[p]
	if r == nil {
		r = &route{Pattern: p, Src: "unknown"}
		e.routes[p] = r
	}
	return r
}

// buildRoutes merges the three inventories: callback registrations recorded
// at run time, registrations found in the source, patterns read from the mux.
func (e *env) buildRoutes() {
	c := e.c
	for _, r := range e.info.Regs {
		rt := e.route(r.Pattern)
		rt.Src, rt.Pkg = "callback", r.Pkg
		if r.Method == "" {
			rt.AnyMethod = true
		} else {
			rt.Decl, rt.DeclKnown = r.Method, true
		}
	}
	for _, s := range e.static.Regs {
		if !s.PatternLit {
			continue
		}
		rt := e.route(s.Pattern)
		rt.Sites = append(rt.Sites, s.site())
		if rt.Src == "callback" {
			// Declared method of the source and of the run-time record must agree.
			if s.Kind == "callback" && s.MethodKnown && (s.Method != rt.Decl && !(s.Method == "" && rt.AnyMethod)) && s.Pkg != "internal/home" {
				c.Note("method_mismatch_"+s.Pattern, fmt.Sprintf("source %s declares %q, run time recorded %q", s.site(), s.Method, rt.Decl))
			}
			continue
		}
		if s.Pkg == "internal/home" {
			rt.Src, rt.Pkg = "home", "home"
			rt.PreInstall = rt.PreInstall || s.PreInstall
			if s.MethodKnown {
				if s.Method == "" {
					rt.AnyMethod = true
				} else {
					rt.Decl, rt.DeclKnown = s.Method, true
				}
			}
		}
	}
	muxPatterns, err := home.VerifC11MuxPatterns()
	if err != nil {
		c.Note("mux_reflection", "unavailable, pattern list degraded to the recorded and static inventories: "+err.Error())
	}
	inMux := map[string]bool{}
	for _, p := range muxPatterns {
		inMux[p] = true
		e.route(p)
	}
	// Cross-check through the exported API: the mux must select each known
	// pattern for its own exact path.
	for p, rt := range e.routes {
		base := basesOf(p)[0]
		got := home.VerifC11Match(httptest.NewRequest("GET", base, nil))
		if got == p {
			inMux[p] = true
			continue
		}
		if inMux[p] {
			c.Note("mux_crosscheck_"+p, fmt.Sprintf("pattern read from the routing index is not selected for its own path %q (selected %q)", base, got))
			continue
		}
		// Known from the source only, not registered in this mode.
		_ = rt
	}
	for p := range e.routes {
		if !inMux[p] {
			delete(e.routes, p)
		}
	}
	c.Max("patterns_in_mux_"+e.mode, int64(len(e.routes)))
	c.Max("patterns_by_reflection_"+e.mode, int64(len(muxPatterns)))
}

func (e *env) sortedPatterns() []string {
	l := make([]string, 0, len(e.routes))
	for p := range e.routes {
		l = append(l, p)
	}
	sort.Strings(l)
	return l
}

// ---- observation ----------------------------------------------------------------

func (e *env) liveSessions() string {
	mem, db, err := home.VerifC11Sessions()
	var b strings.Builder
	if err != nil {
		fmt.Fprintf(&b, "err=%v;", err)
	}
	for _, s := range mem {
		if s.Expire > e.now {
			fmt.Fprintf(&b, "m:%s/%s/%d;", s.Token, s.User, s.Expire)
		}
	}
	for _, s := range db {
		if s.Expire > e.now {
			fmt.Fprintf(&b, "d:%s/%s/%d;", s.Token, s.User, s.Expire)
		}
	}
	return b.String()
}

// dirSig lists every file under the work directory (configuration file and
// data directory).  The session file is compared through liveSessions
// instead of byte-wise: dropping an expired record is not a side effect.
func (e *env) dirSig(content bool) string {
	var b strings.Builder
	_ = filepath.WalkDir(e.dir, func(p string, d fs.DirEntry, err error) error {
		if err != nil {
			fmt.Fprintf(&b, "%s:err=%v;", p, err)
			return nil
		}
		rel, _ := filepath.Rel(e.dir, p)
		if d.IsDir() {
			fmt.Fprintf(&b, "%s/;", rel)
			return nil
		}
		if d.Name() == "sessions.db" {
			return nil
		}
		fi, ierr := d.Info()
		if ierr != nil {
			fmt.Fprintf(&b, "%s:err=%v;", rel, ierr)
			return nil
		}
		var ino uint64
		if st, ok := fi.Sys().(*syscall.Stat_t); ok {
			ino = st.Ino
		}
		if content || fi.Size() <= 16<<10 {
			data, _ := os.ReadFile(p)
			h := sha256.Sum256(data)
			fmt.Fprintf(&b, "%s:%d:%s;", rel, fi.Size(), hex.EncodeToString(h[:8]))
			return nil
		}
		fmt.Fprintf(&b, "%s:%d:%d:%d;", rel, fi.Size(), fi.ModTime().UnixNano(), ino)
		return nil
	})
	return b.String()
}

type snap struct{ dir, sess, users string }

func (e *env) snapshot() snap {
	return snap{dir: e.dirSig(false), sess: e.liveSessions(), users: strings.Join(home.VerifC11Users(), ",")}
}

func (s snap) diff(o snap) string {
	var d []string
	if s.dir != o.dir {
		d = append(d, fmt.Sprintf("files before=%s after=%s", s.dir, o.dir))
	}
	if s.sess != o.sess {
		d = append(d, fmt.Sprintf("live sessions before=%s after=%s", s.sess, o.sess))
	}
	if s.users != o.users {
		d = append(d, fmt.Sprintf("users before=%s after=%s", s.users, o.users))
	}
	return strings.Join(d, "; ")
}

func buildRequest(cs *reqCase) *http.Request {
	target := spell(cs.Base, cs.Spell)
	cs.Target = target
	var body io.Reader
	if cs.Body == "json" {
		body = strings.NewReader("{}")
	}
	r := httptest.NewRequest(cs.Method, target, body)
	r.Host = "agh.example:3000"
	r.RemoteAddr = "192.0.2.99:4000"
	if cs.Body == "chunked" {
		r.Body = io.NopCloser(strings.NewReader("{}"))
		r.ContentLength = -1
		r.TransferEncoding = []string{"chunked"}
	}
	if v := ctValue[cs.CT]; v != "" {
		r.Header.Set("Content-Type", v)
	}
	cookie := func(name, v string) { r.AddCookie(&http.Cookie{Name: name, Value: v}) }
	name := home.VerifC11SessionCookieName
	switch cs.Cred {
	case "gl-token-cookie":
		// The cookie of the GL-Inet integration, with a fresh token file in
		// place: it is a credential only in GL mode, which is off.
		cookie("Admin-Token", glToken)
	case "unknown-cookie":
		cookie(name, tokUnknown)
	case "expired-cookie":
		cookie(name, tokExpired)
	case "valid-cookie":
		cookie(name, tokValid)
	case "wrong-basic":
		r.SetBasicAuth(home.VerifC11User, "wrong-password")
	case "right-basic":
		r.SetBasicAuth(home.VerifC11User, home.VerifC11Password)
	case "upper-valid-cookie":
		cookie(name, strings.ToUpper(tokValid))
	case "wrong-user-basic":
		r.SetBasicAuth("Admin", home.VerifC11Password)
	case "empty-basic":
		// "Authorization: Basic Og==": empty user name and empty password.
		r.SetBasicAuth("", "")
	case "other-name-cookie":
		cookie("session", tokValid)
	case "empty-cookie":
		cookie(name, "")
	case "valid-cookie+wrong-basic":
		cookie(name, tokValid)
		r.SetBasicAuth(home.VerifC11User, "wrong-password")
	case "unknown-cookie+right-basic":
		cookie(name, tokUnknown)
		r.SetBasicAuth(home.VerifC11User, home.VerifC11Password)
	}
	return r
}

type outcome struct {
	status   int
	location string
	ran      []string
	panicked string
	hdrProbe string
}

func serve(cs *reqCase) outcome {
	r := buildRequest(cs)
	w := httptest.NewRecorder()
	ran, p := home.VerifC11Serve(w, r)
	return outcome{status: w.Code, location: w.Header().Get("Location"), ran: ran, panicked: p, hdrProbe: w.Header().Get("X-Verif-Probe")}
}

// ---- oracle ---------------------------------------------------------------------

// rejected reports whether the response is one of the refusals the statement
// names (403, redirect to the login page) or the mux's own redirect to the
// normalised path (the normalised path is itself part of the enumeration).
func rejected(cs *reqCase, o outcome) (kind string, ok bool) {
	switch {
	case o.status == http.StatusForbidden:
		return "403", true
	case o.status == http.StatusFound && (o.location == "login.html" || strings.HasSuffix(o.location, "/login.html")):
		return "login-redirect", true
	case o.status == http.StatusMovedPermanently && isCleanRedirect(cs.Target, o.location):
		return "clean-redirect", true
	}
	return "", false
}

func isCleanRedirect(target, loc string) bool {
	p, q, _ := strings.Cut(target, "?")
	want := cleanPath(p)
	if want == p {
		return false
	}
	lp, lq, _ := strings.Cut(loc, "?")
	return lp == want && lq == q
}

// check executes one request and evaluates the oracle; it returns the key and
// the description of a violation, or "".  skipped tells that the request was
// not sent (real handler inside package home, valid credentials, right method).
func (e *env) check(cs *reqCase) (vkey, vdesc string, skipped bool) {
	c := e.c
	req := buildRequest(cs)
	matched := home.VerifC11Match(req)
	cs.Matched = matched
	reqPath := req.URL.Path
	rt := e.routes[matched]
	if rt == nil {
		rt = &route{Pattern: matched, Src: "unknown"}
	}
	cc := credClass(cs.Cred)
	willRedirect := false
	{
		p, _, _ := strings.Cut(cs.Target, "?")
		willRedirect = cleanPath(p) != p
	}
	public := fixedPublic[matched] || (matched == "/" && publicPath(reqPath))
	wrongMethod := rt.DeclKnown && cs.Method != rt.Decl
	// A content type other than JSON is refused with or without a body (a body-less
	// request is accepted only without any content type: that is how the guard tells
	// a script from an HTML form).  Body-less + JSON is refused by the code as well,
	// which the statement does not demand; it is not judged.
	badCT := rt.DeclKnown && cs.Method == rt.Decl && modifies(rt.Decl) && cs.CT != "json" && (cs.Body != "none" || cs.CT != "none")
	// Never execute a real side-effecting handler of package home with valid
	// credentials: only requests the guards must stop, or the listed harmless reads.
	if rt.Src != "callback" && cc != "no" && !willRedirect && !public && !rt.PreInstall && matched != "/" && matched != "" {
		stopped := wrongMethod || badCT
		harmless := harmlessValid[matched] && cs.Method == "GET" && cs.Body == "none" && cs.CT == "none" && (rt.Decl == "GET" || !rt.DeclKnown)
		if !stopped && !harmless {
			c.Count("skipped_real_handler_valid_cred", 1)
			return "", "", true
		}
	}
	if rt.Src != "callback" && public && matched == "/control/login" && !wrongMethod && !badCT && cs.Method == "POST" {
		// The real login handler with a syntactically acceptable request: it
		// is public and may legitimately change state; not sent.
		c.Count("skipped_public_login", 1)
		return "", "", true
	}

	checkState := cc == "no" && !public
	if cs.Cred == "expired-cookie" {
		// The expired session may have been dropped by an earlier attempt:
		// put it back so that every attempt meets the expired record.
		if err := home.VerifC11AddSession(tokExpired, home.VerifC11User, uint32(t0.Unix())+60); err != nil {
			return "engine", err.Error(), false
		}
		e.lastValid = false
	}
	var before snap
	if checkState {
		if !e.lastValid {
			e.last = e.snapshot()
		}
		before = e.last
	}
	e.lastValid = false
	o := serve(cs)
	c.Count("requests", 1)
	cs.Status, cs.Location, cs.Ran = o.status, o.location, o.ran
	fail := func(key, exp string) (string, string, bool) {
		cs.Expected = exp
		return key + ":" + matched, fmt.Sprintf("%s\ncase: %s", exp, jsonStr(cs)), false
	}
	if o.panicked != "" {
		return fail("panic", "the request makes the server code panic: "+firstLines(o.panicked, 12))
	}
	rkind, isRejected := rejected(cs, o)
	ran := len(o.ran) > 0
	inferredRun := rt.Src != "callback" && !isRejected && o.status != http.StatusMethodNotAllowed && o.status != http.StatusUnsupportedMediaType && !(matched == "" && o.status == http.StatusNotFound)
	okey := fmt.Sprintf("src=%s cred=%s public=%v wrongMethod=%v badCT=%v refusal=%s status=%d probeRan=%v", rt.Src, cc, public, wrongMethod, badCT, rkind, o.status, ran)
	if c.Distinct("outcomes", okey) && os.Getenv("VERIF_C11_DEBUG") != "" {
		fmt.Fprintf(os.Stderr, "OUTCOME %s   e.g. %s %s cred=%s ct=%s body=%s -> %s\n", okey, cs.Method, cs.Target, cs.Cred, cs.CT, cs.Body, matched)
	}

	switch {
	case rt.PreInstall:
		// Installation endpoints after installation: refused for everybody.
		if ran || o.status != http.StatusForbidden && rkind != "clean-redirect" {
			return fail("install-endpoint-served", "an installation endpoint must answer 403 once AdGuard Home is configured")
		}
	case public:
		// No credential demand.  Method / content type are demanded for the
		// state-changing login call.
		if rt.DeclKnown && modifies(rt.Decl) && rkind != "clean-redirect" {
			if wrongMethod && (ran || o.status != http.StatusMethodNotAllowed) {
				return fail("wrong-method-accepted", fmt.Sprintf("declared method %s: a %s request must be answered 405 and the handler must not run", rt.Decl, cs.Method))
			}
			if badCT && (ran || o.status != http.StatusUnsupportedMediaType) {
				return fail("non-json-accepted", "a state-changing request with a content type other than application/json must be answered 415 and the handler must not run")
			}
		}
		c.Distinct("nontrivial", "public|"+caseKey(cs))
	case cc == "no":
		c.Distinct("nontrivial", "unauth|"+caseKey(cs))
		if ran {
			return fail("unauth-handler-ran", fmt.Sprintf("the handler ran for a request with credentials %q", cs.Cred))
		}
		if !isRejected && !(matched == "" && o.status == http.StatusNotFound) {
			return fail("unauth-not-rejected", fmt.Sprintf("a request with credentials %q must be answered 403 or redirected to the login page, got %d", cs.Cred, o.status))
		}
	default: // "yes" or "mixed"
		if rkind == "clean-redirect" {
			break
		}
		c.Distinct("nontrivial", "auth|"+caseKey(cs))
		if wrongMethod {
			if ran || inferredRun {
				return fail("wrong-method-accepted", fmt.Sprintf("declared method %s: the handler ran for a %s request", rt.Decl, cs.Method))
			}
			if cc == "yes" && o.status != http.StatusMethodNotAllowed {
				return fail("wrong-method-not-405", fmt.Sprintf("declared method %s: a %s request with valid credentials must be answered 405, got %d", rt.Decl, cs.Method, o.status))
			}
		} else if badCT {
			if ran || inferredRun {
				return fail("non-json-accepted", "the handler ran for a state-changing request with a content type other than application/json")
			}
			if cc == "yes" && o.status != http.StatusUnsupportedMediaType {
				return fail("non-json-not-415", fmt.Sprintf("a state-changing request with a non-JSON content type must be answered 415, got %d", o.status))
			}
		} else if cc == "yes" {
			if ran {
				k := "authorized_probe_ran_" + strings.SplitN(cs.Cred, "-", 2)[1]
				c.Count(k, 1)
				e.cnt[k]++
			} else if harmlessValid[matched] && rt.Src == "home" && o.status == http.StatusOK {
				c.Count("authorized_real_handler_ran", 1)
			} else if rt.Src == "callback" && rt.DeclKnown && (cs.Body == "none" && cs.CT == "none" || cs.Body != "none" && cs.CT == "json") {
				// Not demanded by the statement; recorded for non-vacuity.
				c.Count("authorized_but_not_run", 1)
			}
		}
	}

	if checkState {
		after := e.snapshot()
		e.last, e.lastValid = after, true
		if d := before.diff(after); d != "" {
			return fail("unauth-side-effect", fmt.Sprintf("a request with credentials %q changed state: %s", cs.Cred, d))
		}
	}
	if cs.Cred == "expired-cookie" {
		// The attempt must not revive the session ...
		mem, db, _ := home.VerifC11Sessions()
		for _, s := range append(mem, db...) {
			if s.Token == tokExpired && s.Expire > e.now {
				return fail("expired-session-revived", fmt.Sprintf("after the attempt the expired session is stored with expiry %d > now %d", s.Expire, e.now))
			}
		}
		// ... and a second attempt is refused like the first.
		if !public && !rt.PreInstall {
			e.lastValid = false
			o2 := serve(cs)
			c.Count("requests", 1)
			if _, rej2 := rejected(cs, o2); len(o2.ran) > 0 || !rej2 && !(matched == "" && o2.status == http.StatusNotFound) {
				cs.Status, cs.Location, cs.Ran = o2.status, o2.location, o2.ran
				return fail("expired-session-revived", "the second request with the same expired cookie is no longer refused")
			}
		}
	}
	return "", "", false
}

func caseKey(cs *reqCase) string {
	return strings.Join([]string{cs.Mode, cs.Pattern, cs.Base, cs.Spell, cs.Method, cs.CT, cs.Body, cs.Cred}, "|")
}

func firstLines(s string, n int) string {
	l := strings.Split(s, "\n")
	if len(l) > n {
		l = l[:n]
	}
	return strings.Join(l, "\n")
}

// ---- static oracle ------------------------------------------------------------------

// staticFindings evaluates the source inventory against the mux of the
// instance (mode install registers the superset of routes).
func (e *env) staticFindings() (out []staticFinding) {
	out = append(out, e.static.Findings...)
	helperSites, helperNoAuth := 0, 0
	for _, s := range e.static.Regs {
		inHelper := s.Kind == "mux" && s.Func == "httpRegister" && !s.PatternLit
		switch {
		case inHelper:
			helperSites++
			if !s.OptAuth {
				helperNoAuth++
			}
		case !s.PatternLit:
			out = append(out, staticFinding{"static:dynamic-pattern:" + s.File + ":" + s.Func,
				fmt.Sprintf("%s registers the non-literal pattern %s on a mux; the inventory cannot bind it to a route", s.site(), s.Pattern)})
		}
		if !s.PatternLit {
			continue
		}
		if e.mode == "install" && e.routes[s.Pattern] == nil {
			// Incomplete coverage, not a violation by itself (a direct
			// unprotected registration is one, below).
			e.c.NotExhaustive(fmt.Sprintf("%s registers %q but the assembled mux does not contain it: the route is not exercised dynamically", s.site(), s.Pattern))
			e.c.Count("static_patterns_not_in_mux", 1)
		}
		if s.Kind == "callback" && s.MethodKnown && s.Method == "" && !fixedPublic[s.Pattern] {
			out = append(out, staticFinding{"static:public-registration:" + s.Pattern,
				fmt.Sprintf("%s registers %q with method \"\" (no authentication, any method) and it is not in the public set", s.site(), s.Pattern)})
		}
		if s.Kind == "mux" && !s.OptAuth && !s.PreInstall && !fixedPublic[s.Pattern] {
			out = append(out, staticFinding{"static:direct-unprotected:" + s.Pattern,
				fmt.Sprintf("%s registers %q directly on the mux with the handler %q: neither the authentication wrapper nor the pre-install guard, and not in the public set", s.site(), s.Pattern, s.Expr)})
		}
	}
	if helperSites != 2 || helperNoAuth != 1 {
		out = append(out, staticFinding{"static:httpRegister-chain",
			fmt.Sprintf("httpRegister is expected to register on the mux at two sites, exactly one of them (method \"\") without the authentication wrapper; found %d sites, %d without", helperSites, helperNoAuth)})
	}
	// Every pattern of the mux must be known to the source inventory.
	for p, rt := range e.routes {
		if len(rt.Sites) == 0 {
			out = append(out, staticFinding{"static:mux-pattern-not-in-source:" + p,
				fmt.Sprintf("the mux contains %q (%s) but no registration with this literal pattern was found in the source", p, rt.Src)})
		}
	}
	sort.Slice(out, func(i, j int) bool { return out[i].Key < out[j].Key })
	return out
}

// ---- driver ---------------------------------------------------------------------------

type alphabet struct{ methods, cts, creds, spells []string }

func alphabetOf(quick bool) alphabet {
	if quick {
		return alphabet{methodsQuick, ctsQuick, credsQuick, spellsQuick}
	}
	return alphabet{methodsThorough, ctsThorough, credsThorough, spellsThorough}
}

func modeOfShard(i, n int) (mode string, sub, subN int) {
	if n < 2 {
		return "", 0, 1
	}
	mode = "boot"
	if i%2 == 1 {
		mode = "install"
	}
	subN = n / 2
	if n%2 == 1 && i%2 == 0 {
		subN = n/2 + 1
	}
	return mode, i / 2, subN
}

func run(c *lib.Ctx) {
	writeGLToken()
	defer os.Remove("/tmp/gl_token_" + glToken)
	if pf := os.Getenv("VERIF_C11_PROF"); pf != "" {
		if f, err := os.Create(fmt.Sprintf("%s.%d", pf, c.ShardI)); err == nil {
			_ = pprof.StartCPUProfile(f)
			defer pprof.StopCPUProfile()
		}
	}
	// The last shard assembles the boot order with an unusable session store,
	// the one before it with a stored password that is not a bcrypt hash.
	if c.ShardN >= 4 && c.ShardI == c.ShardN-1 {
		brokenSessionStore(c)
		return
	}
	if c.ShardN >= 4 && c.ShardI == c.ShardN-2 {
		plainStoredPassword(c)
		return
	}
	nsh := c.ShardN
	if nsh >= 4 {
		nsh -= 2
	}
	mode, sub, subN := modeOfShard(c.ShardI, nsh)
	if mode == "" {
		// A single process can assemble one instance only (package-level
		// registration guards): the boot order.
		mode = "boot"
		c.NotExhaustive("single shard: only the boot order was assembled")
	}
	e, err := newEnv(c, mode)
	if err != nil {
		c.EngineError("set-up failed: " + err.Error())
		return
	}
	defer os.RemoveAll(e.dir)
	c.Note("setup_order_"+mode, strings.Join(e.info.Steps, " -> "))
	if sub == 0 {
		for _, f := range e.staticFindings() {
			c.Violation(f.Key, f.Desc, reqCase{Mode: mode, Static: f.Key})
		}
		c.Count("static_registrations_"+mode, int64(len(e.static.Regs)))
		c.Count("static_files_parsed_"+mode, int64(e.static.Files))
		cb, hm, un := 0, 0, 0
		for _, rt := range e.routes {
			switch rt.Src {
			case "callback":
				cb++
			case "home":
				hm++
			default:
				un++
			}
		}
		c.Note("routes_"+mode, fmt.Sprintf("%d patterns in the mux: %d registered through the callback (probe), %d inside package home (real handler), %d of unknown origin", len(e.routes), cb, hm, un))
	}
	al := alphabetOf(c.Quick())
	unit := 0
	full0 := e.dirSig(true)
	for _, p := range e.sortedPatterns() {
		for _, base := range basesOf(p) {
			seen := map[string]bool{}
			for _, sp := range al.spells {
				target := spell(base, sp)
				if seen[target] {
					continue
				}
				seen[target] = true
				for _, m := range al.methods {
					unit++
					if unit%subN != sub {
						continue
					}
					if c.Expired() {
						return
					}
					c.Count("units", 1)
					if rt := e.routes[p]; rt.Src == "callback" && rt.DeclKnown && rt.Decl == m && sp == "exact" {
						e.cnt["callback_units_declared_method"]++
					}
					for _, ct := range al.cts {
						for _, b := range bodies {
							for _, cr := range al.creds {
								cs := &reqCase{Mode: mode, Pattern: p, Base: base, Spell: sp, Method: m, CT: ct, Body: b, Cred: cr}
								k, d, _ := e.check(cs)
								if k == "engine" {
									c.EngineError(d)
									return
								}
								if k != "" {
									c.Violation(k, d, cs)
								}
								c.Count("cases", 1)
								if unit%1999 == 0 && ct == al.cts[0] && b == bodies[0] {
									c.Sample(cs)
								}
							}
						}
					}
					// Byte-wise comparison of everything but the session file.
					if full := e.dirSig(true); full != full0 {
						c.Violation("files-changed:"+p, fmt.Sprintf("files under the work directory changed while exercising %s %s (%s): before=%s after=%s", m, target, p, full0, full),
							reqCase{Mode: mode, Pattern: p, Base: base, Spell: sp, Method: m})
						full0 = full
					}
				}
			}
		}
	}
	if (e.cnt["authorized_probe_ran_cookie"] == 0 || e.cnt["authorized_probe_ran_basic"] == 0) && e.cnt["callback_units_declared_method"] > 0 {
		c.EngineError("non-vacuity: no probe ever ran with a valid cookie / with right basic credentials although routes were exercised with their declared method; requests with credentials do not reach the handlers")
	}
}

// brokenSessionStore: with users configured, a session store that cannot be
// opened must either stop the start-up or leave every guard in force.
func brokenSessionStore(c *lib.Ctx) {
	quiet()
	dir, err := os.MkdirTemp(c.TmpDir, "c11b-")
	if err != nil {
		c.EngineError(err.Error())
		return
	}
	defer os.RemoveAll(dir)
	vtime.SetVirtual(t0)
	c.Count("evals", 1)
	_, err = home.VerifC11Setup(dir, "boot-broken-sessions")
	if errors.Is(err, home.ErrVerifC11StartRefused) {
		c.Count("broken_session_store_start_refused", 1)
		c.Sample(map[string]any{"mode": "boot-broken-sessions", "outcome": "start-up refused: " + err.Error()})
		return
	}
	if err != nil {
		c.EngineError("set-up with a broken session store failed elsewhere: " + err.Error())
		return
	}
	c.Count("broken_session_store_started", 1)
	for _, target := range []string{"/control/status", "/control/clients", "/control/querylog", "/control/filtering/status", "/"} {
		cs := reqCase{Mode: "boot-broken-sessions", Pattern: target, Base: target, Spell: "exact", Method: "GET", CT: "none", Body: "none", Cred: "none"}
		o := serve(&cs)
		c.Count("evals", 1)
		if _, ok := rejected(&cs, o); !ok || len(o.ran) > 0 {
			c.Violation("broken-session-store:unauth-not-rejected:"+target, fmt.Sprintf("users are configured, the session store (data/sessions.db) cannot be opened, the server starts all the same and answers GET %s without credentials with HTTP %d (handlers run: %v)", target, o.status, o.ran), cs)
		}
	}
	c.Sample(map[string]any{"mode": "boot-broken-sessions", "outcome": "started"})
}

// plainStoredPassword: the user's stored password is not a bcrypt hash, so no
// password is correct: basic credentials and the login call with any password
// (the stored text included) must be refused on every route.
func plainStoredPassword(c *lib.Ctx) {
	quiet()
	dir, err := os.MkdirTemp(c.TmpDir, "c11p-")
	if err != nil {
		c.EngineError(err.Error())
		return
	}
	defer os.RemoveAll(dir)
	vtime.SetVirtual(t0)
	if _, err = home.VerifC11Setup(dir, "boot-plain-hash"); err != nil {
		c.EngineError("set-up with a plain stored password failed: " + err.Error())
		return
	}
	for _, target := range []string{"/control/status", "/control/clients", "/control/querylog", "/control/filtering/status", "/control/dns_info", "/"} {
		for _, cred := range []string{"right-basic", "wrong-basic", "none"} {
			cs := reqCase{Mode: "boot-plain-hash", Pattern: target, Base: target, Spell: "exact", Method: "GET", CT: "none", Body: "none", Cred: cred}
			o := serve(&cs)
			c.Count("evals", 1)
			if _, ok := rejected(&cs, o); !ok || len(o.ran) > 0 {
				c.Violation("plain-stored-password:not-rejected:"+cred, fmt.Sprintf("the stored password of the user is not a bcrypt hash (no password can be correct); GET %s with credentials %q is answered with HTTP %d (handlers run: %v)", target, cred, o.status, o.ran), cs)
			}
		}
	}
	// The login call itself.
	for _, pw := range []string{home.VerifC11Password, "wrong"} {
		body, _ := json.Marshal(map[string]string{"name": home.VerifC11User, "password": pw})
		r := httptest.NewRequest(http.MethodPost, "http://agh.test/control/login", bytes.NewReader(body))
		r.Header.Set("Content-Type", "application/json")
		r.RemoteAddr = "192.0.2.77:4000"
		w := httptest.NewRecorder()
		_, _ = home.VerifC11Serve(w, r)
		status, cookie := w.Code, w.Header().Get("Set-Cookie") != ""
		c.Count("evals", 1)
		if status == 200 || cookie {
			c.Violation("plain-stored-password:login-succeeds", fmt.Sprintf("the stored password of the user is not a bcrypt hash; POST /control/login with password %q answers HTTP %d (session cookie set: %v)", pw, status, cookie),
				reqCase{Mode: "boot-plain-hash", Pattern: "/control/login", Method: "POST", Cred: "login:" + pw})
		}
	}
	c.Count("plain_stored_password_checked", 1)
	c.Sample(map[string]any{"mode": "boot-plain-hash", "outcome": "every credential refused"})
}

func replay(c *lib.Ctx, raw json.RawMessage) string {
	writeGLToken()
	defer os.Remove("/tmp/gl_token_" + glToken)
	var cs reqCase
	if err := json.Unmarshal(raw, &cs); err != nil {
		return err.Error()
	}
	if cs.Mode == "boot-plain-hash" {
		before := c.NumViolationKeys()
		plainStoredPassword(c)
		if c.NumViolationKeys() > before {
			return "violation reproduced: credentials are accepted although the stored password is not a bcrypt hash"
		}
		return ""
	}
	if cs.Mode == "boot-broken-sessions" {
		before := c.NumViolationKeys()
		brokenSessionStore(c)
		if c.NumViolationKeys() > before {
			return "violation reproduced: the server starts with an unusable session store and serves anonymous requests"
		}
		return ""
	}
	if cs.Mode == "" {
		cs.Mode = "boot"
	}
	e, err := newEnv(c, cs.Mode)
	if err != nil {
		return "set-up failed: " + err.Error()
	}
	defer os.RemoveAll(e.dir)
	if cs.Static != "" {
		for _, f := range e.staticFindings() {
			if f.Key == cs.Static {
				return f.Desc
			}
		}
		return ""
	}
	if cs.CT == "" { // group record of the byte-wise comparison
		full0 := e.dirSig(true)
		al := alphabetOf(false)
		for _, ct := range al.cts {
			for _, b := range bodies {
				for _, cr := range al.creds {
					x := cs
					x.CT, x.Body, x.Cred = ct, b, cr
					if k, d, _ := e.check(&x); k != "" {
						return d
					}
				}
			}
		}
		if full := e.dirSig(true); full != full0 {
			return "files changed: before=" + full0 + " after=" + full
		}
		return ""
	}
	cs.Target, cs.Matched, cs.Status, cs.Location, cs.Ran, cs.Expected = "", "", 0, "", nil, ""
	_, d, skipped := e.check(&cs)
	if skipped {
		return ""
	}
	return d
}

func main() {
	lib.Main(&lib.Harness{
		Prop: "C11", Level: "exploration",
		Shards: func(string) int { return 18 },
		Budget: func(tier string) time.Duration {
			if tier == "thorough" {
				return 18 * time.Minute
			}
			return 4 * time.Minute
		},
		Run: run, Replay: replay,
		Evidence: func(m *lib.Merged) map[string]any {
			return map[string]any{
				"evaluations":                     m.Counters["requests"],
				"cases":                           m.Counters["cases"],
				"distinct_nontrivial":             m.Distinct["nontrivial"],
				"distinct_outcomes":               m.Distinct["outcomes"],
				"patterns_in_mux_boot":            m.Maxes["patterns_in_mux_boot"],
				"patterns_in_mux_install":         m.Maxes["patterns_in_mux_install"],
				"patterns_by_reflection_boot":     m.Maxes["patterns_by_reflection_boot"],
				"patterns_by_reflection_install":  m.Maxes["patterns_by_reflection_install"],
				"static_registrations":            m.Counters["static_registrations_install"],
				"static_files_parsed":             m.Counters["static_files_parsed_install"],
				"authorized_probe_ran_cookie":     m.Counters["authorized_probe_ran_cookie"],
				"authorized_probe_ran_basic":      m.Counters["authorized_probe_ran_basic"],
				"authorized_real_handler_ran":     m.Counters["authorized_real_handler_ran"],
				"authorized_but_not_run":          m.Counters["authorized_but_not_run"],
				"skipped_real_handler_valid_cred": m.Counters["skipped_real_handler_valid_cred"],
				"skipped_public_login":            m.Counters["skipped_public_login"],
				"rule":                            "one start-up with users configured and a session store that cannot be opened (must be refused, or every guard must hold); 2 registration orders (boot: DHCP routes before the auth module, user from the configuration; install: everything up to the web module without a user and firstRun=true, then the steps of handleInstallConfigure) x every pattern of the real mux (reflection over the routing index + callback record + go/ast inventory, cross-checked with mux.Handler) x concrete paths (pattern itself; 9 paths for \"/\"; 2 for a subtree) x spellings {exact, trailing slash, //, /./, /x/../, upper case} x 9 methods (incl. the spellings post and Put) x content type {none, JSON, form} x body {none, {}, chunked {} of unknown length} x credentials {none, unknown cookie, expired cookie, valid cookie, wrong basic, right basic, basic with empty user and password, GL-Inet token cookie with a fresh token file while GL mode is off}; thorough adds spellings {percent-encoded letter, inner //, /x/%2e%2e/, query string naming public paths}, methods {TRACE, get, Post}, content types {JSON with charset, text/plain}, credentials {upper-case token, other user name, other cookie name, empty cookie, valid cookie + wrong basic, unknown cookie + right basic}. non-trivial = the request reaches the guard chain of a route (not answered by the mux's clean-path redirect with credentials). Bound: real handlers of package home are not executed with valid credentials, right method and acceptable content type (count skipped_real_handler_valid_cred) except GET on /control/profile, /control/status, /control/version.json; the real login handler is not executed with POST + acceptable content type",
			}
		},
		Assumptions: []string{
			"the handler of the plain HTTP server is limitRequestBody around the mux (web.go start); the logging and h2c layers in front of it do not route",
			"handlers that other packages pass into the registration callback are replaced by a probe before they reach the real httpRegister; 'handler ran' for routes registered inside package home is inferred from a status other than 403/302-login/301-clean/405/415",
			"removing an expired session record from the session table/file is not a side effect; live sessions, user list and every other file under the work directory must stay byte-identical",
			"public set: /control/login, /apple/doh.mobileconfig, /apple/dot.mobileconfig, /dns-query, /dns-query/, and under \"/\" the paths /login.* and /assets/*",
			"the converse (valid credentials => handler runs) is not demanded",
		},
	})
}
