package main

// Level-synchronous BFS over histories, distributed over the shard processes
// of lib.Main.  The virtual clock is process-global, so parallelism is by
// process; to keep the search a true BFS (globally deduplicated states,
// shortest counterexample per key) the shards exchange the states and the
// violation keys they found after every level through files in the directory
// the parent created for the shard outputs, and every shard rebuilds the same
// global frontier.  Level d+1 is then dealt out transition by transition.

import (
	"encoding/json"
	"flag"
	"fmt"
	"os"
	"path/filepath"
	"time"

	"github.com/AdguardTeam/AdGuardHome/internal/verifx/lib"
)

type levelState struct {
	Hist []op   `json:"h"`
	Key  uint64 `json:"k"`
}

type levelFile struct {
	States []levelState `json:"states"`
	VKeys  []string     `json:"vkeys"`
	Stop   bool         `json:"stop"`
	Err    string       `json:"err,omitempty"`
}

type explorer struct {
	// tag distinguishes the exchange files and notes of several searches in
	// one run.
	tag      string
	c        *lib.Ctx
	ops      []op
	exec     func([]op) execResult
	maxDepth int
	// maxStates stops the search (not exhaustive) once that many states are known.
	maxStates int
}

// exchangeDir is the directory shared by all shards of this run ("" if the
// process is the only shard).
func exchangeDir(c *lib.Ctx) string {
	if c.ShardN <= 1 {
		return ""
	}
	if f := flag.Lookup("out"); f != nil && f.Value.String() != "" {
		return filepath.Dir(f.Value.String())
	}
	return ""
}

// run returns false if the search was cut short.
func (x *explorer) run() (complete bool) {
	c := x.c
	dir := exchangeDir(c)
	n, me := c.ShardN, c.ShardI
	if dir == "" {
		if n > 1 {
			c.EngineError("c10: several shards but no shared directory")
			return false
		}
		n, me = 1, 0
	}
	seen := map[uint64]bool{}
	known := map[string]bool{} // violation keys reported at earlier levels
	curDepth := 0
	abort := func(msg string) {
		// Tell the other shards not to wait for this one.
		if n > 1 {
			for d := max(curDepth, 1); d <= x.maxDepth; d++ {
				_, _ = exchangeWrite(dir, x.tag, d, me, &levelFile{Stop: true, Err: msg})
			}
		}
	}
	defer func() {
		if r := recover(); r != nil {
			abort(fmt.Sprint(r))
			panic(r)
		}
	}()
	root := x.exec(nil)
	if root.step.VKey != "" {
		c.Violation(root.step.VKey, root.step.VDesc, []op{})
		return true
	}
	seen[lib.Hash(root.step.Key)] = true
	if me == 0 {
		c.Distinct("states", root.step.Key)
	}
	frontier := [][]op{nil}
	for depth := 1; depth <= x.maxDepth && len(frontier) > 0; depth++ {
		curDepth = depth
		levelStart := time.Now()
		var out levelFile
		level := map[string]bool{} // keys this shard reported at this level
		idx := -1
	scan:
		for _, h := range frontier {
			for _, o := range x.ops {
				idx++
				if idx%n != me {
					continue
				}
				if c.Expired() {
					out.Stop = true
					break scan
				}
				hist := make([]op, len(h)+1)
				copy(hist, h)
				hist[len(h)] = o
				er := x.exec(hist)
				c.Count("transitions", 1)
				if er.step.Outcome != "" {
					c.Distinct("outcomes", er.step.Outcome)
				}
				if len(er.viols) > 0 {
					c.Count("violating_transitions", 1)
					fresh := false
					for _, v := range er.viols {
						if !known[v.Key] && !level[v.Key] {
							fresh = true
						}
					}
					if !fresh {
						continue
					}
					// Confirm by re-execution before reporting.
					er2 := x.exec(hist)
					if !sameViols(er.viols, er2.viols) {
						msg := fmt.Sprintf("non-deterministic oracle on %s: first %v, second %v", histString(hist), violKeys(er.viols), violKeys(er2.viols))
						c.EngineError(msg)
						abort(msg)
						return false
					}
					for _, v := range er.viols {
						if known[v.Key] || level[v.Key] {
							continue
						}
						level[v.Key] = true
						out.VKeys = append(out.VKeys, v.Key)
						c.Violation(v.Key, v.Desc, hist)
					}
					continue // violating states are not extended
				}
				if er.step.Key == "" {
					continue
				}
				if er.step.NonTrivial {
					c.Count("nontrivial_transitions", 1)
					c.Distinct("nontrivial", er.step.Key+"|"+er.step.Outcome)
				}
				hk := lib.Hash(er.step.Key)
				if seen[hk] {
					continue
				}
				seen[hk] = true
				c.Distinct("states", er.step.Key)
				out.States = append(out.States, levelState{Hist: hist, Key: hk})
			}
		}
		// Exchange.
		all := []levelFile{out}
		if n > 1 {
			var err error
			if all, err = exchange(c, dir, x.tag, depth, me, n, &out); err != nil {
				c.EngineError(err.Error())
				return false
			}
		}
		stop := false
		var next [][]op
		merged := map[uint64]bool{}
		for i, lf := range all {
			if lf.Err != "" {
				c.EngineError(fmt.Sprintf("shard %d failed: %s", i, lf.Err))
				return false
			}
			stop = stop || lf.Stop
			for _, k := range lf.VKeys {
				known[k] = true
			}
			for _, s := range lf.States {
				if merged[s.Key] {
					continue
				}
				merged[s.Key] = true
				seen[s.Key] = true
				next = append(next, s.Hist)
			}
		}
		if stop {
			c.NotExhaustive("time budget (search " + x.tag + ", level " + fmt.Sprint(depth) + ")")
			c.Note(x.tag+"_depth_completed", fmt.Sprint(depth-1))
			return false
		}
		c.Max("max_depth", int64(depth))
		c.Note(x.tag+"_depth_completed", fmt.Sprint(depth))
		c.Note(fmt.Sprintf("%s_level_%d", x.tag, depth), fmt.Sprintf("%d states expanded, %d new states, %.1fs", len(frontier), len(next), time.Since(levelStart).Seconds()))
		if me == 0 && len(next) > 0 {
			c.Sample(map[string]any{"depth": depth, "new_states": len(next), "example_history": histString(next[len(next)/2])})
		}
		frontier = next
		if x.maxStates > 0 && len(seen) >= x.maxStates && depth < x.maxDepth {
			c.NotExhaustive(fmt.Sprintf("state cap %d reached after depth %d (search %s)", x.maxStates, depth, x.tag))
			return false
		}
	}
	if len(frontier) == 0 {
		c.Note(x.tag+"_closed", "true: no new states at the last level; every reachable state of this alphabet was visited")
	}
	return true
}

func violKeys(vs []viol) (l []string) {
	for _, v := range vs {
		l = append(l, v.Key)
	}
	return l
}

func sameViols(a, b []viol) bool {
	if len(a) != len(b) {
		return false
	}
	for i := range a {
		if a[i].Key != b[i].Key {
			return false
		}
	}
	return true
}

func levelName(dir, tag string, depth, i int) string {
	return filepath.Join(dir, fmt.Sprintf("c10-%s-level-%d-shard-%d.json", tag, depth, i))
}

// exchangeWrite publishes a level file atomically; an existing file is kept.
func exchangeWrite(dir, tag string, depth, me int, out *levelFile) (wrote bool, err error) {
	if _, err = os.Stat(levelName(dir, tag, depth, me)); err == nil {
		return false, nil
	}
	data, err := json.Marshal(out)
	if err != nil {
		return false, err
	}
	tmp := levelName(dir, tag, depth, me) + ".tmp"
	if err = os.WriteFile(tmp, data, 0o644); err != nil {
		return false, err
	}
	return true, os.Rename(tmp, levelName(dir, tag, depth, me))
}

// exchange publishes this shard's level file and waits for the others.
func exchange(c *lib.Ctx, dir, tag string, depth, me, n int, out *levelFile) (all []levelFile, err error) {
	name := func(i int) string { return levelName(dir, tag, depth, i) }
	if _, err = exchangeWrite(dir, tag, depth, me, out); err != nil {
		return nil, err
	}
	all = make([]levelFile, n)
	got := make([]bool, n)
	// A shard that stopped on the time budget still publishes its file, so the
	// wait is bounded by the budget plus a margin.
	limit := time.Now().Add(10 * time.Minute)
	if !c.Deadline.IsZero() {
		limit = c.Deadline.Add(2 * time.Minute)
	}
	for left := n; left > 0; {
		progress := false
		for i := 0; i < n; i++ {
			if got[i] {
				continue
			}
			data, rerr := os.ReadFile(name(i))
			if rerr != nil {
				continue
			}
			if err = json.Unmarshal(data, &all[i]); err != nil {
				return nil, fmt.Errorf("level file of shard %d: %w", i, err)
			}
			got[i] = true
			left--
			progress = true
		}
		if left > 0 && !progress {
			if time.Now().After(limit) {
				return nil, fmt.Errorf("c10: shard %d waited too long for the level-%d files of the other shards", me, depth)
			}
			time.Sleep(2 * time.Millisecond)
		}
	}
	return all, nil
}
